package main

import (
	"go/constant"
	"go/token"
	"go/types"

	"golang.org/x/tools/go/ssa"
)

// ruleSelectLogsWindow (AF): the time window the engine asks the storage for. For a range
// query it is [Start, End] as given; for an instant query the start is moved back by the
// engine's look-back (a negative duration by the Options' convention, so Start + lookback) and
// the end stays. The values are read off the evaluated paths of selectLogs: what is passed to
// Querier.SelectLogs is resolved through the stores that precede the read on that path, so a
// copy taken before the adjustment (a stale local) is seen as the unadjusted value.
func ruleSelectLogsWindow(r *Run) {
	p := r.P
	fn := p.Method(enginePkg, "Engine", "selectLogs")
	o := r.Ob("AF", "logqlengine.(*Engine).selectLogs window", "the storage is asked for [Start+lookback, End] by an instant query and for [Start, End] by a range query (lookback is the engine's negative look-back duration)")
	if fn == nil {
		o.Fail("-", "method not found")
		return
	}
	// the parameter block: the struct-typed parameter with Start/End/Instant fields
	var prm *ssa.Parameter
	for _, q := range fn.Params {
		if st := derefStruct(q.Type()); st != nil {
			has := map[string]bool{}
			for i := 0; i < st.NumFields(); i++ {
				has[canonName(st.Field(i))] = true
			}
			if has["Start"] && has["End"] && has["Instant"] {
				prm = q
			}
		}
	}
	if prm == nil {
		o.Undecide(r.pos(fn.Pos()), "no parameter with Start/End/Instant fields")
		return
	}
	grp := funcGroup(fn)
	var sel ssa.CallInstruction
	for _, g := range grp {
		for _, c := range callsIn(g) {
			if call, ok := c.(*ssa.Call); ok && invokeIs(call, "SelectLogs") {
				sel = c
			}
		}
	}
	if sel == nil {
		o.Fail(r.pos(fn.Pos()), "Querier.SelectLogs is not called")
		return
	}
	// is addr a field of the parameter block (the spilled copy or a pointer to it)?
	root := func(v ssa.Value) ssa.Value {
		for d := 0; d < 6; d++ {
			v = originValueIn(v, grp)
			switch x := v.(type) {
			case *ssa.FieldAddr:
				v = x.X
				continue
			case *ssa.Alloc:
				// the spill of the parameter
				for _, st := range storesTo(x) {
					if st.Val == ssa.Value(prm) {
						return prm
					}
				}
			}
			break
		}
		return v
	}
	fieldOfParams := func(addr ssa.Value) (string, bool) {
		f, base, ok := fieldNameOf(addr)
		if !ok {
			return "", false
		}
		if root(base) != ssa.Value(prm) {
			return "", false
		}
		return f, true
	}
	// Instant loads to pin
	var instLoads []ssa.Value
	for _, g := range grp {
		allInstrs(g, func(in ssa.Instruction) {
			if u, ok := in.(*ssa.UnOp); ok && u.Op == token.MUL {
				if f, ok := fieldOfParams(u.X); ok && f == "Instant" {
					instLoads = append(instLoads, u)
				}
			}
			if fl, ok := in.(*ssa.Field); ok && fl.X == ssa.Value(prm) {
				if n, _, ok := fieldNameOf(fl); ok && n == "Instant" {
					instLoads = append(instLoads, fl)
				}
			}
		})
	}
	if len(instLoads) == 0 {
		o.Fail(r.pos(fn.Pos()), "the Instant flag is never consulted: instant queries get no look-back")
		return
	}
	hosts := callersWithin(grp, sel.Parent())
	bad := false
	for _, instant := range []bool{true, false} {
		assume := map[ssa.Value]constant.Value{}
		for _, l := range instLoads {
			assume[l] = constant.MakeBool(instant)
		}
		w := &feWalker{Fn: fn, Assume: assume, Inline: func(callee *ssa.Function, depth int) bool { return hosts[callee] && callee != fn && depth <= 2 }}
		seen := 0
		for _, e := range w.Run() {
			var ev *feCall
			for i := range e.State.calls {
				if e.State.calls[i].Call == sel {
					ev = &e.State.calls[i]
				}
			}
			if ev == nil || len(ev.Args) < 3 {
				continue
			}
			seen++
			st := e.State
			var symEnv func(v ssa.Value, depth int, env map[*ssa.Parameter]affine) affine
			sym := func(v ssa.Value, depth int) affine { return symEnv(v, depth, nil) }
			symEnv = func(v ssa.Value, depth int, env map[*ssa.Parameter]affine) affine {
				if depth > 12 || v == nil {
					return affine{}
				}
				v = stripTypeOnly(v)
				if q, ok := v.(*ssa.Parameter); ok && env != nil {
					if a, ok := env[q]; ok {
						return a
					}
				}
				if bv, ok := st.bind[v]; ok && bv.V != nil && bv.V != v {
					return symEnv(bv.V, depth+1, env)
				}
				switch x := v.(type) {
				case *ssa.Const:
					if x.Value != nil && constant.Sign(x.Value) == 0 {
						return affine{Coeff: map[string]int{}, OK: true}
					}
				case *ssa.Convert:
					return symEnv(x.X, depth+1, env)
				case *ssa.Field:
					if x.X == ssa.Value(prm) {
						if n, _, ok := fieldNameOf(x); ok && (n == "Start" || n == "End") {
							return affine{Base: n, Coeff: map[string]int{}, OK: true}
						}
					}
				case *ssa.UnOp:
					if x.Op != token.MUL {
						break
					}
					if f, ok := fieldOfParams(x.X); ok {
						// the last store into that field before this load ran, on this path
						at, ran := st.loadSeq[x]
						if !ran {
							return affine{}
						}
						var last *feStore
						for i := range st.stores {
							s := &st.stores[i]
							if s.Seq > at {
								continue
							}
							if sf, ok := fieldOfParams(s.Store.Addr); ok && sf == f {
								last = s
							}
						}
						if last != nil {
							return symEnv(last.Val.V, depth+1, env)
						}
						if f == "Start" || f == "End" {
							return affine{Base: f, Coeff: map[string]int{}, OK: true}
						}
						return affine{}
					}
					if f, base, ok := fieldNameOf(x.X); ok && f == "lookbackDuration" && originValueIn(base, grp) == ssa.Value(fn.Params[0]) {
						return affine{Coeff: map[string]int{"lookback": 1}, OK: true}
					}
					// a local that holds a copy
					if al, ok := x.X.(*ssa.Alloc); ok {
						if mv, ok := st.loads[x]; ok && mv.V != nil && mv.V != v {
							return symEnv(mv.V, depth+1, env)
						}
						if sts := storesTo(al); len(sts) == 1 {
							return symEnv(sts[0].Val, depth+1, env)
						}
					}
				case *ssa.Call:
					callee := staticCallee(x)
					if callee == nil {
						break
					}
					if callIs(x, "time", "(Time).Add") && len(x.Call.Args) == 2 {
						t, d := symEnv(x.Call.Args[0], depth+1, env), symEnv(x.Call.Args[1], depth+1, env)
						if !t.OK || !d.OK || d.Base != "" {
							return affine{}
						}
						out := affine{Base: t.Base, Coeff: map[string]int{}, OK: true}
						for k, c := range t.Coeff {
							out.Coeff[k] += c
						}
						for k, c := range d.Coeff {
							out.Coeff[k] += c
						}
						return out
					}
					if len(x.Call.Args) == 1 && (cname(callee) == "AsTime" || cname(callee) == "NewTimestampFromTime") {
						return symEnv(x.Call.Args[0], depth+1, env)
					}
					if callee.Blocks != nil && len(callee.Blocks) <= 6 && isFirstParty(pkgPathOf(callee)) && callee.Signature.Results().Len() == 1 {
						env2 := map[*ssa.Parameter]affine{}
						for i, q := range callee.Params {
							if i < len(x.Call.Args) {
								if a := symEnv(x.Call.Args[i], depth+1, env); a.OK {
									env2[q] = a
								}
							}
						}
						if rets := returnsOf(callee); len(rets) == 1 {
							return symEnv(rets[0].Results[0], depth+1, env2)
						}
					}
				}
				return affine{}
			}
			gotS, gotE := sym(ev.Args[1].V, 0).String(), sym(ev.Args[2].V, 0).String()
			wantS := "Start"
			if instant {
				wantS = "Start+lookback"
			}
			if gotS != wantS || gotE != "End" {
				bad = true
				o.Fail(r.pos(sel.Pos()), "instant=%v: the storage is asked for [%s, %s], expected [%s, End]", instant, gotS, gotE, wantS)
				break
			}
		}
		if seen == 0 {
			bad = true
			o.Fail(r.pos(fn.Pos()), "instant=%v: no path reaches Querier.SelectLogs", instant)
		}
	}
	if !bad {
		o.OK("instant: [Start+lookback, End]; range: [Start, End]").At(r.pos(sel.Pos()))
	}

	// the look-back default is negative (Start + lookback lies before Start)
	od := r.Ob("FE-SIGN", "logqlengine.(*Options).setDefaults lookback", "a look-back that is not negative is replaced by a negative default, so Start + lookback is never after Start")
	sd := p.Method(enginePkg, "Options", "setDefaults")
	if sd == nil {
		od.Fail("-", "method not found")
		return
	}
	okDefault := false
	allInstrs(sd, func(in ssa.Instruction) {
		st, ok := in.(*ssa.Store)
		if !ok {
			return
		}
		f, _, ok := fieldNameOf(st.Addr)
		if !ok || f != "LookbackDuration" {
			return
		}
		c, isC := constOf(st.Val)
		if !isC || constant.Sign(c) >= 0 {
			od.Fail(r.pos(st.Pos()), "the default look-back %s is not negative", describe(st.Val, 0))
			return
		}
		// stored exactly when the configured value is >= 0
		for _, fact := range factsAt(st.Block()) {
			b, ok := fact.Cond.(*ssa.BinOp)
			if !ok {
				continue
			}
			lf, _, okl := loadOfField(b.X)
			z, okz := constOf(b.Y)
			if !okl || lf != "LookbackDuration" || !okz || constant.Sign(z) != 0 {
				continue
			}
			if (b.Op == token.GEQ && fact.Truth) || (b.Op == token.LSS && !fact.Truth) {
				okDefault = true
			}
		}
	})
	// every exit leaves a negative value: the only other way out is the configured value being < 0
	if okDefault {
		od.OK("LookbackDuration >= 0 -> negative default").At(r.pos(sd.Pos()))
	} else if od.Status == "" {
		od.Fail(r.pos(sd.Pos()), "no `LookbackDuration >= 0 -> negative constant` default found")
	}
	_ = types.Typ
}

// ruleDistinct (FE-BOOL): the distinct stage. A record is dropped iff one of the listed labels
// is present with a value that an earlier kept-or-dropped record already showed for that label;
// a record that lacks a listed label is kept; every value seen is remembered; the line is
// never changed.
func ruleDistinct(r *Run) {
	p := r.P
	fn := p.Method(enginePkg, "DistinctFilter", "Process")
	o := r.Ob("FE-BOOL", "logqlengine.(*DistinctFilter).Process", "a record lacking a listed label is kept; a record is dropped iff a listed label's value was seen before for that label; unseen values are remembered; the line is returned unchanged")
	if fn == nil || len(fn.Params) < 4 {
		o.Fail("-", "method not found")
		return
	}
	line := fn.Params[2]
	var get *ssa.Call
	var lk *ssa.Lookup
	var mu *ssa.MapUpdate
	allInstrs(fn, func(in ssa.Instruction) {
		switch x := in.(type) {
		case *ssa.Call:
			if callee := staticCallee(x); callee != nil && cname(callee) == "GetString" {
				get = x
			}
		case *ssa.Lookup:
			if x.CommaOk {
				lk = x
			}
		case *ssa.MapUpdate:
			mu = x
		}
	})
	if get == nil || lk == nil || mu == nil {
		o.Undecide(r.pos(fn.Pos()), "GetString call=%v membership test=%v insertion=%v", get != nil, lk != nil, mu != nil)
		return
	}
	extract := func(t ssa.Value, idx int) ssa.Value {
		refs := t.Referrers()
		if refs == nil {
			return nil
		}
		for _, ref := range *refs {
			if e, ok := ref.(*ssa.Extract); ok && e.Index == idx {
				return e
			}
		}
		return nil
	}
	getOK, getVal, seen := extract(get, 1), extract(get, 0), extract(lk, 1)
	if getOK == nil || seen == nil {
		o.Undecide(r.pos(fn.Pos()), "the presence results of GetString / the membership test are not used")
		return
	}
	var loop *rangeLoop
	for _, l := range rangeIndexLoops(fn) {
		if l.Blocks[get.Block()] {
			loop = l
		}
	}
	if loop == nil {
		o.Undecide(r.pos(fn.Pos()), "GetString is not called in a loop over the listed labels")
		return
	}
	bad := false
	// the membership set is the stage's own state, tested and updated under the same key
	stateOK := func(m ssa.Value) bool {
		f, base, ok := loadOfField(m)
		return ok && f == "state" && (base == ssa.Value(fn.Params[0]) || originValue(base) == ssa.Value(fn.Params[0]))
	}
	if !stateOK(lk.X) || !stateOK(mu.Map) {
		bad = true
		o.Fail(r.pos(lk.Pos()), "membership is tested in %s and recorded in %s, not both in the stage's own state", describe(lk.X, 0), describe(mu.Map, 0))
	}
	keyCell := func(v ssa.Value) ssa.Value {
		if u, ok := v.(*ssa.UnOp); ok {
			return u.X
		}
		return v
	}
	if keyCell(lk.Index) != keyCell(mu.Key) {
		bad = true
		o.Fail(r.pos(mu.Pos()), "the value is looked up under %s but remembered under %s", describe(lk.Index, 0), describe(mu.Key, 0))
	} else if al, ok := keyCell(lk.Index).(*ssa.Alloc); ok {
		// key = {label: the listed label asked for, value: the value GetString returned}
		okLabel, okValue := false, false
		for _, ref := range *al.Referrers() {
			fa, ok := ref.(*ssa.FieldAddr)
			if !ok {
				continue
			}
			n, _, _ := fieldNameOf(fa)
			for _, st := range storesTo(fa) {
				switch n {
				case "label":
					if st.Val == get.Call.Args[1] || describe(st.Val, 0) == describe(get.Call.Args[1], 0) {
						okLabel = true
					}
				case "value":
					if getVal != nil && st.Val == getVal {
						okValue = true
					}
				}
			}
		}
		if !okLabel || !okValue {
			bad = true
			o.Fail(r.pos(mu.Pos()), "the remembered key is not (the listed label, its value on this record): label ok=%v value ok=%v", okLabel, okValue)
		}
	} else if keyCell(lk.Index) == keyCell(mu.Key) {
		// a key that is not a (label, value) pair: a value seen under one label would count as seen
		// under every other listed label
		bad = true
		o.Fail(r.pos(mu.Pos()), "values are remembered under %s, which does not include the label they were seen under: `distinct a, b` treats a value of a as a duplicate of b", describe(mu.Key, 1))
	}
	type tc struct {
		present, seen bool
		want          bool
		mustRemember  bool
		desc          string
	}
	for _, c := range []tc{
		{false, false, true, false, "label absent"},
		{true, true, false, false, "value seen before"},
		{true, false, true, true, "value not seen before"},
	} {
		w := &feWalker{Fn: fn, Assume: map[ssa.Value]constant.Value{getOK: constant.MakeBool(c.present), seen: constant.MakeBool(c.seen)}, LoopFresh: true}
		n := 0
		for _, e := range w.Run() {
			if e.Cut || len(e.Results) != 2 {
				continue
			}
			entered := false
			for _, b := range e.State.trail {
				if b == loop.Body {
					entered = true
				}
			}
			if !entered {
				continue
			}
			n++
			if !e.Results[1].Known && lenPositiveOf(e.Results[1].V, loop, fn) {
				// the path went through the loop body, so the ranged list is not empty
				e.Results[1] = feVal{Known: true, C: constant.MakeBool(true), V: e.Results[1].V}
			}
			if !e.Results[1].Known || constant.BoolVal(e.Results[1].C) != c.want {
				bad = true
				o.Fail(r.pos(e.Term.Pos()), "%s: the record is %s, expected %s", c.desc, keptWord(e.Results[1]), map[bool]string{true: "kept", false: "dropped"}[c.want])
				break
			}
			if unspill(e.Results[0].V) != ssa.Value(line) && e.Results[0].V != ssa.Value(line) {
				bad = true
				o.Fail(r.pos(e.Term.Pos()), "%s: the line returned is %s, not the input line", c.desc, describe(e.Results[0].V, 0))
				break
			}
			if c.mustRemember {
				remembered := false
				for _, b := range e.State.trail {
					if b == mu.Block() {
						remembered = true
					}
				}
				if !remembered {
					bad = true
					o.Fail(r.pos(e.Term.Pos()), "%s: the value is not remembered for later records", c.desc)
					break
				}
			}
		}
		if n == 0 {
			bad = true
			o.Fail(r.pos(fn.Pos()), "%s: no path through the label loop returns", c.desc)
		}
	}
	if !bad {
		o.OK("absent -> kept; seen -> dropped; unseen -> remembered and kept; line unchanged").At(r.pos(fn.Pos()))
	}
}

func keptWord(v feVal) string {
	if !v.Known {
		return "kept or dropped depending on " + describe(v.V, 0)
	}
	if constant.BoolVal(v.C) {
		return "kept"
	}
	return "dropped"
}

// lenPositiveOf: v is `len(X) > 0` (or `!= 0`, `0 < len(X)`, `len(X) >= 1`) for the slice X the loop
// ranges over (the same parameter field, re-read; never assigned in fn): true on every path that
// entered the loop's body.
func lenPositiveOf(v ssa.Value, loop *rangeLoop, fn *ssa.Function) bool {
	b, ok := v.(*ssa.BinOp)
	if !ok {
		return false
	}
	x, y, op := b.X, b.Y, b.Op
	if _, isC := x.(*ssa.Const); isC {
		x, y = y, x
		switch op {
		case token.LSS:
			op = token.GTR
		case token.LEQ:
			op = token.GEQ
		case token.GTR:
			op = token.LSS
		case token.GEQ:
			op = token.LEQ
		}
	}
	k, isK := constInt(y)
	if !isK {
		return false
	}
	if !((op == token.GTR && k == 0) || (op == token.NEQ && k == 0) || (op == token.GEQ && k == 1)) {
		return false
	}
	lc, ok := x.(*ssa.Call)
	if !ok {
		return false
	}
	if bi, ok := lc.Call.Value.(*ssa.Builtin); !ok || bi.Name() != "len" || len(lc.Call.Args) != 1 {
		return false
	}
	arg := lc.Call.Args[0]
	if arg != loop.X {
		fa, ba, oka := loadOfField(arg)
		fb, bb, okb := loadOfField(loop.X)
		if !oka || !okb || fa != fb || originValue(ba) != originValue(bb) {
			return false
		}
		// the field is not assigned in the function
		assigned := false
		allInstrs(fn, func(in ssa.Instruction) {
			if st, ok := in.(*ssa.Store); ok {
				if f, _, ok := fieldNameOf(st.Addr); ok && f == fa {
					assigned = true
				}
			}
		})
		if assigned {
			return false
		}
	}
	return true
}
