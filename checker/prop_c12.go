package main

func init() {
	register(&PropSpec{
		ID:          "C12",
		Technique:   "enum-chain extraction of the per-operator closures (operator, operand sides, zero guards), provenance of operands to the left/right input step, role rules for the literal side, set-operator shape extraction, freshness of per-step state",
		Explanation: "Decides the structural clauses of binary operations for all inputs: each operator's closure applies exactly that Go operator to (left, right) with x/0 and x%0 -> NaN and keeps the left labels; comparisons yield 1/keep as specified; vector-vector calls op(left sample, right sample) joined by Key(); the scalar sits on the side it was written; and/or/unless index/iterate/keep the right sides; no per-step state is shared between steps.",
		Decided: []string{
			"PV-ONCE (shared with C09): one grid point per Next of a range aggregation, so the two sides of an operation stay aligned",
			"PV-ROLE: LiteralBinOp always returns the literal iterator built from its four parameters; PV-RESET: every step iterator writes r.Samples (or fills r from an inner iterator) on each path that returns true",
			"CH-SIB: ReduceBinOp (constant folding) computes, per operator, the same function of (left, right) as evaluation",
			"CH-MAP: buildSampleBinOp operator table incl. zero guards, operand order, result := left; boolOp truth table",
			"PV-ROLE: binOpIterator calls op(left-step sample, right-step sample); literalBinOpIterator places the literal left iff i.left; build() passes the scalar's side flag and builds both sides with the same parameters",
			"CH-MAP: and/or/unless closures (indexed side, iterated side, polarity, prefix)",
			"PV-PAIR: both sides keyed by Set.Key() (shared with C10)",
			"PV-FRESH: samplesSet and the merge closures use per-call maps; no iterator hands out its own slice as r.Samples",
			"PV-WHOLE: no index loop deletes from the slice it walks while advancing (literal comparison with bool/filter mode)",
			"PV-PAIR operands matched by key; CH-SIB key of the empty label set (vector(c) vs an ungrouped aggregation); PV-RESET step stamped",
			"PV-FRESH per-step tables of the binary operation",
			"AF-SET nested by/without; PV-ROLE reported value = strconv.FormatFloat(v, 'f', -1, 64) on every path",
			"PV-RESET literalBinOpIterator.Next: accepted results reach r.Samples and the list is cut/set to them",
			"number tokens are evaluated by strconv.ParseFloat; fetchContainers lists the containers anew for every selector",
			"ERR-CHAIN/OWN-WRAP of the operand iterators; precedence classes; the scalar operand carries each sample's own label set",
			"PV-ONCE step transformers read one inner step per outer step (the two sides stay aligned)",
			"PV-ONCE both sides of a binary step iterator advance on every reported step",
		},
		NotDecided: []string{"floating-point results", "per-step alignment of the two sides beyond 'built with the same parameters'"},
		Rules: func(r *Run) {
			ruleOneStepPerNext(r)
			ruleLiteralBinOpCtor(r)
			ruleSampleBinOp(r)
			ruleBinOpIterators(r)
			ruleSetOps(r)
			ruleStepBuffers(r)
			ruleKeyedStores(r)
			ruleIndexLoopDeletion(r, []string{metricPkg, enginePkg})
			ruleBinOpPairsMatched(r)
			ruleKeySiblings(r)
			rulePerStepGroupTables(r, []string{"binOpIterator"})
			ruleByNesting(r) // operands match by their label sets: a label removed by an inner aggregation stays removed
			ruleSampleValueFormat(r)
			ruleLiteralBinOpWritesBack(r)
			ruleUnitEvaluators(r)  // the scalar written in the query is the scalar applied
			ruleFetchContainers(r) // both operands are computed from the containers their own selectors select
			ruleOpenLogContext(r)
			ruleErrChainC14(r) // a failing operand makes the operation fail instead of computing from a truncated side
			ruleOwnWrapScoped(r, []string{metricPkg, enginePkg}, 2)
			rulePrecedenceTable(r) // which two sides the operator gets
			ruleLiteralOperandPerSample(r)
			ruleBuildDescendsOneLevel(r)
			ruleOneInnerStepPerStep(r)
			ruleBothSidesAdvance(r)
		},
	})
}
