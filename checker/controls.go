package main

// runControls applies the positive-control mutants of a property (thorough tier).
func runControls(oc *Outcome) {}
