package main

import (
	"go/constant"
	"go/token"
	"go/types"
	"sort"
	"strings"
	"unicode"

	"golang.org/x/tools/go/ssa"
)

// Rules added after seed round h/i (DESIGN.md §5.4).

// ruleNoStdUnquote (PV-API, disallowed call): LogQL string literals follow the PromQL rules;
// strconv.Unquote differs from them on backquoted literals (it deletes every carriage return)
// and is therefore not an admissible way to read a token's text in the lexer packages.
func ruleNoStdUnquote(r *Run) {
	p := r.P
	o := r.Ob("PV-API", "lexer string literals", "token text is never unquoted with strconv.Unquote (which deletes \\r from backquoted literals): a backquoted and a double-quoted spelling of the same text yield the same string")
	n, nUnq := 0, 0
	bad := false
	for _, fn := range p.SrcFuncs() {
		pk := pkgOfFunc(fn)
		if pk == nil {
			continue
		}
		path := pk.Pkg.Path()
		if path != modPath+"/"+lexerPkg && path != modPath+"/"+logqlPkg && path != modPath+"/internal/lexerql" {
			continue
		}
		n++
		for _, c := range callsIn(fn) {
			callee := staticCallee(c)
			if callee == nil || callee.Pkg == nil {
				continue
			}
			if strings.HasPrefix(callee.Name(), "Unquote") {
				nUnq++
			}
			if callee.Pkg.Pkg.Path() == "strconv" && (callee.Name() == "Unquote" || callee.Name() == "UnquoteChar") {
				bad = true
				o.Fail(r.pos(c.Pos()), "%s calls strconv.%s on LogQL source text", shortFuncName(fn), callee.Name())
			}
		}
	}
	if nUnq == 0 {
		bad = true
		o.Fail("-", "no unquoting call found in the lexer packages (%d functions scanned): the rule no longer sees where literals are decoded", n)
	}
	if !bad {
		o.OK("%d functions scanned, %d unquoting call(s), none through strconv", n, nUnq)
	}
}

// ruleParserAttempts (LP-ATTEMPT, must-pass-through): a parser stage judges a line only by
// parsing it. Every path of Process from entry to a return hands the line to the extraction
// step: a call of a first-party function, or of a method on something the stage holds, that
// receives the line. A shortcut that classifies lines before (or instead of) parsing them makes
// well-formed input fail.
func ruleParserAttempts(r *Run, typs []string) {
	p := r.P
	for _, tn := range typs {
		fn := p.Method(enginePkg, tn, "Process")
		o := r.Ob("LP-ATTEMPT", "logqlengine."+tn+".Process", "every line reaches the stage's extraction step: no path returns without handing the line to it")
		if fn == nil || len(fn.Params) < 4 {
			o.Fail("-", "method not found")
			continue
		}
		line := fn.Params[2]
		recv := fn.Params[0]
		isLine := func(v ssa.Value) bool {
			v = stripTypeOnly(v)
			return v == ssa.Value(line) || unspill(v) == ssa.Value(line) || originValue(v) == ssa.Value(line)
		}
		fromRecv := func(v ssa.Value) bool {
			for d := 0; d < 6 && v != nil; d++ {
				v = originValue(stripTypeOnly(v))
				if v == ssa.Value(recv) {
					return true
				}
				switch x := v.(type) {
				case *ssa.UnOp:
					v = x.X
				case *ssa.FieldAddr:
					v = x.X
				case *ssa.Field:
					v = x.X
				default:
					return false
				}
			}
			return false
		}
		attempt := map[*ssa.BasicBlock]bool{}
		nAtt := 0
		for _, c := range callsIn(fn) {
			args := c.Common().Args
			gets := false
			for _, a := range args {
				if isLine(a) {
					gets = true
				}
			}
			if !gets {
				continue
			}
			callee := staticCallee(c)
			first := callee != nil && pkgOfFunc(callee) != nil && isFirstParty(pkgOfFunc(callee).Pkg.Path())
			if first && cname(callee) == "SetError" {
				continue
			}
			held := false
			if c.Common().IsInvoke() {
				held = fromRecv(c.Common().Value)
			} else if len(args) > 0 && callee != nil && callee.Signature.Recv() != nil {
				held = fromRecv(args[0])
			}
			if first || held {
				attempt[c.Block()] = true
				nAtt++
			}
		}
		if nAtt == 0 {
			o.Undecide(r.pos(fn.Pos()), "no extraction call that receives the line found")
			continue
		}
		// a return reachable from the entry without passing through an attempt block?
		seen := map[*ssa.BasicBlock]bool{}
		var leak *ssa.BasicBlock
		var walk func(b *ssa.BasicBlock)
		walk = func(b *ssa.BasicBlock) {
			if seen[b] || leak != nil {
				return
			}
			seen[b] = true
			if attempt[b] {
				return
			}
			if len(b.Instrs) > 0 {
				if _, ok := b.Instrs[len(b.Instrs)-1].(*ssa.Return); ok {
					leak = b
					return
				}
			}
			for _, s := range b.Succs {
				walk(s)
			}
		}
		walk(fn.Blocks[0])
		if leak != nil {
			o.Fail(r.pos(termPos(leak)), "Process can return without handing the line to its extraction step (%d extraction call site(s)): lines are judged without being parsed", nAtt)
			continue
		}
		o.OK("%d extraction call site(s); every return is behind one", nAtt).At(r.pos(fn.Pos()))
	}
}

// ruleUnpackValidationScope (PV-GUARD): in unpack, only fields that become labels are held to
// the label-name rules: the validation runs for string-valued fields other than _entry.
// Non-string fields are ignored whatever their name.
func ruleUnpackValidationScope(r *Run) {
	p := r.P
	fn := p.Func(enginePkg, "parsePackEntry")
	o := r.Ob("PV-GUARD", "logqlengine.parsePackEntry validation scope", "a field's name is validated only when the field becomes a label: after the value is known to be a string and the key is not _entry; other fields are skipped whatever their name")
	if fn == nil {
		o.Fail("-", "function not found")
		return
	}
	n := 0
	bad := false
	grp := funcGroup(fn)
	if h, _ := unpackFieldHandler(fn); h != nil {
		inG := false
		for _, g := range grp {
			if g == h {
				inG = true
			}
		}
		if !inG {
			grp = append(grp, funcGroup(h)...)
		}
	}
	for _, g := range grp {
		for _, c := range callsIn(g) {
			callee := staticCallee(c)
			if callee == nil || cname(callee) != "IsValidLabel" {
				continue
			}
			n++
			strKnown, notEntry := false, false
			for _, f := range factsAt(c.Block()) {
				b, ok := f.Cond.(*ssa.BinOp)
				if !ok {
					continue
				}
				for _, pair := range [][2]ssa.Value{{b.X, b.Y}, {b.Y, b.X}} {
					// tt == jx.String, with tt the decoder's Next()
					if call, ok := pair[0].(*ssa.Call); ok && callIs(call, jxPath, "(*Decoder).Next") {
						if cv, ok := constOf(pair[1]); ok && cv.Kind() == constant.Int {
							if jxStringConst(p, cv) && ((b.Op == token.EQL && f.Truth) || (b.Op == token.NEQ && !f.Truth)) {
								strKnown = true
							}
						}
					}
					if s, ok := constStr(pair[1]); ok && s == "_entry" {
						if (b.Op == token.EQL && !f.Truth) || (b.Op == token.NEQ && f.Truth) {
							notEntry = true
						}
					}
				}
			}
			if !strKnown || !notEntry {
				bad = true
				o.Fail(r.pos(c.Pos()), "the label-name check runs although value-is-a-string known=%v, key-is-not-_entry known=%v: a field that is only ignored can fail the line", strKnown, notEntry)
			}
		}
	}
	if n == 0 {
		o.Fail(r.pos(fn.Pos()), "no label-name validation found in unpack")
		return
	}
	if !bad {
		o.OK("%d validation site(s), each behind tt == String and key != _entry", n).At(r.pos(fn.Pos()))
	}
}

func jxStringConst(p *Program, cv constant.Value) bool {
	T := p.NamedTypeByPath(jxPath, "Type")
	if T == nil {
		return false
	}
	want, ok := enumConstants(T)["String"]
	return ok && constant.Compare(cv, token.EQL, want)
}

// ruleDropKeepMatchers (PV-ROLE): the value matchers of drop/keep compare the whole label value
// (label flavour of the matcher builder), built from the matcher's own operator, value and regexp.
func ruleDropKeepMatchers(r *Run) {
	p := r.P
	eng := modPath + "/" + enginePkg
	for _, bn := range []string{"buildDropLabels", "buildKeepLabels"} {
		fn := p.Func(enginePkg, bn)
		o := r.Ob("PV-ROLE", "logqlengine."+bn+" matchers", "name=\"value\" selectors of drop/keep compare the whole label value: the matcher is built in the label flavour from the selector's own operator, value and regexp")
		if fn == nil {
			o.Fail("-", "function not found")
			continue
		}
		n := 0
		bad := false
		for _, g := range funcGroup(fn) {
			for _, c := range callsIn(g) {
				if !callIs(c, eng, "buildStringMatcher") {
					continue
				}
				n++
				args := c.Common().Args
				if len(args) != 4 {
					bad = true
					o.Fail(r.pos(c.Pos()), "unexpected arity of the matcher builder")
					continue
				}
				var base ssa.Value
				for i, want := range []string{"Op", "Value", "Re"} {
					f, b, ok := loadOfField(args[i])
					if !ok || f != want {
						bad = true
						o.Fail(r.pos(c.Pos()), "argument %d of the matcher builder is %s, not the selector's %s", i, describe(args[i], 0), want)
						continue
					}
					if base == nil {
						base = b
					} else if b != base && describe(b, 0) != describe(base, 0) {
						bad = true
						o.Fail(r.pos(c.Pos()), "operator, value and regexp are taken from different selectors")
					}
				}
				// the flavour flag, through the parameters of a helper if need be
				flag := originValueIn(args[3], funcGroup(fn))
				if !isConstBool(flag, true) {
					bad = true
					o.Fail(r.pos(c.Pos()), "the matcher is built with label=%s: drop/keep would match by substring like a line filter", describe(args[3], 0))
				}
			}
		}
		if n == 0 {
			o.Fail(r.pos(fn.Pos()), "the matcher builder is not called")
			continue
		}
		if !bad {
			o.OK("%d call(s): buildStringMatcher(m.Op, m.Value, m.Re, true)", n).At(r.pos(fn.Pos()))
		}
	}
}

// ruleNoInPlaceValueMutation (PV-ALIAS): label values and attribute maps handed to the engine
// belong to the record / the container (the resource attributes are shared by every record of a
// container). The engine never mutates a pcommon value it did not create itself in the same
// function: every receiver of a mutating pcommon method, and every destination of CopyTo/MoveTo,
// is derived from a pcommon.New* call.
func ruleNoInPlaceValueMutation(r *Run, rels []string, floor int) {
	p := r.P
	o := r.Ob("PV-ALIAS", "pcommon values", "no pcommon value obtained from a record or label set is mutated in place (Set*, Put*, Remove*, Clear, FromRaw, CopyTo/MoveTo destination): only values created in the same function are written")
	inScope := map[string]bool{}
	for _, rel := range rels {
		inScope[modPath+"/"+rel] = true
	}
	mutator := func(name string) bool {
		for _, pre := range []string{"Set", "Put", "Remove", "Clear", "FromRaw", "AppendEmpty", "EnsureCapacity", "Sort", "MoveAndAppendTo", "MoveTo"} {
			if strings.HasPrefix(name, pre) {
				return true
			}
		}
		return false
	}
	isPcommon := func(fn *ssa.Function) bool {
		return fn != nil && fn.Pkg != nil && strings.HasSuffix(fn.Pkg.Pkg.Path(), "/pdata/pcommon")
	}
	var fresh func(v ssa.Value, depth int, seen map[ssa.Value]bool) bool
	fresh = func(v ssa.Value, depth int, seen map[ssa.Value]bool) bool {
		if depth > 10 || v == nil || seen[v] {
			return depth <= 10 && v != nil
		}
		seen[v] = true
		v = stripTypeOnly(v)
		switch x := v.(type) {
		case *ssa.FreeVar:
			// a captured value (bound method receiver, by-value capture)
			if b := freeVarBinding(x); b != nil {
				return fresh(b, depth+1, seen)
			}
			return false
		case *ssa.Parameter:
			// the container a builder helper fills: as fresh as what every caller hands it (unexported
			// first-party helpers only, all of whose uses are direct calls)
			h := x.Parent()
			if h == nil || h.Parent() != nil || h.Object() == nil || h.Object().Exported() || !isFirstParty(pkgPathOf(h)) {
				return false
			}
			idx := -1
			for i, q := range h.Params {
				if q == x {
					idx = i
				}
			}
			nCalls := 0
			for _, g := range p.SrcFuncs() {
				if pkgOfFunc(g) != pkgOfFunc(h) {
					continue
				}
				okAll := true
				allInstrs(g, func(in ssa.Instruction) {
					if c, ok := in.(ssa.CallInstruction); ok && c.Common().StaticCallee() == h {
						nCalls++
						if idx < 0 || idx >= len(c.Common().Args) || !fresh(c.Common().Args[idx], depth+1, seen) {
							okAll = false
						}
						return
					}
					// the helper used as a value: its callers are not all known
					for _, op := range in.Operands(nil) {
						if op != nil && *op == ssa.Value(h) {
							if c, isCall := in.(ssa.CallInstruction); !isCall || c.Common().Value != ssa.Value(h) {
								okAll = false
							}
						}
					}
				})
				if !okAll {
					return false
				}
			}
			return nCalls > 0
		case *ssa.Call:
			callee := staticCallee(x)
			if callee == nil && !x.Call.IsInvoke() {
				// a call of a function-typed parameter: fresh when every function passed for it
				// returns fresh values
				if prm, ok := originValue(x.Call.Value).(*ssa.Parameter); ok && prm.Parent() != nil {
					host := prm.Parent()
					idx := -1
					for i, q := range host.Params {
						if q == prm {
							idx = i
						}
					}
					nSites := 0
					for _, caller := range p.SrcFuncs() {
						for _, c := range callsIn(caller) {
							if staticCallee(c) != host || idx < 0 || idx >= len(c.Common().Args) {
								continue
							}
							nSites++
							var f *ssa.Function
							switch a := stripTypeOnly(c.Common().Args[idx]).(type) {
							case *ssa.MakeClosure:
								f, _ = a.Fn.(*ssa.Function)
							case *ssa.Function:
								f = a
							}
							if f == nil || f.Blocks == nil {
								return false
							}
							if mc, isMC := stripTypeOnly(c.Common().Args[idx]).(*ssa.MakeClosure); isMC && f.Parent() == nil && len(f.FreeVars) == 1 && len(mc.Bindings) == 1 {
								// a bound method value (slice.AppendEmpty): as fresh as its receiver
								okBound := false
								for _, bc := range callsIn(f) {
									if m := staticCallee(bc); isPcommon(m) && (strings.HasPrefix(m.Name(), "AppendEmpty") || strings.HasPrefix(m.Name(), "PutEmpty")) {
										okBound = fresh(mc.Bindings[0], depth+1, seen)
									}
								}
								if !okBound {
									return false
								}
								continue
							}
							for _, ret := range returnsOf(f) {
								if len(ret.Results) != 1 || !fresh(ret.Results[0], depth+1, seen) {
									return false
								}
							}
						}
					}
					return nSites > 0
				}
				return false
			}
			if !isPcommon(callee) {
				return false
			}
			if strings.HasPrefix(callee.Name(), "New") {
				return true
			}
			// views and children of a value: as fresh as the value itself
			if callee.Signature.Recv() != nil && len(x.Call.Args) > 0 {
				switch {
				case callee.Name() == "Slice" || callee.Name() == "Map" || callee.Name() == "Bytes" ||
					strings.HasPrefix(callee.Name(), "PutEmpty") || strings.HasPrefix(callee.Name(), "AppendEmpty") || strings.HasPrefix(callee.Name(), "SetEmpty") || callee.Name() == "At":
					return fresh(x.Call.Args[0], depth+1, seen)
				}
			}
			return false
		case *ssa.UnOp:
			if x.Op != token.MUL {
				return false
			}
			switch c := x.X.(type) {
			case *ssa.Alloc:
				sts := storesTo(c)
				if len(sts) == 0 {
					return false
				}
				for _, st := range sts {
					if !fresh(st.Val, depth+1, seen) {
						return false
					}
				}
				return true
			case *ssa.FreeVar:
				b := freeVarBinding(c)
				// captured through several closure levels
				for d := 0; d < 4 && b != nil; d++ {
					fv2, ok := b.(*ssa.FreeVar)
					if !ok {
						break
					}
					b = freeVarBinding(fv2)
				}
				if b != nil {
					if al, ok := b.(*ssa.Alloc); ok {
						sts := storesTo(al)
						if len(sts) == 0 {
							return false
						}
						for _, st := range sts {
							if !fresh(st.Val, depth+1, seen) {
								return false
							}
						}
						return true
					}
					return fresh(b, depth+1, seen)
				}
			}
			return false
		case *ssa.Phi:
			for _, e := range x.Edges {
				if !fresh(e, depth+1, seen) {
					return false
				}
			}
			return true
		case *ssa.Extract:
			// (value, ok, err) of a first-party constructor of values: fresh when every value it returns is
			if c, ok := x.Tuple.(*ssa.Call); ok {
				if callee := staticCallee(c); callee != nil && callee.Blocks != nil && isFirstParty(pkgPathOf(callee)) {
					for _, ret := range returnsOf(callee) {
						if x.Index >= len(ret.Results) {
							return false
						}
						lv := ret.Results[x.Index]
						if isZeroValueOf(lv) {
							continue
						}
						if !fresh(lv, depth+1, seen) {
							return false
						}
					}
					return true
				}
			}
		}
		return false
	}
	n := 0
	bad := false
	for _, fn := range p.SrcFuncs() {
		pk := pkgOfFunc(fn)
		if pk == nil || !inScope[pk.Pkg.Path()] {
			continue
		}
		for _, c := range callsIn(fn) {
			callee := staticCallee(c)
			if !isPcommon(callee) || callee.Signature.Recv() == nil {
				continue
			}
			args := c.Common().Args
			var target ssa.Value
			switch {
			case callee.Name() == "CopyTo" || callee.Name() == "MoveTo" || callee.Name() == "MoveAndAppendTo":
				if len(args) >= 2 {
					target = args[1]
				}
			case mutator(callee.Name()):
				if len(args) >= 1 {
					target = args[0]
				}
			}
			if target == nil {
				continue
			}
			n++
			if !fresh(target, 0, map[ssa.Value]bool{}) {
				bad = true
				o.Fail(r.pos(c.Pos()), "%s writes %s through %s: the value was not created here, so the write lands in the record's (or the container's shared) attributes and shows in later records", shortFuncName(fn), describe(target, 0), callee.Name())
			}
		}
	}
	if n < floor {
		bad = true
		o.Fail("-", "only %d mutating pcommon call(s) inspected, expected at least %d (the rule no longer sees the value builders)", n, floor)
	}
	if !bad {
		o.OK("%d mutating call(s), every target is built in the same function from pcommon.New*", n)
	}
}

func pkgPathOf(fn *ssa.Function) string {
	if pk := pkgOfFunc(fn); pk != nil {
		return pk.Pkg.Path()
	}
	return ""
}

func isZeroValueOf(v ssa.Value) bool {
	switch x := v.(type) {
	case *ssa.Const:
		return x.Value == nil || isZeroConst(x)
	case *ssa.UnOp:
		// load of a local that is never stored: the zero value
		if al, ok := x.X.(*ssa.Alloc); ok && x.Op == token.MUL {
			return len(storesTo(al)) == 0
		}
	}
	return false
}

// ruleMapCopyWriteBack (PV-WRITEBACK): a struct-valued map element that is copied out
// (`for k, s := range m`, `s, ok := m[k]`), modified and stored back on some path is stored back
// (or deleted) on every path from the modification to the next iteration / the return: the copy
// is the only thing the field stores change.
func ruleMapCopyWriteBack(r *Run, rels []string, floor int) {
	p := r.P
	o := r.Ob("PV-WRITEBACK", "struct-valued map elements", "a map element copied into a local, modified, and written back on one path is written back (or deleted) on every path that modified it")
	inScope := map[string]bool{}
	for _, rel := range rels {
		inScope[modPath+"/"+rel] = true
	}
	n := 0
	bad := false
	for _, fn := range p.SrcFuncs() {
		pk := pkgOfFunc(fn)
		if pk == nil || !inScope[pk.Pkg.Path()] {
			continue
		}
		// locals filled from a map element
		type copyOf struct {
			al    *ssa.Alloc
			m     ssa.Value // the map value at the read
			fills []*ssa.Store
		}
		var copies []*copyOf
		allInstrs(fn, func(in ssa.Instruction) {
			st, ok := in.(*ssa.Store)
			if !ok {
				return
			}
			al, ok := st.Addr.(*ssa.Alloc)
			if !ok {
				return
			}
			if _, isStruct := derefType(al.Type()).Underlying().(*types.Struct); !isStruct {
				return
			}
			var m ssa.Value
			switch x := st.Val.(type) {
			case *ssa.Lookup:
				if _, ok := x.X.Type().Underlying().(*types.Map); ok {
					m = x.X
				}
			case *ssa.Extract:
				switch t := x.Tuple.(type) {
				case *ssa.Lookup:
					if _, ok := t.X.Type().Underlying().(*types.Map); ok && x.Index == 0 {
						m = t.X
					}
				case *ssa.Next:
					if rg, ok := t.Iter.(*ssa.Range); ok && x.Index == 2 {
						if _, ok := rg.X.Type().Underlying().(*types.Map); ok {
							m = rg.X
						}
					}
				}
			}
			if m == nil {
				return
			}
			for _, c := range copies {
				if c.al == al {
					c.fills = append(c.fills, st)
					return
				}
			}
			copies = append(copies, &copyOf{al: al, m: m, fills: []*ssa.Store{st}})
		})
		for _, c := range copies {
			sameMap := func(v ssa.Value) bool {
				return v == c.m || describe(v, 0) == describe(c.m, 0)
			}
			// write-backs and deletions
			isBack := func(in ssa.Instruction) bool {
				switch x := in.(type) {
				case *ssa.MapUpdate:
					if !sameMap(x.Map) {
						return false
					}
					if u, ok := x.Value.(*ssa.UnOp); ok && u.X == ssa.Value(c.al) {
						return true
					}
				case *ssa.Call:
					if bi, ok := x.Call.Value.(*ssa.Builtin); ok && bi.Name() == "delete" && len(x.Call.Args) == 2 && sameMap(x.Call.Args[0]) {
						return true
					}
				}
				return false
			}
			hasBack := false
			allInstrs(fn, func(in ssa.Instruction) {
				if isBack(in) {
					hasBack = true
				}
			})
			if !hasBack {
				continue // a private copy, never meant to update the map
			}
			// modifications of the copy
			var mods []*ssa.Store
			for _, ref := range *c.al.Referrers() {
				if fa, ok := ref.(*ssa.FieldAddr); ok {
					mods = append(mods, storesTo(fa)...)
				}
			}
			if len(mods) == 0 {
				continue
			}
			n++
			fillBlock := map[*ssa.BasicBlock]bool{}
			for _, f := range c.fills {
				fillBlock[f.Block()] = true
			}
			for _, mod := range mods {
				// forward from the modification: reach a return or a refill without a write-back?
				seen := map[*ssa.BasicBlock]bool{}
				var lost ssa.Instruction
				var walk func(b *ssa.BasicBlock, from int)
				walk = func(b *ssa.BasicBlock, from int) {
					if lost != nil {
						return
					}
					for i := from; i < len(b.Instrs); i++ {
						in := b.Instrs[i]
						if isBack(in) {
							return
						}
						if st, ok := in.(*ssa.Store); ok && st.Addr == ssa.Value(c.al) {
							lost = in // the copy is overwritten by the next element
							return
						}
						if _, ok := in.(*ssa.Return); ok {
							lost = in
							return
						}
					}
					for _, s := range b.Succs {
						if !seen[s] {
							seen[s] = true
							walk(s, 0)
						}
					}
				}
				walk(mod.Block(), instrIndex(mod)+1)
				if lost != nil {
					bad = true
					o.Fail(r.pos(mod.Pos()), "%s modifies its copy of a %s element and can reach %s without storing the copy back: the map keeps the old element", shortFuncName(fn), describe(c.m, 0), r.pos(lost.Pos()))
					break
				}
			}
		}
	}
	if n < floor {
		bad = true
		o.Fail("-", "only %d modified map-element copies found, expected at least %d", n, floor)
	}
	if !bad {
		o.OK("%d modified map-element copies, each stored back or deleted on every path", n)
	}
}

// ruleStepSamplesAccumulate (PV-WHOLE): the aggregating step iterators report, for every group,
// everything they computed for it: the step's sample list is only ever reset and appended to.
// Cutting the assembled list (a re-slice with an upper bound, a deletion) drops groups or
// members of a group (topk keeps k per group, not k in total).
func ruleStepSamplesAccumulate(r *Run, typs []string) {
	p := r.P
	for _, tn := range typs {
		fn := p.Method(metricPkg, tn, "Next")
		o := r.Ob("PV-WHOLE", "logqlmetric.(*"+tn+").Next samples", "the step's samples are the concatenation of what was computed for every group: the list is only reset and appended to, never cut")
		if fn == nil || len(fn.Params) != 2 {
			o.Fail("-", "method not found")
			continue
		}
		grp := funcGroup(fn)
		isSamplesOfStep := func(addr ssa.Value) bool {
			f, base, ok := fieldNameOf(addr)
			return ok && f == "Samples" && originValueIn(base, grp) == ssa.Value(fn.Params[1])
		}
		var accum func(v ssa.Value, depth int, seen map[ssa.Value]bool) bool
		accum = func(v ssa.Value, depth int, seen map[ssa.Value]bool) bool {
			if depth > 12 || v == nil {
				return false
			}
			if seen[v] {
				return true
			}
			seen[v] = true
			v = stripTypeOnly(v)
			switch x := v.(type) {
			case *ssa.Const:
				return x.Value == nil
			case *ssa.MakeSlice:
				return true
			case *ssa.Slice:
				if x.High != nil {
					if c, ok := constInt(x.High); ok && c == 0 && x.Low == nil {
						return true
					}
				}
				return false
			case *ssa.Call:
				if isAppend(x) && len(x.Call.Args) >= 1 {
					return accum(x.Call.Args[0], depth+1, seen)
				}
				return false
			case *ssa.Phi:
				for _, e := range x.Edges {
					if !accum(e, depth+1, seen) {
						return false
					}
				}
				return true
			case *ssa.UnOp:
				if x.Op != token.MUL {
					return false
				}
				if isSamplesOfStep(x.X) {
					return true
				}
				if al, ok := x.X.(*ssa.Alloc); ok {
					sts := storesTo(al)
					if len(sts) == 0 {
						return true // a nil slice
					}
					for _, st := range sts {
						if !accum(st.Val, depth+1, seen) {
							return false
						}
					}
					return true
				}
			}
			return false
		}
		n := 0
		bad := false
		for _, g := range grp {
			allInstrs(g, func(in ssa.Instruction) {
				st, ok := in.(*ssa.Store)
				if !ok || !isSamplesOfStep(st.Addr) {
					return
				}
				n++
				if !accum(st.Val, 0, map[ssa.Value]bool{}) {
					bad = true
					o.Fail(r.pos(st.Pos()), "the step's samples are set to %s, which is not a reset or an append: computed samples can be cut off", describe(st.Val, 1))
				}
			})
		}
		if n == 0 {
			o.Fail(r.pos(fn.Pos()), "the step's samples are never written")
			continue
		}
		if !bad {
			o.OK("%d write(s) of r.Samples, each a reset or an append", n).At(r.pos(fn.Pos()))
		}
	}
}

// ruleIndexLoopDeletion (PV-WHOLE): a loop that walks a slice by index and deletes the current
// element from that same slice must not advance the index on that iteration, or the element
// that slid into the freed position is never examined. Instances are discovered: a counting
// loop `for i := ..; i < len(s); i++` whose body stores a shortened s (slices.Delete, or
// append(s[:i], s[i+1:]...)) while the index advances by the same step on every path.
func ruleIndexLoopDeletion(r *Run, rels []string) {
	p := r.P
	o := r.Ob("PV-WHOLE", "index loops that delete", "a loop that deletes the current element of the slice it walks by index does not skip the element that takes its place")
	inScope := map[string]bool{}
	for _, rel := range rels {
		inScope[modPath+"/"+rel] = true
	}
	nLoops, nDel := 0, 0
	bad := false
	for _, fn := range p.SrcFuncs() {
		pk := pkgOfFunc(fn)
		if pk == nil || !inScope[pk.Pkg.Path()] {
			continue
		}
		for _, h := range fn.Blocks {
			if len(h.Instrs) == 0 {
				continue
			}
			ifi, ok := h.Instrs[len(h.Instrs)-1].(*ssa.If)
			if !ok {
				continue
			}
			cmp, ok := ifi.Cond.(*ssa.BinOp)
			if !ok || cmp.Op != token.LSS {
				continue
			}
			lenCall, ok := cmp.Y.(*ssa.Call)
			if !ok {
				continue
			}
			if bi, ok := lenCall.Call.Value.(*ssa.Builtin); !ok || bi.Name() != "len" {
				continue
			}
			idx, ok := cmp.X.(*ssa.Phi)
			if !ok || idx.Block() != h {
				continue
			}
			// the walked slice lives in a cell that the loop can reassign
			ld, ok := lenCall.Call.Args[0].(*ssa.UnOp)
			if !ok || ld.Op != token.MUL {
				continue
			}
			cell := ld.X
			body := naturalLoop(h)
			if len(body) < 2 {
				continue
			}
			nLoops++
			// does the index advance by a plain idx+1 on the back edge?
			uniform := false
			for i, pred := range h.Preds {
				if !body[pred] {
					continue
				}
				if b, ok := idx.Edges[i].(*ssa.BinOp); ok && b.Op == token.ADD && b.X == ssa.Value(idx) {
					if c, ok := constInt(b.Y); ok && c == 1 {
						uniform = true
					}
				}
			}
			for b := range body {
				for _, in := range b.Instrs {
					st, ok := in.(*ssa.Store)
					if !ok || !(st.Addr == cell || describe(st.Addr, 0) == describe(cell, 0)) {
						continue
					}
					call, ok := st.Val.(*ssa.Call)
					if !ok {
						continue
					}
					removal := false
					if callee := staticCallee(call); callee != nil {
						oc := callee
						if oc.Origin() != nil {
							oc = oc.Origin()
						}
						if oc.Pkg != nil && oc.Pkg.Pkg.Path() == "slices" && (oc.Name() == "Delete" || oc.Name() == "DeleteFunc") {
							removal = true
						}
					}
					if isAppend(call) && len(call.Call.Args) == 2 {
						if s0, ok := call.Call.Args[0].(*ssa.Slice); ok && s0.High != nil {
							if s1, ok := call.Call.Args[1].(*ssa.Slice); ok && s1.Low != nil {
								removal = true
							}
						}
					}
					if !removal {
						continue
					}
					nDel++
					if uniform {
						bad = true
						o.Fail(r.pos(st.Pos()), "%s deletes from the slice it walks by index and still advances the index: the element that moves into the freed position is skipped", shortFuncName(fn))
					}
				}
			}
		}
	}
	if !bad {
		o.OK("%d counting loop(s) over a reassignable slice, %d deleting from it; none skips", nLoops, nDel)
	}
}

// rulePFAlloc (PF-ALLOC): make([]T, n, c) panics ("len/cap out of range") when the size is
// negative or too large. Every slice allocation in the evaluation packages takes its size from
// the length of data that already exists (len/cap of a value, sums, products and minima of
// those, constants) - never from a number the query or the command line supplies (a topk
// parameter, a limit), which is unbounded.
func rulePFAlloc(r *Run, rels []string, floor int) {
	p := r.P
	o := r.Ob("PF-ALLOC", "slice allocations", "the length and capacity of every make([]T, ..) derive from the size of existing data, not from a caller-supplied number: no `makeslice: len/cap out of range` panic, no allocation proportional to a query parameter")
	inScope := map[string]bool{}
	for _, rel := range rels {
		inScope[modPath+"/"+rel] = true
	}
	var sized func(v ssa.Value, depth int) bool
	sized = func(v ssa.Value, depth int) bool {
		if v == nil || depth > 10 {
			return false
		}
		switch x := v.(type) {
		case *ssa.Const:
			return true
		case *ssa.Convert:
			return sized(x.X, depth+1)
		case *ssa.ChangeType:
			return sized(x.X, depth+1)
		case *ssa.Call:
			if bi, ok := x.Call.Value.(*ssa.Builtin); ok {
				switch bi.Name() {
				case "len", "cap":
					return true
				case "min":
					for _, a := range x.Call.Args {
						if sized(a, depth+1) {
							return true
						}
					}
				}
			}
			// Len() of a container
			if callee := staticCallee(x); callee != nil && (callee.Name() == "Len" || callee.Name() == "NumField") {
				return true
			}
			return false
		case *ssa.BinOp:
			switch x.Op {
			case token.ADD, token.MUL, token.SUB:
				return sized(x.X, depth+1) && sized(x.Y, depth+1)
			case token.QUO, token.REM, token.SHR:
				return sized(x.X, depth+1)
			}
			return false
		case *ssa.Phi:
			for _, e := range x.Edges {
				if e == v {
					continue
				}
				if !sized(e, depth+1) {
					return false
				}
			}
			return true
		case *ssa.UnOp:
			if x.Op == token.MUL {
				if al, ok := x.X.(*ssa.Alloc); ok {
					sts := storesTo(al)
					if len(sts) == 0 {
						return true
					}
					for _, st := range sts {
						// counters: n = n + 1
						if b, ok := st.Val.(*ssa.BinOp); ok && b.Op == token.ADD {
							if _, isC := b.Y.(*ssa.Const); isC {
								continue
							}
						}
						if !sized(st.Val, depth+1) {
							return false
						}
					}
					return true
				}
			}
		}
		return false
	}
	n := 0
	bad := false
	for _, fn := range p.SrcFuncs() {
		pk := pkgOfFunc(fn)
		if pk == nil || !inScope[pk.Pkg.Path()] {
			continue
		}
		allInstrs(fn, func(in ssa.Instruction) {
			ms, ok := in.(*ssa.MakeSlice)
			if !ok {
				return
			}
			n++
			for _, sz := range []ssa.Value{ms.Len, ms.Cap} {
				if !sized(sz, 0) {
					bad = true
					o.Fail(r.pos(ms.Pos()), "%s allocates a slice of size %s, which is not derived from the size of existing data", shortFuncName(fn), describe(sz, 1))
					return
				}
			}
		})
	}
	if n < floor {
		bad = true
		o.Fail("-", "only %d slice allocation(s) found, expected at least %d", n, floor)
	}
	if !bad {
		o.OK("%d slice allocation(s); every size derives from len/cap of existing data or a constant", n)
	}
}

// ruleOffloadProvenance (LP-OFFLOAD): what the engine hands to the storage as stream-selector
// matchers are exactly (a subset of) the matchers of the query's selector; what it hands over
// as line filters are line-filter stages. The storage evaluates selector matchers against the
// stream's own (container) labels only, so a label filter of the pipeline, which speaks about
// labels of the record or of a parser stage, must never travel as a selector matcher.
func ruleOffloadProvenance(r *Run) {
	p := r.P
	fn := p.Func(enginePkg, "extractQueryConditions")
	o := r.Ob("LP-OFFLOAD", "extractQueryConditions provenance", "selector matchers offloaded to the storage are elements of the selector's own matcher list; offloaded line filters are line-filter stages; nothing else of the pipeline is offloaded")
	if fn == nil {
		o.Fail("-", "function not found")
		return
	}
	var sel *ssa.Parameter
	for _, q := range fn.Params {
		if st := derefStruct(q.Type()); st != nil {
			for i := 0; i < st.NumFields(); i++ {
				if canonName(st.Field(i)) == "Matchers" {
					sel = q
				}
			}
		}
	}
	if sel == nil {
		o.Undecide(r.pos(fn.Pos()), "selector parameter not found")
		return
	}
	grp := funcGroup(fn)
	// elements appended by append(x, e...) with a literal argument list
	appended := func(c *ssa.Call) []ssa.Value {
		if !isAppend(c) || len(c.Call.Args) != 2 {
			return nil
		}
		sl, ok := c.Call.Args[1].(*ssa.Slice)
		if !ok {
			return []ssa.Value{c.Call.Args[1]}
		}
		al, ok := sl.X.(*ssa.Alloc)
		if !ok {
			return []ssa.Value{c.Call.Args[1]}
		}
		var out []ssa.Value
		for _, ref := range *al.Referrers() {
			if ia, ok := ref.(*ssa.IndexAddr); ok {
				for _, st := range storesTo(ia) {
					out = append(out, st.Val)
				}
			}
		}
		return out
	}
	nLabels, nLine := 0, 0
	bad := false
	// the elements a slice value is made of: appended values, through local accumulators, phis
	// and first-party helpers that return an accumulated slice; ok=false when some part of the
	// value is of unknown make
	var elementsOf func(v ssa.Value, depth int, seen map[ssa.Value]bool) ([]ssa.Value, bool)
	elementsOf = func(v ssa.Value, depth int, seen map[ssa.Value]bool) ([]ssa.Value, bool) {
		if v == nil || depth > 12 {
			return nil, false
		}
		if seen[v] {
			return nil, true
		}
		seen[v] = true
		v = stripTypeOnly(v)
		switch x := v.(type) {
		case *ssa.Const:
			return nil, x.Value == nil
		case *ssa.MakeSlice:
			return nil, true
		case *ssa.Phi:
			var out []ssa.Value
			for _, e := range x.Edges {
				es, ok := elementsOf(e, depth+1, seen)
				if !ok {
					return nil, false
				}
				out = append(out, es...)
			}
			return out, true
		case *ssa.UnOp:
			if x.Op != token.MUL {
				return nil, false
			}
			if f, base, ok := fieldNameOf(x.X); ok && (f == "Labels" || f == "Line") && typeKey(derefType(base.Type())) == "SelectLogsParams" {
				return nil, true // the accumulated field itself
			}
			if al, ok := x.X.(*ssa.Alloc); ok {
				var out []ssa.Value
				for _, st := range storesTo(al) {
					es, ok := elementsOf(st.Val, depth+1, seen)
					if !ok {
						return nil, false
					}
					out = append(out, es...)
				}
				return out, true
			}
			return nil, false
		case *ssa.Call:
			if isAppend(x) && len(x.Call.Args) == 2 {
				base, ok := elementsOf(x.Call.Args[0], depth+1, seen)
				if !ok {
					return nil, false
				}
				return append(base, appended(x)...), true
			}
			if callee := staticCallee(x); callee != nil && callee.Blocks != nil && isFirstParty(pkgPathOf(callee)) {
				var out []ssa.Value
				for _, ret := range returnsOf(callee) {
					if len(ret.Results) == 0 {
						return nil, false
					}
					es, ok := elementsOf(ret.Results[0], depth+1, seen)
					if !ok {
						return nil, false
					}
					out = append(out, es...)
				}
				return out, true
			}
		}
		return nil, false
	}
	for _, g := range grp {
		allInstrs(g, func(in ssa.Instruction) {
			st, ok := in.(*ssa.Store)
			if !ok {
				return
			}
			f, base, ok := fieldNameOf(st.Addr)
			if !ok || (f != "Labels" && f != "Line") || typeKey(derefType(base.Type())) != "SelectLogsParams" {
				return
			}
			elems, known := elementsOf(st.Val, 0, map[ssa.Value]bool{})
			if !known {
				bad = true
				o.Fail(r.pos(st.Pos()), "params.%s is set to %s, whose elements the rule cannot enumerate", f, describe(st.Val, 1))
				return
			}
			for _, e := range elems {
				e = originValueIn(stripTypeOnly(e), grp)
				switch f {
				case "Labels":
					nLabels++
					// *(&sel.Matchers[i]) : an element of the selector's matcher list
					okSrc := false
					if u, ok := e.(*ssa.UnOp); ok && u.Op == token.MUL {
						if ia, ok := u.X.(*ssa.IndexAddr); ok {
							if mf, mb, ok := loadOfField(ia.X); ok && mf == "Matchers" {
								if root := originValueIn(mb, grp); root == ssa.Value(sel) {
									okSrc = true
								} else if al, ok := mb.(*ssa.Alloc); ok {
									for _, s2 := range storesTo(al) {
										if originValueIn(s2.Val, grp) == ssa.Value(sel) {
											okSrc = true
										}
									}
								}
							}
							// a helper that is given sel.Matchers
							if root := originValueIn(ia.X, grp); root != nil {
								if mf, mb, ok := loadOfField(root); ok && mf == "Matchers" {
									if originValueIn(mb, grp) == ssa.Value(sel) {
										okSrc = true
									} else if al, ok := mb.(*ssa.Alloc); ok {
										for _, s2 := range storesTo(al) {
											if originValueIn(s2.Val, grp) == ssa.Value(sel) {
												okSrc = true
											}
										}
									}
								}
							}
						}
					}
					if !okSrc {
						bad = true
						o.Fail(r.pos(st.Pos()), "%s is offloaded as a stream-selector matcher although it is not one of the selector's matchers: the storage tests it against the container's labels only", describe(e, 1))
					}
				case "Line":
					nLine++
					okSrc := false
					if u, ok := e.(*ssa.UnOp); ok && u.Op == token.MUL && typeKey(u.Type()) == "LineFilter" {
						okSrc = true
					}
					if !okSrc {
						bad = true
						o.Fail(r.pos(st.Pos()), "%s is offloaded as a line filter although it is not a line-filter stage", describe(e, 1))
					}
				}
			}
		})
	}
	if nLabels == 0 || nLine == 0 {
		bad = true
		o.Fail(r.pos(fn.Pos()), "offload sites found: selector matchers=%d, line filters=%d (expected both)", nLabels, nLine)
	}
	if !bad {
		o.OK("%d selector-matcher offload(s) from sel.Matchers, %d line-filter offload(s) from *LineFilter stages", nLabels, nLine).At(r.pos(fn.Pos()))
	}
}

// ruleGetFloatKinds (CH-MAP): how a label value becomes the number a numeric label filter (or
// unwrap) compares: text is parsed, an integer or a double converts directly and never fails.
// A conversion error keeps the record (with __error__), so a conversion that fails for some
// numbers lets records through that do not satisfy the filter.
func ruleGetFloatKinds(r *Run) {
	p := r.P
	fn := p.Method(enginePkg, "LabelSet", "GetFloat")
	o := r.Ob("CH-MAP", "logqlengine.(*LabelSet).GetFloat kinds", "a string label is parsed with ParseFloat; an integer or double label converts directly and never yields an error; other kinds are rejected")
	if fn == nil {
		o.Fail("-", "method not found")
		return
	}
	T := p.NamedTypeByPath("go.opentelemetry.io/collector/pdata/pcommon", "ValueType")
	if T == nil {
		o.Undecide(r.pos(fn.Pos()), "pcommon.ValueType not loaded")
		return
	}
	consts := enumConstants(T)
	var tag ssa.Value
	for _, c := range callsIn(fn) {
		if call, ok := c.(*ssa.Call); ok {
			if callee := staticCallee(call); callee != nil && callee.Name() == "Type" && strings.HasSuffix(pkgPathOf(callee), "/pdata/pcommon") {
				tag = call
			}
		}
	}
	if tag == nil {
		o.Undecide(r.pos(fn.Pos()), "no dispatch on the value's Type()")
		return
	}
	var getOK ssa.Value
	for _, c := range callsIn(fn) {
		if call, ok := c.(*ssa.Call); ok {
			if callee := staticCallee(call); callee != nil && cname(callee) == "Get" && isFirstParty(pkgPathOf(callee)) {
				if refs := call.Referrers(); refs != nil {
					for _, ref := range *refs {
						if e, ok := ref.(*ssa.Extract); ok && e.Index == 1 {
							getOK = e
						}
					}
				}
			}
		}
	}
	extra := map[ssa.Value]constant.Value{}
	if getOK != nil {
		extra[getOK] = constant.MakeBool(true)
	}
	bad := false
	seen := map[string]bool{}
	for _, cr := range casesOf(fn, tag, consts, extra, nil) {
		kind := ""
		switch cr.Const {
		case "ValueTypeStr":
			kind = "str"
		case "ValueTypeInt":
			kind = "int"
		case "ValueTypeDouble":
			kind = "double"
		case "<other>":
			kind = "other"
		default:
			continue
		}
		seen[kind] = true
		for _, e := range cr.Ends {
			if e.Cut || len(e.Results) != 3 {
				continue
			}
			val, okv, errv := e.Results[0], e.Results[1], e.Results[2]
			switch kind {
			case "int", "double":
				if !isNilConst(errv.V) && !(errv.Known && errv.C == nil) {
					bad = true
					o.Fail(r.pos(e.Term.Pos()), "%s: the conversion can fail (%s): a numeric label that fails to convert keeps its record whatever the filter says", cr.Const, describe(errv.V, 0))
					continue
				}
				if !okv.Known || !constant.BoolVal(okv.C) {
					bad = true
					o.Fail(r.pos(e.Term.Pos()), "%s: the label is reported as absent", cr.Const)
					continue
				}
				want := map[string]string{"int": "Int", "double": "Double"}[kind]
				src := stripConv(val.V)
				call, ok := src.(*ssa.Call)
				if !ok || staticCallee(call) == nil || staticCallee(call).Name() != want {
					bad = true
					o.Fail(r.pos(e.Term.Pos()), "%s: the number is %s, not the value's %s()", cr.Const, describe(val.V, 0), want)
				}
			case "str":
				c, idx, ok := extractOf(val.V)
				if !ok || idx != 0 || !callIs(c, "strconv", "ParseFloat") {
					bad = true
					o.Fail(r.pos(e.Term.Pos()), "%s: the number is %s, not strconv.ParseFloat of the text", cr.Const, describe(val.V, 0))
				}
			case "other":
				if isErr, known := endReturnsError(e); !known || !isErr {
					bad = true
					o.Fail(r.pos(e.Term.Pos()), "a value that is neither text nor a number converts without error")
				}
			}
		}
	}
	for _, k := range []string{"str", "int", "double", "other"} {
		if !seen[k] {
			bad = true
			o.Fail(r.pos(fn.Pos()), "case %s not evaluated", k)
		}
	}
	if !bad {
		o.OK("Str -> ParseFloat; Int -> float64(Int()), nil; Double -> Double(), nil; others rejected").At(r.pos(fn.Pos()))
	}
}

// ruleJSONPathStateFresh (PV-FRESH): the JSON path extractor keeps the path of the value it is
// at in a stack. Every document is walked from an empty stack: the root call of walk is made on
// an extractor built in that very call (current: make(Path, 0, n)), or the stack is truncated
// right before. A reused extractor whose last walk stopped on a parse error would otherwise
// start the next line in the middle of the previous one.
func ruleJSONPathStateFresh(r *Run) {
	p := r.P
	walk := p.Method(jsonexprPkg, "extractor", "walk")
	o := r.Ob("PV-FRESH", "jsonexpr.extractor path stack", "every document is walked from an empty path stack: the extractor is built for the call, or its stack is reset before the walk")
	if walk == nil {
		o.Fail("-", "jsonexpr.extractor.walk not found")
		return
	}
	recvT := namedOf(derefType(walk.Signature.Recv().Type()))
	n := 0
	bad := false
	for _, fn := range p.SrcFuncs() {
		if !isFirstParty(pkgPathOf(fn)) {
			continue
		}
		// methods of the extractor itself recurse with the stack in use
		if fn.Signature.Recv() != nil {
			if rn := namedOf(derefType(fn.Signature.Recv().Type())); rn != nil && recvT != nil && rn.Obj() == recvT.Obj() {
				continue
			}
		}
		if fn.Parent() != nil {
			if pr := fn.Parent(); pr.Signature.Recv() != nil {
				if rn := namedOf(derefType(pr.Signature.Recv().Type())); rn != nil && recvT != nil && rn.Obj() == recvT.Obj() {
					continue
				}
			}
		}
		for _, c := range callsIn(fn) {
			if staticCallee(c) != walk {
				continue
			}
			n++
			recv := c.Common().Args[0]
			fresh := false
			if al, ok := recv.(*ssa.Alloc); ok {
				// composite literal in this function: current is nil or make(Path, 0, n)
				fresh = true
				for _, ref := range *al.Referrers() {
					fa, ok := ref.(*ssa.FieldAddr)
					if !ok {
						continue
					}
					if name, _, _ := fieldNameOf(fa); name != "current" {
						continue
					}
					for _, st := range storesTo(fa) {
						switch x := st.Val.(type) {
						case *ssa.MakeSlice:
							if k, ok := constInt(x.Len); !ok || k != 0 {
								fresh = false
							}
						case *ssa.Const:
							if x.Value != nil {
								fresh = false
							}
						case *ssa.Slice:
							if k, ok := constInt(x.High); !(ok && k == 0 && x.Low == nil) {
								fresh = false
							}
						default:
							fresh = false
						}
					}
				}
			}
			if !fresh {
				// a reset that dominates the walk: recv.current = recv.current[:0] (or nil)
				allInstrs(fn, func(in ssa.Instruction) {
					st, ok := in.(*ssa.Store)
					if !ok || !instrDominates(st, c) {
						return
					}
					name, base, ok := fieldNameOf(st.Addr)
					if !ok || name != "current" || !(base == recv || describe(base, 0) == describe(recv, 0)) {
						return
					}
					switch x := st.Val.(type) {
					case *ssa.Slice:
						if k, ok := constInt(x.High); ok && k == 0 && x.Low == nil {
							fresh = true
						}
					case *ssa.Const:
						if x.Value == nil {
							fresh = true
						}
					case *ssa.MakeSlice:
						if k, ok := constInt(x.Len); ok && k == 0 {
							fresh = true
						}
					}
				})
			}
			if !fresh {
				bad = true
				o.Fail(r.pos(c.Pos()), "%s walks a document with an extractor that was not built for this call and whose path stack is not reset: after a line that failed to parse the stack still holds that line's path", shortFuncName(fn))
			}
		}
	}
	if n == 0 {
		o.Fail(r.pos(walk.Pos()), "no root call of walk found")
		return
	}
	if !bad {
		o.OK("%d root walk(s), each on a freshly built extractor or after a reset", n)
	}
}

// ruleRegexpGroupNumbering (PV-PAIR, sibling of the engine's RegexpExtractor rule): the engine
// exposes submatch i under mapping[i], with i the index into FindStringSubmatch. The parser
// therefore has to key the mapping by the index of the name in re.SubexpNames() - the same
// numbering, which counts unnamed groups and the whole match - not by the ordinal of the named
// group.
func ruleRegexpGroupNumbering(r *Run) {
	p := r.P
	fn := p.Method(logqlPkg, "parser", "parseRegexpLabelParser")
	o := r.Ob("PV-PAIR", "logql.(*parser).parseRegexpLabelParser numbering", "a named group's label is stored under the group's index in re.SubexpNames(), the numbering FindStringSubmatch uses")
	if fn == nil {
		o.Fail("-", "method not found")
		return
	}
	grp := funcGroup(fn)
	n := 0
	bad := false
	for _, g := range grp {
		loops := rangeIndexLoops(g)
		allInstrs(g, func(in ssa.Instruction) {
			mu, ok := in.(*ssa.MapUpdate)
			if !ok {
				return
			}
			mt, ok := mu.Map.Type().Underlying().(*types.Map)
			if !ok {
				return
			}
			if b, ok := mt.Key().Underlying().(*types.Basic); !ok || b.Kind() != types.Int || typeKey(mt.Elem()) != "Label" {
				return
			}
			n++
			var loop *rangeLoop
			for _, l := range loops {
				if l.Blocks[mu.Block()] {
					loop = l
				}
			}
			if loop == nil {
				bad = true
				o.Fail(r.pos(mu.Pos()), "the group mapping is not filled in a loop over the group names")
				return
			}
			c, ok := stripTypeOnly(loop.X).(*ssa.Call)
			if !ok || !callIs(c, "regexp", "(*Regexp).SubexpNames") {
				bad = true
				o.Fail(r.pos(mu.Pos()), "the loop ranges over %s, not over re.SubexpNames() itself: positions no longer are submatch indexes", describe(loop.X, 0))
				return
			}
			if stripConv(mu.Key) != ssa.Value(loop.Index) {
				bad = true
				o.Fail(r.pos(mu.Pos()), "the label is stored under %s, not under the name's index in re.SubexpNames()", describe(mu.Key, 0))
			}
		})
	}
	if n == 0 {
		o.Fail(r.pos(fn.Pos()), "no map[int]Label filled")
		return
	}
	if !bad {
		o.OK("mapping[i] = name for i, name := range re.SubexpNames()").At(r.pos(fn.Pos()))
	}
}

// ruleBinOpPairsMatched (PV-PAIR): a vector-to-vector operation combines two samples only when
// their label sets have the same grouping key: every invocation of the sample operation takes
// one operand from one side's samples and the other from a table of the other side looked up
// under that sample's own key, and only when the lookup found an entry.
func ruleBinOpPairsMatched(r *Run) {
	p := r.P
	fn := p.Method(metricPkg, "binOpIterator", "Next")
	o := r.Ob("PV-PAIR", "logqlmetric.(*binOpIterator).Next operands", "the sample operation is applied only to a pair matched by grouping key: one operand is looked up under the other operand's Set.Key() and the lookup succeeded")
	if fn == nil {
		o.Fail("-", "method not found")
		return
	}
	grp := funcGroup(fn)
	n := 0
	bad := false
	for _, g := range grp {
		for _, c := range callsIn(g) {
			call, ok := c.(*ssa.Call)
			if !ok || call.Call.IsInvoke() || staticCallee(call) != nil || len(call.Call.Args) != 2 {
				continue
			}
			if f, _, ok := loadOfField(call.Call.Value); !ok || f != "op" {
				if _, isParam := originValueIn(call.Call.Value, grp).(*ssa.Parameter); !isParam || typeKey(call.Call.Value.Type()) != "SampleOp" {
					continue
				}
			}
			n++
			matched := false
			for j := 0; j < 2; j++ {
				looked, other := unspillValue(call.Call.Args[j]), call.Call.Args[1-j]
				ex, ok := looked.(*ssa.Extract)
				if !ok || ex.Index != 0 {
					continue
				}
				lk, ok := ex.Tuple.(*ssa.Lookup)
				if !ok || !lk.CommaOk {
					continue
				}
				kc, ok := unspillValue(lk.Index).(*ssa.Call)
				if !ok || !invokeIs(kc, "Key") {
					continue
				}
				// Key() of the other operand's own label set
				sf, sb, ok := loadOfField(kc.Call.Value)
				if !ok || sf != "Set" {
					continue
				}
				same := false
				if u, ok := other.(*ssa.UnOp); ok && u.X == sb {
					same = true
				}
				if other == sb || unspillValue(other) == unspillValue(sb) {
					same = true
				}
				if !same {
					continue
				}
				var okv ssa.Value
				for _, ref := range *lk.Referrers() {
					if e2, ok := ref.(*ssa.Extract); ok && e2.Index == 1 {
						okv = e2
					}
				}
				if b, known := knownBoolAt(call.Block(), okv); known && b {
					matched = true
				}
			}
			if !matched {
				bad = true
				o.Fail(r.pos(call.Pos()), "the operation is applied to (%s, %s) without matching their grouping keys", describe(call.Call.Args[0], 1), describe(call.Call.Args[1], 1))
			}
		}
	}
	if n == 0 {
		o.Fail(r.pos(fn.Pos()), "the sample operation is never invoked")
		return
	}
	if !bad {
		o.OK("%d invocation(s), each on (table[sample.Set.Key()], sample) under ok", n).At(r.pos(fn.Pos()))
	}
}

// xxhashEmpty is XXH64 of the empty input with seed 0 (test vector of the xxHash specification).
const xxhashEmpty uint64 = 0xEF46DB3751D8E999

// ruleKeySiblings (CH-SIB): all implementers of AggregatedLabels must agree on the grouping key
// of equal label sets, because binary operations, set operators and aggregations match series
// of different provenance (an aggregation's output against vector(c)) by Key() alone. The
// general implementer hashes the (name, value) sequence with xxhash; an implementer that stands
// for one fixed label set must return what that encoder yields for the same set - for the empty
// set xxhash of no input.
func ruleKeySiblings(r *Run) {
	p := r.P
	iface := p.NamedType(metricPkg, "AggregatedLabels")
	o := r.Ob("CH-SIB", "AggregatedLabels.Key implementers", "every implementer of AggregatedLabels yields the same Key() for the same label set: an implementer standing for the empty set returns the general encoder's key of the empty set")
	if iface == nil {
		o.Fail("-", "interface not found")
		return
	}
	it, ok := iface.Underlying().(*types.Interface)
	if !ok {
		o.Fail("-", "AggregatedLabels is not an interface")
		return
	}
	var impls []*types.Named
	for _, rel := range []string{metricPkg, enginePkg} {
		sp := p.SSAPkg(rel)
		if sp == nil {
			continue
		}
		for _, m := range sp.Members {
			tm, ok := m.(*ssa.Type)
			if !ok {
				continue
			}
			named, ok := tm.Type().(*types.Named)
			if !ok || types.IsInterface(named) {
				continue
			}
			if types.Implements(types.NewPointer(named), it) || types.Implements(named, it) {
				impls = append(impls, named)
			}
		}
	}
	sort.Slice(impls, func(i, j int) bool { return impls[i].Obj().Name() < impls[j].Obj().Name() })
	nHash, nFixed := 0, 0
	bad := false
	for _, named := range impls {
		rel := strings.TrimPrefix(named.Obj().Pkg().Path(), modPath+"/")
		key := p.Method(rel, named.Obj().Name(), "Key")
		if key == nil {
			bad = true
			o.Fail("-", "%s has no Key method body", named.Obj().Name())
			continue
		}
		// the general encoder: feeds a hash and returns its sum
		hashes := false
		for _, g := range funcGroup(key) {
			for _, c := range callsIn(g) {
				if callee := staticCallee(c); callee != nil && strings.Contains(pkgPathOf(callee), "xxhash") && (callee.Name() == "Write" || callee.Name() == "WriteString") {
					hashes = true
				}
			}
		}
		if hashes {
			nHash++
			continue
		}
		nFixed++
		// a fixed label set: which one? (only the empty set is understood)
		empty := false
		if as := p.Method(rel, named.Obj().Name(), "AsLokiAPI"); as != nil {
			empty = true
			allInstrs(as, func(in ssa.Instruction) {
				if _, ok := in.(*ssa.MapUpdate); ok {
					empty = false
				}
			})
		}
		if !empty {
			bad = true
			o.Undecide(r.pos(key.Pos()), "%s.Key does not hash and the label set it stands for is not recognisably empty", named.Obj().Name())
			continue
		}
		for _, ret := range returnsOf(key) {
			for _, lv := range phiLeaves(ret.Results[0]) {
				if c, ok := constOf(stripConv(lv)); ok {
					if u, exact := constant.Uint64Val(constant.ToInt(c)); exact && u == xxhashEmpty {
						continue
					}
					bad = true
					o.Fail(r.pos(ret.Pos()), "%s stands for the empty label set but its Key() is the constant %s, while the general encoder yields xxhash(\"\") = %#x for an empty set: an ungrouped aggregation and vector(c) never match", named.Obj().Name(), c.ExactString(), xxhashEmpty)
					continue
				}
				// xxhash of nothing computed in place
				if call, ok := stripConv(lv).(*ssa.Call); ok {
					if callee := staticCallee(call); callee != nil && strings.Contains(pkgPathOf(callee), "xxhash") {
						switch callee.Name() {
						case "Sum64":
							// (*Digest).Sum64 of a fresh digest, or Sum64(nil / empty)
							if callee.Signature.Recv() != nil {
								if nc, ok := call.Call.Args[0].(*ssa.Call); ok && staticCallee(nc) != nil && staticCallee(nc).Name() == "New" {
									continue
								}
							} else if len(call.Call.Args) == 1 {
								if isNilConst(call.Call.Args[0]) {
									continue
								}
							}
						case "Sum64String":
							if s, ok := constStr(call.Call.Args[0]); ok && s == "" {
								continue
							}
						}
					}
				}
				bad = true
				o.Undecide(r.pos(ret.Pos()), "%s.Key returns %s, which the rule cannot relate to the general encoder", named.Obj().Name(), describe(lv, 1))
			}
		}
	}
	if nHash == 0 {
		bad = true
		o.Fail("-", "no hashing implementer of AggregatedLabels found")
	}
	if !bad {
		o.OK("%d implementer(s): %d hashing, %d fixed (empty set) returning xxhash of no input", len(impls), nHash, nFixed)
	}
}

// ruleKeywordLookupExact (PV-API): keywords are recognised by their exact spelling. The lexer
// looks the scanned text itself up in the keyword table; a transformed copy (case folding,
// trimming) would turn valid label names such as `By`, `ON` or `Json` into keywords, and a
// container label with such a name could no longer be written in a selector.
func ruleKeywordLookupExact(r *Run) {
	p := r.P
	o := r.Ob("PV-API", "lexer keyword lookup", "the keyword table is consulted with the scanned identifier itself, not with a case-folded or otherwise rewritten copy: only the exact lower-case spellings are keywords")
	sp := p.SSAPkg(lexerPkg)
	if sp == nil {
		o.Fail("-", "lexer package not loaded")
		return
	}
	n := 0
	bad := false
	for _, fn := range p.SrcFuncs() {
		if pkgOfFunc(fn) != sp {
			continue
		}
		grp := funcGroup(fn)
		allInstrs(fn, func(in ssa.Instruction) {
			lk, ok := in.(*ssa.Lookup)
			if !ok {
				return
			}
			u, ok := lk.X.(*ssa.UnOp)
			if !ok {
				return
			}
			g, ok := u.X.(*ssa.Global)
			if !ok || globalName(g) != "tokens" {
				return
			}
			n++
			// the scanned text, possibly extended by what the scanner yields next (two-character
			// operators): parameters, scanner output and concatenations of those - never the
			// result of a string transformation
			var exact func(v ssa.Value, depth int) bool
			exact = func(v ssa.Value, depth int) bool {
				if depth > 8 {
					return false
				}
				v = originValueIn(stripTypeOnly(v), grp)
				// the text a token carries (tok.Text of a token that is being built from the scan)
				if f, base, ok := loadOfField(v); ok && f == "Text" && typeKey(derefType(base.Type())) == "Token" {
					if al, isAl := base.(*ssa.Alloc); isAl {
						for _, st := range storesTo(al) {
							if _, isP := st.Val.(*ssa.Parameter); isP {
								return true // a spilled parameter: the token was filled by the caller
							}
						}
						okAll := false
						for _, ref := range *al.Referrers() {
							if fa, ok := ref.(*ssa.FieldAddr); ok {
								if n, _, _ := fieldNameOf(fa); n == "Text" {
									for _, st := range storesTo(fa) {
										okAll = exact(st.Val, depth+1)
										if !okAll {
											return false
										}
									}
								}
							}
						}
						// a spilled parameter: the token was filled by the caller
						for _, st := range storesTo(al) {
							if _, isP := st.Val.(*ssa.Parameter); isP {
								okAll = true
							}
						}
						return okAll
					}
					return true
				}
				switch x := v.(type) {
				case *ssa.Parameter:
					return true
				case *ssa.Convert:
					return exact(x.X, depth+1)
				case *ssa.BinOp:
					return x.Op == token.ADD && exact(x.X, depth+1) && exact(x.Y, depth+1)
				case *ssa.Call:
					if callee := staticCallee(x); callee != nil && callee.Pkg != nil && callee.Pkg.Pkg.Path() == "text/scanner" {
						switch callee.Name() {
						case "TokenText", "Peek", "Next", "Scan":
							return true
						}
					}
				}
				return false
			}
			if exact(lk.Index, 0) {
				return
			}
			bad = true
			o.Fail(r.pos(lk.Pos()), "%s looks %s up in the keyword table, not the scanned text itself", shortFuncName(fn), describe(lk.Index, 1))
		})
	}
	if n == 0 {
		o.Fail("-", "no lookup in the keyword table found")
		return
	}
	if !bad {
		o.OK("%d lookup(s), each with the scanned text", n)
	}
}

// rulePFDeferNil (PF-NILCLOSE): a cleanup that is deferred for a value obtained together with
// an error is registered only where the error is known to be nil. Registered earlier, the
// cleanup runs on the failure path too and calls a method on the nil value (a nil interface
// panics).
func rulePFDeferNil(r *Run, rels []string) {
	p := r.P
	o := r.Ob("PF-NILCLOSE", "deferred cleanups", "a deferred cleanup taking a value that was returned together with an error is registered after the error was found nil: it never runs on a nil value")
	inScope := map[string]bool{}
	for _, rel := range rels {
		inScope[modPath+"/"+rel] = true
	}
	n := 0
	bad := false
	for _, fn := range p.SrcFuncs() {
		pk := pkgOfFunc(fn)
		if pk == nil || !inScope[pk.Pkg.Path()] {
			continue
		}
		allInstrs(fn, func(in ssa.Instruction) {
			d, ok := in.(*ssa.Defer)
			if !ok {
				return
			}
			var vals []ssa.Value
			vals = append(vals, d.Call.Args...)
			if mc, ok := d.Call.Value.(*ssa.MakeClosure); ok {
				vals = append(vals, mc.Bindings...)
			}
			if d.Call.IsInvoke() {
				vals = append(vals, d.Call.Value)
			}
			for _, a := range vals {
				src := unspill(stripTypeOnly(a))
				c, idx, ok := extractOf(src)
				if !ok || idx != 0 {
					continue
				}
				res := c.Call.Signature().Results()
				if res.Len() < 2 || !isErrorType(res.At(res.Len()-1).Type()) {
					continue
				}
				// only values that can be nil and are used through methods
				switch a.Type().Underlying().(type) {
				case *types.Interface, *types.Pointer:
				default:
					continue
				}
				var errv ssa.Value
				for _, ref := range *c.Referrers() {
					if e, ok := ref.(*ssa.Extract); ok && e.Index == res.Len()-1 {
						errv = e
					}
				}
				n++
				checked := false
				for _, f := range factsAt(d.Block()) {
					if x, trueWhenNonNil, ok := nilCheck(f.Cond); ok {
						if x == errv && f.Truth != trueWhenNonNil {
							checked = true
						}
						// or the value itself is known non-nil
						if (x == src || x == a) && f.Truth == trueWhenNonNil {
							checked = true
						}
					}
				}
				if !checked {
					bad = true
					o.Fail(r.pos(d.Pos()), "%s defers a cleanup of %s before the error returned with it was checked: on the failure path the cleanup runs on a nil value", shortFuncName(fn), describe(src, 1))
				}
			}
		})
	}
	if !bad {
		o.OK("%d deferred cleanup(s) of values returned with an error, each registered under err == nil", n)
	}
}

// ruleParserOptionsReachLexer (PV-ROLE): ParseOptions.AllowDots configures both halves of the
// front end: the lexer is created with TokenizeOptions{AllowDots: opts.AllowDots} and the
// parser remembers the same value. A lexer configured from anything else splits dotted label
// names although the caller allowed them.
func ruleParserOptionsReachLexer(r *Run) {
	p := r.P
	for _, name := range []string{"Parse", "ParseSelector"} {
		fn := p.Func(logqlPkg, name)
		o := r.Ob("PV-ROLE", "logql."+name+" options", "the lexer's AllowDots and the parser's allowDots are both the caller's ParseOptions.AllowDots")
		if fn == nil {
			o.Fail("-", "function not found")
			continue
		}
		grp := funcGroup(fn)
		fromOpts := func(v ssa.Value) bool {
			v = originValueIn(stripTypeOnly(v), grp)
			f, base, ok := loadOfField(v)
			if !ok || f != "AllowDots" {
				return false
			}
			return typeKey(derefType(base.Type())) == "ParseOptions"
		}
		nLex, nPar := 0, 0
		bad := false
		for _, g := range grp {
			allInstrs(g, func(in ssa.Instruction) {
				st, ok := in.(*ssa.Store)
				if !ok {
					return
				}
				f, base, ok := fieldNameOf(st.Addr)
				if !ok {
					return
				}
				switch {
				case f == "AllowDots" && typeKey(derefType(base.Type())) == "TokenizeOptions":
					nLex++
					if !fromOpts(st.Val) {
						bad = true
						o.Fail(r.pos(st.Pos()), "the lexer is configured with AllowDots = %s, not the caller's ParseOptions.AllowDots", describe(st.Val, 1))
					}
				case f == "allowDots" && typeKey(derefType(base.Type())) == "parser":
					nPar++
					if !fromOpts(st.Val) {
						bad = true
						o.Fail(r.pos(st.Pos()), "the parser remembers allowDots = %s, not the caller's ParseOptions.AllowDots", describe(st.Val, 1))
					}
				}
			})
		}
		if nLex == 0 || nPar == 0 {
			bad = true
			o.Fail(r.pos(fn.Pos()), "lexer option writes=%d parser option writes=%d (expected both)", nLex, nPar)
		}
		if !bad {
			o.OK("TokenizeOptions{AllowDots: opts.AllowDots}; parser{allowDots: opts.AllowDots}").At(r.pos(fn.Pos()))
		}
	}
}

// ruleJSONExprsAllPaths (PV-WHOLE): every `label="expr"` of a json stage is evaluated by the
// path matcher under its own label: in the loop over the stage's expressions each iteration that
// parsed its selector stores it into the path table (no expression is diverted to another
// mechanism, which exposes values in a different spelling).
func ruleJSONExprsAllPaths(r *Run) {
	p := r.P
	fn := p.Func(enginePkg, "buildJSONExtractor")
	o := r.Ob("PV-WHOLE", "logqlengine.buildJSONExtractor expressions", "every expression of the stage is stored in the path table under its own label: no iteration over the expressions goes on without it")
	if fn == nil {
		o.Fail("-", "function not found")
		return
	}
	n := 0
	bad := false
	for _, g := range funcGroup(fn) {
		for _, l := range rangeIndexLoops(g) {
			// the loop that parses selectors
			var parse ssa.CallInstruction
			for b := range l.Blocks {
				for _, in := range b.Instrs {
					if c, ok := in.(ssa.CallInstruction); ok {
						if callee := staticCallee(c); callee != nil && strings.HasSuffix(pkgPathOf(callee), "/"+jsonexprPkg) && cname(callee) == "Parse" {
							parse = c
						}
					}
				}
			}
			if parse == nil {
				continue
			}
			n++
			var mu *ssa.MapUpdate
			for b := range l.Blocks {
				for _, in := range b.Instrs {
					if m, ok := in.(*ssa.MapUpdate); ok {
						if mt, ok := m.Map.Type().Underlying().(*types.Map); ok && typeKey(mt.Elem()) == "Path" {
							mu = m
						}
					}
				}
			}
			if mu == nil {
				bad = true
				o.Fail(r.pos(parse.Pos()), "parsed selectors are not stored into the path table")
				continue
			}
			if !mustPassThrough(l.Body, l.Header, mu.Block()) {
				bad = true
				o.Fail(r.pos(mu.Pos()), "an iteration over the expressions can go on to the next one without storing its selector: that expression is not evaluated by the path matcher")
			}
			// stored under the expression's own label and selector
			if f, _, ok := loadOfField(mu.Key); !ok || f != "Label" {
				bad = true
				o.Fail(r.pos(mu.Pos()), "the selector is stored under %s, not under the expression's label", describe(mu.Key, 0))
			}
			if c, idx, ok := extractOf(mu.Value); !ok || idx != 0 || c != parse {
				bad = true
				o.Fail(r.pos(mu.Pos()), "the stored selector is %s, not the parsed expression", describe(mu.Value, 0))
			}
		}
	}
	if n == 0 {
		o.Fail(r.pos(fn.Pos()), "no loop parsing the stage's expressions found")
		return
	}
	if !bad {
		o.OK("for each expression: paths[p.Label] = Parse(p.Expr) on every non-failing iteration").At(r.pos(fn.Pos()))
	}
}

// rulePatternUnnamedExact (PV-GUARD): the only capture of a pattern that is matched but not
// exposed is the one spelled `<_>`: the test that suppresses a capture is an equality with "_"
// (directly or in a small helper), never a looser test such as a prefix.
func rulePatternUnnamedExact(r *Run) {
	p := r.P
	const rel = "internal/logql/logqlengine/logqlpattern"
	fn := p.Func(rel, "Match")
	o := r.Ob("PV-GUARD", "logqlpattern.Match unnamed capture", "a capture is withheld from the labels iff its name is exactly `_`")
	if fn == nil {
		o.Fail("-", "function not found")
		return
	}
	// the callback invocation
	var cb *ssa.Call
	for _, c := range callsIn(fn) {
		if call, ok := c.(*ssa.Call); ok && !call.Call.IsInvoke() && staticCallee(call) == nil {
			if _, isParam := originValue(call.Call.Value).(*ssa.Parameter); isParam {
				cb = call
			}
		}
	}
	if cb == nil {
		o.Undecide(r.pos(fn.Pos()), "the match callback is not invoked")
		return
	}
	isUnderscoreCmp := func(v ssa.Value) (ok bool, trueWhenUnnamed bool) {
		b, isB := v.(*ssa.BinOp)
		if !isB || (b.Op != token.EQL && b.Op != token.NEQ) {
			return false, false
		}
		for _, side := range []ssa.Value{b.X, b.Y} {
			if s, isS := constStr(side); isS && s == "_" {
				return true, b.Op == token.EQL
			}
		}
		return false, false
	}
	found := false
	bad := false
	for _, f := range factsAt(cb.Block()) {
		if ok, whenUnnamed := isUnderscoreCmp(f.Cond); ok {
			if f.Truth != whenUnnamed {
				found = true
			}
			continue
		}
		// a helper deciding it
		if call, ok := f.Cond.(*ssa.Call); ok {
			callee := staticCallee(call)
			if callee == nil || callee.Blocks == nil || !isFirstParty(pkgPathOf(callee)) {
				continue
			}
			if bt, ok := call.Type().Underlying().(*types.Basic); !ok || bt.Kind() != types.Bool {
				continue
			}
			exact := true
			hasCmp := false
			for _, ret := range returnsOf(callee) {
				for _, lv := range phiLeaves(ret.Results[0]) {
					if _, isC := constOf(lv); isC {
						continue
					}
					if ok, _ := isUnderscoreCmp(lv); ok {
						hasCmp = true
						continue
					}
					// conjunctions with the part's kind are fine; anything else is a looser test
					if b, isB := lv.(*ssa.BinOp); isB && (b.Op == token.EQL || b.Op == token.NEQ) {
						continue
					}
					exact = false
				}
			}
			if len(callee.Params) > 0 && (strings.Contains(strings.ToLower(callee.Name()), "unnamed") || hasCmp || !exact) {
				if exact && hasCmp {
					found = true
				} else if !exact {
					bad = true
					o.Fail(r.pos(call.Pos()), "captures are withheld by %s, which is not an equality test with \"_\": names that merely resemble `_` are dropped too", shortFuncName(callee))
				}
			}
		}
	}
	if !found && !bad {
		bad = true
		o.Fail(r.pos(cb.Pos()), "no test `name != \"_\"` guards the exposure of a capture")
	}
	if !bad {
		o.OK("match(label, value) under label != \"_\"").At(r.pos(cb.Pos()))
	}
}

// rulePerStepGroupTables (PV-FRESH): vector aggregations and binary operations work step by
// step: the table that maps grouping keys to groups / samples is built for the step at hand.
// A table kept in the iterator between steps makes a group that has no input at a later step
// show up there (with the value of an empty aggregation). The range aggregation's window is the
// one table that persists by design and has its own rules (C09).
func rulePerStepGroupTables(r *Run, typs []string) {
	p := r.P
	for _, tn := range typs {
		fn := p.Method(metricPkg, tn, "Next")
		o := r.Ob("PV-FRESH", "logqlmetric.(*"+tn+").Next group table", "the table keyed by grouping key that a step is computed with is created in that call: no group or sample of an earlier step is still in it")
		if fn == nil {
			o.Fail("-", "method not found")
			continue
		}
		grp := funcGroup(fn)
		n := 0
		bad := false
		for _, g := range grp {
			allInstrs(g, func(in ssa.Instruction) {
				var m ssa.Value
				switch x := in.(type) {
				case *ssa.MapUpdate:
					m = x.Map
				case *ssa.Lookup:
					if _, ok := x.X.Type().Underlying().(*types.Map); ok {
						m = x.X
					}
				}
				if m == nil {
					return
				}
				mt, ok := m.Type().Underlying().(*types.Map)
				if !ok || typeString(mt.Key()) != "uint64" {
					return
				}
				n++
				for _, lv := range phiLeaves(originValueIn(m, grp)) {
					lv = originValueIn(lv, grp)
					switch x := lv.(type) {
					case *ssa.MakeMap:
						continue
					case *ssa.Call:
						// a helper that returns a map it made itself
						if callee := staticCallee(x); callee != nil && callee.Blocks != nil && isFirstParty(pkgPathOf(callee)) {
							okRet := true
							for _, ret := range returnsOf(callee) {
								if len(ret.Results) == 0 {
									okRet = false
									continue
								}
								if _, isMk := originValue(ret.Results[0]).(*ssa.MakeMap); !isMk {
									if _, isMk2 := ret.Results[0].(*ssa.MakeMap); !isMk2 {
										okRet = false
									}
								}
							}
							if okRet {
								continue
							}
						}
					}
					bad = true
					o.Fail(r.pos(in.Pos()), "the step is computed with %s, a table that outlives the call: groups of earlier steps are still in it", describe(lv, 1))
					return
				}
			})
		}
		if n == 0 {
			o.Fail(r.pos(fn.Pos()), "no table keyed by grouping key found")
			continue
		}
		if !bad {
			o.OK("%d use(s) of tables keyed by grouping key, each on a map made in this call", n).At(r.pos(fn.Pos()))
		}
	}
}

// ruleResultKindSet (PV-WHOLE): a query that evaluates successfully answers with a typed result,
// also when the result is empty: on every path of evalExpr that returns without error the
// response was given its kind (a Set...Result call) or taken whole from an evaluator that does
// so. An untyped response makes the CLI fail with "unsupported result" instead of printing
// nothing.
func ruleResultKindSet(r *Run) {
	p := r.P
	fn := p.Method(enginePkg, "Engine", "evalExpr")
	o := r.Ob("PV-WHOLE", "logqlengine.(*Engine).evalExpr result kind", "every successful evaluation returns a response whose kind is set (streams / scalar / vector / matrix), empty results included")
	if fn == nil {
		o.Fail("-", "method not found")
		return
	}
	w := &feWalker{Fn: fn, MaxPath: 4000}
	n := 0
	bad := false
	for _, e := range w.Run() {
		if e.Cut || len(e.Results) != 2 {
			continue
		}
		if isErr, known := endReturnsError(e); !known || isErr {
			continue
		}
		n++
		typed := false
		for _, c := range e.State.calls {
			callee := staticCallee(c.Call)
			if callee != nil && strings.HasPrefix(callee.Name(), "Set") && strings.HasSuffix(callee.Name(), "Result") {
				typed = true
			}
		}
		// or the whole response comes from another evaluator
		v := e.Results[0].V
		if c, _, ok := extractOf(v); ok && staticCallee(c) != nil && isFirstParty(pkgPathOf(staticCallee(c))) {
			typed = true
		}
		if c, ok := v.(*ssa.Call); ok && staticCallee(c) != nil && isFirstParty(pkgPathOf(staticCallee(c))) {
			typed = true
		}
		if !typed {
			bad = true
			o.Fail(r.pos(e.Term.Pos()), "evalExpr returns successfully without setting the kind of the response (neither a Set...Result call nor a response taken from an evaluator): an empty result is reported as an unsupported one")
			break
		}
	}
	if n == 0 {
		o.Fail(r.pos(fn.Pos()), "no successful path found")
		return
	}
	if !bad {
		o.OK("%d successful path(s), each with a typed response", n).At(r.pos(fn.Pos()))
	}
}

// ruleIsInstant (FE-BOOL): a query is an instant query iff it has a single evaluation point AND
// no step: Start == End && Step == 0. A range query whose start and end coincide (--since=0s)
// is still a range query: it must not get the instant look-back.
func ruleIsInstant(r *Run) {
	p := r.P
	fn := p.Method(enginePkg, "EvalParams", "IsInstant")
	o := r.Ob("FE-BOOL", "logqlengine.EvalParams.IsInstant", "IsInstant() == (Start == End && Step == 0)")
	if fn == nil {
		o.Fail("-", "method not found")
		return
	}
	var eqSE, eqStep *ssa.BinOp
	allInstrs(fn, func(in ssa.Instruction) {
		b, ok := in.(*ssa.BinOp)
		if !ok || (b.Op != token.EQL && b.Op != token.NEQ) {
			return
		}
		fx, _, okx := loadOfField(b.X)
		fy, _, oky := loadOfField(b.Y)
		if okx && oky && ((fx == "Start" && fy == "End") || (fx == "End" && fy == "Start")) {
			eqSE = b
		}
		if okx && fx == "Step" && isZeroConst(b.Y) {
			eqStep = b
		}
		if oky && fy == "Step" && isZeroConst(b.X) {
			eqStep = b
		}
	})
	if eqSE == nil || eqStep == nil {
		o.Fail(r.pos(fn.Pos()), "IsInstant consults Start==End: %v, Step==0: %v (both are needed)", eqSE != nil, eqStep != nil)
		return
	}
	bad := false
	for _, se := range []bool{false, true} {
		for _, st := range []bool{false, true} {
			w := &feWalker{Fn: fn, Assume: map[ssa.Value]constant.Value{
				eqSE:   constant.MakeBool(se == (eqSE.Op == token.EQL)),
				eqStep: constant.MakeBool(st == (eqStep.Op == token.EQL)),
			}}
			for _, e := range w.Run() {
				if len(e.Results) != 1 || !e.Results[0].Known {
					bad = true
					o.Undecide(r.pos(fn.Pos()), "result not determined by the two comparisons")
					continue
				}
				if got := constant.BoolVal(e.Results[0].C); got != (se && st) {
					bad = true
					o.Fail(r.pos(fn.Pos()), "Start==End is %v and Step==0 is %v: IsInstant() = %v, expected %v", se, st, got, se && st)
				}
			}
		}
	}
	if !bad {
		o.OK("Start == End && Step == 0").At(r.pos(fn.Pos()))
	}
}

// ruleScannerIdentRune (FE-CLASS): which characters the LogQL scanner glues into one identifier.
// A replacement of the scanner's default must still let an identifier start with a letter or an
// underscore and continue with letters, digits and underscores (a dot only where dots are
// allowed, never first): sanitised label names such as `_hidden` or `_0day` have to lex as one
// identifier.
func ruleScannerIdentRune(r *Run) {
	p := r.P
	fn := p.Func(lexerPkg, "Tokenize")
	o := r.Ob("FE-CLASS", "lexer.Tokenize IsIdentRune", "an identifier may start with an ASCII letter or `_` and continue with letters, digits and `_`; `.` only after the first character and only where dots are allowed")
	if fn == nil {
		o.Fail("-", "function not found")
		return
	}
	var closures []*ssa.Function
	var stores []*ssa.Store
	allInstrs(fn, func(in ssa.Instruction) {
		st, ok := in.(*ssa.Store)
		if !ok {
			return
		}
		if f, _, ok := fieldNameOf(st.Addr); !ok || f != "IsIdentRune" {
			return
		}
		if c := funcOfValue(stripTypeOnly(st.Val)); c != nil && c.Blocks != nil && len(c.Params) == 2 {
			closures = append(closures, c)
			stores = append(stores, st)
		}
	})
	if len(closures) == 0 {
		o.OK("the scanner's default identifier rule is used (Go identifiers: letter or _ first)").At(r.pos(fn.Pos()))
		o.Trivial = true
		return
	}
	bad := false
	for ci, cl := range closures {
		// installed only where dots are allowed?
		onlyDots := false
		for _, f := range factsAt(stores[ci].Block()) {
			if fl, _, ok := loadOfField(f.Cond); ok && fl == "AllowDots" && f.Truth {
				onlyDots = true
			}
		}
		// a dots flag consulted inside the closure
		var dotLoads []ssa.Value
		allInstrs(cl, func(in ssa.Instruction) {
			if u, ok := in.(*ssa.UnOp); ok {
				if fl, _, ok := loadOfField(u); ok && fl == "AllowDots" {
					dotLoads = append(dotLoads, u)
				}
			}
		})
		hook := func(w *feWalker, st *feState, v ssa.Value) (constant.Value, bool) {
			c, ok := v.(*ssa.Call)
			if !ok || len(c.Call.Args) != 1 {
				return nil, false
			}
			callee := staticCallee(c)
			if callee == nil || callee.Pkg == nil || callee.Pkg.Pkg.Path() != "unicode" {
				return nil, false
			}
			a, ok := w.eval(st, c.Call.Args[0])
			if !ok {
				return nil, false
			}
			ch, _ := constant.Int64Val(constant.ToInt(a))
			switch callee.Name() {
			case "IsLetter":
				return constant.MakeBool(unicode.IsLetter(rune(ch))), true
			case "IsDigit":
				return constant.MakeBool(unicode.IsDigit(rune(ch))), true
			}
			return nil, false
		}
		dotsCases := []bool{true}
		if len(dotLoads) > 0 && !onlyDots {
			dotsCases = []bool{false, true}
		}
		for _, dots := range dotsCases {
			for _, tc := range []struct {
				ch    rune
				first bool
				want  bool
			}{{'a', true, true}, {'Z', false, true}, {'_', true, true}, {'_', false, true}, {'7', true, false}, {'7', false, true}, {'.', true, false}, {'.', false, dots}, {'-', false, false}, {' ', false, false}} {
				i := int64(1)
				if tc.first {
					i = 0
				}
				assume := map[ssa.Value]constant.Value{cl.Params[0]: constant.MakeInt64(int64(tc.ch)), cl.Params[1]: constant.MakeInt64(i)}
				for _, dl := range dotLoads {
					assume[dl] = constant.MakeBool(dots)
				}
				w := &feWalker{Fn: cl, Assume: assume, Hook: hook}
				for _, e := range w.Run() {
					if len(e.Results) != 1 || !e.Results[0].Known {
						bad = true
						o.Undecide(r.pos(cl.Pos()), "the verdict for %q (first=%v) is not determined", tc.ch, tc.first)
						continue
					}
					if got := constant.BoolVal(e.Results[0].C); got != tc.want {
						bad = true
						o.Fail(r.pos(cl.Pos()), "%q as %s character of an identifier (dots allowed=%v): accepted=%v, expected %v", tc.ch, map[bool]string{true: "the first", false: "a later"}[tc.first], dots, got, tc.want)
					}
				}
			}
		}
	}
	if !bad {
		o.OK("%d replacement rule(s); letters and _ start an identifier, digits continue it, dots only where allowed", len(closures)).At(r.pos(fn.Pos()))
	}
}

// ruleNoSumOfSquares (PV-NUM): variance is not computed from a running sum of raw squares. An
// aggregator that accumulates v*v and later subtracts the squared sum loses every significant
// digit when the values are large and close together (catastrophic cancellation: negative
// variances, NaN deviations); the streaming aggregators update a mean and a centred second
// moment instead. Structural clause only: it says nothing about the accuracy of what is used.
func ruleNoSumOfSquares(r *Run) {
	p := r.P
	o := r.Ob("PV-NUM", "logqlmetric aggregators", "no aggregator accumulates the raw square of its input (sum of squares): variance and deviation are computed from centred moments")
	n := 0
	bad := false
	for _, fn := range p.SrcFuncs() {
		if pkgPathOf(fn) != modPath+"/"+metricPkg || fn.Signature.Recv() == nil || len(fn.Params) < 2 {
			continue
		}
		if fn.Name() != "Apply" && fn.Name() != "Aggregate" {
			continue
		}
		n++
		isInput := func(v ssa.Value) bool {
			v = stripConv(unspill(v))
			for _, q := range fn.Params[1:] {
				if v == ssa.Value(q) {
					return true
				}
			}
			// a point's Value inside a batch loop
			if f, _, ok := loadOfField(v); ok && f == "Value" {
				return true
			}
			return false
		}
		allInstrs(fn, func(in ssa.Instruction) {
			st, ok := in.(*ssa.Store)
			if !ok {
				return
			}
			if _, base, ok := fieldNameOf(st.Addr); !ok || originValue(base) != ssa.Value(fn.Params[0]) && base != ssa.Value(fn.Params[0]) {
				return
			}
			add, ok := st.Val.(*ssa.BinOp)
			if !ok || add.Op != token.ADD {
				return
			}
			for _, side := range []ssa.Value{add.X, add.Y} {
				if m, ok := side.(*ssa.BinOp); ok && m.Op == token.MUL && isInput(m.X) && isInput(m.Y) && stripConv(unspill(m.X)) == stripConv(unspill(m.Y)) {
					bad = true
					o.Fail(r.pos(st.Pos()), "%s accumulates the raw square of its input: a variance computed from it cancels catastrophically for large, close values", shortFuncName(fn))
				}
			}
		})
	}
	if n == 0 {
		o.Fail("-", "no aggregator update methods found")
		return
	}
	if !bad {
		o.OK("%d update method(s), none accumulates v*v", n)
	}
}
