package main

import "strings"

func init() {
	register(&PropSpec{
		ID:          "C10",
		Technique:   "map-order taint analysis into the grouping-key hash, injectivity rule on the key encoder's write sequence, provenance pairing of every keyed store/lookup, freshness of mutated sets",
		Explanation: "Decides the structural clauses behind 'a series is identified by its label set': the grouping key cannot depend on map iteration order, its encoding is injective over label sets (up to 64-bit hash collisions), every keyed store/lookup uses Key() of the label set stored with it (the grouped one where a grouper exists), key and reported labels enumerate the same visible labels, by/without sets are never shared mutably.",
		Decided: []string{
			"AF-SET (shared with C11): By consults the inherited by-set with a nil test; PV-API: label values are copied with AsString",
			"PV-PAIR: a sample's label set is newAggregatedLabels(set of the entry just read, by, without) on every emitting path",
			"MO: no map iteration order reaches aggregatedLabels.Key or LabelSet.String",
			"PV-INJKEY: every variable string the key encoder writes is quoted or terminated by a byte that cannot occur in it",
			"PV-PAIR: fillWindow, vectorAgg*, binOp, samplesSet, ReadStepResponse key their maps by Key() of the stored/matched (grouped) label set",
			"CH-SIB / FE-BOOL: Key and AsLokiAPI both go through forEach, whose visibility table is without-hides / non-nil-by-restricts",
			"PV-FRESH: helpers that insert into a by/without set get nil or a clone",
			"PV-WRITEBACK for struct-valued map elements; PV-WHOLE: the step's samples of the aggregating iterators are only reset and appended to",
			"PV-PAIR: the sample operation of a binary operation is applied only to a pair matched by grouping key; CH-SIB: all AggregatedLabels implementers agree on the key of the empty set; PV-RESET with the tightened construction-mode exemption; step stamped",
			"PV-FRESH: per-step group tables; CH-SIB: Key and AsLokiAPI add no condition of their own to the shared enumeration",
			"PV-PAIR rangeAggIterator.Next output: the reported series are walked from a key list computed from the window in the same step",
			"PV-RESET literalBinOpIterator.Next: accepted results reach r.Samples and the list is cut/set to them",
			"PV-ALIAS label values shared with the record's attribute maps are never rewritten in place; PV-PAIR every reported record carries its own stream's resource attributes",
			"line_format result is a copy; eviction at every step; no unsafe.String; LabelSet.Range visits every label",
			"MO over the JSON path table; merge iterator rules (totals are conserved)",
			"AF build range bounds: the sample query covers every step's window, offset included",
			"PV-CONST the sample selector asks for the evaluator's bounds with no entry limit (a limit would empty the later windows)",
		},
		NotDecided: []string{"64-bit hash collisions between distinct encodings", "count conservation as arithmetic"},
		Rules: func(r *Run) {
			ruleValueStrGuarded(r)
			ruleByNesting(r)
			ruleMO(r, 10, "aggregatedLabels", "newAggregatedLabels", "logqlmetric", "sampleIterator", "LabelSet).Range")
			ruleKeyEncoders(r)
			ruleKeyedStores(r)
			ruleFreshMaps(r)
			ruleGrouperSelection(r)
			ruleSampleLabelSet(r)
			ruleMapCopyWriteBack(r, []string{metricPkg, enginePkg}, 2)
			ruleStepSamplesAccumulate(r, []string{"vectorAggIterator", "vectorAggHeapIterator", "rangeAggIterator"})
			ruleBinOpPairsMatched(r)
			ruleStepBuffers(r) // per-step conservation: a reported step holds only what this step computed
			ruleKeySiblings(r)
			rulePerStepGroupTables(r, []string{"vectorAggIterator", "vectorAggHeapIterator", "binOpIterator"})
			ruleRangeWindow(r) // every series of the window is reported: the key list is computed from the window in this step
			ruleLiteralBinOpWritesBack(r)
			ruleNoInPlaceValueMutation(r, []string{enginePkg, metricPkg}, 2)
			ruleRecordOrigin(r)    // a series keeps the labels of its own container
			ruleTemplateBinding(r) // labels cut out of a formatted line own their bytes
			ruleNoUnsafeStrings(r, []string{enginePkg, dockerlogPkg})
			ruleLabelSetRangeWhole(r)
			ruleMO(r, 10, "jsonexpr")
			ruleMergeIter(r)
			ruleJSONExprsAllPaths(r)
			ruleRangeBuild(r)    // samples are fetched for [start-offset-range, end-offset]: the first windows are not empty by construction
			ruleSamplerParams(r) // the sample stream of a range aggregation is never cut by the entry limit
		},
	})
}

// ruleSamplerParams reuses the C09 sample-selector rule.
func ruleSamplerParams(r *Run) {
	sub := newRun(r.Prop, r.P)
	ruleRangeDetails(sub)
	for _, o := range sub.Obls {
		if o.Rule == "PV-CONST" && strings.Contains(o.Construct, "sampleSelector") {
			r.Obls = append(r.Obls, o)
		}
	}
}
