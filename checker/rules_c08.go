package main

import (
	"fmt"
	"go/constant"
	"go/token"
	"strings"

	"golang.org/x/tools/go/ssa"
)

// spillParam: if v is the local cell a parameter was spilled into, return the parameter.
func spillParam(v ssa.Value) ssa.Value {
	if al, ok := v.(*ssa.Alloc); ok {
		if st := storesTo(al); len(st) == 1 {
			if prm, ok := st[0].Val.(*ssa.Parameter); ok {
				return prm
			}
		}
	}
	return v
}

// mustPassThrough: every path from `from` to `to` goes through `via`.
func mustPassThrough(from, to, via *ssa.BasicBlock) bool {
	if from == via {
		return true
	}
	seen := map[*ssa.BasicBlock]bool{via: true}
	var dfs func(b *ssa.BasicBlock) bool
	dfs = func(b *ssa.BasicBlock) bool {
		if seen[b] {
			return false
		}
		seen[b] = true
		for _, s := range b.Succs {
			if s == to {
				return true
			}
			if dfs(s) {
				return true
			}
		}
		return false
	}
	return !dfs(from)
}

// mustPassThroughUnless is mustPassThrough that ignores the edges `exempt` accepts.
func mustPassThroughUnless(from, to, via *ssa.BasicBlock, exempt func(from, to *ssa.BasicBlock) bool) bool {
	if from == via {
		return true
	}
	seen := map[*ssa.BasicBlock]bool{via: true}
	var dfs func(b *ssa.BasicBlock) bool
	dfs = func(b *ssa.BasicBlock) bool {
		if seen[b] {
			return false
		}
		seen[b] = true
		for _, s := range b.Succs {
			if exempt(b, s) {
				continue
			}
			if s == to {
				return true
			}
			if dfs(s) {
				return true
			}
		}
		return false
	}
	return !dfs(from)
}

// callLoop finds a `for X.M(...) { }` loop: a block ending in `if call goto body else done`.
type callLoop struct {
	Header, Body, Done *ssa.BasicBlock
	Call               *ssa.Call
	Blocks             map[*ssa.BasicBlock]bool
}

func callLoops(fn *ssa.Function, pred func(c *ssa.Call) bool) []*callLoop {
	var out []*callLoop
	for _, b := range fn.Blocks {
		if len(b.Instrs) == 0 {
			continue
		}
		ifi, ok := b.Instrs[len(b.Instrs)-1].(*ssa.If)
		if !ok {
			continue
		}
		cond := ifi.Cond
		neg := false
		if u, ok := cond.(*ssa.UnOp); ok && u.Op == token.NOT {
			cond, neg = u.X, true
		}
		c, ok := cond.(*ssa.Call)
		if !ok || !pred(c) {
			continue
		}
		body, done := b.Succs[0], b.Succs[1]
		if neg {
			body, done = done, body
		}
		// must be a loop: header reachable from body
		if !blockReaches(body, b) {
			continue
		}
		out = append(out, &callLoop{Header: b, Body: body, Done: done, Call: c, Blocks: naturalLoop(b)})
	}
	return out
}

// cmpOrientation analyses a comparator func(a, b T) int that returns
// cmp.Compare(a.f, b.f): returns the field and whether it sorts ascending.
func cmpOrientation(fn *ssa.Function) (field string, asc bool, ok bool) {
	if fn == nil || len(fn.Params) != 2 {
		return "", false, false
	}
	rets := returnsOf(fn)
	if len(rets) != 1 {
		return "", false, false
	}
	c, isCall := rets[0].Results[0].(*ssa.Call)
	if !isCall {
		return "", false, false
	}
	callee := c.Common().StaticCallee()
	if callee == nil || cname(callee) != "Compare" && (callee.Origin() == nil || callee.Origin().Name() != "Compare") {
		return "", false, false
	}
	pk := callee.Pkg
	if pk == nil && callee.Origin() != nil {
		pk = callee.Origin().Pkg
	}
	if pk == nil || pk.Pkg.Path() != "cmp" {
		return "", false, false
	}
	f0, b0, ok0 := loadOfField(c.Call.Args[0])
	f1, b1, ok1 := loadOfField(c.Call.Args[1])
	if !ok0 || !ok1 || f0 != f1 {
		return "", false, false
	}
	p0, p1 := spillParam(embeddedRoot(b0)), spillParam(embeddedRoot(b1))
	switch {
	case p0 == ssa.Value(fn.Params[0]) && p1 == ssa.Value(fn.Params[1]):
		return f0, true, true
	case p0 == ssa.Value(fn.Params[1]) && p1 == ssa.Value(fn.Params[0]):
		return f0, false, true
	}
	return "", false, false
}

func funcOfValue(v ssa.Value) *ssa.Function {
	switch x := v.(type) {
	case *ssa.Function:
		return x
	case *ssa.MakeClosure:
		f, _ := x.Fn.(*ssa.Function)
		return f
	}
	return nil
}

// ruleGroupEntries: partition into streams (C08; conservation also C01).
func ruleGroupEntries(r *Run) {
	p := r.P
	fn := p.Func(enginePkg, "groupEntries")
	anchor := r.Ob("ANCHOR", "logqlengine.groupEntries", "anchor function resolves")
	anchor.Trivial = true
	if fn == nil || len(fn.Params) != 1 {
		anchor.Fail("-", "function not found")
		return
	}
	anchor.OK("resolved").At(r.pos(fn.Pos()))
	engine := modPath + "/" + enginePkg
	loops := callLoops(fn, func(c *ssa.Call) bool { return callIs(c, engine, "(*entryIterator).Next") })
	ol := r.Ob("PV-ONCE", "logqlengine.groupEntries loop", "every entry produced by the iterator is appended to exactly one stream and the stream is stored back")
	if len(loops) != 1 {
		ol.Fail(r.pos(fn.Pos()), "expected one `for iter.Next(&e)` loop, found %d", len(loops))
		return
	}
	loop := loops[0]
	entryCell := loop.Call.Call.Args[1] // &e
	isEntryField := func(v ssa.Value, name string) bool {
		f, base, ok := loadOfField(v)
		return ok && f == name && base == entryCell
	}
	isEntryFieldAddr := func(v ssa.Value, name string) bool {
		f, base, ok := fieldNameOf(v)
		return ok && f == name && base == entryCell
	}
	// map updates in the loop
	var mus []*ssa.MapUpdate
	for b := range loop.Blocks {
		for _, in := range b.Instrs {
			if mu, ok := in.(*ssa.MapUpdate); ok {
				mus = append(mus, mu)
			}
		}
	}
	if len(mus) != 1 {
		ol.Fail(r.pos(loop.Call.Pos()), "expected exactly one map store in the loop, found %d", len(mus))
		return
	}
	mu := mus[0]
	good := true
	if !mustPassThrough(loop.Body, loop.Header, mu.Block()) {
		good = false
		ol.Fail(r.pos(mu.Pos()), "the stream is not stored back into the map on every iteration: entries appended on the other paths are lost")
	}
	// key = e.set.String()
	ok1 := r.Ob("PV-PAIR", "logqlengine.groupEntries key", "the stream key is the label set's String() of the entry whose labels the stream carries")
	kc, isCall := mu.Key.(*ssa.Call)
	if !isCall || !callIs(kc, engine, "(*LabelSet).String") || !isEntryFieldAddr(kc.Call.Args[0], "set") {
		ok1.Fail(r.pos(mu.Pos()), "map key is %s, expected e.set.String()", describe(mu.Key, 0))
	} else {
		// lookup with the same key and map; on the miss edge labels come from the same e.set
		var lk *ssa.Lookup
		for b := range loop.Blocks {
			for _, in := range b.Instrs {
				if l, ok := in.(*ssa.Lookup); ok && l.X == mu.Map && l.Index == mu.Key && l.CommaOk {
					lk = l
				}
			}
		}
		var asLoki ssa.CallInstruction
		for b := range loop.Blocks {
			for _, in := range b.Instrs {
				if c, ok := in.(ssa.CallInstruction); ok && callIs(c, engine, "(*LabelSet).AsLokiAPI") {
					asLoki = c
				}
			}
		}
		switch {
		case lk == nil:
			ok1.Fail(r.pos(mu.Pos()), "no comma-ok lookup of the same map with the same key")
		case asLoki == nil || !isEntryFieldAddr(asLoki.Common().Args[0], "set"):
			ok1.Fail(r.pos(mu.Pos()), "the new stream's labels are not taken from e.set.AsLokiAPI()")
		default:
			// AsLokiAPI under the miss edge
			var okv ssa.Value
			for _, ref := range *lk.Referrers() {
				if e, ok := ref.(*ssa.Extract); ok && e.Index == 1 {
					okv = e
				}
			}
			if b, known := knownBoolAt(asLoki.Block(), okv); !known || b {
				ok1.Fail(r.pos(asLoki.Pos()), "stream labels are (re)assigned on a path that is not the lookup-miss edge")
			} else {
				ok1.OK("key = e.set.String(); labels = e.set.AsLokiAPI() on the miss edge").At(r.pos(mu.Pos()))
			}
		}
	}
	// value: local stream cell whose Values was appended with LogEntry{T: e.ts, V: e.line}
	u, isLoad := mu.Value.(*ssa.UnOp)
	var cell ssa.Value
	if isLoad && u.Op == token.MUL {
		cell = u.X
	}
	var appendCall *ssa.Call
	if cell != nil {
		for b := range loop.Blocks {
			for _, in := range b.Instrs {
				st, ok := in.(*ssa.Store)
				if !ok {
					continue
				}
				f, base, ok := fieldNameOf(st.Addr)
				if !ok || f != "Values" || base != cell {
					continue
				}
				if c, ok := st.Val.(*ssa.Call); ok {
					if bi, ok := c.Call.Value.(*ssa.Builtin); ok && bi.Name() == "append" && instrDominates(st, mu) {
						if f0, b0, ok := loadOfField(c.Call.Args[0]); ok && f0 == "Values" && b0 == cell {
							appendCall = c
						}
					}
				}
			}
		}
	}
	if appendCall == nil {
		good = false
		ol.Fail(r.pos(mu.Pos()), "the stored stream is not `stream` with Values = append(stream.Values, entry)")
	} else {
		// the appended element
		orole := r.Ob("PV-ROLE", "logqlengine.groupEntries entry", "the appended entry has T = e.ts and V = e.line")
		tOK, vOK := false, false
		if sl, ok := appendCall.Call.Args[1].(*ssa.Slice); ok {
			if arr, ok := sl.X.(*ssa.Alloc); ok {
				for _, ref := range *arr.Referrers() {
					ia, ok := ref.(*ssa.IndexAddr)
					if !ok {
						continue
					}
					for _, st := range storesTo(ia) {
						if lu, ok := st.Val.(*ssa.UnOp); ok {
							if lit, ok := lu.X.(*ssa.Alloc); ok {
								for _, ref2 := range *lit.Referrers() {
									fa, ok := ref2.(*ssa.FieldAddr)
									if !ok {
										continue
									}
									n, _, _ := fieldNameOf(fa)
									for _, st2 := range storesTo(fa) {
										switch n {
										case "T":
											if isEntryField(stripConv(st2.Val), "ts") {
												tOK = true
											}
										case "V":
											if isEntryField(st2.Val, "line") {
												vOK = true
											}
										}
									}
								}
							}
						}
					}
				}
			}
		}
		if tOK && vOK {
			orole.OK("LogEntry{T: e.ts, V: e.line}").At(r.pos(appendCall.Pos()))
		} else {
			orole.Fail(r.pos(appendCall.Pos()), "appended entry: T from e.ts=%v, V from e.line=%v", tOK, vOK)
		}
	}
	if good {
		ol.OK("one map store per iteration, of the stream with the entry appended").At(r.pos(mu.Pos()))
	}

	// sort: every success return returns maps.Values(m) after a loop sorting each stream's Values ascending by T
	os := r.Ob("PV-ORDER", "logqlengine.groupEntries sort", "on every path to a successful return each stream's entries have been sorted by timestamp ascending")
	var sortLoop *rangeLoop
	var sortCall *ssa.Call
	for _, l := range rangeIndexLoops(fn) {
		for b := range l.Blocks {
			for _, in := range b.Instrs {
				if c, ok := in.(*ssa.Call); ok {
					if callee := c.Common().StaticCallee(); callee != nil && callee.Origin() != nil && callee.Origin().Name() == "SortFunc" || callee != nil && cname(callee) == "SortFunc" {
						sortLoop, sortCall = l, c
					}
				}
			}
		}
	}
	// the sorting loop may live in a helper that receives the streams: sortStreams(result)
	var sortVia *ssa.Call // the call in groupEntries that runs the helper
	sortArg := -1
	if sortLoop == nil {
		for _, c := range callsIn(fn) {
			cc, ok := c.(*ssa.Call)
			h := staticCallee(c)
			if !ok || h == nil || h.Blocks == nil || pkgOfFunc(h) != pkgOfFunc(fn) {
				continue
			}
			for _, l := range rangeIndexLoops(h) {
				for b := range l.Blocks {
					for _, in := range b.Instrs {
						if sc, ok := in.(*ssa.Call); ok {
							if callee := sc.Common().StaticCallee(); callee != nil && (cname(callee) == "SortFunc" || callee.Origin() != nil && callee.Origin().Name() == "SortFunc") {
								for k, hp := range h.Params {
									if originValue(l.X) == ssa.Value(hp) {
										sortLoop, sortCall, sortVia, sortArg = l, sc, cc, k
									}
								}
							}
						}
					}
				}
			}
		}
	}
	nSucc := 0
	sgood := true
	mapForm := false
	for _, ret := range returnsOf(fn) {
		if len(ret.Results) != 2 || !isNilConst(ret.Results[1]) {
			continue
		}
		nSucc++
		res := stripConv(ret.Results[0])
		vc, ok := res.(*ssa.Call)
		if !ok {
			// collected by hand: one loop over the stream map that sorts each stream's Values and
			// appends the stream to the (initially empty) result
			if why := groupEntriesCollectLoop(fn, mu.Map, res, ret); why == "" {
				mapForm = true
				continue
			} else if why != "-" {
				sgood = false
				os.Fail(r.pos(ret.Pos()), "%s", why)
				continue
			}
		}
		if !ok || vc.Common().StaticCallee() == nil || cname(vc.Common().StaticCallee()) != "Values" || vc.Call.Args[0] != mu.Map {
			sgood = false
			os.Fail(r.pos(ret.Pos()), "success return yields %s, not the values of the stream map", describe(res, 0))
			continue
		}
		if sortVia != nil {
			if sortArg >= len(sortVia.Call.Args) || stripConv(sortVia.Call.Args[sortArg]) != ssa.Value(vc) {
				sgood = false
				os.Fail(r.pos(ret.Pos()), "no loop over the returned streams that sorts each stream's Values")
				continue
			}
			helperOK := instrDominates(sortVia, ret)
			for _, hr := range returnsOf(sortLoop.Header.Parent()) {
				if !sortLoop.Header.Dominates(hr.Block()) {
					helperOK = false
				}
			}
			if !helperOK {
				sgood = false
				os.Fail(r.pos(ret.Pos()), "a success return is reachable without passing the sorting loop")
				continue
			}
		} else {
			if sortLoop == nil || sortLoop.X != ssa.Value(vc) {
				sgood = false
				os.Fail(r.pos(ret.Pos()), "no loop over the returned streams that sorts each stream's Values")
				continue
			}
			if !sortLoop.Header.Dominates(ret.Block()) {
				sgood = false
				os.Fail(r.pos(ret.Pos()), "a success return is reachable without passing the sorting loop")
				continue
			}
		}
		if len(sortLoop.earlyExits()) > 0 {
			sgood = false
			os.Fail(r.pos(ret.Pos()), "the sorting loop can be left before every stream is sorted")
		}
		// sorted slice is elem.Values, comparator ascending on T
		f, base, ok := loadOfField(sortCall.Call.Args[0])
		elemOK := false
		if ok && f == "Values" {
			if al, ok := base.(*ssa.Alloc); ok {
				for _, st := range storesTo(al) {
					if lu, ok := st.Val.(*ssa.UnOp); ok && isIndexOf(lu.X, sortLoop) {
						elemOK = true
					}
				}
			} else if isIndexOf(base, sortLoop) {
				elemOK = true
			}
		}
		if !elemOK {
			sgood = false
			os.Fail(r.pos(sortCall.Pos()), "SortFunc is applied to %s, not to the ranged stream's Values", describe(sortCall.Call.Args[0], 0))
		}
		fld, asc, ok := cmpOrientation(funcOfValue(sortCall.Call.Args[1]))
		if !ok {
			sgood = false
			os.Undecide(r.pos(sortCall.Pos()), "comparator is not of the form cmp.Compare(a.f, b.f)")
		} else if fld != "T" || !asc {
			sgood = false
			os.Fail(r.pos(sortCall.Pos()), "comparator orders by %s ascending=%v, expected T ascending", fld, asc)
		}
	}
	// entries are only ever added: every store to a stream's Values is an append (composite
	// literal stores of a new stream aside); nothing removes or merges collected entries
	allInstrs(fn, func(in ssa.Instruction) {
		st, ok := in.(*ssa.Store)
		if !ok {
			return
		}
		f, base, ok := fieldNameOf(st.Addr)
		if !ok || f != "Values" || typeKey(derefType(base.Type())) != "Stream" {
			return
		}
		v := unspill(st.Val)
		if c, ok := v.(*ssa.Call); ok && isAppend(c) {
			return
		}
		if isNilConst(v) {
			return
		}
		if _, ok := v.(*ssa.MakeSlice); ok {
			return
		}
		sgood = false
		os.Fail(r.pos(st.Pos()), "a stream's Values are replaced by %s: collected entries may be removed or merged", describe(v, 0))
	})
	if nSucc == 0 {
		os.Fail(r.pos(fn.Pos()), "no success return found")
	} else if sgood && mapForm && sortCall == nil {
		os.OK("%d success return(s) of the streams collected by one loop over the stream map that sorts each stream's Values by T ascending", nSucc).At(r.pos(fn.Pos()))
	} else if sgood {
		os.OK("%d success return(s) dominated by the per-stream sort (cmp.Compare(a.T, b.T))", nSucc).At(r.pos(sortCall.Pos()))
	}
}

// groupEntriesCollectLoop: res (returned at ret) is built by one `for _, s := range m` loop that, in
// every iteration, sorts s.Values ascending by T and appends s to an accumulator that starts empty.
// "" when so, "-" when res is not of this form at all, otherwise what is wrong with it.
func groupEntriesCollectLoop(fn *ssa.Function, m ssa.Value, res ssa.Value, ret *ssa.Return) string {
	var nx *ssa.Next
	allInstrs(fn, func(in ssa.Instruction) {
		if rg, ok := in.(*ssa.Range); ok && (rg.X == m || describe(rg.X, 0) == describe(m, 0)) {
			for _, ref := range *rg.Referrers() {
				if n, ok := ref.(*ssa.Next); ok {
					nx = n
				}
			}
		}
	})
	if nx == nil {
		return "-"
	}
	blocks := naturalLoop(nx.Block())
	var elem ssa.Value
	for _, ref := range *nx.Referrers() {
		if e, ok := ref.(*ssa.Extract); ok && e.Index == 2 {
			elem = e
		}
	}
	if elem == nil {
		return "-"
	}
	isElem := func(v ssa.Value) bool {
		v = unspill(v)
		if v == elem {
			return true
		}
		if u, ok := v.(*ssa.UnOp); ok && u.Op == token.MUL {
			if al, ok := u.X.(*ssa.Alloc); ok {
				sts := storesTo(al)
				return len(sts) == 1 && sts[0].Val == elem
			}
		}
		return false
	}
	// the returned value: a phi at the loop header of {empty make, append in the loop}
	nApp := 0
	var app *ssa.Call
	for _, lv := range phiLeaves(res) {
		switch x := lv.(type) {
		case *ssa.MakeSlice:
			if c, ok := constOf(x.Len); !ok || c.Kind() != constant.Int || constant.Sign(c) != 0 {
				return "the collected result does not start empty"
			}
		case *ssa.Const:
			if x.Value != nil {
				return "-"
			}
		case *ssa.Call:
			if !isAppend(x) || !blocks[x.Block()] {
				return "-"
			}
			nApp++
			app = x
		default:
			return "-"
		}
	}
	if nApp != 1 {
		return "-"
	}
	// appended: exactly the ranged stream
	one := false
	if sl, ok := app.Call.Args[1].(*ssa.Slice); ok {
		if al, ok := sl.X.(*ssa.Alloc); ok {
			n := 0
			for _, ref := range *al.Referrers() {
				if ia, ok := ref.(*ssa.IndexAddr); ok {
					for _, st := range storesTo(ia) {
						n++
						one = isElem(st.Val)
					}
				}
			}
			one = one && n == 1
		}
	}
	if !one {
		return "the loop over the stream map appends " + describe(app.Call.Args[1], 0) + ", not the ranged stream"
	}
	var sortCall *ssa.Call
	for b := range blocks {
		for _, in := range b.Instrs {
			if c, ok := in.(*ssa.Call); ok {
				if callee := c.Common().StaticCallee(); callee != nil && (cname(callee) == "SortFunc" || callee.Origin() != nil && callee.Origin().Name() == "SortFunc") {
					sortCall = c
				}
			}
		}
	}
	if sortCall == nil {
		return "no loop over the returned streams that sorts each stream's Values"
	}
	// every iteration sorts and appends: the loop has no branch besides its header, no early exit
	for b := range blocks {
		if b == nx.Block() {
			continue
		}
		if _, ok := b.Instrs[len(b.Instrs)-1].(*ssa.If); ok {
			return "the sort or the collection of a stream is conditional"
		}
		for _, sc := range b.Succs {
			if !blocks[sc] {
				return "the collecting loop can be left before every stream is sorted"
			}
		}
	}
	if !nx.Block().Dominates(ret.Block()) {
		return "a success return is reachable without passing the sorting loop"
	}
	f, base, ok := loadOfField(sortCall.Call.Args[0])
	if !ok || f != "Values" || !(isElem(base) || func() bool {
		al, ok := base.(*ssa.Alloc)
		if !ok {
			return false
		}
		sts := storesTo(al)
		return len(sts) == 1 && sts[0].Val == elem
	}()) {
		return "SortFunc is applied to " + describe(sortCall.Call.Args[0], 0) + ", not to the ranged stream's Values"
	}
	fld, asc, ok := cmpOrientation(funcOfValue(sortCall.Call.Args[1]))
	if !ok {
		return "comparator is not of the form cmp.Compare(a.f, b.f)"
	}
	if fld != "T" || !asc {
		return fmt.Sprintf("comparator orders by %s ascending=%v, expected T ascending", fld, asc)
	}
	return ""
}

// ruleLabelSetString: the stream key is order-independent and injective.
func ruleLabelSetString(r *Run) {
	p := r.P
	fn := p.Method(enginePkg, "LabelSet", "String")
	ruleInjectiveEncoder(r, fn, "logqlengine.(*LabelSet).String", "strings", "Builder", true)
	o := r.Ob("MO-SORT", "logqlengine.(*LabelSet).String order", "the key lists labels in sorted name order: the keys are sorted before the loop that writes them, and every label is written")
	if fn == nil {
		o.Fail("-", "method not found")
		return
	}
	var keys *ssa.Call
	for _, c := range callsIn(fn) {
		if call, ok := c.(*ssa.Call); ok && isMapsKeysValues(call) {
			keys = call
		}
	}
	var loop *rangeLoop
	for _, l := range rangeIndexLoops(fn) {
		if keys != nil && l.X == ssa.Value(keys) {
			loop = l
		}
	}
	if keys == nil || loop == nil {
		o.Fail(r.pos(fn.Pos()), "maps.Keys call=%v, range over it=%v", keys != nil, loop != nil)
		return
	}
	if f, base, ok := loadOfField(keys.Call.Args[0]); !ok || f != "labels" || base != ssa.Value(fn.Params[0]) {
		o.Fail(r.pos(keys.Pos()), "keys are taken from %s, not l.labels", describe(keys.Call.Args[0], 0))
		return
	}
	sorted := false
	for _, c := range callsIn(fn) {
		if call, ok := c.(*ssa.Call); ok && isSortCall(call) && call.Call.Args[0] == ssa.Value(keys) && instrDominates(call, loop.Len) {
			pkg, name := calleePkgName(call)
			if (pkg == "slices" || pkg == "golang.org/x/exp/slices") && name == "Sort" || pkg == "sort" && name == "Strings" {
				sorted = true
			}
		}
	}
	if !sorted {
		o.Fail(r.pos(loop.Len.Pos()), "the keys are not sorted (ascending) before they are written: equal label sets would produce different stream keys")
		return
	}
	if len(loop.earlyExits()) > 0 {
		o.Fail(r.pos(fn.Pos()), "the key loop can be left early: label sets that differ only in later labels would share a key")
		return
	}
	// value looked up by the ranged key
	o.OK("maps.Keys(l.labels) -> slices.Sort -> one name=quoted value per key").At(r.pos(fn.Pos()))
	// AsMap returns a fresh map
	am := p.Method(enginePkg, "LabelSet", "AsMap")
	of := r.Ob("PV-FRESH", "logqlengine.(*LabelSet).AsMap", "the label map handed to a stream is freshly built: it never aliases the per-record label set the iterator reuses")
	if am == nil {
		of.Fail("-", "method not found")
		return
	}
	good := true
	for _, ret := range returnsOf(am) {
		if _, ok := ret.Results[0].(*ssa.MakeMap); !ok {
			good = false
			of.Fail(r.pos(ret.Pos()), "AsMap returns %s, not a map made in this call", describe(ret.Results[0], 0))
		}
	}
	// every label is copied under its own name with its own value: m[string(k)] = v.AsString() for
	// the ranged (k, v)
	nUpd := 0
	allInstrs(am, func(in ssa.Instruction) {
		mu, ok := in.(*ssa.MapUpdate)
		if !ok {
			return
		}
		nUpd++
		if _, isIter := stripConv(mu.Key).(*ssa.Extract); !isIter {
			good = false
			of.Fail(r.pos(mu.Pos()), "a label is published under the name %s, not under its own name (the grouping key uses the raw name)", describe(mu.Key, 1))
		}
	})
	if nUpd != 1 {
		good = false
		of.Fail(r.pos(am.Pos()), "expected one map store per label, found %d", nUpd)
	}
	al := p.Method(enginePkg, "LabelSet", "AsLokiAPI")
	if al != nil {
		for _, ret := range returnsOf(al) {
			c, ok := stripConv(ret.Results[0]).(*ssa.Call)
			if !ok || !callIs(c, modPath+"/"+enginePkg, "(*LabelSet).AsMap") {
				good = false
				of.Fail(r.pos(ret.Pos()), "AsLokiAPI returns %s, not a conversion of AsMap()", describe(ret.Results[0], 0))
			}
		}
	}
	if good {
		of.OK("AsMap makes a new map; AsLokiAPI converts it").At(r.pos(am.Pos()))
	}
}

// ruleLimit: the entry limit.
func ruleLimit(r *Run) {
	p := r.P
	fn := p.Method(enginePkg, "entryIterator", "Next")
	o := r.Ob("FE-ORD", "logqlengine.(*entryIterator).Next limit", "iteration stops because of the limit iff limit > 0 and the number of emitted entries has reached it; a non-positive limit never stops it; the counter grows by one per emitted entry")
	if fn == nil {
		o.Fail("-", "method not found")
		return
	}
	// atoms: loads of i.limit and i.entries in comparisons
	var limitLoads, entriesLoads []ssa.Value
	var nextCall *ssa.Call
	lgrp := funcGroup(fn)
	for _, gf := range lgrp {
		if gf.Parent() != nil {
			continue
		}
		allInstrs(gf, func(in ssa.Instruction) {
			switch x := in.(type) {
			case *ssa.UnOp:
				if f, base, ok := loadOfField(x); ok && (base == ssa.Value(fn.Params[0]) || (gf != fn && originValueIn(base, lgrp) == ssa.Value(fn.Params[0]))) {
					if f == "limit" {
						limitLoads = append(limitLoads, x)
					}
					if f == "entries" {
						entriesLoads = append(entriesLoads, x)
					}
				}
			case *ssa.Call:
				if gf == fn && invokeIs(x, "Next") {
					nextCall = x
				}
			}
		})
	}
	if len(limitLoads) == 0 || len(entriesLoads) == 0 || nextCall == nil {
		o.Fail(r.pos(fn.Pos()), "limit/entries tests or the source Next call not found (limit loads=%d entries loads=%d)", len(limitLoads), len(entriesLoads))
		return
	}
	bad := false
	for _, c := range []struct {
		limit, entries int64
		stop           bool
	}{{-1, 0, false}, {-1, 5, false}, {0, 0, false}, {0, 7, false}, {3, 2, false}, {3, 3, true}, {3, 4, true}, {1, 0, false}, {1, 1, true}} {
		assume := map[ssa.Value]constant.Value{nextCall: constant.MakeBool(true)}
		for _, l := range limitLoads {
			assume[l] = constant.MakeInt64(c.limit)
		}
		for _, e := range entriesLoads {
			assume[e] = constant.MakeInt64(c.entries)
		}
		w := &feWalker{Fn: fn, Assume: assume, MaxPath: 2000, Inline: inlineHelpers(fn)}
		stopped := true
		for _, e := range w.Run() {
			// the path "stops because of the limit" if it returns false without having processed the record
			processed := false
			for _, cc := range e.State.calls {
				if callIs(cc.Call, modPath+"/"+enginePkg, "(*LabelSet).SetFromRecord") {
					processed = true
				}
			}
			if processed {
				stopped = false
			}
		}
		if stopped != c.stop {
			bad = true
			o.Fail(r.pos(fn.Pos()), "limit=%d entries=%d: iteration %s, expected it to %s", c.limit, c.entries, map[bool]string{true: "stops", false: "continues"}[stopped], map[bool]string{true: "stop", false: "continue"}[c.stop])
		}
	}
	// entries++ exactly once, dominating `return true`
	var incs []*ssa.Store
	allInstrs(fn, func(in ssa.Instruction) {
		if st, ok := in.(*ssa.Store); ok {
			if n, base, ok := fieldNameOf(st.Addr); ok && n == "entries" && base == ssa.Value(fn.Params[0]) {
				incs = append(incs, st)
			}
		}
	})
	if len(incs) != 1 {
		bad = true
		o.Fail(r.pos(fn.Pos()), "the entry counter is written at %d places, expected one increment", len(incs))
	} else {
		b, ok := incs[0].Val.(*ssa.BinOp)
		one := false
		if ok && b.Op == tokADD() {
			if c, ok := constInt(b.Y); ok && c == 1 {
				one = true
			}
		}
		if !one {
			bad = true
			o.Fail(r.pos(incs[0].Pos()), "the entry counter is not incremented by one (%s)", describe(incs[0].Val, 0))
		}
		// once counted, the entry is emitted: from the increment every path leads to `return true`
		// without starting another iteration (the counter counts emitted entries, not records read)
		{
			start := incs[0].Block()
			seen := map[*ssa.BasicBlock]bool{start: true}
			work := append([]*ssa.BasicBlock{}, start.Succs...)
			if ret, ok := start.Instrs[len(start.Instrs)-1].(*ssa.Return); ok {
				for _, lv := range phiLeaves(ret.Results[0]) {
					if !isConstBool(lv, true) {
						bad = true
						o.Fail(r.pos(ret.Pos()), "the counter is incremented on a path that emits nothing")
					}
				}
			}
			for len(work) > 0 {
				b := work[len(work)-1]
				work = work[:len(work)-1]
				if b == start || (b.Dominates(start) && b != start) {
					bad = true
					o.Fail(r.pos(incs[0].Pos()), "after the counter is incremented the loop can go on to another record: records that are read but not emitted (filtered out) are counted against the limit")
					break
				}
				if seen[b] {
					continue
				}
				seen[b] = true
				if ret, ok := b.Instrs[len(b.Instrs)-1].(*ssa.Return); ok {
					for _, lv := range phiLeaves(ret.Results[0]) {
						if !isConstBool(lv, true) {
							bad = true
							o.Fail(r.pos(ret.Pos()), "the counter is incremented on a path that emits nothing")
						}
					}
				}
				work = append(work, b.Succs...)
			}
		}
		for _, ret := range returnsOf(fn) {
			for _, lv := range phiLeaves(ret.Results[0]) {
				if isConstBool(lv, true) && !instrDominates(incs[0], ret) {
					bad = true
					o.Fail(r.pos(ret.Pos()), "an entry is emitted without counting it")
				}
				if isConstBool(lv, false) && incs[0].Block().Dominates(ret.Block()) {
					bad = true
					o.Fail(r.pos(ret.Pos()), "the counter is incremented on a path that emits nothing")
				}
			}
		}
	}
	if !bad {
		o.OK("stop iff limit > 0 && entries >= limit; entries++ once per emitted entry").At(r.pos(fn.Pos()))
	}
	// the limit reaches the iterator: evalLogExpr passes params.Limit, selectLogs stores params.Limit
	ol := r.Ob("PV-ROLE", "logqlengine limit plumbing", "the query's limit is the iterator's limit")
	sl := p.Method(enginePkg, "Engine", "selectLogs")
	el := p.Method(enginePkg, "Engine", "evalLogExpr")
	if sl == nil || el == nil {
		ol.Fail("-", "selectLogs/evalLogExpr not found")
		return
	}
	lbad := false
	found := false
	for _, ret := range returnsOf(sl) {
		for _, lv := range phiLeaves(ret.Results[0]) {
			if al, ok := stripTypeOnly(lv).(*ssa.Alloc); ok {
				fs := allocFieldStores(al)
				found = true
				if f, _, ok := loadOfField(fs["limit"]); !ok || f != "Limit" {
					lbad = true
					ol.Fail(r.pos(ret.Pos()), "the iterator's limit is %s, not params.Limit", describe(fs["limit"], 0))
				}
				if c, ok := constInt(fs["entries"]); fs["entries"] != nil && (!ok || c != 0) {
					lbad = true
					ol.Fail(r.pos(ret.Pos()), "the iterator's entry counter does not start at zero")
				}
			}
		}
	}
	for _, c := range callsIn(el) {
		if callIs(c, modPath+"/"+enginePkg, "(*Engine).selectLogs") {
			fs, ok := structLitStores(c.Common().Args[len(c.Common().Args)-1])
			if !ok {
				continue
			}
			if f, _, ok := loadOfField(fs["Limit"]); !ok || f != "Limit" {
				lbad = true
				ol.Fail(r.pos(c.Pos()), "evalLogExpr passes Limit = %s", describe(fs["Limit"], 0))
			}
		}
	}
	if !found {
		lbad = true
		ol.Fail(r.pos(sl.Pos()), "selectLogs does not return an entryIterator literal")
	}
	if !lbad {
		ol.OK("EvalParams.Limit -> selectLogsParams.Limit -> entryIterator.limit").At(r.pos(sl.Pos()))
	}
}

// embeddedRoot follows FieldAddr chains of embedded structs to the variable.
func embeddedRoot(v ssa.Value) ssa.Value {
	for {
		fa, ok := v.(*ssa.FieldAddr)
		if !ok {
			return v
		}
		v = fa.X
	}
}

// ruleSetClearedPerRecord: the per-record label set is emptied before a record's labels are added:
// SetFromRecord clears l.labels (itself or through a helper) before its first Set/SetAttrs, or the
// entry iterator clears the set inside its loop before SetFromRecord.
func ruleSetClearedPerRecord(r *Run) {
	p := r.P
	eng := modPath + "/" + enginePkg
	sf := p.Method(enginePkg, "LabelSet", "SetFromRecord")
	o := r.Ob("PV-ORDER", "logqlengine.(*LabelSet).SetFromRecord reset", "labels of one record never leak into the next: the label set is cleared before each record's labels are added")
	if sf == nil {
		o.Fail("-", "method not found")
		return
	}
	isClear := func(fn *ssa.Function, in ssa.Instruction, recv ssa.Value, grp []*ssa.Function) bool {
		onLabels := func(v ssa.Value) bool {
			f, base, ok := loadOfField(v)
			if !ok {
				f, base, ok = fieldNameOf(v)
			}
			return ok && f == "labels" && (base == recv || originValueIn(base, grp) == recv)
		}
		switch x := in.(type) {
		case *ssa.Call:
			if pk, nm := calleePkgName(x); (pk == "maps" || strings.HasSuffix(pk, "exp/maps")) && nm == "Clear" && len(x.Call.Args) == 1 && onLabels(x.Call.Args[0]) {
				return true
			}
			if bi, ok := x.Call.Value.(*ssa.Builtin); ok && bi.Name() == "clear" && len(x.Call.Args) == 1 && onLabels(x.Call.Args[0]) {
				return true
			}
		}
		return false
	}
	grp := funcGroup(sf)
	// path-based: before the first label is added on a path through SetFromRecord (helpers that take
	// part in the emptying are followed) the set was emptied - cleared, or replaced by a fresh map
	empties := func(f *ssa.Function) bool {
		found := false
		allInstrs(f, func(in ssa.Instruction) {
			if isClear(f, in, f.Params[0], []*ssa.Function{f}) {
				found = true
			}
		})
		return found
	}
	follow := map[*ssa.Function]bool{}
	for _, gf := range grp {
		if gf != sf && gf.Parent() == nil && len(gf.Params) > 0 && empties(gf) {
			follow[gf] = true
		}
	}
	w := &feWalker{Fn: sf, MaxPath: 20000, Inline: func(c *ssa.Function, d int) bool { return follow[c] && d <= 2 }}
	ends := w.Run()
	inSF := !w.Aborted && len(ends) > 0
	nAdds := 0
	for _, e := range ends {
		firstAdd := 1 << 30
		for _, c := range e.State.calls {
			if (callIs(c.Call, eng, "(*LabelSet).Set") || callIs(c.Call, eng, "(*LabelSet).SetAttrs")) && c.Call.Parent() == sf && c.Seq < firstAdd {
				firstAdd = c.Seq
			}
		}
		if firstAdd == 1<<30 {
			// a helper of SetFromRecord may add the labels
			for _, c := range e.State.calls {
				if h := staticCallee(c.Call); h != nil && h.Pkg == sf.Pkg && !follow[h] && c.Call.Parent() == sf && c.Seq < firstAdd {
					firstAdd = c.Seq
				}
			}
		}
		if firstAdd == 1<<30 {
			continue
		}
		nAdds++
		emptied := false
		for _, c := range e.State.calls {
			if c.Seq < firstAdd && isClear(c.Call.Parent(), c.Call, c.Call.Parent().Params[0], []*ssa.Function{c.Call.Parent()}) {
				emptied = true
			}
		}
		for _, st := range e.State.stores {
			if f, _, ok := fieldNameOf(st.Store.Addr); ok && f == "labels" && st.Seq < firstAdd {
				if _, fresh := st.Val.V.(*ssa.MakeMap); fresh {
					emptied = true
				}
			}
		}
		if !emptied {
			inSF = false
		}
	}
	if inSF && nAdds > 0 {
		o.OK("on every path the set is emptied (cleared or replaced) before the first label is added").At(r.pos(sf.Pos()))
		return
	}
	// otherwise the iterator must clear the set for every record, inside its loop
	nx := p.Method(enginePkg, "entryIterator", "Next")
	if nx != nil {
		ngrp := funcGroup(nx)
		for _, gf := range ngrp {
			for _, c := range callsIn(gf) {
				if !callIs(c, eng, "(*LabelSet).SetFromRecord") {
					continue
				}
				for _, k := range callsIn(gf) {
					callee := staticCallee(k)
					if callee == nil || callee.Pkg != sf.Pkg || len(k.Common().Args) == 0 || k.Common().Args[0] != c.Common().Args[0] {
						continue
					}
					clearsAll := false
					for _, hf := range funcGroup(callee) {
						allInstrs(hf, func(in ssa.Instruction) {
							if isClear(hf, in, callee.Params[0], funcGroup(callee)) {
								clearsAll = true
							}
						})
					}
					// same loop iteration: the clearing call dominates SetFromRecord and lies in every loop that contains it
					if clearsAll && instrDominates(k, c) {
						sameLoops := true
						for _, l := range rangeIndexLoops(gf) {
							if l.Blocks[c.Block()] && !l.Blocks[k.Block()] {
								sameLoops = false
							}
						}
						for _, b := range gf.Blocks {
							for _, sc := range b.Succs {
								if sc.Dominates(b) {
									nl := naturalLoop(sc)
									if nl[c.Block()] && !nl[k.Block()] {
										sameLoops = false
									}
								}
							}
						}
						if sameLoops {
							o.OK("the iterator clears the set before SetFromRecord for every record").At(r.pos(k.Pos()))
							return
						}
					}
				}
			}
		}
	}
	o.Fail(r.pos(sf.Pos()), "the label set is not cleared before a record's labels are added (neither in SetFromRecord nor per record in the entry iterator): labels of a rejected record leak into the next entry")
}
