package main

import (
	"go/constant"
	"go/token"
	"go/types"
	"sort"
	"strings"

	"golang.org/x/tools/go/ssa"
)

const stdcopyPath = "github.com/docker/docker/pkg/stdcopy"

func pkgConst(p *Program, path, name string) (constant.Value, bool) {
	pkg := p.ByPath[path]
	if pkg == nil || pkg.Types == nil {
		return nil, false
	}
	c, ok := pkg.Types.Scope().Lookup(name).(*types.Const)
	if !ok {
		return nil, false
	}
	return c.Val(), true
}

func intOf(v constant.Value) int64 {
	i, _ := constant.Int64Val(constant.ToInt(v))
	return i
}

// errSource describes where an error value comes from.
func errSourceCall(v ssa.Value) ssa.CallInstruction {
	switch x := v.(type) {
	case *ssa.Call:
		return x
	case *ssa.Extract:
		if c, ok := x.Tuple.(*ssa.Call); ok {
			return c
		}
	}
	return nil
}

// isSentinelCompare: cond is `x == pkg.Name` (load of a package-level var).
func isSentinelCompare(cond ssa.Value, x ssa.Value) (string, bool) {
	// errors.Is(err, Sentinel) (standard library or go-faster/errors) is the same test
	if c, ok := cond.(*ssa.Call); ok && len(c.Call.Args) == 2 {
		if pk, nm := calleePkgName(c); nm == "Is" && (pk == "errors" || pk == "github.com/go-faster/errors") {
			a0 := c.Call.Args[0]
			if a0 == x || stripTypeOnly(a0) == x {
				if u, ok := stripTypeOnly(c.Call.Args[1]).(*ssa.UnOp); ok && u.Op == token.MUL {
					if g, ok := u.X.(*ssa.Global); ok && g.Pkg != nil {
						return g.Pkg.Pkg.Path() + "." + globalName(g), true
					}
				}
			}
		}
		return "", false
	}
	b, ok := cond.(*ssa.BinOp)
	if !ok || b.Op != token.EQL {
		return "", false
	}
	other := b.Y
	if b.Y == x {
		other = b.X
	} else if b.X != x {
		return "", false
	}
	u, ok := other.(*ssa.UnOp)
	if !ok || u.Op != token.MUL {
		return "", false
	}
	g, ok := u.X.(*ssa.Global)
	if !ok || g.Pkg == nil {
		return "", false
	}
	return g.Pkg.Pkg.Path() + "." + globalName(g), true
}

// errPropOpts configures ruleErrProp for one function.
type errPropOpts struct {
	// AllowSentinel: callee (as rendered by calleeName) -> sentinels whose equality makes a clean end legal.
	AllowSentinel map[string][]string
	// SinkCalls: calls that consume the error legitimately (e.g. SetError): callee name suffixes.
	SinkCalls []string
	// ErrField: the error may be stored into this receiver field instead of being returned.
	ErrField string
	// Ignore: callee names whose errors need not propagate (with reason, echoed in notes).
	Ignore map[string]string
	// Inline: walk same-package helpers as part of the path.
	Inline bool
}

// ruleErrProp (ERR-PROP): on every feasible path on which an error returned by
// a call is known non-nil, the function ends in a failure exit (or hands the
// error to a listed sink).
func ruleErrProp(r *Run, fn *ssa.Function, opts errPropOpts) {
	name := shortFuncName(fn)
	o := r.Ob("ERR-PROP", name, "every error returned by a callee reaches a failure exit (no silent truncation)")
	if fn == nil || fn.Blocks == nil {
		o.Fail("-", "function not found")
		return
	}
	w := &feWalker{Fn: fn, MaxPath: 20000}
	if opts.Inline {
		w.Inline = inlineHelpers(fn)
	}
	ends := w.Run()
	if w.Aborted {
		o.Undecide(r.pos(fn.Pos()), "path enumeration aborted")
		return
	}
	// an error assigned to a variable and never looked at (a check deleted, the variable re-declared
	// by the next call): the extract exists - the blank identifier produces none - and has no use
	for _, c := range callsIn(fn) {
		call, ok := c.(*ssa.Call)
		if !ok {
			continue
		}
		tup, ok := call.Type().(*types.Tuple)
		if !ok || tup.Len() < 2 || !isErrorType(tup.At(tup.Len()-1).Type()) {
			continue
		}
		if _, ign := opts.Ignore[calleeName(call)]; ign {
			continue
		}
		for _, ref := range *call.Referrers() {
			if ex, ok := ref.(*ssa.Extract); ok && ex.Index == tup.Len()-1 && (ex.Referrers() == nil || len(*ex.Referrers()) == 0) {
				o.Fail(r.pos(call.Pos()), "the error of %s is assigned and never examined: a failure of the call goes unnoticed and its other results are used", calleeName(call))
			}
		}
	}
	nFaultPaths := 0
	sites := map[ssa.CallInstruction]bool{}
	for _, e := range ends {
		if e.Cut {
			continue
		}
		for _, f := range e.State.free {
			x, nn, ok := nilCheck(f.Cond)
			if !ok || !isErrorType(x.Type()) || nn != f.Truth {
				continue
			}
			src := errSourceCall(x)
			if src == nil {
				continue
			}
			cname := calleeName(src)
			if reason, ok := opts.Ignore[cname]; ok {
				_ = reason
				continue
			}
			nFaultPaths++
			sites[src] = true
			// failure exit?
			if isErr, known := endReturnsError(e); known && isErr {
				continue
			}
			if _, isPanic := e.Term.(*ssa.Panic); isPanic {
				continue
			}
			// the returned error is the same value (return x, err) -> non-nil on this path
			if ret, ok := e.Term.(*ssa.Return); ok && len(ret.Results) > 0 {
				last := e.Results[len(e.Results)-1].V
				if last == x {
					continue
				}
				// wrapped: errors.Wrap(x, ..)
				if c, ok := last.(*ssa.Call); ok && len(c.Call.Args) > 0 && c.Call.Args[0] == x && isErrorCtor(c) {
					continue
				}
			}
			// sink call with x as argument on this path
			sunk := false
			for _, c := range e.State.calls {
				cn := calleeName(c.Call)
				for _, s := range opts.SinkCalls {
					if strings.HasSuffix(cn, s) {
						for i, a := range c.Call.Common().Args {
							if a == x || (i < len(c.Args) && c.Args[i].V == x) {
								sunk = true
							}
						}
					}
				}
			}
			if sunk {
				continue
			}
			// stored into the error field
			if opts.ErrField != "" {
				for _, s := range e.State.stores {
					if n, _, ok := fieldNameOf(s.Store.Addr); ok && n == opts.ErrField && s.Store.Val == x {
						sunk = true
					}
				}
				if sunk {
					continue
				}
			}
			// sentinel idiom
			if allowed, ok := opts.AllowSentinel[cname]; ok {
				hit := false
				for _, f2 := range e.State.free {
					if s, ok := isSentinelCompare(f2.Cond, x); ok && f2.Truth {
						for _, a := range allowed {
							if a == s {
								hit = true
							}
						}
					}
				}
				if hit {
					continue
				}
			}
			o.Fail(r.pos(src.Pos()), "the error of %s is non-nil on a path that ends at %s without reporting it", cname, r.pos(e.Term.Pos()))
		}
	}
	r.count("errprop_fault_paths", nFaultPaths)
	if o.Status != Violated {
		o.OK("%d fallible call site(s), %d fault path(s) all end in a failure exit", len(sites), nFaultPaths).At(r.pos(fn.Pos()))
		if len(sites) == 0 {
			o.Trivial = true
		}
	}
}

func ruleDaemonLog(r *Run) {
	p := r.P
	dl := modPath + "/" + dockerlogPkg
	pn := p.Method(dockerlogPkg, "streamIter", "parseNext")
	anchor := r.Ob("ANCHOR", "dockerlog.(*streamIter).parseNext", "anchor function resolves")
	anchor.Trivial = true
	if pn == nil {
		anchor.Fail("-", "method not found")
		return
	}
	anchor.OK("resolved").At(r.pos(pn.Pos()))
	// the frame may be read by a helper method of the iterator (ff), called from parseNext (pn)
	ff := pn
	hasReadFull := func(f *ssa.Function) bool {
		for _, c := range callsIn(f) {
			if callIs(c, "io", "ReadFull") {
				return true
			}
		}
		return false
	}
	var ffCall *ssa.Call
	if !hasReadFull(pn) {
		for _, c := range callsIn(pn) {
			call, ok := c.(*ssa.Call)
			if !ok {
				continue
			}
			if callee := staticCallee(call); callee != nil && callee.Blocks != nil && callee.Pkg == pn.Pkg && hasReadFull(callee) && len(callee.Params) > 0 && call.Call.Args[0] == ssa.Value(pn.Params[0]) {
				ff, ffCall = callee, call
			}
		}
	}
	recv := ff.Params[0]
	// the iterator's methods and helpers that take the iterator: function -> its iterator parameter
	recvOf := map[*ssa.Function]ssa.Value{pn: pn.Params[0]}
	for changed := true; changed; {
		changed = false
		for g, rv := range recvOf {
			for _, c := range callsIn(g) {
				callee := staticCallee(c)
				if callee == nil || callee.Blocks == nil || callee.Pkg != pn.Pkg || recvOf[callee] != nil {
					continue
				}
				for i, a := range c.Common().Args {
					if i < len(callee.Params) && unspill(a) == rv {
						recvOf[callee] = callee.Params[i]
						changed = true
					}
				}
			}
		}
	}
	// functions that are handed the address of the iterator's header (methods of a header type)
	hdrOf := map[*ssa.Function]ssa.Value{}
	for g, rv := range recvOf {
		for _, c := range callsIn(g) {
			callee := staticCallee(c)
			if callee == nil || callee.Blocks == nil || callee.Pkg != pn.Pkg {
				continue
			}
			for i, a := range c.Common().Args {
				if f, base, ok := fieldNameOf(a); ok && f == "header" && base == rv && i < len(callee.Params) {
					hdrOf[callee] = callee.Params[i]
				}
			}
		}
	}
	var grp []*ssa.Function
	for g := range recvOf {
		grp = append(grp, g)
	}
	for g := range hdrOf {
		if recvOf[g] == nil {
			grp = append(grp, g)
		}
	}
	sort.Slice(grp, func(i, j int) bool { return grp[i].Pos() < grp[j].Pos() })
	parentOf := func(v ssa.Value) *ssa.Function {
		if in, ok := v.(ssa.Instruction); ok {
			return in.Parent()
		}
		return nil
	}
	isRecvFieldAddr := func(v ssa.Value, name string) bool {
		f, base, ok := fieldNameOf(v)
		return ok && f == name && (base == recv || base == recvOf[parentOf(v)])
	}
	// the header bytes: i.header, or the header parameter of a header method
	isHeaderAddr := func(v ssa.Value) bool {
		if f, base, ok := fieldNameOf(v); ok && f == "header" && (base == recv || base == recvOf[parentOf(v)]) {
			return true
		}
		if in, ok := v.(ssa.Instruction); ok {
			_ = in
		}
		for _, hp := range hdrOf {
			if v == hp {
				return true
			}
		}
		return false
	}
	isRecvFieldLoad := func(v ssa.Value, name string) bool {
		f, base, ok := loadOfField(v)
		return ok && f == name && (base == recv || base == recvOf[parentOf(v)])
	}
	// lift: the instruction of parseNext that stands for `in` (itself, or the call of the
	// helper that contains it). A helper instruction that must have run (before=true) is
	// only lifted when it dominates every return of its helper.
	lift := func(in ssa.Instruction, before bool) ssa.Instruction {
		for d := 0; d < 3 && in != nil && in.Parent() != pn; d++ {
			h := in.Parent()
			if before {
				for _, ret := range returnsOf(h) {
					if !instrDominates(in, ret) {
						return nil
					}
				}
			}
			var site ssa.Instruction
			n := 0
			for _, g := range grp {
				for _, c := range callsIn(g) {
					if staticCallee(c) == h {
						site = c
						n++
					}
				}
			}
			if n != 1 {
				return nil
			}
			in = site
		}
		return in
	}
	var pathEnds []*feEnd
	before := func(a, b ssa.Instruction) bool {
		if a == nil || b == nil {
			return false
		}
		if a.Parent() == b.Parent() {
			return instrDominates(a, b)
		}
		la, lb := lift(a, true), lift(b, false)
		if la != nil && lb != nil && la != lb && instrDominates(la, lb) {
			return true
		}
		// second derivation, on paths through parseNext and its helpers: wherever b happens, a
		// happened earlier on that path
		ca, oka := a.(ssa.CallInstruction)
		cb, okb := b.(ssa.CallInstruction)
		if !oka || !okb {
			return false
		}
		if pathEnds == nil {
			w := &feWalker{Fn: pn, Inline: inlineHelpers(pn), MaxPath: 5000}
			pathEnds = w.Run()
			if w.Aborted {
				return false
			}
		}
		sawB := false
		for _, e := range pathEnds {
			sa, sb := -1, -1
			for _, c := range e.State.calls {
				if c.Call == ca && sa < 0 {
					sa = c.Seq
				}
				if c.Call == cb && sb < 0 {
					sb = c.Seq
				}
			}
			if sb >= 0 {
				sawB = true
				if sa < 0 || sa > sb {
					return false
				}
			}
		}
		return sawB
	}
	// retLeaves: a value obtained from a helper of the group is resolved to what the helper returns
	var retLeaves func(v ssa.Value, depth int) []ssa.Value
	retLeaves = func(v ssa.Value, depth int) []ssa.Value {
		var out []ssa.Value
		for _, lv := range phiLeaves(stripConv(v)) {
			lv = stripConv(lv)
			var call *ssa.Call
			idx := 0
			if c, i, ok := extractOf(lv); ok {
				call, idx = c, i
			} else if c, ok := lv.(*ssa.Call); ok {
				call = c
			}
			if call != nil && depth < 3 {
				if h := staticCallee(call); h != nil && (recvOf[h] != nil || hdrOf[h] != nil) && h != pn {
					for _, ret := range returnsOf(h) {
						if idx < len(ret.Results) {
							out = append(out, retLeaves(ret.Results[idx], depth+1)...)
						}
					}
					continue
				}
			}
			out = append(out, lv)
		}
		return out
	}

	// ---- reference sibling constants ------------------------------------
	oc := r.Ob("PV-CONST", "dockerlog frame layout vs docker/pkg/stdcopy", "header length, stream-type offset, size offset/width/endianness and the daemon-error stream id equal those of Docker's own stdcopy writer")
	prefixLen, ok1 := pkgConst(p, stdcopyPath, "stdWriterPrefixLen")
	fdIndex, ok2 := pkgConst(p, stdcopyPath, "stdWriterFdIndex")
	sizeIndex, ok3 := pkgConst(p, stdcopyPath, "stdWriterSizeIndex")
	sysErr, ok4 := pkgConst(p, stdcopyPath, "Systemerr")
	if !(ok1 && ok2 && ok3 && ok4) {
		oc.Fail("-", "reference package %s or its constants could not be loaded", stdcopyPath)
		return
	}
	good := true
	// header array length
	var hdrLen int64 = -1
	if st := derefStruct(recv.Type()); st != nil {
		for i := 0; i < st.NumFields(); i++ {
			if st.Field(i).Name() == "header" {
				if arr, ok := st.Field(i).Type().Underlying().(*types.Array); ok {
					hdrLen = arr.Len()
				}
			}
		}
	}
	if hdrLen != intOf(prefixLen) {
		good = false
		oc.Fail(r.pos(pn.Pos()), "header buffer has length %d, stdcopy writes a %d byte prefix", hdrLen, intOf(prefixLen))
	}
	// ReadFull(i.rd, i.header[:])
	var readFull, copyN *ssa.Call
	for _, g := range grp {
		for _, c := range callsIn(g) {
			call, ok := c.(*ssa.Call)
			if !ok {
				continue
			}
			if callIs(call, "io", "ReadFull") {
				readFull = call
			}
			if callIs(call, "io", "CopyN") {
				copyN = call
			}
		}
	}
	for _, c := range callsIn(ff) {
		if call, ok := c.(*ssa.Call); ok && false {
			if callIs(call, "io", "ReadFull") {
				readFull = call
			}
			if callIs(call, "io", "CopyN") {
				copyN = call
			}
		}
	}
	oa := r.Ob("PV-API", "dockerlog.(*streamIter) stream reads", "the daemon stream is read only through io.ReadFull (whole header) and io.CopyN (exactly the frame size), so any fragmentation of reads yields the same bytes")
	if readFull == nil || copyN == nil {
		oa.Fail(r.pos(pn.Pos()), "io.ReadFull call=%v io.CopyN call=%v", readFull != nil, copyN != nil)
		return
	}
	agood := true
	if !isRecvFieldLoad(stripTypeOnly(readFull.Call.Args[0]), "rd") {
		agood = false
		oa.Fail(r.pos(readFull.Pos()), "io.ReadFull reads from %s", describe(readFull.Call.Args[0], 0))
	}
	if sl, ok := readFull.Call.Args[1].(*ssa.Slice); !ok || !isHeaderAddr(sl.X) || sl.Low != nil || sl.High != nil {
		agood = false
		oa.Fail(r.pos(readFull.Pos()), "io.ReadFull does not fill the whole header (%s)", describe(readFull.Call.Args[1], 0))
	}
	if !isRecvFieldLoad(stripTypeOnly(copyN.Call.Args[1]), "rd") {
		agood = false
		oa.Fail(r.pos(copyN.Pos()), "io.CopyN reads from %s", describe(copyN.Call.Args[1], 0))
	}
	if !isRecvFieldAddr(stripConv(copyN.Call.Args[0]), "buf") {
		agood = false
		oa.Fail(r.pos(copyN.Pos()), "io.CopyN writes to %s, not the frame buffer", describe(copyN.Call.Args[0], 0))
	}
	// every other use of the rd field in the package: only Close
	nUses := 0
	for _, f := range p.SrcFuncs() {
		if f.Pkg == nil || f.Pkg.Pkg.Path() != dl {
			continue
		}
		allInstrs(f, func(in ssa.Instruction) {
			fa, ok := in.(*ssa.FieldAddr)
			if !ok {
				return
			}
			n, base, ok := fieldNameOf(fa)
			if !ok || n != "rd" || typeKey(base.Type()) != "streamIter" {
				return
			}
			for _, ref := range *fa.Referrers() {
				switch x := ref.(type) {
				case *ssa.Store:
					// constructor store
				case *ssa.UnOp:
					var uses []ssa.Instruction
					for _, use := range *x.Referrers() {
						if ci, ok := use.(*ssa.ChangeInterface); ok {
							uses = append(uses, *ci.Referrers()...)
							continue
						}
						uses = append(uses, use)
					}
					for _, use := range uses {
						nUses++
						switch u := use.(type) {
						case *ssa.Call:
							if u == readFull || u == copyN {
								continue
							}
							if u.Call.IsInvoke() && u.Call.Method.Name() == "Close" {
								continue
							}
							agood = false
							oa.Fail(r.pos(u.Pos()), "%s uses the daemon stream in %s", shortFuncName(f), describe(u, 0))
						case *ssa.DebugRef:
						default:
							agood = false
							oa.Fail(r.pos(use.Pos()), "%s lets the daemon stream escape (%T)", shortFuncName(f), use)
						}
					}
				}
			}
		})
	}
	r.count("daemon_stream_uses", nUses)
	if agood {
		oa.OK("%d use(s): io.ReadFull(i.rd, i.header[:]), io.CopyN(&i.buf, i.rd, n), Close", nUses).At(r.pos(readFull.Pos()))
	}

	// typ = header[fdIndex]; frameSize = BigEndian.Uint32(header[sizeIndex:sizeIndex+4]); CopyN size = int64(frameSize)
	var typVal, sizeCall ssa.Value
	for _, g := range grp {
		allInstrs(g, func(in ssa.Instruction) {
			switch x := in.(type) {
			case *ssa.IndexAddr:
				if isHeaderAddr(x.X) {
					if idx, ok := constInt(x.Index); ok {
						if idx != intOf(fdIndex) {
							good = false
							oc.Fail(r.pos(x.Pos()), "stream type is read from header[%d], stdcopy writes it at [%d]", idx, intOf(fdIndex))
						}
						for _, ref := range *x.Referrers() {
							if u, ok := ref.(*ssa.UnOp); ok {
								typVal = u
							}
						}
					} else {
						good = false
						oc.Undecide(r.pos(x.Pos()), "non-constant header index")
					}
				}
			case *ssa.Call:
				if callee := x.Common().StaticCallee(); callee != nil && callee.Pkg != nil && callee.Pkg.Pkg.Path() == "encoding/binary" {
					sizeCall = x
					if !(strings.Contains(callee.String(), "bigEndian") && cname(callee) == "Uint32") {
						good = false
						oc.Fail(r.pos(x.Pos()), "frame size is decoded with %s, stdcopy writes binary.BigEndian.PutUint32", callee.String())
					}
					sl, ok := x.Call.Args[len(x.Call.Args)-1].(*ssa.Slice)
					if !ok || !isHeaderAddr(sl.X) {
						good = false
						oc.Fail(r.pos(x.Pos()), "frame size is not decoded from the header")
					} else {
						lo, okl := constInt(sl.Low)
						hi, okh := constInt(sl.High)
						if sl.Low == nil {
							lo, okl = 0, true
						}
						if !okl || !okh || lo != intOf(sizeIndex) || hi != intOf(sizeIndex)+4 {
							good = false
							oc.Fail(r.pos(x.Pos()), "frame size is decoded from header[%d:%d], stdcopy writes it at [%d:%d]", lo, hi, intOf(sizeIndex), intOf(sizeIndex)+4)
						}
					}
				}
			}
		})
	}
	sizeIs := func(v ssa.Value) bool {
		n := 0
		for _, lv := range retLeaves(v, 0) {
			if _, isC := lv.(*ssa.Const); isC {
				continue // the zero a helper returns beside an error / end of stream
			}
			if lv != sizeCall {
				return false
			}
			n++
		}
		return n > 0
	}
	if sizeCall == nil || typVal == nil {
		good = false
		oc.Fail(r.pos(pn.Pos()), "stream type or frame size read not found")
	} else if !sizeIs(copyN.Call.Args[2]) {
		good = false
		oc.Fail(r.pos(copyN.Pos()), "the payload read asks for %s bytes, not exactly the frame size", describe(copyN.Call.Args[2], 0))
	}
	// systemerr constant
	st := p.NamedType(dockerlogPkg, "stdType")
	if st == nil {
		good = false
		oc.Fail("-", "type stdType not found")
	} else {
		consts := enumConstants(st)
		for ours, theirs := range map[string]string{"systemerr": "Systemerr", "stdout": "Stdout", "stderr": "Stderr", "stdin": "Stdin"} {
			tv, ok := pkgConst(p, stdcopyPath, theirs)
			ov, ok2 := consts[ours]
			if !ok || !ok2 {
				if ours == "systemerr" {
					good = false
					oc.Fail("-", "constant %s not found", ours)
				}
				continue
			}
			if intOf(tv) != intOf(ov) {
				good = false
				oc.Fail(r.pos(pn.Pos()), "%s = %d but stdcopy.%s = %d", ours, intOf(ov), theirs, intOf(tv))
			}
		}
		_ = sysErr
	}
	if good {
		oc.OK("prefix %d, type at [%d], size big-endian uint32 at [%d:%d], payload read = int64(size), Systemerr=%d", intOf(prefixLen), intOf(fdIndex), intOf(sizeIndex), intOf(sizeIndex)+4, intOf(sysErr)).At(r.pos(pn.Pos()))
	}

	// ---- ordering: buf.Reset() before CopyN -------------------------------
	oo := r.Ob("PV-ORDER", "dockerlog.(*streamIter).parseNext buffer", "the frame buffer is reset before each payload read and the record body is a copy of it (String()), never an alias of the reused buffer")
	var reset ssa.CallInstruction
	var strCall *ssa.Call
	for _, g := range grp {
		for _, c := range callsIn(g) {
			if callIs(c, "bytes", "(*Buffer).Reset") && isRecvFieldAddr(c.Common().Args[0], "buf") {
				reset = c
			}
			if call, ok := c.(*ssa.Call); ok && callIs(call, "bytes", "(*Buffer).String") && isRecvFieldAddr(call.Call.Args[0], "buf") {
				strCall = call
			}
		}
	}
	// position of the frame read inside parseNext
	var frameRead ssa.Instruction = copyN
	if ffCall != nil {
		frameRead = ffCall
	}
	ogood := true
	if reset == nil || !before(reset, copyN) {
		ogood = false
		oo.Fail(r.pos(copyN.Pos()), "buf.Reset() does not precede the payload read on every path")
	}
	// the line parser: the same-package function that is given the frame's text and the record
	var pdl *ssa.Call
	pdlInput := -1
	for _, g := range grp {
		for _, c := range callsIn(g) {
			call, ok := c.(*ssa.Call)
			if !ok {
				continue
			}
			callee := staticCallee(call)
			if callee == nil || callee.Blocks == nil || callee.Pkg != pn.Pkg || recvOf[callee] != nil {
				continue
			}
			for i, a := range call.Call.Args {
				if strCall != nil && a == ssa.Value(strCall) {
					pdl, pdlInput = call, i
				}
			}
			if pdl == nil && callIs(call, dl, "parseDockerLine") {
				pdl = call
			}
		}
	}
	_ = frameRead
	if pdl == nil {
		ogood = false
		oo.Fail(r.pos(pn.Pos()), "the line parser (parseDockerLine) is not called with i.buf.String()")
	} else {
		if strCall == nil || pdlInput < 0 {
			ogood = false
			oo.Fail(r.pos(pdl.Pos()), "parseDockerLine is not given i.buf.String()")
		}
		if !before(copyN, pdl) {
			ogood = false
			oo.Fail(r.pos(pdl.Pos()), "the line is parsed before the payload is read")
		}
	}
	// no unsafe aliasing in the package
	if pkg := p.Pkg(dockerlogPkg); pkg != nil {
		for path := range pkg.Imports {
			if path == "unsafe" {
				ogood = false
				oo.Fail("-", "package dockerlog imports unsafe: a string aliasing the reused frame buffer would change after the next frame")
			}
		}
	}
	if ogood {
		oo.OK("Reset -> CopyN -> parseDockerLine(typ, i.buf.String(), r); no unsafe").At(r.pos(copyN.Pos()))
	}

	// ---- systemerr frames are errors ---------------------------------------
	os := r.Ob("FE-BOOL", "dockerlog.(*streamIter).parseNext systemerr", "a daemon error frame ends in an error, after its payload was read")
	sv, _ := enumConstants(st)["systemerr"]
	if typVal != nil && sv != nil {
		// find the converted typ value compared with systemerr
		var tag ssa.Value
		for _, gf := range funcGroup(pn) {
			allInstrs(gf, func(in ssa.Instruction) {
				if b, ok := in.(*ssa.BinOp); ok && b.Op == token.EQL {
					if c, ok := constOf(b.Y); ok && c.Kind() == constant.Int && intOf(c) == intOf(sv) && (stripConv(b.X) == typVal || typeKey(b.X.Type()) == "stdType") {
						tag = b.X
					}
				}
			})
		}
		if tag == nil {
			os.Fail(r.pos(pn.Pos()), "the stream type is never compared with systemerr")
		} else {
			w := &feWalker{Fn: pn, Assume: map[ssa.Value]constant.Value{tag: sv}, Inline: inlineHelpers(pn)}
			bad := false
			for _, e := range w.Run() {
				reachedCopy := false
				for _, c := range e.State.calls {
					if c.Call == ssa.CallInstruction(copyN) {
						reachedCopy = true
					}
				}
				copyFailed := false
				for _, f := range e.State.free {
					if x, nn, ok := nilCheck(f.Cond); ok && nn == f.Truth && errSourceCall(x) == ssa.CallInstruction(copyN) {
						copyFailed = true
					}
				}
				if !reachedCopy || copyFailed {
					continue
				}
				if isErr, known := endReturnsError(e); !(known && isErr) {
					bad = true
					os.Fail(r.pos(e.Term.Pos()), "a systemerr frame reaches a non-error return")
				}
			}
			if !bad {
				os.OK("typ == systemerr -> failure exit on every path past the payload read").At(r.pos(pn.Pos()))
			}
		}
	} else {
		os.Undecide(r.pos(pn.Pos()), "stream type value not identified")
	}

	// ---- faults -----------------------------------------------------------
	ruleErrProp(r, pn, errPropOpts{AllowSentinel: map[string][]string{"io.ReadFull": {"io.EOF", "io.ErrUnexpectedEOF"}}, Inline: true})
	pdlFn := p.Func(dockerlogPkg, "parseDockerLine")
	recIdx := 2
	if pdlFn == nil && pdl != nil {
		pdlFn = staticCallee(pdl) // renamed / re-parameterised: identified by its role
	}
	if pdlFn != nil && pdl != nil && staticCallee(pdl) == pdlFn {
		for i, a := range pdl.Call.Args {
			if _, isPtr := a.Type().Underlying().(*types.Pointer); isPtr && strings.HasSuffix(a.Type().String(), "Record") {
				recIdx = i
			}
		}
	}
	if pdlInput < 0 {
		pdlInput = 1
	}
	if pdlFn != nil && pdlInput < len(pdlFn.Params) && recIdx < len(pdlFn.Params) {
		ruleErrProp(r, pdlFn, errPropOpts{})
		ruleParseDockerLine(r, pdlFn, pdlInput, recIdx)
	} else {
		r.Ob("ANCHOR", "dockerlog.parseDockerLine", "anchor function resolves").Fail("-", "not found")
	}
	// the clean end is reachable only from the header read
	oe := r.Ob("ERR-PROP", "dockerlog.(*streamIter).parseNext clean end", "(false, nil) is returned only when the header read hit EOF/ErrUnexpectedEOF; (true, nil) only after header, payload and line parsing all succeeded")
	w := &feWalker{Fn: pn, Inline: inlineHelpers(pn)}
	ebad := false
	cleanSentinels := map[string]bool{}
	for _, e := range w.Run() {
		ret, ok := e.Term.(*ssa.Return)
		if !ok || len(ret.Results) != 2 {
			continue
		}
		if isErr, known := endReturnsError(e); known && isErr {
			continue
		}
		if isNilConst(e.Results[1].V) && e.Results[0].Known && !constant.BoolVal(e.Results[0].C) {
			// a clean end: which end-of-stream conditions lead here
			for _, f := range e.State.free {
				if !f.Truth {
					continue
				}
				for _, f2 := range e.State.free {
					if x, nn, ok := nilCheck(f2.Cond); ok && nn == f2.Truth && errSourceCall(x) == ssa.CallInstruction(readFull) {
						if sname, ok := isSentinelCompare(f.Cond, x); ok {
							cleanSentinels[sname] = true
						}
					}
				}
			}
		}
		if !isNilConst(e.Results[1].V) {
			ebad = true
			oe.Undecide(r.pos(ret.Pos()), "error result %s not classified", describe(e.Results[1].V, 0))
			continue
		}
		okConst := e.Results[0].Known
		okTrue := okConst && constant.BoolVal(e.Results[0].C)
		headerFailed := false
		anyFail := false
		for _, f := range e.State.free {
			if x, nn, ok := nilCheck(f.Cond); ok && isErrorType(x.Type()) && nn == f.Truth {
				anyFail = true
				if errSourceCall(x) == ssa.CallInstruction(readFull) {
					headerFailed = true
				}
			}
		}
		// `err == io.EOF` taken as true also says that the header read failed (the sentinel is
		// not nil), even when no `err != nil` test precedes it
		for _, f := range e.State.free {
			if !f.Truth {
				continue
			}
			if b, ok := f.Cond.(*ssa.BinOp); ok && b.Op == token.EQL {
				for _, x := range []ssa.Value{b.X, b.Y} {
					if isErrorType(x.Type()) && errSourceCall(x) == ssa.CallInstruction(readFull) {
						if sname, ok := isSentinelCompare(f.Cond, x); ok {
							headerFailed, anyFail = true, true
							if !okTrue {
								cleanSentinels[sname] = true
							}
						}
					}
				}
			}
		}
		calledParse := false
		for _, c := range e.State.calls {
			if pdl != nil && c.Call == ssa.CallInstruction(pdl) {
				calledParse = true
			}
		}
		switch {
		case !okConst:
			ebad = true
			oe.Undecide(r.pos(ret.Pos()), "ok result is not constant")
		case okTrue && (anyFail || !calledParse):
			ebad = true
			oe.Fail(r.pos(ret.Pos()), "returns (true, nil) on a path where a read failed or the line was not parsed")
		case !okTrue && !headerFailed:
			ebad = true
			oe.Fail(r.pos(ret.Pos()), "returns (false, nil) – a clean end of stream – on a path where the header read did not fail")
		}
	}
	// a stream that stops between frames (io.EOF) or inside a header (io.ErrUnexpectedEOF) ends
	// cleanly, as docker's own reader treats it: both conditions have a clean-end path
	for _, sname := range []string{"io.EOF", "io.ErrUnexpectedEOF"} {
		if !cleanSentinels[sname] {
			ebad = true
			oe.Fail(r.pos(pn.Pos()), "a header read that fails with %s does not end the stream cleanly (false, nil): a log cut at that point turns into an error", sname)
		}
	}
	if !ebad {
		oe.OK("clean end only from the header read, for io.EOF and io.ErrUnexpectedEOF; success only after all three steps").At(r.pos(pn.Pos()))
	}

	// ---- ERR-CHAIN: Next stores the error, Err returns it ------------------
	next := p.Method(dockerlogPkg, "streamIter", "Next")
	errM := p.Method(dockerlogPkg, "streamIter", "Err")
	och := r.Ob("ERR-CHAIN", "dockerlog.(*streamIter).Next/Err", "Next stores parseNext's error where Err returns it, returns parseNext's ok, and labels each record with the container's resource")
	if next == nil || errM == nil {
		och.Fail("-", "methods not found")
		return
	}
	cgood := true
	var pnCall *ssa.Call
	for _, c := range callsIn(next) {
		if call, ok := c.(*ssa.Call); ok && callIs(call, dl, "(*streamIter).parseNext") {
			pnCall = call
		}
	}
	if pnCall == nil {
		och.Fail(r.pos(next.Pos()), "Next does not call parseNext")
		return
	}
	stored := false
	allInstrs(next, func(in ssa.Instruction) {
		if st, ok := in.(*ssa.Store); ok {
			if n, base, ok := fieldNameOf(st.Addr); ok && n == "err" && base == ssa.Value(next.Params[0]) {
				if c, idx, ok := extractOf(st.Val); ok && c == pnCall && idx == 1 {
					stored = true
				}
			}
		}
	})
	if !stored {
		cgood = false
		och.Fail(r.pos(next.Pos()), "parseNext's error is not stored into i.err")
	}
	for _, ret := range returnsOf(next) {
		for _, lp := range phiLeavesWithPred(ret.Results[0], ret.Block()) {
			lv := lp.V
			if c, idx, ok := extractOf(lv); ok && c == pnCall && idx == 0 {
				continue
			}
			// `false` without reading, once a failure is recorded (the error stays)
			if isConstBool(lv, false) {
				blk := ret.Block()
				if lp.Pred != nil {
					blk = lp.Pred
				}
				facts := factsAt(blk)
				if lp.Pred != nil {
					if ef, ok := edgeFact(lp.Pred, lp.At); ok {
						facts = append(facts, normFact(ef))
					}
				}
				failed := false
				for _, f := range facts {
					if x, trueWhenNonNil, ok := nilCheck(f.Cond); ok && f.Truth == trueWhenNonNil {
						if fl, base, ok := loadOfField(x); ok && fl == "err" && (base == ssa.Value(next.Params[0]) || originValue(base) == ssa.Value(next.Params[0])) {
							failed = true
						}
					}
				}
				if failed {
					continue
				}
			}
			cgood = false
			och.Fail(r.pos(ret.Pos()), "Next returns %s, not parseNext's ok", describe(lv, 0))
		}
	}
	for _, ret := range returnsOf(errM) {
		if f, base, ok := loadOfField(ret.Results[0]); !ok || f != "err" || base != ssa.Value(errM.Params[0]) {
			cgood = false
			och.Fail(r.pos(ret.Pos()), "Err returns %s, not i.err", describe(ret.Results[0], 0))
		}
	}
	// record reset with ResourceAttrs: i.resource, passed to parseNext
	resOK := false
	allInstrs(next, func(in ssa.Instruction) {
		if st, ok := in.(*ssa.Store); ok {
			if n, _, ok := fieldNameOf(st.Addr); ok && n == "ResourceAttrs" {
				if f, base, ok := loadOfField(st.Val); ok && f == "resource" && base == ssa.Value(next.Params[0]) {
					resOK = true
				}
			}
		}
	})
	if !resOK {
		cgood = false
		och.Fail(r.pos(next.Pos()), "records are not labelled with i.resource")
	}
	if pnCall.Call.Args[1] != ssa.Value(next.Params[1]) {
		cgood = false
		och.Fail(r.pos(pnCall.Pos()), "parseNext fills %s, not the caller's record", describe(pnCall.Call.Args[1], 0))
	}
	if cgood {
		och.OK("ok, i.err = parseNext(r); Err() = i.err; ResourceAttrs = i.resource").At(r.pos(next.Pos()))
	}
}

func ruleParseDockerLine(r *Run, fn *ssa.Function, inputIdx, recIdx int) {
	o := r.Ob("PV-CONST", "dockerlog.parseDockerLine", "the line is cut at the first space: the part before is parsed as RFC3339Nano into both timestamps, the part after is the body, unaltered")
	good := true
	input, rec := fn.Params[inputIdx], fn.Params[recIdx]
	// the split at the first space, in one of two spellings:
	//   before, after, found := strings.Cut(input, " ")
	//   sep := strings.IndexByte(input, ' ') (or strings.Index(input, " ")); before = input[:sep]; after = input[sep+1:]; found = sep >= 0
	var cut, idx, tparse *ssa.Call
	grp := funcGroup(fn)
	for _, g := range grp {
		for _, c := range callsIn(g) {
			call, ok := c.(*ssa.Call)
			if !ok {
				continue
			}
			if g == fn && callIs(call, "strings", "Cut") {
				cut = call
			}
			if g == fn && (callIs(call, "strings", "IndexByte") || callIs(call, "strings", "Index") || callIs(call, "strings", "IndexRune")) {
				idx = call
			}
			if callIs(call, "time", "Parse") {
				tparse = call
			}
		}
	}
	if (cut == nil && idx == nil) || tparse == nil {
		o.Fail(r.pos(fn.Pos()), "strings.Cut call=%v time.Parse call=%v", cut != nil, tparse != nil)
		return
	}
	var isBefore, isAfter func(v ssa.Value) bool
	var found ssa.Value // true when the space exists
	foundWhen := true   // the truth value of `found` that means "exists"
	if cut != nil {
		if cut.Call.Args[0] != ssa.Value(input) {
			good = false
			o.Fail(r.pos(cut.Pos()), "strings.Cut is applied to %s", describe(cut.Call.Args[0], 0))
		}
		if sep, ok := constStr(cut.Call.Args[1]); !ok || sep != " " {
			good = false
			o.Fail(r.pos(cut.Pos()), "separator is %s, not a single space", describe(cut.Call.Args[1], 0))
		}
		ex := func(i int) ssa.Value {
			for _, ref := range *cut.Referrers() {
				if e, ok := ref.(*ssa.Extract); ok && e.Index == i {
					return e
				}
			}
			return nil
		}
		before, after := ex(0), ex(1)
		found = ex(2)
		isBefore = func(v ssa.Value) bool { return before != nil && v == before }
		isAfter = func(v ssa.Value) bool { return after != nil && v == after }
	} else {
		if idx.Call.Args[0] != ssa.Value(input) {
			good = false
			o.Fail(r.pos(idx.Pos()), "the first space is looked for in %s", describe(idx.Call.Args[0], 0))
		}
		sepOK := false
		if sp, ok := constStr(idx.Call.Args[1]); ok && sp == " " {
			sepOK = true
		}
		if k, ok := constInt(idx.Call.Args[1]); ok && k == ' ' {
			sepOK = true
		}
		if !sepOK {
			good = false
			o.Fail(r.pos(idx.Pos()), "separator is %s, not a single space", describe(idx.Call.Args[1], 0))
		}
		isBefore = func(v ssa.Value) bool {
			sl, ok := unspill(v).(*ssa.Slice)
			return ok && sl.X == ssa.Value(input) && sl.Low == nil && sl.High == ssa.Value(idx)
		}
		isAfter = func(v ssa.Value) bool {
			sl, ok := unspill(v).(*ssa.Slice)
			if !ok || sl.X != ssa.Value(input) || sl.High != nil {
				return false
			}
			b, ok := sl.Low.(*ssa.BinOp)
			if !ok || b.Op != token.ADD {
				return false
			}
			k, isK := constInt(b.Y)
			return b.X == ssa.Value(idx) && isK && k == 1
		}
		// found: a comparison of the index with 0 / -1 that decides a branch
		for _, ref := range *idx.Referrers() {
			b, ok := ref.(*ssa.BinOp)
			if !ok {
				continue
			}
			k, isK := constInt(b.Y)
			if b.X != ssa.Value(idx) || !isK {
				continue
			}
			switch {
			case b.Op == token.LSS && k == 0, b.Op == token.EQL && k == -1, b.Op == token.LEQ && k == -1:
				found, foundWhen = b, false
			case b.Op == token.GEQ && k == 0, b.Op == token.NEQ && k == -1, b.Op == token.GTR && k == -1:
				found, foundWhen = b, true
			}
		}
	}
	if layout, ok := constStr(tparse.Call.Args[0]); !ok || layout != "2006-01-02T15:04:05.999999999Z07:00" {
		good = false
		o.Fail(r.pos(tparse.Pos()), "timestamp layout is %s, not time.RFC3339Nano", describe(tparse.Call.Args[0], 0))
	}
	// the text handed to time.Parse: the part before the space, directly or through a helper's parameter
	th := tparse.Parent()
	var helperCall *ssa.Call
	if th == fn {
		if !isBefore(tparse.Call.Args[1]) {
			good = false
			o.Fail(r.pos(tparse.Pos()), "time.Parse is applied to %s, not the part before the first space", describe(tparse.Call.Args[1], 0))
		}
	} else {
		pi := -1
		for i, q := range th.Params {
			if spillParam(unspill(tparse.Call.Args[1])) == ssa.Value(q) || tparse.Call.Args[1] == ssa.Value(q) {
				pi = i
			}
		}
		for _, c := range callsIn(fn) {
			if call, ok := c.(*ssa.Call); ok && staticCallee(call) == th {
				helperCall = call
			}
		}
		if pi < 0 || helperCall == nil || pi >= len(helperCall.Call.Args) || !isBefore(helperCall.Call.Args[pi]) {
			good = false
			o.Fail(r.pos(tparse.Pos()), "time.Parse (in %s) is not applied to the part before the first space", shortFuncName(th))
		}
	}
	bodyOK, tsOK, otsOK := false, false, false
	var parsedTS ssa.Value
	for _, ref := range *tparse.Referrers() {
		if e, ok := ref.(*ssa.Extract); ok && e.Index == 0 {
			parsedTS = e
		}
	}
	var fromParsedIn func(f *ssa.Function, v ssa.Value, seen map[ssa.Value]bool) bool
	fromParsedIn = func(f *ssa.Function, v ssa.Value, seen map[ssa.Value]bool) bool {
		if v == nil || seen[v] {
			return false
		}
		seen[v] = true
		if v == parsedTS {
			return true
		}
		switch x := v.(type) {
		case *ssa.Extract:
			// the helper that parses the timestamp: its first result derives from the parsed time on
			// every successful return
			if c, ok := x.Tuple.(*ssa.Call); ok && helperCall != nil && c == helperCall && x.Index == 0 {
				okAll, n := true, 0
				for _, ret := range returnsOf(th) {
					if len(ret.Results) < 2 || !isNilConst(ret.Results[len(ret.Results)-1]) {
						continue
					}
					n++
					if !fromParsedIn(th, ret.Results[0], map[ssa.Value]bool{}) {
						okAll = false
					}
				}
				return okAll && n > 0
			}
		case *ssa.Call:
			callee := x.Common().StaticCallee()
			if callee != nil && cname(callee) == "NewTimestampFromTime" && len(x.Call.Args) == 1 {
				return fromParsedIn(f, x.Call.Args[0], seen)
			}
		case *ssa.Phi:
			for _, e := range x.Edges {
				if !fromParsedIn(f, e, seen) {
					return false
				}
			}
			return len(x.Edges) > 0
		case *ssa.UnOp:
			if x.Op == token.MUL {
				if fl, base, ok := fieldNameOf(x.X); ok && f == fn && base == ssa.Value(rec) && (fl == "ObservedTimestamp" || fl == "Timestamp") {
					// r.Timestamp = r.ObservedTimestamp
					for _, st := range allStoresToField(fn, rec, fl) {
						if fromParsedIn(f, st.Val, seen) {
							return true
						}
					}
				}
				if al, ok := x.X.(*ssa.Alloc); ok {
					for _, st := range storesTo(al) {
						if fromParsedIn(f, st.Val, seen) {
							return true
						}
					}
				}
			}
		}
		return false
	}
	fromParsed := func(v ssa.Value) bool { return fromParsedIn(fn, v, map[ssa.Value]bool{}) }
	allInstrs(fn, func(in ssa.Instruction) {
		st, ok := in.(*ssa.Store)
		if !ok {
			return
		}
		n, base, ok := fieldNameOf(st.Addr)
		if !ok || base != ssa.Value(rec) {
			return
		}
		switch n {
		case "Body":
			if isAfter(st.Val) {
				bodyOK = true
			} else {
				good = false
				o.Fail(r.pos(st.Pos()), "Body is %s, not the part after the first space", describe(st.Val, 0))
			}
		case "Timestamp":
			if fromParsed(st.Val) {
				tsOK = true
			} else {
				good = false
				o.Fail(r.pos(st.Pos()), "Timestamp is %s, not the parsed time", describe(st.Val, 0))
			}
		case "ObservedTimestamp":
			if fromParsed(st.Val) {
				otsOK = true
			} else {
				good = false
				o.Fail(r.pos(st.Pos()), "ObservedTimestamp is %s, not the parsed time", describe(st.Val, 0))
			}
		}
	})
	if !bodyOK || !tsOK || !otsOK {
		good = false
		o.Fail(r.pos(fn.Pos()), "fields set: Body=%v Timestamp=%v ObservedTimestamp=%v", bodyOK, tsOK, otsOK)
	}
	// no space -> error
	if found != nil {
		w := &feWalker{Fn: fn, Assume: map[ssa.Value]constant.Value{found: constant.MakeBool(!foundWhen)}}
		for _, e := range w.Run() {
			if isErr, known := endReturnsError(e); !(known && isErr) {
				good = false
				o.Fail(r.pos(e.Term.Pos()), "a line without a space does not end in an error")
			}
		}
	} else {
		good = false
		o.Fail(r.pos(fn.Pos()), "whether a space was found is never tested: a line without a space would be accepted")
	}
	if good {
		o.OK("split at the first space; Body = after; time.Parse(RFC3339Nano, before) -> Timestamp, ObservedTimestamp; no space -> error").At(r.pos(fn.Pos()))
	}
}

func allStoresToField(fn *ssa.Function, base ssa.Value, field string) []*ssa.Store {
	var out []*ssa.Store
	allInstrs(fn, func(in ssa.Instruction) {
		if st, ok := in.(*ssa.Store); ok {
			if n, b, ok := fieldNameOf(st.Addr); ok && n == field && b == base {
				out = append(out, st)
			}
		}
	})
	return out
}
