package main

// OWN – iterator/reader ownership: every opened resource is closed, returned
// or handed to a wrapper that is returned, on every feasible path.

import (
	"fmt"
	"go/token"
	"go/types"
	"sort"
	"strings"

	"golang.org/x/tools/go/ssa"
)

func hasMethod(t types.Type, name string) bool {
	for _, tt := range []types.Type{t, types.NewPointer(t)} {
		ms := types.NewMethodSet(tt)
		for i := 0; i < ms.Len(); i++ {
			if ms.At(i).Obj().Name() == name {
				return true
			}
		}
	}
	return false
}

// isResourceType: has Close() error and Next or Read (iterators, readers).
func isResourceType(t types.Type) bool {
	if t == nil {
		return false
	}
	if _, ok := t.Underlying().(*types.Slice); ok {
		return false
	}
	if tp, ok := t.(*types.TypeParam); ok {
		t = tp.Constraint()
	}
	return hasMethod(t, "Close") && (hasMethod(t, "Next") || hasMethod(t, "Read"))
}

func isResourceSlice(t types.Type) bool {
	s, ok := t.Underlying().(*types.Slice)
	return ok && isResourceType(s.Elem())
}

func resRoot(v ssa.Value) ssa.Value { return stripTypeOnly(v) }

// errorResultCell: the Alloc holding the named error result of fn (functions with defers).
func errorResultCell(fn *ssa.Function) *ssa.Alloc {
	for _, ret := range returnsOf(fn) {
		if len(ret.Results) == 0 {
			continue
		}
		last := ret.Results[len(ret.Results)-1]
		if u, ok := last.(*ssa.UnOp); ok && u.Op == token.MUL {
			if al, ok := u.X.(*ssa.Alloc); ok {
				return al
			}
		}
	}
	return nil
}

// closeEffects analyses a function (a deferred literal, a close helper): which
// of its free variables / parameters it calls Close on – directly or through a
// same-package helper it hands them to – whether that is guarded by "the
// function's error result is non-nil", and whether it closes every element
// of a slice.
type closeEffect struct {
	FreeVar int // index, -1 if none
	Param   int // index, -1 if none
	OnError bool
	// Guarded: the close runs only under a condition that is neither the cleanup's error cell nor
	// a nil test of the closed value (a stale copy of the error, a flag, ...): it cannot be
	// counted as closing the resource
	Guarded bool
	Loop    bool          // closes the elements of a slice
	LoopFn  *ssa.Function // function holding the loop
	Call    ssa.CallInstruction
}

// errRef reports whether a pointer value (free variable or parameter of fn)
// denotes the error result cell of the function whose cleanup this is.
func closeEffects(fn *ssa.Function, errRef func(v ssa.Value) bool, depth int) []closeEffect {
	var out []closeEffect
	if fn == nil || fn.Blocks == nil || depth > 2 {
		return nil
	}
	guardedOnErr := func(b *ssa.BasicBlock) bool {
		for _, f := range factsAt(b) {
			if x, nn, ok := nilCheck(f.Cond); ok && nn == f.Truth {
				if lu, ok := x.(*ssa.UnOp); ok && lu.Op == token.MUL && errRef != nil && errRef(lu.X) {
					return true
				}
			}
		}
		return false
	}
	target := func(v ssa.Value) (fvIdx, prmIdx int, loop bool) {
		fvIdx, prmIdx = -1, -1
		root := resRoot(v)
		if lu, ok := root.(*ssa.UnOp); ok && lu.Op == token.MUL {
			if ia, ok := lu.X.(*ssa.IndexAddr); ok {
				loop = true
				root = ia.X
			}
		}
		if lu, ok := root.(*ssa.UnOp); ok && lu.Op == token.MUL {
			root = lu.X
		}
		for i, f := range fn.FreeVars {
			if root == ssa.Value(f) {
				fvIdx = i
			}
		}
		for i, prm := range fn.Params {
			if root == ssa.Value(prm) {
				prmIdx = i
			}
		}
		return
	}
	otherGuard := func(b *ssa.BasicBlock) bool {
		for _, f := range factsAt(b) {
			if x, nn, ok := nilCheck(f.Cond); ok {
				if lu, ok := x.(*ssa.UnOp); ok && lu.Op == token.MUL && errRef != nil && errRef(lu.X) && nn == f.Truth {
					continue // the error cell itself
				}
				if !isErrorType(x.Type()) {
					continue // `if c != nil { c.Close() }`
				}
				return true // a nil test of some other error value (a copy taken earlier)
			}
			if _, isCmp := f.Cond.(*ssa.BinOp); isCmp {
				// loop bounds and the like are not guards of the close
				continue
			}
			return true
		}
		return false
	}
	for _, c := range callsIn(fn) {
		if recv, ok := methodCallNamed(c, "Close"); ok {
			fv, prm, loop := target(recv)
			if fv >= 0 || prm >= 0 {
				onErr := guardedOnErr(c.Block())
				out = append(out, closeEffect{FreeVar: fv, Param: prm, OnError: onErr, Guarded: !onErr && otherGuard(c.Block()), Loop: loop, LoopFn: fn, Call: c})
			}
			continue
		}
		callee := staticCallee(c)
		if callee == nil || callee.Blocks == nil || callee == fn {
			continue
		}
		pk := callee.Pkg
		if pk == nil || !isFirstParty(pk.Pkg.Path()) {
			continue
		}
		args := c.Common().Args
		sub := closeEffects(callee, func(v ssa.Value) bool {
			// a parameter of the helper is the error cell if the argument is
			for i, prm := range callee.Params {
				if v == ssa.Value(prm) && i < len(args) {
					a := args[i]
					if errRef != nil && errRef(a) {
						return true
					}
				}
			}
			return false
		}, depth+1)
		for _, se := range sub {
			if se.Param < 0 || se.Param >= len(args) {
				continue
			}
			fv, prm, loop := target(args[se.Param])
			if fv < 0 && prm < 0 {
				continue
			}
			onErr := se.OnError || guardedOnErr(c.Block())
			out = append(out, closeEffect{FreeVar: fv, Param: prm, OnError: onErr, Guarded: !onErr && (se.Guarded || otherGuard(c.Block())), Loop: se.Loop || loop, LoopFn: se.LoopFn, Call: se.Call})
		}
	}
	return out
}

// wrapsParam: does fn store parameter idx into (a field of) the value it returns?
func wrapsParam(fn *ssa.Function, idx int, depth int) bool {
	if fn == nil || fn.Blocks == nil || idx >= len(fn.Params) || depth > 3 {
		return false
	}
	prm := fn.Params[idx]
	for _, ret := range returnsOf(fn) {
		if len(ret.Results) == 0 {
			continue
		}
		for _, lv := range phiLeaves(ret.Results[0]) {
			if isNilConst(lv) {
				continue
			}
			w := resRoot(lv)
			if w == ssa.Value(prm) {
				return true
			}
			if al, ok := w.(*ssa.Alloc); ok {
				if storedInStruct(al, prm, 0) {
					return true
				}
			}
			// result of another wrapping callee
			var call *ssa.Call
			switch x := w.(type) {
			case *ssa.Call:
				call = x
			case *ssa.Extract:
				call, _ = x.Tuple.(*ssa.Call)
			}
			if call != nil {
				if callee := call.Common().StaticCallee(); callee != nil {
					for j, a := range call.Call.Args {
						if resRoot(a) == ssa.Value(prm) && wrapsParam(callee, j, depth+1) {
							return true
						}
					}
				}
			}
		}
	}
	return false
}

// storedInStruct: prm is stored into a field of the struct built in al, directly or inside a
// struct-valued field that is itself built in a local (operands := pair{a, b}; &iter{pair: operands}).
func storedInStruct(al *ssa.Alloc, prm ssa.Value, depth int) bool {
	if depth > 3 {
		return false
	}
	for _, v := range allocFieldStores(al) {
		if resRoot(v) == prm {
			return true
		}
		if u, ok := v.(*ssa.UnOp); ok && u.Op == token.MUL {
			if a2, ok := u.X.(*ssa.Alloc); ok && storedInStruct(a2, prm, depth+1) {
				return true
			}
		}
	}
	// fields of an embedded struct written in place: &iter{pair: pair{a, b}}
	for _, ref := range *al.Referrers() {
		if fa, ok := ref.(*ssa.FieldAddr); ok {
			for _, r2 := range *fa.Referrers() {
				if fa2, ok := r2.(*ssa.FieldAddr); ok {
					for _, st := range storesTo(fa2) {
						if resRoot(st.Val) == prm {
							return true
						}
					}
				}
			}
		}
	}
	return false
}

// isCloserAggregate: a named struct type that is not itself an iterator/reader but owns some and
// closes them: it has a Close method and at least one resource field.
func isCloserAggregate(t types.Type) bool {
	if p, ok := t.Underlying().(*types.Pointer); ok {
		t = p.Elem()
	}
	named, ok := types.Unalias(t).(*types.Named)
	if !ok || !hasMethod(types.NewPointer(named), "Close") {
		return false
	}
	st, ok := named.Underlying().(*types.Struct)
	if !ok {
		return false
	}
	for i := 0; i < st.NumFields(); i++ {
		if ft := st.Field(i).Type(); isResourceType(ft) || isResourceSlice(ft) {
			return true
		}
	}
	return false
}

type ownException struct {
	Fn, Callee, Reason string
}

var ownExceptions = []ownException{
	{"internal/logql/logqlengine/logqlmetric.build", "internal/logql/logqlengine/logqlmetric.LiteralBinOp", "LiteralBinOp fails only when buildSampleBinOp rejects the operator (logic/regex operators); the parser never produces those next to a bare literal (parseBinOp rejects scalars in logical operations), so the failure edge of this tail call is unreachable from parsed queries"},
}

// ownExceptionBroken: the premise of a recorded exception is re-checked on every run. For
// build -> LiteralBinOp: every failure exit of LiteralBinOp hands on the error of buildSampleBinOp
// (the operator table), nothing else can make it fail. "" when the premise holds.
func ownExceptionBroken(p *Program, ex ownException) string {
	i := strings.LastIndex(ex.Callee, ".")
	if i < 0 {
		return "callee not resolvable"
	}
	fn := p.Func(ex.Callee[:i], ex.Callee[i+1:])
	if fn == nil {
		return "callee " + ex.Callee + " not found"
	}
	var fromTable func(v ssa.Value, d int) bool
	fromTable = func(v ssa.Value, d int) bool {
		if d > 6 {
			return false
		}
		v = unspill(v)
		switch x := v.(type) {
		case *ssa.Extract:
			c, ok := x.Tuple.(*ssa.Call)
			return ok && callIs(c, modPath+"/"+metricPkg, "buildSampleBinOp")
		case *ssa.Call:
			if pk, nm := calleePkgName(x); strings.HasSuffix(pk, "go-faster/errors") && (nm == "Wrap" || nm == "Wrapf") && len(x.Call.Args) > 0 {
				return fromTable(x.Call.Args[0], d+1)
			}
		case *ssa.Phi:
			for _, e := range x.Edges {
				if !isNilConst(e) && !fromTable(e, d+1) {
					return false
				}
			}
			return true
		}
		return false
	}
	for _, ret := range returnsOf(fn) {
		if len(ret.Results) == 0 {
			continue
		}
		last := ret.Results[len(ret.Results)-1]
		if !isErrorType(last.Type()) || isNilConst(last) {
			continue
		}
		if !fromTable(last, 0) {
			return shortFuncName(fn) + " can fail with " + describe(last, 0) + ", which is not the operator table's error (" + p.Pos(ret.Pos()) + ")"
		}
	}
	return ""
}

func ruleOwnPath(r *Run, rels []string) {
	p := r.P
	nAcq := 0
	for _, fn := range p.SrcFuncs() {
		pkg := fn.Pkg
		if pkg == nil && fn.Parent() != nil {
			pkg = fn.Parent().Pkg
		}
		if pkg == nil {
			continue
		}
		in := false
		for _, rel := range rels {
			if pkg.Pkg.Path() == modPath+"/"+rel {
				in = true
			}
		}
		if !in {
			continue
		}
		// acquisitions in fn
		var acqs []*ssa.Call
		for _, c := range callsIn(fn) {
			call, ok := c.(*ssa.Call)
			if !ok {
				continue
			}
			if _, isClose := methodCallNamed(call, "Close"); isClose {
				continue
			}
			sig := call.Call.Signature()
			if sig.Results().Len() == 0 {
				continue
			}
			if !isResourceType(sig.Results().At(0).Type()) {
				continue
			}
			acqs = append(acqs, call)
		}
		if len(acqs) == 0 {
			continue
		}
		w := &feWalker{Fn: fn, MaxPath: 50000}
		ends := w.Run()
		errCell := errorResultCell(fn)
		for k, acq := range acqs {
			nAcq++
			construct := fmt.Sprintf("%s acquires %s#%d", shortFuncName(fn), calleeName(acq), k)
			o := r.Ob("OWN-PATH", construct, "the resource returned by this call is closed, returned, or wrapped into the returned iterator on every path (failure paths included)")
			o.At(r.pos(acq.Pos()))
			if w.Aborted {
				o.Undecide(r.pos(acq.Pos()), "path enumeration aborted")
				continue
			}
			var R, E ssa.Value
			if acq.Call.Signature().Results().Len() == 1 {
				R = acq
			} else {
				for _, ref := range *acq.Referrers() {
					if ex, ok := ref.(*ssa.Extract); ok {
						if ex.Index == 0 {
							R = ex
						} else if isErrorType(ex.Type()) {
							E = ex
						}
					}
				}
			}
			if R == nil {
				o.OK("result unused").Trivial = true
				continue
			}
			nPaths := 0
			for _, e := range ends {
				if e.Cut {
					continue
				}
				// did this path execute the acquisition?
				pos := -1
				for i, c := range e.State.calls {
					if c.Call == ssa.CallInstruction(acq) {
						pos = i
					}
				}
				if pos < 0 {
					continue
				}
				// callee failed on this path?
				failed := false
				for _, f := range e.State.free {
					if x, nn, ok := nilCheck(f.Cond); ok && E != nil && x == E && nn == f.Truth {
						failed = true
					}
				}
				if failed {
					continue
				}
				nPaths++
				verdict, why := ownDisposition(r, fn, e, acq, R, pos, errCell)
				if !verdict {
					o.Fail(r.pos(e.Term.Pos()), "%s", why)
					o.WithPath(fmt.Sprintf("acquired at %s; exit at %s: %s", r.pos(acq.Pos()), r.pos(e.Term.Pos()), why))
				}
			}
			if o.Status != Violated {
				o.OK("%d path(s) from the acquisition all dispose of the resource", nPaths)
			}
		}
	}
	r.count("resource_acquisitions", nAcq)
	inv := r.Ob("OWN-PATH", "inventory", "at least the confirmed number of acquisition sites is analysed")
	inv.Trivial = true
	inv.Check(nAcq >= 12, "-", fmt.Sprintf("%d acquisition sites", nAcq), fmt.Sprintf("only %d acquisition sites found, floor 12", nAcq))
}

// ownDisposition decides one path.
func ownDisposition(r *Run, fn *ssa.Function, e *feEnd, acq *ssa.Call, R ssa.Value, pos int, errCell *ssa.Alloc) (bool, string) {
	resolve := func(v ssa.Value) ssa.Value {
		for i := 0; i < 8 && v != nil; i++ {
			v = resRoot(v)
			u, ok := v.(*ssa.UnOp)
			if !ok {
				break
			}
			lv, ok := e.State.loads[u]
			if !ok || lv.V == nil || lv.V == v {
				break
			}
			v = lv.V
		}
		return v
	}
	same := func(v ssa.Value) bool { return v != nil && resolve(v) == R }
	isErrCellFV := func(body *ssa.Function, mc *ssa.MakeClosure) func(fv *ssa.FreeVar) bool {
		return func(fv *ssa.FreeVar) bool {
			if mc == nil || errCell == nil {
				return false
			}
			for i, f := range body.FreeVars {
				if f == fv && i < len(mc.Bindings) && mc.Bindings[i] == ssa.Value(errCell) {
					return true
				}
			}
			return false
		}
	}
	exitErr, exitKnown := endReturnsError(e)
	closed, deferAlways, deferOnErr := false, false, false
	wrappedBy := ""
	var wrapErr ssa.Value
	wrapTail := false
	// returned values (resolved)
	var retVals []ssa.Value
	if _, ok := e.Term.(*ssa.Return); ok {
		for _, rv := range e.Results {
			retVals = append(retVals, rv.V)
		}
	}
	returned := false
	for _, v := range retVals {
		if same(v) {
			returned = true
		}
	}
	for i, c := range e.State.calls {
		if i <= pos {
			continue
		}
		cc := c.Call.Common()
		switch ci := c.Call.(type) {
		case *ssa.Defer:
			// defer R.Close()
			if recv, ok := methodCallNamed(ci, "Close"); ok {
				_ = recv
				if len(c.Args) > 0 && same(c.Args[0].V) || cc.IsInvoke() && same(cc.Value) {
					deferAlways = true
				}
				continue
			}
			var body *ssa.Function
			var mc *ssa.MakeClosure
			switch fv := cc.Value.(type) {
			case *ssa.MakeClosure:
				mc = fv
				body, _ = fv.Fn.(*ssa.Function)
			case *ssa.Function:
				body = fv
			}
			if body == nil {
				continue
			}
			errRef := func(v ssa.Value) bool {
				switch x := v.(type) {
				case *ssa.FreeVar:
					return isErrCellFV(body, mc)(x)
				case *ssa.Parameter:
					for i, prm := range body.Params {
						if prm == x && i < len(cc.Args) && errCell != nil && cc.Args[i] == ssa.Value(errCell) {
							return true
						}
					}
				case *ssa.Alloc:
					return errCell != nil && x == errCell
				}
				return false
			}
			for _, eff := range closeEffects(body, errRef, 0) {
				hit := false
				if eff.Param >= 0 && eff.Param < len(c.Args) && same(c.Args[eff.Param].V) {
					hit = true
				}
				if eff.FreeVar >= 0 && mc != nil && eff.FreeVar < len(mc.Bindings) {
					if cell, ok := mc.Bindings[eff.FreeVar].(*ssa.Alloc); ok {
						if mv, ok := e.State.mem[cell]; ok && same(mv.V) {
							hit = true
						}
					}
				}
				if hit {
					switch {
					case eff.OnError:
						deferOnErr = true
					case eff.Guarded:
						// closes only under a condition that is not the function's error result (for
						// instance a copy of it taken when the defer was registered): no guarantee
					default:
						deferAlways = true
					}
				}
			}
		case *ssa.Go:
		default:
			if _, ok := methodCallNamed(c.Call, "Close"); ok {
				if cc.IsInvoke() && same(cc.Value) || !cc.IsInvoke() && len(c.Args) > 0 && same(c.Args[0].V) {
					closed = true
				}
				continue
			}
			callee := cc.StaticCallee()
			if callee == nil {
				continue
			}
			for j, a := range c.Args {
				if !same(a.V) {
					continue
				}
				if wrapsParam(callee, j, 0) {
					// is the wrapper returned on this path?
					call, _ := c.Call.(*ssa.Call)
					if call == nil {
						continue
					}
					var W, KE ssa.Value
					if call.Call.Signature().Results().Len() == 1 {
						W = call
					} else {
						for _, ref := range *call.Referrers() {
							if ex, ok := ref.(*ssa.Extract); ok {
								if ex.Index == 0 {
									W = ex
								} else if isErrorType(ex.Type()) {
									KE = ex
								}
							}
						}
					}
					for _, rv := range retVals {
						if W != nil && resolve(rv) == W {
							wrappedBy = shortFuncName(callee)
							wrapErr = KE
						}
					}
					if wrappedBy != "" && KE != nil {
						// tail call: error result returned as is
						for _, rv := range retVals {
							if rv == KE {
								wrapTail = true
							}
						}
					}
				}
			}
		}
	}
	// stored into a field of a returned literal
	for _, s := range e.State.stores {
		if !same(s.Val.V) {
			continue
		}
		if _, base, ok := fieldNameOf(s.Store.Addr); ok {
			for _, rv := range retVals {
				if resolve(rv) == base {
					wrappedBy = "composite literal"
				}
			}
		}
		// goroutine slot store
		if ia, ok := s.Store.Addr.(*ssa.IndexAddr); ok {
			if lu, ok := ia.X.(*ssa.UnOp); ok {
				if _, ok := lu.X.(*ssa.FreeVar); ok {
					return true, "stored into the parent's slot slice (covered by the parent's cleanup idiom)"
				}
			}
		}
	}
	switch {
	case closed:
		return true, "closed"
	case deferAlways:
		return true, "closed by an unconditional defer"
	case returned:
		return true, "returned to the caller"
	}
	if wrappedBy != "" {
		kFailed := false
		kOK := wrapErr == nil
		for _, f := range e.State.free {
			if x, nn, ok := nilCheck(f.Cond); ok && wrapErr != nil && x == wrapErr {
				if nn == f.Truth {
					kFailed = true
				} else {
					kOK = true
				}
			}
		}
		switch {
		case kOK && !kFailed:
			return true, "wrapped by " + wrappedBy
		case wrapTail:
			if deferOnErr {
				return true, "wrapped by " + wrappedBy + " (failure edge covered by the close-on-error defer)"
			}
			for _, ex := range ownExceptions {
				fpk := fn.Pkg
				if fpk == nil && fn.Parent() != nil {
					fpk = fn.Parent().Pkg
				}
				if fpk != nil && strings.HasPrefix(ex.Fn, strings.TrimPrefix(fpk.Pkg.Path(), modPath+"/")+".") {
					if wrappedBy == ex.Callee {
						if why := ownExceptionBroken(r.P, ex); why != "" {
							return false, "the resource is handed to " + wrappedBy + " by a tail call and nothing closes it when " + wrappedBy + " fails; the recorded exception no longer applies: " + why
						}
						r.Notes = append(r.Notes, "OWN exception "+ex.Fn+" -> "+ex.Callee+": "+ex.Reason)
						return true, "wrapped by " + wrappedBy + " (recorded exception for the failure edge)"
					}
				}
			}
			return false, "the resource is handed to " + wrappedBy + " by a tail call, but nothing closes it when " + wrappedBy + " fails"
		}
	}
	if exitKnown && exitErr && deferOnErr {
		return true, "closed by the close-on-error defer"
	}
	if !exitKnown && deferOnErr && wrappedBy != "" {
		return true, "wrapped or closed on error"
	}
	what := "a success exit"
	if exitKnown && exitErr {
		what = "a failure exit"
	} else if !exitKnown {
		what = "an exit"
	}
	return false, "the resource reaches " + what + " neither closed, returned nor wrapped (close-on-error defer registered on this path: " + fmt.Sprint(deferOnErr) + ")"
}

// ---------------------------------------------------------------------------
// OWN-WRAP / ERR-CHAIN: wrapper types

func ruleOwnWrap(r *Run, rels []string) { ruleOwnWrapScoped(r, rels, 10) }

// ruleOwnWrapScoped: the wrapper cross-check on the given packages with the given inventory floor.
func ruleOwnWrapScoped(r *Run, rels []string, floor int) {
	p := r.P
	n := 0
	for _, rel := range rels {
		pkg := p.Pkg(rel)
		if pkg == nil {
			continue
		}
		scope := pkg.Types.Scope()
		names := scope.Names()
		sort.Strings(names)
		for _, name := range names {
			tn, ok := scope.Lookup(name).(*types.TypeName)
			if !ok || tn.IsAlias() {
				continue
			}
			named, ok := tn.Type().(*types.Named)
			if !ok {
				continue
			}
			st, ok := named.Underlying().(*types.Struct)
			if !ok || !(isResourceType(named) || isResourceType(types.NewPointer(named)) || isCloserAggregate(named)) {
				continue
			}
			var resFields []string
			sliceField := map[string]bool{}
			aggField := map[string]bool{}
			embedded := map[string]types.Type{}
			for i := 0; i < st.NumFields(); i++ {
				ft := st.Field(i).Type()
				if st.Field(i).Embedded() {
					embedded[st.Field(i).Name()] = ft
				}
				if isResourceType(ft) {
					resFields = append(resFields, st.Field(i).Name())
				} else if isResourceSlice(ft) {
					resFields = append(resFields, st.Field(i).Name())
					sliceField[st.Field(i).Name()] = true
				} else if isCloserAggregate(ft) {
					resFields = append(resFields, st.Field(i).Name())
					aggField[st.Field(i).Name()] = true
				}
			}
			if len(resFields) == 0 {
				continue
			}
			n++
			for _, m := range []string{"Close", "Err"} {
				fn := p.Method(rel, name, m)
				if fn != nil && fn.Signature.Recv() != nil {
					// a method promoted from an embedded struct is not this type's own
					if rn := namedOf(fn.Signature.Recv().Type()); rn != nil && rn.Obj() != named.Obj() {
						fn = nil
					}
				}
				rule := map[string]string{"Close": "OWN-WRAP", "Err": "ERR-CHAIN"}[m]
				o := r.Ob(rule, shortRel(rel)+"."+name+"."+m, m+"() reaches "+m+"() of every wrapped iterator/reader on every path and returns/aggregates its result")
				if fn == nil {
					// promoted from an embedded owner: that owner's own obligations cover its fields;
					// this type must then have no other resource of its own
					from := ""
					for en, et := range embedded {
						if hasMethod(et, m) || hasMethod(types.NewPointer(et), m) {
							from = en
						}
					}
					var rest []string
					for _, f := range resFields {
						if f != from && !(m == "Err" && !fieldHasMethod(st, f, "Err")) {
							rest = append(rest, f)
						}
					}
					switch {
					case from == "":
						o.Fail("-", "method not found")
					case len(rest) > 0:
						o.Fail("-", "%s() is promoted from the embedded %s and does not reach field(s) %v", m, from, rest)
					default:
						o.OK("promoted from the embedded %s, which owns all wrapped resources", from)
					}
					continue
				}
				good := true
				for _, f := range resFields {
					if m == "Err" && !fieldHasMethod(st, f, "Err") {
						continue
					}
					var call *ssa.Call
					cfn := fn // the function the effective call sits in (fn or a helper of it)
					var via ssa.CallInstruction
					for _, site := range findFieldMethodSites(fn, m) {
						cl, ok := site.Call.(*ssa.Call)
						if !ok {
							continue
						}
						root := resRoot(site.On)
						if sliceField[f] {
							if lu, ok := root.(*ssa.UnOp); ok {
								if ia, ok := lu.X.(*ssa.IndexAddr); ok {
									root = ia.X
								}
							}
						}
						if fname, base, ok := loadOfField(root); ok && fname == f && sameRecvCopy(base, site.Recv) {
							call, cfn, via = cl, site.Fn, site.Via
						}
						// an owned aggregate is closed through its address: i.pair.Close()
						if aggField[f] {
							if fname, base, ok := fieldNameOf(root); ok && fname == f && sameRecvCopy(base, site.Recv) {
								call, cfn, via = cl, site.Fn, site.Via
							}
						}
					}
					if call == nil {
						good = false
						o.Fail(r.pos(fn.Pos()), "%s() never calls %s() on field %s", m, m, f)
						continue
					}
					// on every path: the call's block dominates every return, or sits in a whole range loop
					if sliceField[f] {
						whole := false
						for _, l := range rangeIndexLoops(cfn) {
							if !l.Blocks[call.Block()] {
								continue
							}
							if fl, base, ok := loadOfField(l.X); ok && fl == f && (base == ssa.Value(cfn.Params[0]) || cfn != fn) && len(l.earlyExits()) == 0 && mustPassThrough(l.Body, l.Header, call.Block()) {
								whole = true
							}
						}
						if !whole {
							good = false
							o.Fail(r.pos(call.Pos()), "%s() is not called for every element of %s (the loop over the field can be left early or skips elements)", m, f)
						}
					}
					if !sliceField[f] {
						for _, ret := range returnsOf(cfn) {
							if !call.Block().Dominates(ret.Block()) {
								good = false
								o.Fail(r.pos(ret.Pos()), "%s() of field %s is skipped on a path to this return", m, f)
							}
						}
					}
					if via != nil {
						// the helper runs on every path of the method, and its result is what the method reports
						for _, ret := range returnsOf(fn) {
							if !via.Block().Dominates(ret.Block()) {
								good = false
								o.Fail(r.pos(ret.Pos()), "the helper that calls %s() is skipped on a path to this return", m)
							}
						}
					}
					// result used (returned / aggregated)
					used := false
					for _, ref := range *call.Referrers() {
						switch ref.(type) {
						case *ssa.DebugRef:
						default:
							used = true
						}
					}
					if !used {
						good = false
						o.Fail(r.pos(call.Pos()), "the result of %s() on field %s is dropped", m, f)
					}
				}
				if good {
					o.OK("covers field(s) %v", resFields).At(r.pos(fn.Pos()))
				}
			}
		}
	}
	r.count("wrapper_types", n)
	inv := r.Ob("OWN-WRAP", "inventory", "at least the confirmed number of wrapper types is analysed")
	inv.Trivial = true
	inv.Check(n >= floor, "-", fmt.Sprintf("%d wrapper types", n), fmt.Sprintf("only %d wrapper types found, floor %d", n, floor))
}

func fieldHasMethod(st *types.Struct, field, method string) bool {
	for i := 0; i < st.NumFields(); i++ {
		if st.Field(i).Name() == field {
			t := st.Field(i).Type()
			if s, ok := t.Underlying().(*types.Slice); ok {
				t = s.Elem()
			}
			if _, isPtr := t.Underlying().(*types.Pointer); !isPtr {
				if _, isIface := t.Underlying().(*types.Interface); !isIface && hasMethod(types.NewPointer(t), method) {
					return true
				}
			}
			return hasMethod(t, method)
		}
	}
	return false
}

// fieldMethodSite: a place where method m is applied on behalf of a wrapper method: directly in the
// method, in a same-package helper called on the wrapper, or in such a helper through a function
// parameter that is bound (at the call in the method) to a function applying m to its argument
// (a method expression such as logiter.Close, or a closure).
type fieldMethodSite struct {
	Call ssa.CallInstruction // applies m (invoke / static method call / call of the bound function parameter)
	On   ssa.Value           // the value m is applied to
	Fn   *ssa.Function       // function containing Call
	Recv ssa.Value           // the wrapper as seen in Fn
	Via  ssa.CallInstruction // call site in the original method when Fn is a helper
}

func funcAppliesMethodToParam0(f *ssa.Function, m string) bool {
	if f == nil || f.Blocks == nil || len(f.Params) == 0 {
		return false
	}
	for _, c := range callsIn(f) {
		if recv, ok := methodCallNamed(c, m); ok && unspill(recv) == ssa.Value(f.Params[0]) {
			return true
		}
	}
	return false
}

func funcValueOf(v ssa.Value) *ssa.Function {
	switch x := v.(type) {
	case *ssa.Function:
		return x
	case *ssa.MakeClosure:
		f, _ := x.Fn.(*ssa.Function)
		return f
	case *ssa.ChangeType:
		return funcValueOf(x.X)
	}
	return nil
}

// sameRecvCopy: base is the receiver, or the local copy a value receiver is spilled into.
func sameRecvCopy(base, recv ssa.Value) bool {
	if base == recv {
		return true
	}
	if al, ok := base.(*ssa.Alloc); ok {
		sts := storesTo(al)
		return len(sts) == 1 && sts[0].Val == recv
	}
	return false
}

func findFieldMethodSites(orig *ssa.Function, m string) []fieldMethodSite {
	var out []fieldMethodSite
	if orig == nil || len(orig.Params) == 0 {
		return nil
	}
	for _, c := range callsIn(orig) {
		if recv, ok := methodCallNamed(c, m); ok {
			out = append(out, fieldMethodSite{Call: c, On: recv, Fn: orig, Recv: orig.Params[0]})
		}
	}
	for _, c := range callsIn(orig) {
		h := staticCallee(c)
		if h == nil || h.Blocks == nil || h == orig || h.Pkg != orig.Pkg {
			continue
		}
		var recvH ssa.Value
		for i, a := range c.Common().Args {
			if i < len(h.Params) && unspill(a) == ssa.Value(orig.Params[0]) {
				recvH = h.Params[i]
			}
		}
		if recvH == nil {
			continue
		}
		for _, d := range callsIn(h) {
			if recv, ok := methodCallNamed(d, m); ok {
				out = append(out, fieldMethodSite{Call: d, On: recv, Fn: h, Recv: recvH, Via: c})
				continue
			}
			prm, ok := d.Common().Value.(*ssa.Parameter)
			if !ok || d.Common().IsInvoke() || len(d.Common().Args) == 0 {
				continue
			}
			for k, q := range h.Params {
				if q == prm && k < len(c.Common().Args) {
					if funcAppliesMethodToParam0(funcValueOf(c.Common().Args[k]), m) {
						out = append(out, fieldMethodSite{Call: d, On: d.Common().Args[0], Fn: h, Recv: recvH, Via: c})
					}
				}
			}
		}
	}
	return out
}
