#!/bin/bash
# usage: run_seeded.sh [Cxx-letter ...]  — run each seeded change's property check against a scratch copy with the patch applied
cd /verif/seeded || exit 1
list="$@"; [ -z "$list" ] && list=$(ls)
for d in $list; do
  [ -f $d/patch.diff ] || continue
  prop=$(jq -r .property $d/meta.json)
  out=$(HEAD=60 CUT=230 /verif/tools/trymut.sh "$prop" /verif/seeded/$d/patch.diff 2>&1)
  if echo "$out" | grep -q "^VIOLATION"; then echo "== $d: CAUGHT"; echo "$out" | grep -E "VIOLATED|UNDECIDED|ANALYSIS" | head -3; else echo "== $d: MISSED ($(echo "$out" | head -1 | cut -c1-120))"; fi
done
