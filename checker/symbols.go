package main

// Rename tolerance for anchors.
//
// The rules name their anchors by package-level symbol (function, method,
// struct field, package-level variable). A maintainer who renames an
// unexported symbol does not change behaviour, so the rules must keep
// resolving their anchors. symbols.json (generated from the tree the rules
// were confirmed on, `verifcheck symbols`, embedded in the binary) lists the
// symbols of every first-party package with a name-free signature. When the
// tree that is analysed lacks a baseline symbol and has exactly one new symbol
// of the same package, receiver and signature (fields: same struct, same
// type, same position), the new symbol is the old one renamed; all name
// comparisons in the rules then see the baseline name. Ambiguous cases are not
// guessed: the anchor fails to resolve and the rule reports it.

import (
	_ "embed"
	"encoding/json"
	"fmt"
	"go/types"
	"os"
	"path/filepath"
	"sort"
	"strings"

	"golang.org/x/tools/go/ssa"
)

//go:embed symbols.json
var symbolsJSON []byte

type symField struct {
	Name string `json:"name"`
	Type string `json:"type"`
}

type symBaseline struct {
	Funcs   map[string]map[string]string `json:"funcs"`   // pkg -> "recv|name" -> signature
	Fields  map[string][]symField        `json:"fields"`  // "pkg.Type" -> fields in order
	Globals map[string]map[string]string `json:"globals"` // pkg -> name -> type
	// Callers: pkg -> "recv|name" -> same-package callers ("recv|name", function literals count as
	// their enclosing function). Used only to tell apart several rename candidates of one signature.
	Callers map[string]map[string][]string `json:"callers,omitempty"`
}

var (
	renamedObj   = map[types.Object]string{} // current object -> baseline name
	renamedAlias = map[string]string{}       // "pkg|recv|baseline name" -> current name
	renameNotes  []string
)

// canonName is the baseline name of a (possibly renamed) function, field or variable.
func canonName(obj types.Object) string {
	if obj == nil {
		return ""
	}
	if n, ok := renamedObj[obj]; ok {
		return n
	}
	return obj.Name()
}

func globalName(g *ssa.Global) string {
	if g == nil {
		return ""
	}
	if g.Object() != nil {
		return canonName(g.Object())
	}
	return g.Name()
}

func sigString(sig *types.Signature) string {
	q := func(p *types.Package) string { return p.Path() }
	var b strings.Builder
	b.WriteString("func(")
	for i := 0; i < sig.Params().Len(); i++ {
		if i > 0 {
			b.WriteString(", ")
		}
		if sig.Variadic() && i == sig.Params().Len()-1 {
			b.WriteString("...")
		}
		b.WriteString(types.TypeString(anonType(sig.Params().At(i).Type()), q))
	}
	b.WriteString(") (")
	for i := 0; i < sig.Results().Len(); i++ {
		if i > 0 {
			b.WriteString(", ")
		}
		b.WriteString(types.TypeString(anonType(sig.Results().At(i).Type()), q))
	}
	b.WriteString(")")
	if tp := sig.TypeParams(); tp != nil {
		b.WriteString(fmt.Sprintf(" [%d]", tp.Len()))
	}
	return b.String()
}

// anonType drops the parameter and result names of function types nested in t: renaming the
// parameters of a callback type is not a change of signature.
func anonType(t types.Type) types.Type {
	switch x := t.(type) {
	case *types.Signature:
		tup := func(tp *types.Tuple) *types.Tuple {
			vs := make([]*types.Var, tp.Len())
			for i := range vs {
				vs[i] = types.NewVar(0, nil, "", anonType(tp.At(i).Type()))
			}
			return types.NewTuple(vs...)
		}
		if x.TypeParams() != nil || x.Recv() != nil {
			return t
		}
		return types.NewSignatureType(nil, nil, nil, tup(x.Params()), tup(x.Results()), x.Variadic())
	case *types.Pointer:
		return types.NewPointer(anonType(x.Elem()))
	case *types.Slice:
		return types.NewSlice(anonType(x.Elem()))
	case *types.Array:
		return types.NewArray(anonType(x.Elem()), x.Len())
	case *types.Map:
		return types.NewMap(anonType(x.Key()), anonType(x.Elem()))
	}
	return t
}

func recvString(sig *types.Signature) string {
	if sig.Recv() == nil {
		return ""
	}
	t := sig.Recv().Type()
	ptr := ""
	if p, ok := t.(*types.Pointer); ok {
		ptr, t = "*", p.Elem()
	}
	if n, ok := types.Unalias(t).(*types.Named); ok {
		return ptr + n.Obj().Name()
	}
	return ptr + "?"
}

// currentSymbols collects the symbols of the loaded program in baseline form,
// together with the objects behind them.
func currentSymbols(p *Program) (*symBaseline, map[string]types.Object) {
	b := &symBaseline{Funcs: map[string]map[string]string{}, Fields: map[string][]symField{}, Globals: map[string]map[string]string{}}
	objs := map[string]types.Object{}
	q := func(pk *types.Package) string { return pk.Path() }
	for _, pkg := range p.First {
		if pkg.Types == nil {
			continue
		}
		path := pkg.PkgPath
		if strings.HasSuffix(path, "/lokiapi") {
			continue // generated
		}
		fm := map[string]string{}
		gm := map[string]string{}
		sc := pkg.Types.Scope()
		for _, name := range sc.Names() {
			switch o := sc.Lookup(name).(type) {
			case *types.Func:
				sig := o.Type().(*types.Signature)
				fm["|"+name] = sigString(sig)
				objs[path+"|"+"|"+name] = o
			case *types.Var:
				gm[name] = types.TypeString(anonType(o.Type()), q)
				objs[path+"|var|"+name] = o
			case *types.TypeName:
				if o.IsAlias() {
					continue
				}
				named, ok := o.Type().(*types.Named)
				if !ok {
					continue
				}
				for i := 0; i < named.NumMethods(); i++ {
					m := named.Method(i)
					sig := m.Type().(*types.Signature)
					k := recvString(sig) + "|" + m.Name()
					fm[k] = sigString(sig)
					objs[path+"|"+k] = m
				}
				if st, ok := named.Underlying().(*types.Struct); ok {
					var fs []symField
					for i := 0; i < st.NumFields(); i++ {
						f := st.Field(i)
						fs = append(fs, symField{Name: f.Name(), Type: types.TypeString(anonType(f.Type()), q)})
						objs[path+"."+name+"#"+fmt.Sprint(i)] = f
					}
					b.Fields[path+"."+name] = fs
				}
			}
		}
		b.Funcs[path] = fm
		if p.SSA != nil {
			if sp := p.SSA.Package(pkg.Types); sp != nil {
				keyOf := func(fn *ssa.Function) string {
					for fn != nil && fn.Parent() != nil {
						fn = fn.Parent()
					}
					if fn == nil {
						return ""
					}
					if o := fn.Origin(); o != nil {
						fn = o
					}
					obj, _ := fn.Object().(*types.Func)
					if obj == nil || obj.Pkg() != pkg.Types {
						return ""
					}
					return recvString(obj.Type().(*types.Signature)) + "|" + obj.Name()
				}
				cm := map[string]map[string]bool{}
				for _, fn := range p.SrcFuncs() {
					ck := keyOf(fn)
					if ck == "" || pkgOfFunc(fn) != sp {
						continue
					}
					for _, c := range callsIn(fn) {
						callee := staticCallee(c)
						if callee == nil {
							continue
						}
						k := keyOf(callee)
						if k == "" || k == ck {
							continue
						}
						if cm[k] == nil {
							cm[k] = map[string]bool{}
						}
						cm[k][ck] = true
					}
				}
				if b.Callers == nil {
					b.Callers = map[string]map[string][]string{}
				}
				b.Callers[path] = map[string][]string{}
				for k, set := range cm {
					var l []string
					for c := range set {
						l = append(l, c)
					}
					sort.Strings(l)
					b.Callers[path][k] = l
				}
			}
		}
		b.Globals[path] = gm
	}
	return b, objs
}

func writeSymbols(p *Program) error {
	b, _ := currentSymbols(p)
	out, err := json.MarshalIndent(b, "", " ")
	if err != nil {
		return err
	}
	return os.WriteFile(filepath.Join(verifDir(), "checker", "symbols.json"), append(out, '\n'), 0o644)
}

// computeRenames compares the analysed tree with the baseline.
func computeRenames(p *Program) {
	renamedObj = map[types.Object]string{}
	renamedAlias = map[string]string{}
	renameNotes = nil
	var base symBaseline
	if err := json.Unmarshal(symbolsJSON, &base); err != nil || base.Funcs == nil {
		return
	}
	cur, objs := currentSymbols(p)
	// struct types: a baseline struct that is gone and a new struct of the same package with the same
	// fields (names, types, order) and the same method names
	typeOld := map[string]string{} // current "pkg.Name" -> baseline "pkg.Name"
	{
		sig := func(fs []symField) string {
			var b strings.Builder
			for _, f := range fs {
				b.WriteString(f.Name + " " + f.Type + ";")
			}
			return b.String()
		}
		pkgOf := func(k string) string { return k[:strings.LastIndex(k, ".")] }
		vanished := map[string][]string{}
		appeared := map[string][]string{}
		for k, fs := range base.Fields {
			if _, ok := cur.Fields[k]; !ok {
				vanished[pkgOf(k)+"|"+sig(fs)] = append(vanished[pkgOf(k)+"|"+sig(fs)], k)
			}
		}
		for k, fs := range cur.Fields {
			if _, ok := base.Fields[k]; !ok {
				appeared[pkgOf(k)+"|"+sig(fs)] = append(appeared[pkgOf(k)+"|"+sig(fs)], k)
			}
		}
		for k, vs := range vanished {
			as := appeared[k]
			if len(vs) == 1 && len(as) == 1 {
				typeOld[as[0]] = vs[0]
				if pkg := p.ByPath[pkgOf(as[0])]; pkg != nil && pkg.Types != nil {
					if tn, ok := pkg.Types.Scope().Lookup(as[0][strings.LastIndex(as[0], ".")+1:]).(*types.TypeName); ok {
						renamedObj[tn] = vs[0][strings.LastIndex(vs[0], ".")+1:]
					}
				}
				renameNotes = append(renameNotes, fmt.Sprintf("type %s is the baseline's %s renamed (same fields)", as[0], vs[0]))
			}
		}
	}
	// view the current symbols under the baseline's type names
	canonT := func(s string) string {
		for nw, old := range typeOld {
			s = replaceIdent(s, nw, old)
		}
		return s
	}
	if len(typeOld) > 0 {
		for path, cf := range cur.Funcs {
			nf := map[string]string{}
			for k, sg := range cf {
				recv, name, _ := strings.Cut(k, "|")
				ptr := strings.HasPrefix(recv, "*")
				rn := strings.TrimPrefix(recv, "*")
				if old, ok := typeOld[path+"."+rn]; ok && rn != "" {
					rn = old[strings.LastIndex(old, ".")+1:]
				}
				if ptr {
					rn = "*" + rn
				}
				nk := rn + "|" + name
				nf[nk] = canonT(sg)
				if nk != k {
					objs[path+"|"+nk] = objs[path+"|"+k]
				}
			}
			cur.Funcs[path] = nf
		}
		for tk, fs := range cur.Fields {
			for i := range fs {
				fs[i].Type = canonT(fs[i].Type)
			}
			if old, ok := typeOld[tk]; ok {
				cur.Fields[old] = fs
				for i := range fs {
					objs[old+"#"+fmt.Sprint(i)] = objs[tk+"#"+fmt.Sprint(i)]
				}
			}
		}
		for _, gm := range cur.Globals {
			for n, t := range gm {
				gm[n] = canonT(t)
			}
		}
	}
	// functions and methods
	for path, bf := range base.Funcs {
		cf := cur.Funcs[path]
		if cf == nil {
			continue
		}
		type key struct{ recv, sig string }
		vanished := map[key][]string{}
		appeared := map[key][]string{}
		for k, sig := range bf {
			if _, ok := cf[k]; !ok {
				recv, name, _ := strings.Cut(k, "|")
				vanished[key{recv, sig}] = append(vanished[key{recv, sig}], name)
			}
		}
		for k, sig := range cf {
			if _, ok := bf[k]; !ok {
				recv, name, _ := strings.Cut(k, "|")
				appeared[key{recv, sig}] = append(appeared[key{recv, sig}], name)
			}
		}
		for k, vs := range vanished {
			as := appeared[k]
			if len(vs) == 1 && len(as) > 1 && base.Callers != nil && cur.Callers != nil {
				// several new symbols of this signature (a function was renamed and split): the
				// renamed one is the candidate that is called from where the old one was
				want := base.Callers[path][k.recv+"|"+vs[0]]
				var still []string
				for _, w := range want {
					if _, ok := cf[w]; ok {
						still = append(still, w)
					}
				}
				var match []string
				if len(still) > 0 {
					for _, a := range as {
						have := map[string]bool{}
						for _, c := range cur.Callers[path][k.recv+"|"+a] {
							have[c] = true
						}
						all := true
						for _, w := range still {
							if !have[w] {
								all = false
							}
						}
						if all {
							match = append(match, a)
						}
					}
				}
				if len(match) == 1 {
					as = match
				}
			}
			if len(vs) == 1 && len(as) == 1 {
				obj := objs[path+"|"+k.recv+"|"+as[0]]
				if obj != nil {
					renamedObj[obj] = vs[0]
					renamedAlias[path+"|"+k.recv+"|"+vs[0]] = as[0]
					renameNotes = append(renameNotes, fmt.Sprintf("%s: %s%s is the baseline's %s renamed (same receiver and signature)", path, recvDot(k.recv), as[0], vs[0]))
				}
			}
		}
	}
	// struct fields: same struct, same position, same type, name not present any more
	for tk, bfs := range base.Fields {
		cfs, ok := cur.Fields[tk]
		if !ok || len(cfs) != len(bfs) {
			continue
		}
		have := map[string]bool{}
		for _, f := range cfs {
			have[f.Name] = true
		}
		was := map[string]bool{}
		for _, f := range bfs {
			was[f.Name] = true
		}
		for i := range bfs {
			if bfs[i].Name != cfs[i].Name && bfs[i].Type == cfs[i].Type && !have[bfs[i].Name] && !was[cfs[i].Name] {
				if obj := objs[tk+"#"+fmt.Sprint(i)]; obj != nil {
					renamedObj[obj] = bfs[i].Name
					renameNotes = append(renameNotes, fmt.Sprintf("%s: field %s is the baseline's %s renamed (same position and type)", tk, cfs[i].Name, bfs[i].Name))
				}
			}
		}
	}
	// package-level variables: one vanished and one appeared of the same type
	for path, bg := range base.Globals {
		cg := cur.Globals[path]
		if cg == nil {
			continue
		}
		vanished := map[string][]string{}
		appeared := map[string][]string{}
		for n, t := range bg {
			if _, ok := cg[n]; !ok {
				vanished[t] = append(vanished[t], n)
			}
		}
		for n, t := range cg {
			if _, ok := bg[n]; !ok {
				appeared[t] = append(appeared[t], n)
			}
		}
		for t, vs := range vanished {
			as := appeared[t]
			if len(vs) == 1 && len(as) == 1 {
				if obj := objs[path+"|var|"+as[0]]; obj != nil {
					renamedObj[obj] = vs[0]
					renamedAlias[path+"|var|"+vs[0]] = as[0]
					renameNotes = append(renameNotes, fmt.Sprintf("%s: variable %s is the baseline's %s renamed (same type)", path, as[0], vs[0]))
				}
			}
		}
	}
	sort.Strings(renameNotes)
}

func recvDot(recv string) string {
	if recv == "" {
		return ""
	}
	return "(" + recv + ")."
}

// replaceIdent replaces occurrences of the qualified name nw by old where nw is not followed by an
// identifier character (so "pkg.Foo" does not match inside "pkg.FooBar").
func replaceIdent(s, nw, old string) string {
	var b strings.Builder
	for {
		i := strings.Index(s, nw)
		if i < 0 {
			b.WriteString(s)
			return b.String()
		}
		end := i + len(nw)
		follow := byte(0)
		if end < len(s) {
			follow = s[end]
		}
		isIdent := follow == '_' || (follow >= '0' && follow <= '9') || (follow >= 'a' && follow <= 'z') || (follow >= 'A' && follow <= 'Z')
		b.WriteString(s[:i])
		if isIdent {
			b.WriteString(nw)
		} else {
			b.WriteString(old)
		}
		s = s[end:]
	}
}
