package dockerlog

import (
	"bytes"
	"context"
	"encoding/binary"
	"fmt"
	"io"
	"sync"
	"testing"
	"time"

	"github.com/docker/docker/api/types"
	apicontainer "github.com/docker/docker/api/types/container"
	"github.com/docker/docker/client"
	"github.com/go-faster/errors"

	"github.com/tdakkota/docker-logql/internal/logql/logqlengine"
	"github.com/tdakkota/docker-logql/internal/otelstorage"
)

// setopReader is a container log reader handed out by the fake Docker client.
// It optionally fails with a (sticky) read error once its data is consumed
// and counts Close calls.
type setopReader struct {
	id      string
	data    *bytes.Reader
	failErr error

	mu     sync.Mutex
	closed int
}

func (r *setopReader) Read(p []byte) (int, error) {
	n, err := r.data.Read(p)
	if err == io.EOF && r.failErr != nil {
		return n, r.failErr
	}
	return n, err
}

func (r *setopReader) Close() error {
	r.mu.Lock()
	defer r.mu.Unlock()
	r.closed++
	return nil
}

func (r *setopReader) closeCount() int {
	r.mu.Lock()
	defer r.mu.Unlock()
	return r.closed
}

type setopContainer struct {
	id, group string
	stream    []byte
	readErr   error
}

// setopClient is a fake Docker client: it serves a fixed list of containers
// and remembers every reader it opened.
type setopClient struct {
	client.APIClient
	containers []setopContainer

	mu      sync.Mutex
	readers []*setopReader
}

func (c *setopClient) ContainerList(context.Context, apicontainer.ListOptions) (r []types.Container, _ error) {
	for _, ctr := range c.containers {
		r = append(r, types.Container{
			ID:     ctr.id,
			Names:  []string{"/" + ctr.id},
			Labels: map[string]string{"group": ctr.group},
		})
	}
	return r, nil
}

func (c *setopClient) ContainerLogs(_ context.Context, id string, _ apicontainer.LogsOptions) (io.ReadCloser, error) {
	for _, ctr := range c.containers {
		if ctr.id != id {
			continue
		}
		rd := &setopReader{id: id, data: bytes.NewReader(ctr.stream), failErr: ctr.readErr}
		c.mu.Lock()
		c.readers = append(c.readers, rd)
		c.mu.Unlock()
		return rd, nil
	}
	return nil, errors.Errorf("no such container %q", id)
}

func setopFrame(typ byte, payload string) []byte {
	var hdr [8]byte
	hdr[0] = typ
	binary.BigEndian.PutUint32(hdr[4:], uint32(len(payload)))
	return append(hdr[:], payload...)
}

var setopBase = time.Date(2024, 1, 1, 0, 0, 0, 0, time.UTC)

const setopFrames = 4

// setopStream builds a stream of setopFrames well-formed frames. If kind is
// not empty, the stream breaks at frame faultAt:
//
//	"corrupt":   the frame has no timestamp,
//	"systemerr": the daemon sends a system error frame,
//	"readerr":   the stream ends in the middle of the frame with a read error.
func setopStream(id, kind string, faultAt int) (stream []byte, readErr error) {
	for i := 0; i < setopFrames; i++ {
		ts := setopBase.Add(time.Duration(10*i) * time.Second).Format(time.RFC3339Nano)
		good := setopFrame(1, fmt.Sprintf("%s %s line %d\n", ts, id, i))
		if kind == "" || i != faultAt {
			stream = append(stream, good...)
			continue
		}
		switch kind {
		case "corrupt":
			stream = append(stream, setopFrame(1, "there-is-no-timestamp-here\n")...)
		case "systemerr":
			stream = append(stream, setopFrame(3, "daemon: log driver failed")...)
		case "readerr":
			// Header and a part of the body, then the connection breaks.
			stream = append(stream, good[:len(good)-5]...)
			return stream, errors.New("connection reset by peer")
		}
	}
	return stream, nil
}

// TestDemoSetOpFaultInAnyOperandIsAnError walks binary operations over two
// selections (left operand: containers of group "a", right operand: containers
// of group "b") x every single stream fault (which container, which frame, what
// kind of breakage) x instant/range evaluation and checks that
//
//   - Engine.Eval reports the fault as an error (no silently truncated result);
//   - every reader opened by the fake Docker client is closed when Eval returns.
func TestDemoSetOpFaultInAnyOperandIsAnError(t *testing.T) {
	const (
		left  = `count_over_time({group="a"}[2m])`
		right = `count_over_time({group="b"}[2m])`
	)
	ids := []struct{ id, group string }{
		{"a0", "a"}, {"a1", "a"}, {"b0", "b"}, {"b1", "b"},
	}

	type fault struct {
		kind    string
		ctr     string
		frameAt int
	}
	faults := []fault{{}} // No fault at all.
	for _, kind := range []string{"corrupt", "systemerr", "readerr"} {
		for _, ctr := range ids {
			for at := 0; at < setopFrames; at++ {
				faults = append(faults, fault{kind: kind, ctr: ctr.id, frameAt: at})
			}
		}
	}

	modes := []struct {
		name   string
		params logqlengine.EvalParams
	}{
		{
			name: "instant",
			params: logqlengine.EvalParams{
				Start: otelstorage.NewTimestampFromTime(setopBase.Add(time.Minute)),
				End:   otelstorage.NewTimestampFromTime(setopBase.Add(time.Minute)),
			},
		},
		{
			name: "range",
			params: logqlengine.EvalParams{
				Start: otelstorage.NewTimestampFromTime(setopBase),
				End:   otelstorage.NewTimestampFromTime(setopBase.Add(2 * time.Minute)),
				Step:  30 * time.Second,
			},
		},
	}

	for _, op := range []string{"+", ">", "and", "or", "unless"} {
		query := left + " " + op + " " + right
		for _, mode := range modes {
			for _, f := range faults {
				name := fmt.Sprintf("op=%s/%s/fault=%s@%s#%d", op, mode.name, f.kind, f.ctr, f.frameAt)
				t.Run(name, func(t *testing.T) {
					c := &setopClient{}
					for _, ctr := range ids {
						kind := ""
						if ctr.id == f.ctr {
							kind = f.kind
						}
						stream, readErr := setopStream(ctr.id, kind, f.frameAt)
						c.containers = append(c.containers, setopContainer{
							id:      ctr.id,
							group:   ctr.group,
							stream:  stream,
							readErr: readErr,
						})
					}

					q, err := NewQuerier(c)
					if err != nil {
						t.Fatal(err)
					}
					eng := logqlengine.NewEngine(q, logqlengine.Options{})

					data, err := eng.Eval(context.Background(), query, mode.params)
					switch {
					case f.kind == "" && err != nil:
						t.Errorf("no fault injected, but Eval failed: %v", err)
					case f.kind != "" && err == nil:
						t.Errorf("stream of container %s (%s operand) breaks at frame %d (%s), "+
							"but Eval returned no error and a %q result",
							f.ctr, map[byte]string{'a': "left", 'b': "right"}[f.ctr[0]], f.frameAt, f.kind, data.Type)
					}

					c.mu.Lock()
					readers := c.readers
					c.mu.Unlock()
					if len(readers) != len(ids) {
						t.Errorf("expected %d readers to be opened, got %d", len(ids), len(readers))
					}
					for _, rd := range readers {
						if rd.closeCount() == 0 {
							t.Errorf("reader of container %s was not closed after Eval returned", rd.id)
						}
					}
				})
			}
		}
	}
}
