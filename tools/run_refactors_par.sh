#!/bin/bash
# usage: run_refactors_par.sh <N> <outfile> — run the whole refactor battery in N parallel shards (each on its own scratch copies)
N=${1:-4}; OUT=${2:-/tmp/rf_par.log}
ls -d /verif/refactors/*/ | sort > /tmp/rf_dirs.$$
rm -f /tmp/rf_shard.$$.*
for i in $(seq 0 $((N-1))); do
  awk -v n=$N -v i=$i 'NR%n==i' /tmp/rf_dirs.$$ > /tmp/rf_list.$$.$i
  ( VERIFCHECK=${VERIFCHECK:-/verif/bin/verifcheck} /verif/tools/run_refactors.sh $(cat /tmp/rf_list.$$.$i) > /tmp/rf_shard.$$.$i 2>&1 ) &
done
wait
cat /tmp/rf_shard.$$.* | grep -v "^$" > $OUT
rm -f /tmp/rf_dirs.$$ /tmp/rf_list.$$.* /tmp/rf_shard.$$.*
echo "done: $(grep -c '^==' $OUT) patches, $(grep -c 'FALSE ALARM' $OUT) false alarms"
