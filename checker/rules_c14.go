package main

import (
	"fmt"
	"go/token"

	"golang.org/x/tools/go/ssa"
)

const itersPkg = "internal/iterators"

// ruleErrLoop (ERR-LOOP): a function that drains an iterator and returns an
// error reports the iterator's Err() before any successful return.
func ruleErrLoop(r *Run, rels []string) {
	p := r.P
	n := 0
	for _, fn := range p.SrcFuncs() {
		if fn.Pkg == nil && fn.Origin() == nil {
			continue
		}
		pk := fn.Pkg
		if pk == nil {
			continue
		}
		in := false
		for _, rel := range rels {
			if pk.Pkg.Path() == modPath+"/"+rel {
				in = true
			}
		}
		if !in {
			continue
		}
		res := fn.Signature.Results()
		if res.Len() == 0 || !isErrorType(res.At(res.Len()-1).Type()) {
			continue
		}
		loops := callLoops(fn, func(c *ssa.Call) bool {
			recv, ok := methodCallNamed(c, "Next")
			return ok && isResourceType(recv.Type())
		})
		// also `for { if !it.Next() { break } }`
		if len(loops) == 0 {
			continue
		}
		for li, loop := range loops {
			n++
			recv, _ := methodCallNamed(loop.Call, "Next")
			o := r.Ob("ERR-LOOP", fmt.Sprintf("%s loop#%d", shortFuncName(fn), li), "after draining the iterator, its Err() is checked and a non-nil error reaches a failure exit before any successful return (no silently truncated result)")
			o.At(r.pos(loop.Call.Pos()))
			w := &feWalker{Fn: fn, MaxPath: 20000}
			ends := w.Run()
			if w.Aborted {
				o.Undecide(r.pos(fn.Pos()), "path enumeration aborted")
				continue
			}
			nSucc := 0
			for _, e := range ends {
				if e.Cut {
					continue
				}
				if isErr, known := endReturnsError(e); known && isErr {
					continue
				} else if !known {
					// returns some error value: fine if it is the Err() result itself
					if len(e.Results) > 0 {
						if c, ok := e.Results[len(e.Results)-1].V.(*ssa.Call); ok {
							if rv, ok := methodCallNamed(c, "Err"); ok && sameRecv(rv, recv) {
								continue
							}
						}
					}
				}
				lastNext := -1
				for i, c := range e.State.calls {
					if c.Call == ssa.CallInstruction(loop.Call) {
						lastNext = i
					}
				}
				if lastNext < 0 {
					continue
				}
				nSucc++
				checked := false
				for i, c := range e.State.calls {
					if i <= lastNext {
						continue
					}
					call, ok := c.Call.(*ssa.Call)
					if !ok {
						continue
					}
					rv, ok := methodCallNamed(call, "Err")
					if !ok || !sameRecv(rv, recv) {
						continue
					}
					for _, f := range e.State.free {
						if x, nn, ok := nilCheck(f.Cond); ok && x == ssa.Value(call) && nn != f.Truth {
							checked = true
						}
					}
				}
				if !checked {
					o.Fail(r.pos(e.Term.Pos()), "a successful return is reachable after the last Next() without a nil-checked Err() of the same iterator")
				}
			}
			if o.Status != Violated {
				o.OK("%d successful path(s) all pass a nil-checked Err()", nSucc)
			}
		}
	}
	r.count("consumer_loops", n)
	inv := r.Ob("ERR-LOOP", "inventory", "at least the confirmed number of consumer loops is analysed")
	inv.Trivial = true
	inv.Check(n >= 3, "-", fmt.Sprintf("%d consumer loops", n), fmt.Sprintf("only %d consumer loops found, floor 3", n))
}

func sameRecv(a, b ssa.Value) bool {
	a, b = resRoot(a), resRoot(b)
	if a == b {
		return true
	}
	return describe(a, 0) == describe(b, 0)
}

// ruleSelectLogsCleanup: the failure-cleanup idiom of the concurrent open.
func ruleSelectLogsCleanup(r *Run) {
	p := r.P
	o := r.Ob("OWN-CLEANUP", "dockerlog concurrent open cleanup", "when the concurrent open fails, every reader that was opened is closed: a deferred cleanup over the whole slot slice, registered before the goroutines start, closes each non-nil slot when the function returns an error")
	// the function that starts the goroutines
	var fn *ssa.Function
	var firstGo ssa.CallInstruction
	for _, gs := range goSites(p) {
		pk := gs.In.Pkg
		if pk != nil && pk.Pkg.Path() == modPath+"/"+dockerlogPkg && fn == nil {
			fn, firstGo = gs.In, gs.Instr
		}
	}
	if fn == nil {
		o.Fail("-", "no goroutine start found in package dockerlog")
		return
	}
	errCell := errorResultCell(fn)
	var def *ssa.Defer
	var effs []closeEffect
	var mc *ssa.MakeClosure
	for _, c := range callsIn(fn) {
		d, ok := c.(*ssa.Defer)
		if !ok {
			continue
		}
		var body *ssa.Function
		var m *ssa.MakeClosure
		switch fv := d.Call.Value.(type) {
		case *ssa.MakeClosure:
			m = fv
			body, _ = fv.Fn.(*ssa.Function)
		case *ssa.Function:
			body = fv
		}
		if body == nil {
			continue
		}
		errRef := func(v ssa.Value) bool {
			switch x := v.(type) {
			case *ssa.FreeVar:
				for i, f := range body.FreeVars {
					if f == x && m != nil && i < len(m.Bindings) && errCell != nil && m.Bindings[i] == ssa.Value(errCell) {
						return true
					}
				}
			case *ssa.Parameter:
				for i, prm := range body.Params {
					if prm == x && i < len(d.Call.Args) && errCell != nil && d.Call.Args[i] == ssa.Value(errCell) {
						return true
					}
				}
			}
			return false
		}
		if e := closeEffects(body, errRef, 0); len(e) > 0 {
			def, effs, mc = d, e, m
		}
	}
	good := true
	explicit := false
	var defPos token.Pos
	if def == nil {
		// no deferred cleanup: an explicit one must run on every failure exit after the goroutines were
		// started, and on no successful exit (the readers then belong to the merged iterator)
		var cleanup *ssa.Call
		for _, c := range callsIn(fn) {
			call, ok := c.(*ssa.Call)
			if !ok {
				continue
			}
			h := staticCallee(call)
			if h == nil || h.Blocks == nil || h.Pkg != fn.Pkg {
				continue
			}
			for _, e := range closeEffects(h, nil, 0) {
				if e.Loop && e.Param >= 0 {
					cleanup, effs = call, []closeEffect{e}
					effs[0].OnError = true
				}
			}
		}
		if cleanup == nil {
			o.Fail(r.pos(fn.Pos()), "no cleanup (deferred, or explicit on the failure exits) that closes the opened readers")
			return
		}
		explicit = true
		defPos = cleanup.Pos()
		for _, ret := range returnsOf(fn) {
			if len(ret.Results) == 0 || !blockReaches(firstGo.Block(), ret.Block()) {
				continue
			}
			last := ret.Results[len(ret.Results)-1]
			isFail, isOK := false, false
			for _, lv := range phiLeaves(last) {
				if isNilConst(lv) {
					isOK = true
				} else {
					isFail = true
				}
			}
			dom := instrDominates(cleanup, ret)
			if isFail && !dom {
				good = false
				o.Fail(r.pos(ret.Pos()), "a failure exit after the goroutines were started does not pass through the cleanup: the readers opened so far leak")
			}
			if isOK && !isFail && dom {
				good = false
				o.Fail(r.pos(ret.Pos()), "the cleanup also runs on the successful exit (the readers belong to the merged iterator then)")
			}
		}
	} else {
		defPos = def.Pos()
		if !instrDominates(def, firstGo) {
			good = false
			o.Fail(r.pos(def.Pos()), "the cleanup is registered after goroutines may already have opened readers")
		}
	}
	_ = explicit
	var loopEff *closeEffect
	for i := range effs {
		if effs[i].Loop {
			loopEff = &effs[i]
		}
	}
	if loopEff == nil {
		good = false
		o.Fail(r.pos(defPos), "the cleanup does not close the elements of the slot slice")
	} else {
		if !loopEff.OnError {
			good = false
			o.Fail(r.pos(defPos), "the cleanup closes the readers even when the function succeeds (they belong to the merged iterator then)")
		}
		// the closed slice is the slot slice the goroutines fill
		_ = mc
		lf := loopEff.LoopFn
		var l *rangeLoop
		for _, cand := range rangeIndexLoops(lf) {
			if cand.Blocks[loopEff.Call.Block()] {
				l = cand
			}
		}
		if l == nil {
			good = false
			o.Fail(r.pos(loopEff.Call.Pos()), "the readers are not closed in a loop over the slots")
		} else {
			if d, ok := isWholeValue(l.X); !ok {
				good = false
				o.Fail(r.pos(l.Len.Pos()), "the cleanup ranges over a %s of the slots", d)
			}
			if ex := l.earlyExits(); len(ex) > 0 {
				good = false
				o.Fail(r.pos(termPos(ex[0][0])), "the cleanup loop can be left before every slot was visited (readers opened for later containers leak)")
			}
			for b := range l.Blocks {
				ifi, ok := b.Instrs[len(b.Instrs)-1].(*ssa.If)
				if !ok || b == l.Header {
					continue
				}
				x, _, ok := nilCheck(ifi.Cond)
				isElemNil := false
				if ok {
					if lu, ok := x.(*ssa.UnOp); ok && lu.Op == token.MUL && isIndexOf(lu.X, l) {
						isElemNil = true
					}
				}
				if !isElemNil {
					good = false
					o.Fail(r.pos(termPos(b)), "a slot may be skipped by a condition other than `slot == nil`")
				}
			}
		}
	}
	// success path hands the whole slot slice to newMergeIter
	handed := false
	for _, c := range callsIn(fn) {
		if callIs(c, modPath+"/"+dockerlogPkg, "newMergeIter") {
			if d, ok := isWholeValue(c.Common().Args[0]); ok && d != "re-slice" {
				handed = true
			}
		}
	}
	if !handed {
		// the opening was extracted: the function returns the whole slot slice on success and
		// its caller hands that result to the merged iterator
		returnsSlots := false
		for _, ret := range returnsOf(fn) {
			if len(ret.Results) < 2 {
				continue
			}
			// results spilled for a deferred function: what was stored into the result cell
			if u, ok := ret.Results[0].(*ssa.UnOp); ok {
				if al, ok := u.X.(*ssa.Alloc); ok && len(storesTo(al)) > 0 {
					whole := false
					for _, st := range storesTo(al) {
						if isNilConst(st.Val) {
							continue
						}
						if d, ok := isWholeValue(st.Val); ok && d != "re-slice" {
							whole = true
						} else {
							whole = false
							break
						}
					}
					returnsSlots = whole
					continue
				}
			}
			if !isNilConst(ret.Results[len(ret.Results)-1]) {
				continue
			}
			if d, ok := isWholeValue(ret.Results[0]); ok && d != "re-slice" {
				returnsSlots = true
			} else {
				returnsSlots = false
				break
			}
		}
		if returnsSlots {
			for _, caller := range p.SrcFuncs() {
				if pkgOfFunc(caller) != pkgOfFunc(fn) {
					continue
				}
				for _, c := range callsIn(caller) {
					if !callIs(c, modPath+"/"+dockerlogPkg, "newMergeIter") {
						continue
					}
					if oc, idx, ok := extractOf(c.Common().Args[0]); ok && idx == 0 && staticCallee(oc) == fn {
						handed = true
					}
				}
			}
		}
	}
	if !handed {
		good = false
		o.Fail(r.pos(fn.Pos()), "the opened readers are not all handed to the merged iterator")
	}
	if good {
		o.OK("%s: cleanup on failure only (deferred before Go, or explicit on every failure exit): range all slots, close non-nil; success: newMergeIter(iters)", shortFuncName(fn)).At(r.pos(defPos))
	}
}
