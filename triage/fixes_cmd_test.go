// Triage test for D3/D13 (place in cmd/docker-logql). Not a check.
package main

import (
	"bytes"
	"fmt"
	"testing"
	"time"

	"github.com/stretchr/testify/require"

	"github.com/tdakkota/docker-logql/internal/lokiapi"
)

func TestTriageD3Palette(t *testing.T) {
	var data lokiapi.QueryResponseData
	var streams lokiapi.Streams
	for i := 0; i < 20; i++ {
		streams = append(streams, lokiapi.Stream{
			Stream: lokiapi.NewOptLabelSet(lokiapi.LabelSet{"container": fmt.Sprintf("c%d", i)}),
			Values: []lokiapi.LogEntry{{T: uint64(i), V: "m"}},
		})
	}
	data.SetStreamsResult(lokiapi.StreamsResult{Result: streams})
	var buf bytes.Buffer
	require.NoError(t, renderResult(&buf, renderOptions{timestamp: true, container: true, color: true}, data))
	require.Equal(t, 20, bytes.Count(buf.Bytes(), []byte("\n")))
}

func TestTriageD13Step(t *testing.T) {
	for _, v := range []string{"0", "0s", "-5", "NaN", "Inf", "-1s"} {
		_, err := parseStep(lokiapi.NewOptPrometheusDuration(lokiapi.PrometheusDuration(v)), time.Unix(0, 0), time.Unix(100, 0))
		require.Error(t, err, v)
	}
	for _, v := range []string{"1", "1.5", "30s", "1m"} {
		d, err := parseStep(lokiapi.NewOptPrometheusDuration(lokiapi.PrometheusDuration(v)), time.Unix(0, 0), time.Unix(100, 0))
		require.NoError(t, err, v)
		require.Greater(t, d, time.Duration(0))
	}
}
