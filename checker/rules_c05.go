package main

import (
	"fmt"
	"go/constant"
	"go/token"
	"go/types"
	"sort"
	"strings"
	"unicode"

	"golang.org/x/tools/go/ssa"
)

// symbolTokens: LogQL surface symbols -> token names (specification table).
var symbolTokens = map[string]string{
	",": "Comma", ".": "Dot", "{": "OpenBrace", "}": "CloseBrace", "=": "Eq", "!=": "NotEq", "=~": "Re", "!~": "NotRe",
	"|=": "PipeExact", "|~": "PipeMatch", "|": "Pipe", "(": "OpenParen", ")": "CloseParen", "[": "OpenBracket", "]": "CloseBracket",
	"+": "Add", "-": "Sub", "*": "Mul", "/": "Div", "%": "Mod", "^": "Pow", "==": "CmpEq", ">": "Gt", ">=": "Gte", "<": "Lt", "<=": "Lte",
}

// keyword irregulars: spelling -> token name where snake_case->CamelCase does not apply.
var keywordIrregular = map[string]string{
	"json": "JSON", "ip": "IP", "bytes": "BytesConv", "duration": "DurationConv", "duration_seconds": "DurationSecondsConv",
}

func camel(s string) string {
	parts := strings.Split(s, "_")
	out := ""
	for _, p := range parts {
		if p == "" {
			continue
		}
		r := []rune(p)
		r[0] = unicode.ToUpper(r[0])
		out += string(r)
	}
	return out
}

// functionTokens: tokens whose spelling is a function name in the grammar (followed by `(`, `by` or `without`).
var functionTokens = []string{
	"Rate", "RateCounter", "CountOverTime", "BytesRate", "BytesOverTime", "AvgOverTime", "SumOverTime", "MinOverTime", "MaxOverTime",
	"StdvarOverTime", "StddevOverTime", "QuantileOverTime", "FirstOverTime", "LastOverTime", "AbsentOverTime", "Vector",
	"Sum", "Avg", "Max", "Min", "Count", "Stddev", "Stdvar", "Bottomk", "Topk", "Sort", "SortDesc", "LabelReplace",
	"BytesConv", "DurationConv", "DurationSecondsConv", "IP",
}

func ruleTokenTable(r *Run) {
	p := r.P
	T := p.NamedType(lexerPkg, "TokenType")
	entries, pos, ok := mapLiteralOfVar(p, lexerPkg, "tokens")
	anchor := r.Ob("ANCHOR", "lexer.tokens", "token table resolves")
	anchor.Trivial = true
	if !ok || T == nil {
		anchor.Fail("-", "package-level map literal lexer.tokens or type TokenType not found")
		return
	}
	anchor.OK("resolved").At(r.pos(pos))
	consts := enumConstants(T)
	seenTok := map[string]string{}
	n := 0
	for _, e := range entries {
		if e.Key == nil || e.Key.Kind() != constant.String || e.Val == nil {
			r.Ob("CH-MAP", "lexer.tokens entry", "entries are constant").Undecide(r.pos(e.Pos), "non-constant entry")
			continue
		}
		sp := constant.StringVal(e.Key)
		tok := constName(consts, e.Val)
		n++
		o := r.Ob("CH-MAP", "lexer.tokens["+sp+"]", "the spelling maps to the token that names it")
		want, isSym := symbolTokens[sp]
		if !isSym {
			if irr, ok := keywordIrregular[sp]; ok {
				want = irr
			} else {
				want = camel(sp)
			}
		}
		if tok == want {
			o.OK("%q -> %s", sp, tok).At(r.pos(e.Pos))
		} else {
			o.Fail(r.pos(e.Pos), "spelling %q maps to token %s, expected %s", sp, tok, want)
		}
		if prev, dup := seenTok[tok]; dup {
			o.Fail(r.pos(e.Pos), "token %s is produced by two spellings (%q and %q)", tok, prev, sp)
		}
		seenTok[tok] = sp
	}
	r.count("token_table_entries", n)
	inv := r.Ob("CH-MAP", "lexer.tokens inventory", "every symbol of the surface syntax and at least the confirmed number of spellings are present")
	missing := []string{}
	for sp := range symbolTokens {
		found := false
		for _, e := range entries {
			if e.Key != nil && e.Key.Kind() == constant.String && constant.StringVal(e.Key) == sp {
				found = true
			}
		}
		if !found {
			missing = append(missing, sp)
		}
	}
	sort.Strings(missing)
	if n < 81 || len(missing) > 0 {
		inv.Fail(r.pos(pos), "%d entries (floor 81); missing symbols %v", n, missing)
	} else {
		inv.OK("%d entries, all %d symbols present", n, len(symbolTokens))
	}

	// IsFunction
	fn := p.Method(lexerPkg, "TokenType", "IsFunction")
	of := r.Ob("CH-MAP", "lexer.TokenType.IsFunction", "IsFunction is true exactly for the tokens that spell function names")
	if fn == nil {
		of.Fail("-", "method not found")
		return
	}
	want := map[string]bool{}
	for _, t := range functionTokens {
		want[t] = true
	}
	var wrong []string
	for name, cv := range consts {
		w := &feWalker{Fn: fn, Assume: map[ssa.Value]constant.Value{fn.Params[0]: cv}}
		got := "?"
		for _, e := range w.Run() {
			if len(e.Results) == 1 && e.Results[0].Known {
				got = fmt.Sprint(constant.BoolVal(e.Results[0].C))
			}
		}
		if got != fmt.Sprint(want[name]) {
			wrong = append(wrong, name+"="+got)
		}
	}
	sort.Strings(wrong)
	if len(wrong) == 0 {
		of.OK("%d function tokens", len(want)).At(r.pos(fn.Pos()))
	} else {
		of.Fail(r.pos(fn.Pos()), "IsFunction disagrees with the grammar for %v", wrong)
	}

	// the look-ahead after a function name skips everything the scanner treats as whitespace (layout
	// independence of function-name lookahead). The skipping loop is found by its role: the loop that
	// runs under `tt.IsFunction()` in the lexer's nextToken, in place or in a helper called from there.
	osp := r.Ob("FE-CLASS", "lexer.scanSpace", "the look-ahead after a function name skips space, tab, CR and LF (everything text/scanner skips between tokens)")
	nt := p.Method(lexerPkg, "lexer", "nextToken")
	if nt == nil {
		osp.Fail("-", "lexer.nextToken not found")
		return
	}
	var isFn *ssa.Call
	hostFn := nt // the function (nextToken or a helper of it) that tests IsFunction()
	for _, gf := range funcGroup(nt) {
		for _, c := range callsIn(gf) {
			if call, ok := c.(*ssa.Call); ok && callIs(call, modPath+"/"+lexerPkg, "(TokenType).IsFunction") {
				isFn, hostFn = call, gf
			}
		}
	}
	if isFn == nil {
		osp.Fail(r.pos(nt.Pos()), "nextToken does not test IsFunction()")
		return
	}
	type skipLoop struct {
		fn     *ssa.Function
		header *ssa.BasicBlock
		blocks map[*ssa.BasicBlock]bool
	}
	loopsOf := func(fn *ssa.Function) []skipLoop {
		var out []skipLoop
		seen := map[*ssa.BasicBlock]bool{}
		for _, b := range fn.Blocks {
			for _, sc := range b.Succs {
				if sc.Dominates(b) && !seen[sc] {
					seen[sc] = true
					bl := naturalLoop(sc)
					hasNext := false
					for lb := range bl {
						for _, in := range lb.Instrs {
							if c, ok := in.(ssa.CallInstruction); ok && callIs(c, "text/scanner", "(*Scanner).Next") {
								hasNext = true
							}
						}
					}
					if hasNext {
						out = append(out, skipLoop{fn, sc, bl})
					}
				}
			}
		}
		return out
	}
	var cands []skipLoop
	for _, l := range loopsOf(hostFn) {
		under := false
		if b, known := knownBoolAt(l.header, isFn); known && b {
			under = true
		}
		for _, pb := range l.header.Preds {
			if l.blocks[pb] {
				continue
			}
			if b, known := knownBoolAt(pb, isFn); known && b {
				under = true
			}
			if f, ok := edgeFact(pb, l.header); ok {
				if f = normFact(f); f.Cond == ssa.Value(isFn) && f.Truth {
					under = true
				}
			}
		}
		if under {
			cands = append(cands, l)
		}
	}
	for _, c := range callsIn(hostFn) {
		if b, known := knownBoolAt(c.Block(), isFn); !known || !b {
			continue
		}
		if h := staticCallee(c); h != nil && h.Blocks != nil && h.Pkg == nt.Pkg {
			cands = append(cands, loopsOf(h)...)
		}
	}
	if len(cands) != 1 {
		osp.Fail(r.pos(nt.Pos()), "expected one whitespace-skipping loop under IsFunction(), found %d", len(cands))
		return
	}
	sl := cands[0]
	var bad []string
	for _, ch := range []rune{' ', '\t', '\r', '\n'} {
		if !loopSkips(sl.fn, sl.header, sl.blocks, ch) {
			bad = append(bad, fmt.Sprintf("%q", ch))
		}
	}
	if len(bad) == 0 {
		osp.OK("the loop consumes space, tab, CR, LF").At(r.pos(termPos(sl.header)))
	} else {
		osp.Fail(r.pos(termPos(sl.header)), "the look-ahead does not skip %v: a function name followed by that character is demoted to an identifier", bad)
	}
}

// loopSkips: with every Peek of the loop yielding ch, does the loop consume it (reach Scanner.Next
// inside the loop) instead of leaving?
func loopSkips(fn *ssa.Function, header *ssa.BasicBlock, blocks map[*ssa.BasicBlock]bool, ch rune) bool {
	assume := map[ssa.Value]constant.Value{}
	for _, c := range callsIn(fn) {
		if call, ok := c.(*ssa.Call); ok && callIs(call, "text/scanner", "(*Scanner).Peek") && (blocks[call.Block()] || call.Block().Dominates(header)) {
			assume[call] = constant.MakeInt64(int64(ch))
		}
	}
	if len(assume) == 0 {
		return false
	}
	hook := func(w *feWalker, st *feState, v ssa.Value) (constant.Value, bool) {
		if c, ok := v.(*ssa.Call); ok && callIs(c, "unicode", "IsSpace") {
			return constant.MakeBool(unicode.IsSpace(ch)), true
		}
		return nil, false
	}
	var pre *ssa.BasicBlock
	for _, pb := range header.Preds {
		if !blocks[pb] {
			pre = pb
		}
	}
	w := &feWalker{Fn: fn, Assume: assume, Hook: hook, MaxPath: 20000}
	var ends []*feEnd
	if pre != nil {
		ends = w.RunFrom(header, pre)
	} else {
		ends = w.Run()
	}
	if w.Aborted || len(ends) == 0 {
		return false
	}
	for _, e := range ends {
		// position (in event order) at which the path first leaves the loop
		leave := 1 << 30
		for i, b := range e.State.trail {
			if !blocks[b] && i < len(e.State.trailSeq) {
				leave = e.State.trailSeq[i]
				break
			}
		}
		consumed := false
		for _, c := range e.State.calls {
			if callIs(c.Call, "text/scanner", "(*Scanner).Next") && blocks[c.Call.Block()] && c.Seq <= leave {
				consumed = true
			}
		}
		if !consumed {
			return false
		}
	}
	return true
}

// scanSpaceSkips: under peek()==ch does the loop consume the character (call Next)?
func scanSpaceSkips(fn *ssa.Function, ch rune) bool {
	var peek ssa.Value
	for _, c := range callsIn(fn) {
		if callIs(c, "text/scanner", "(*Scanner).Peek") {
			peek, _ = c.(*ssa.Call)
		}
	}
	if peek == nil {
		return false
	}
	hook := func(w *feWalker, st *feState, v ssa.Value) (constant.Value, bool) {
		if c, ok := v.(*ssa.Call); ok && callIs(c, "unicode", "IsSpace") {
			return constant.MakeBool(unicode.IsSpace(ch)), true
		}
		return nil, false
	}
	w := &feWalker{Fn: fn, Assume: map[ssa.Value]constant.Value{peek: constant.MakeInt64(int64(ch))}, Hook: hook}
	for _, e := range w.Run() {
		consumed := false
		for _, c := range e.State.calls {
			if callIs(c.Call, "text/scanner", "(*Scanner).Next") {
				consumed = true
			}
		}
		if !consumed {
			return false
		}
	}
	return true
}

// ruleValidateTables: static rules of range and vector aggregations.
func ruleValidateTables(r *Run) {
	p := r.P
	// --- RangeAggregationExpr.validate
	fn := p.Method(logqlPkg, "RangeAggregationExpr", "validate")
	R := p.NamedType(logqlPkg, "RangeOp")
	if fn == nil || R == nil {
		r.Ob("ANCHOR", "logql.(*RangeAggregationExpr).validate", "anchor resolves").Fail("-", "not found")
	} else {
		rc := enumConstants(R)
		groupingOK := set("RangeOpAvg", "RangeOpStddev", "RangeOpStdvar", "RangeOpQuantile", "RangeOpMax", "RangeOpMin", "RangeOpFirst", "RangeOpLast")
		unwrapOK := set("RangeOpAvg", "RangeOpSum", "RangeOpMax", "RangeOpMin", "RangeOpStddev", "RangeOpStdvar", "RangeOpQuantile", "RangeOpRate", "RangeOpRateCounter", "RangeOpAbsent", "RangeOpFirst", "RangeOpLast")
		noUnwrapOK := set("RangeOpBytes", "RangeOpBytesRate", "RangeOpCount", "RangeOpRate", "RangeOpAbsent")
		recv := fn.Params[0]
		// atoms: e.Op (tag), e.Parameter != nil, e.Grouping != nil, e.Range.Unwrap != nil
		opLoad, atoms := validateAtoms(fn, recv, []string{"Parameter", "Grouping", "Unwrap"})
		if opLoad == nil || len(atoms) != 3 {
			r.Ob("CH-MAP", "logql.(*RangeAggregationExpr).validate", "static rules").Undecide(r.pos(fn.Pos()), "could not identify Op/Parameter/Grouping/Unwrap tests (found %d)", len(atoms))
		} else {
			names := sortedNames(rc)
			for _, name := range names {
				o := r.Ob("CH-MAP", "logql.(*RangeAggregationExpr).validate["+name+"]", "parameter iff quantile_over_time; grouping/unwrap admissibility per LogQL")
				bad := false
				for _, hasParam := range []bool{false, true} {
					for _, hasGroup := range []bool{false, true} {
						for _, hasUnwrap := range []bool{false, true} {
							wantOK := (hasParam == (name == "RangeOpQuantile")) && (!hasGroup || groupingOK[name]) &&
								((hasUnwrap && unwrapOK[name]) || (!hasUnwrap && noUnwrapOK[name]))
							got, known := validateOutcome(fn, opLoad, rc[name], atoms, map[string]bool{"Parameter": hasParam, "Grouping": hasGroup, "Unwrap": hasUnwrap})
							if !known {
								bad = true
								o.Undecide(r.pos(fn.Pos()), "outcome not decidable for param=%v grouping=%v unwrap=%v", hasParam, hasGroup, hasUnwrap)
							} else if got != wantOK {
								bad = true
								o.Fail(r.pos(fn.Pos()), "%s with parameter=%v grouping=%v unwrap=%v is %s, expected %s", name, hasParam, hasGroup, hasUnwrap, accRej(got), accRej(wantOK))
							}
						}
					}
				}
				if !bad {
					o.OK("8 combinations agree").At(r.pos(fn.Pos()))
				}
			}
		}
	}
	// --- VectorAggregationExpr.validate
	fv := p.Method(logqlPkg, "VectorAggregationExpr", "validate")
	V := p.NamedType(logqlPkg, "VectorOp")
	if fv == nil || V == nil {
		r.Ob("ANCHOR", "logql.(*VectorAggregationExpr).validate", "anchor resolves").Fail("-", "not found")
		return
	}
	vc := enumConstants(V)
	opLoad, atoms := validateAtoms(fv, fv.Params[0], []string{"Parameter", "Grouping"})
	if opLoad == nil || len(atoms) != 2 {
		r.Ob("CH-MAP", "logql.(*VectorAggregationExpr).validate", "static rules").Undecide(r.pos(fv.Pos()), "could not identify Op/Parameter/Grouping tests (found %d)", len(atoms))
		return
	}
	// the parameter value: *e.Parameter compared with 0
	for _, name := range sortedNames(vc) {
		o := r.Ob("CH-MAP", "logql.(*VectorAggregationExpr).validate["+name+"]", "topk/bottomk need a parameter > 0, no other operation takes one; no grouping on sort/sort_desc")
		isK := name == "VectorOpTopk" || name == "VectorOpBottomk"
		isSort := name == "VectorOpSort" || name == "VectorOpSortDesc"
		bad := false
		for _, hasParam := range []bool{false, true} {
			for _, hasGroup := range []bool{false, true} {
				for _, sign := range []int64{-1, 0, 1} {
					if !hasParam && sign != 1 {
						continue
					}
					wantOK := (hasParam == isK) && (!hasParam || sign > 0) && !(isSort && hasGroup)
					got, known := validateOutcomeV(fv, opLoad, vc[name], atoms, map[string]bool{"Parameter": hasParam, "Grouping": hasGroup}, sign)
					if !known {
						bad = true
						o.Undecide(r.pos(fv.Pos()), "outcome not decidable for param=%v(%d) grouping=%v", hasParam, sign, hasGroup)
					} else if got != wantOK {
						bad = true
						o.Fail(r.pos(fv.Pos()), "%s with parameter=%v (sign %d) grouping=%v is %s, expected %s", name, hasParam, sign, hasGroup, accRej(got), accRej(wantOK))
					}
				}
			}
		}
		if !bad {
			o.OK("all parameter/grouping combinations agree").At(r.pos(fv.Pos()))
		}
	}
	// both validate calls dominate the success exits of their parse functions
	for _, pf := range []struct{ parse, typ string }{{"parseRangeAggregationExpr", "RangeAggregationExpr"}, {"parseVectorAggregationExpr", "VectorAggregationExpr"}} {
		f := p.Method(logqlPkg, "parser", pf.parse)
		o := r.Ob("PV-ORDER", "logql.(*parser)."+pf.parse+" validate", "every successful parse has passed validate (its error is returned)")
		if f == nil {
			o.Fail("-", "method not found")
			continue
		}
		var vcall *ssa.Call
		for _, c := range callsIn(f) {
			if call, ok := c.(*ssa.Call); ok && callIs(call, modPath+"/"+logqlPkg, "(*"+pf.typ+").validate") {
				vcall = call
			}
		}
		if vcall == nil {
			o.Fail(r.pos(f.Pos()), "validate is not called")
			continue
		}
		bad := false
		w := &feWalker{Fn: f, MaxPath: 20000}
		for _, e := range w.Run() {
			if e.Cut {
				continue
			}
			if isErr, known := endReturnsError(e); known && isErr {
				continue
			}
			// success or unknown: the returned error must be validate's result, or validate returned nil
			if len(e.Results) == 2 && e.Results[1].V == ssa.Value(vcall) {
				continue
			}
			called := false
			for _, c := range e.State.calls {
				if c.Call == ssa.CallInstruction(vcall) {
					called = true
				}
			}
			okNil := false
			for _, fct := range e.State.free {
				if x, nn, ok := nilCheck(fct.Cond); ok && x == ssa.Value(vcall) && nn != fct.Truth {
					okNil = true
				}
			}
			if !(called && okNil) {
				bad = true
				o.Fail(r.pos(e.Term.Pos()), "a successful return is reachable without validate's verdict")
			}
		}
		if !bad {
			o.OK("validate's result is returned on every non-error path").At(r.pos(vcall.Pos()))
		}
	}
}

func accRej(b bool) string {
	if b {
		return "accepted"
	}
	return "rejected"
}

func set(xs ...string) map[string]bool {
	m := map[string]bool{}
	for _, x := range xs {
		m[x] = true
	}
	return m
}

func sortedNames(m map[string]constant.Value) []string {
	var out []string
	for k := range m {
		if !strings.HasPrefix(k, "_") {
			out = append(out, k)
		}
	}
	sort.Strings(out)
	return out
}

// validateAtoms finds the load of recv.Op and the nil-tests of the named pointer fields.
func validateAtoms(fn *ssa.Function, recv ssa.Value, fields []string) (ssa.Value, map[string][]ssa.Value) {
	var op ssa.Value
	atoms := map[string][]ssa.Value{}
	allInstrs(fn, func(in ssa.Instruction) {
		switch x := in.(type) {
		case *ssa.UnOp:
			if f, base, ok := loadOfField(x); ok && f == "Op" && base == recv {
				if op == nil {
					op = x
				}
			}
		case *ssa.BinOp:
			v, _, ok := nilCheck(x)
			if !ok {
				return
			}
			if f, _, ok := loadOfField(v); ok {
				for _, want := range fields {
					if f == want {
						atoms[f] = append(atoms[f], x)
					}
				}
			}
		}
	})
	return op, atoms
}

// validateOutcome: accepted (returns nil) under the given assumptions.
func validateOutcome(fn *ssa.Function, opLoad ssa.Value, opVal constant.Value, atoms map[string][]ssa.Value, present map[string]bool) (accepted, known bool) {
	return validateOutcomeV(fn, opLoad, opVal, atoms, present, 1)
}

func validateOutcomeV(fn *ssa.Function, opLoad ssa.Value, opVal constant.Value, atoms map[string][]ssa.Value, present map[string]bool, paramSign int64) (accepted, known bool) {
	assume := map[ssa.Value]constant.Value{}
	// every load of recv.Op is the same value: assume all of them
	allInstrs(fn, func(in ssa.Instruction) {
		if u, ok := in.(*ssa.UnOp); ok {
			if f, base, ok := loadOfField(u); ok && f == "Op" && base == ssa.Value(fn.Params[0]) {
				assume[u] = opVal
			}
			// *e.Parameter (int) value
			if u.Op == token.MUL {
				if inner, ok := u.X.(*ssa.UnOp); ok {
					if f, _, ok := loadOfField(inner); ok && f == "Parameter" {
						if b, ok := u.Type().Underlying().(*types.Basic); ok && b.Info()&types.IsInteger != 0 {
							assume[u] = constant.MakeInt64(paramSign)
						}
					}
				}
			}
		}
	})
	for f, conds := range atoms {
		for _, c := range conds {
			b := c.(*ssa.BinOp)
			_, trueWhenNonNil, _ := nilCheck(b)
			assume[c] = constant.MakeBool(present[f] == trueWhenNonNil)
		}
	}
	w := &feWalker{Fn: fn, Assume: assume}
	ends := w.Run()
	if len(ends) == 0 || w.Aborted {
		return false, false
	}
	res := -1
	for _, e := range ends {
		if e.Cut {
			return false, false
		}
		isErr, kn := endReturnsError(e)
		if !kn {
			return false, false
		}
		v := 0
		if !isErr {
			v = 1
		}
		if res == -1 {
			res = v
		} else if res != v {
			return false, false
		}
	}
	return res == 1, true
}

// ruleScanUnit: numeric literal suffix -> unit kind.
func ruleScanUnit(r *Run) {
	p := r.P
	fn := p.Func("internal/lexerql", "ScanUnit")
	o := r.Ob("CH-MAP", "lexerql.ScanUnit suffixes", "a number followed by a byte-size suffix is a Bytes literal, by a duration suffix a Duration literal (m is minutes, never mega), anything else is an error; each literal is validated by its own parser")
	if fn == nil {
		o.Fail("-", "function not found")
		return
	}
	var tag *ssa.Call
	for _, c := range callsIn(fn) {
		if call, ok := c.(*ssa.Call); ok && callIs(call, "strings", "ToLower") {
			tag = call
		}
	}
	if tag == nil {
		o.Undecide(r.pos(fn.Pos()), "no dispatch on the lower-cased suffix")
		return
	}
	want := map[string]string{}
	for _, s := range []string{"b", "kib", "kb", "mib", "mb", "gib", "gb", "tib", "tb", "pib", "pb", "eib", "eb", "ki", "k", "mi", "gi", "g", "ti", "t", "pi", "p", "ei", "e"} {
		want[s] = "Bytes"
	}
	for _, s := range []string{"ns", "us", "µs", "μs", "ms", "s", "m", "h", "d", "w"} {
		want[s] = "Duration"
	}
	want["x"] = "error"
	want["mm"] = "error"
	want[""] = "error"
	U := p.NamedType("internal/lexerql", "UnitType")
	var uconsts map[string]constant.Value
	if U != nil {
		uconsts = enumConstants(U)
	}
	// Number/Duration/Bytes are untyped constants in the package: read them from the scope
	pk := p.Pkg("internal/lexerql")
	kind := map[int64]string{}
	for _, n := range []string{"Number", "Duration", "Bytes"} {
		if c, ok := pk.Types.Scope().Lookup(n).(*types.Const); ok {
			v, _ := constant.Int64Val(c.Val())
			kind[v] = n
		}
	}
	_ = uconsts
	bad := false
	var sufs []string
	for s := range want {
		sufs = append(sufs, s)
	}
	sort.Strings(sufs)
	for _, suf := range sufs {
		w := &feWalker{Fn: fn, Assume: map[ssa.Value]constant.Value{tag: constant.MakeString(suf)}, MaxPath: 5000}
		got := map[string]bool{}
		for _, e := range w.Run() {
			reached := false
			for _, c := range e.State.calls {
				if c.Call == ssa.CallInstruction(tag) {
					reached = true
				}
			}
			if !reached || e.Cut || len(e.Results) != 2 {
				continue
			}
			// result #0 is a Unit struct: find the stored Type field
			k := "?"
			if isErr, known := endReturnsError(e); known && isErr {
				// default arm: zero Unit
				k = "error"
			}
			u := e.Results[0].V
			if lu, ok := u.(*ssa.UnOp); ok {
				if al, ok := lu.X.(*ssa.Alloc); ok {
					fs := allocFieldStores(al)
					if tv, ok := fs["Type"]; ok {
						if c, ok := constInt(tv); ok {
							k = kind[c]
							// which validator ran
							for _, c2 := range e.State.calls {
								callee := staticCallee(c2.Call)
								if callee == nil {
									continue
								}
								if k == "Bytes" && cname(callee) == "ParseDuration" || k == "Duration" && cname(callee) == "ParseBytes" {
									k += "(validated by the wrong parser)"
								}
							}
						}
					}
				}
			}
			got[k] = true
		}
		if g := joinSet(got); g != want[suf] {
			bad = true
			o.Fail(r.pos(fn.Pos()), "suffix %q yields %q, expected %s", suf, g, want[suf])
		}
	}
	if !bad {
		o.OK("%d suffixes agree", len(want)).At(r.pos(fn.Pos()))
	}
}

// ruleParserUniqueness: duplicate label_format targets and duplicate regexp captures are errors.
func ruleParserUniqueness(r *Run) {
	p := r.P
	for _, s := range []struct{ fn, what string }{{"parseLabelFormatExpr", "label_format target"}, {"parseRegexpLabelParser", "regexp capture name"}} {
		fn := p.Method(logqlPkg, "parser", s.fn)
		o := r.Ob("PV-FIRST", "logql.(*parser)."+s.fn+" uniqueness", "a repeated "+s.what+" is rejected: the name is looked up in the set of names seen so far, a hit is an error, a miss records it")
		if fn == nil {
			o.Fail("-", "method not found")
			continue
		}
		var lk *ssa.Lookup
		var mu *ssa.MapUpdate
		allInstrs(fn, func(in ssa.Instruction) {
			switch x := in.(type) {
			case *ssa.Lookup:
				if x.CommaOk {
					if _, ok := x.X.(*ssa.MakeMap); ok {
						lk = x
					}
				}
			case *ssa.MapUpdate:
				if mm, ok := x.Map.(*ssa.MakeMap); ok {
					if mt, ok := mm.Type().Underlying().(*types.Map); ok {
						if st, ok := mt.Elem().Underlying().(*types.Struct); ok && st.NumFields() == 0 {
							mu = x
						}
					}
				}
			}
		})
		if lk == nil || mu == nil {
			o.Fail(r.pos(fn.Pos()), "seen-set lookup=%v, insertion=%v", lk != nil, mu != nil)
			continue
		}
		bad := false
		if lk.X != mu.Map || describe(lk.Index, 0) != describe(mu.Key, 0) {
			bad = true
			o.Fail(r.pos(lk.Pos()), "the name that is tested (%s) is not the name that is recorded (%s)", describe(lk.Index, 0), describe(mu.Key, 0))
		}
		var okv ssa.Value
		for _, ref := range *lk.Referrers() {
			if e, ok := ref.(*ssa.Extract); ok && e.Index == 1 {
				okv = e
			}
		}
		if okv == nil {
			bad = true
			o.Fail(r.pos(lk.Pos()), "the presence result is ignored")
		} else {
			w := &feWalker{Fn: fn, Assume: map[ssa.Value]constant.Value{okv: constant.MakeBool(true)}, MaxPath: 5000}
			for _, e := range w.Run() {
				reached := false
				for _, b := range e.State.trail {
					if b == lk.Block() {
						reached = true
					}
				}
				if !reached || e.Cut {
					continue
				}
				if isErr, known := endReturnsError(e); !(known && isErr) {
					bad = true
					o.Fail(r.pos(e.Term.Pos()), "a duplicate %s does not end in an error", s.what)
				}
			}
			if b, known := knownBoolAt(mu.Block(), okv); !known || b {
				bad = true
				o.Fail(r.pos(mu.Pos()), "the name is recorded on a path that is not the miss edge")
			}
		}
		if !bad {
			o.OK("hit -> error; miss -> recorded").At(r.pos(fn.Pos()))
		}
	}
	// strings are unquoted exactly once, by the lexer
	lx := p.Method(lexerPkg, "lexer", "nextToken")
	o := r.Ob("PV-API", "string literal unquoting", "a string token's text is unquoted once, in the lexer (strutil.Unquote); the parser never unquotes token text again")
	n := 0
	if lx != nil {
		// in nextToken or a helper of it
		for _, gf := range funcGroup(lx) {
			for _, c := range callsIn(gf) {
				if callee := staticCallee(c); callee != nil && cname(callee) == "Unquote" {
					n++
				}
			}
		}
	}
	nParser := 0
	for _, fn := range p.SrcFuncs() {
		if fn.Pkg == nil || fn.Pkg.Pkg.Path() != modPath+"/"+logqlPkg {
			continue
		}
		for _, c := range callsIn(fn) {
			if callee := staticCallee(c); callee != nil && cname(callee) == "Unquote" {
				nParser++
			}
		}
	}
	if lx != nil && n == 1 && nParser == 0 {
		o.OK("one Unquote in lexer.nextToken, none in the parser")
	} else {
		o.Fail("-", "Unquote calls: lexer.nextToken=%d, parser package=%d", n, nParser)
	}
}

// ruleRangeLayouts: the two layouts of a log range (`sel [r] offset? pipeline` and
// `sel pipeline [r] offset?`) are sibling productions: every successful path through
// parseRangeExpr parses the range, then looks for the offset modifier, and parses the pipeline
// and then looks for unwrap. A layout that skips one of the four accepts a smaller language
// than its sibling.
func ruleRangeLayouts(r *Run) {
	p := r.P
	lq := modPath + "/" + logqlPkg
	fn := p.Method(logqlPkg, "parser", "parseRangeExpr")
	o := r.Ob("PV-SIB", "logql.(*parser).parseRangeExpr layouts", "both layouts of a log range (range first, pipeline first) parse [range], then test for `offset`, and parse the pipeline, then test for `unwrap`")
	T := p.NamedType(lexerPkg, "TokenType")
	if fn == nil || T == nil {
		o.Fail("-", "parseRangeExpr / lexer.TokenType not found")
		return
	}
	consts := enumConstants(T)
	tokIs := func(v ssa.Value, name string) bool {
		c, ok := constOf(v)
		want, ok2 := consts[name]
		return ok && ok2 && c.Kind() == want.Kind() && constant.Compare(c, token.EQL, want)
	}
	w := &feWalker{Fn: fn, Inline: inlineHelpers(fn), MaxPath: 20000}
	ends := w.Run()
	if w.Aborted {
		o.Undecide(r.pos(fn.Pos()), "path enumeration aborted")
		return
	}
	nOK := 0
	bad := false
	for _, e := range ends {
		if e.Cut {
			continue
		}
		if isErr, known := endReturnsError(e); !known || isErr {
			continue
		}
		if _, isRet := e.Term.(*ssa.Return); !isRet {
			continue
		}
		nOK++
		closeSeq, pipeSeq := -1, -1
		for _, c := range e.State.calls {
			if callIs(c.Call, lq, "(*parser).consume") && len(c.Args) == 2 && c.Args[1].Known {
				if want, ok := consts["CloseBracket"]; ok && constant.Compare(c.Args[1].C, token.EQL, want) {
					closeSeq = c.Seq
				}
			}
			if callIs(c.Call, lq, "(*parser).parsePipeline") {
				pipeSeq = c.Seq
			}
		}
		// a comparison of a token type with the given token, evaluated after `after`
		tested := func(name string, after int) bool {
			for i, b := range e.State.trail {
				if i >= len(e.State.trailSeq) || e.State.trailSeq[i] < after {
					continue
				}
				for _, in := range b.Instrs {
					if bo, ok := in.(*ssa.BinOp); ok && (bo.Op == token.EQL || bo.Op == token.NEQ) && (tokIs(bo.X, name) || tokIs(bo.Y, name)) {
						return true
					}
				}
			}
			return false
		}
		var missing []string
		if closeSeq < 0 {
			missing = append(missing, "[range]")
		} else if !tested("Offset", closeSeq) {
			missing = append(missing, "the test for `offset` after the range")
		}
		if pipeSeq < 0 {
			missing = append(missing, "the pipeline")
		} else if !tested("Unwrap", pipeSeq) {
			missing = append(missing, "the test for `unwrap` after the pipeline")
		}
		if len(missing) > 0 {
			bad = true
			o.Fail(r.pos(e.Term.Pos()), "a successful path through parseRangeExpr skips %s: that layout accepts a smaller language than its sibling", strings.Join(missing, ", "))
		}
	}
	if nOK < 2 {
		bad = true
		o.Fail(r.pos(fn.Pos()), "expected at least two successful layouts, found %d successful path(s)", nOK)
	}
	if !bad {
		o.OK("%d successful path(s), each with range -> offset? and pipeline -> unwrap?", nOK).At(r.pos(fn.Pos()))
	}
}

// ruleUnitEvaluators (CH-SIB): a duration / bytes token is evaluated by the parser with the same
// function the lexer validated it with (a token the lexer accepts must not be rejected, or read
// differently, when its value is computed).
func ruleUnitEvaluators(r *Run) {
	p := r.P
	su := p.Func("internal/lexerql", "ScanUnit")
	o := r.Ob("CH-SIB", "logql.(*parser) unit evaluation", "parser.parseDuration / parseBytes compute a token's value with the function lexerql.ScanUnit validated that kind of token with")
	if su == nil {
		o.Fail("-", "lexerql.ScanUnit not found")
		return
	}
	// validating functions of the lexer: non-first-party-free callees of ScanUnit named Parse*
	valid := map[string]bool{}
	for _, c := range callsIn(su) {
		if callee := staticCallee(c); callee != nil && strings.HasPrefix(callee.Name(), "Parse") {
			valid[funcName(callee)] = true
		}
	}
	if len(valid) < 2 {
		o.Fail(r.pos(su.Pos()), "expected ScanUnit to validate durations and byte sizes with two Parse functions, found %d", len(valid))
		return
	}
	bad := false
	// by role: wherever the parser expects a Duration or Bytes token, the token's text is evaluated by
	// one of the validating functions (the evaluation may sit in parseDuration/parseBytes or in their callers)
	lexT := p.NamedType(lexerPkg, "TokenType")
	tconsts := enumConstants(lexT)
	parserT := p.NamedType(logqlPkg, "parser")
	nSites := map[string]int{}
	for _, fn := range p.SrcFuncs() {
		if pkgPathOf(fn) != modPath+"/"+logqlPkg {
			continue
		}
		for _, c := range callsIn(fn) {
			call, ok := c.(*ssa.Call)
			if !ok {
				continue
			}
			callee := staticCallee(call)
			if callee == nil || callee.Signature.Recv() == nil || parserT == nil || !types.Identical(derefType(callee.Signature.Recv().Type()), parserT) {
				continue
			}
			kind := ""
			for _, a := range call.Call.Args {
				if cv, ok := constOf(a); ok && lexT != nil && types.Identical(a.Type(), lexT) {
					for _, k := range []string{"Duration", "Bytes", "Number"} {
						if kc, ok := tconsts[k]; ok && constant.Compare(cv, token.EQL, kc) {
							kind = k
						}
					}
				}
			}
			if kind == "" || callee.Signature.Results().Len() < 2 {
				continue
			}
			// the calls of fn that are handed the token's text
			for _, c2 := range callsIn(fn) {
				ev, ok := c2.(*ssa.Call)
				if !ok || ev == call {
					continue
				}
				uses := false
				for _, a := range ev.Call.Args {
					if !isStringType(a.Type()) {
						continue
					}
					if src, ok := tokenSourceCall(a); ok && src == call {
						uses = true
					}
				}
				if !uses {
					continue
				}
				ec := staticCallee(ev)
				if ec == nil {
					continue
				}
				if pkgOfFunc(ec) == pkgOfFunc(fn) && ec.Signature.Recv() != nil {
					continue // error construction etc. on the parser itself
				}
				if pk, _ := calleePkgName(ev); strings.HasSuffix(pk, "go-faster/errors") || pk == "fmt" {
					continue
				}
				nSites[kind]++
				if kind == "Number" {
					// a number token is a decimal floating-point literal (or a decimal count): no base
					// prefixes, no octal reading of a leading zero
					if pk, nm := calleePkgName(ev); pk != "strconv" || (nm != "ParseFloat" && nm != "Atoi") {
						bad = true
						o.Fail(r.pos(ev.Pos()), "%s evaluates a Number token with %s: numbers are read with strconv.ParseFloat (parameters with strconv.Atoi), nothing that interprets base prefixes or leading zeros", shortFuncName(fn), shortFuncName(ec))
					}
					continue
				}
				if !valid[funcName(ec)] {
					bad = true
					o.Fail(r.pos(ev.Pos()), "%s evaluates a %s token with %s, which is not one of the functions the lexer validates unit tokens with (%v)", shortFuncName(fn), kind, shortFuncName(ec), sortedKeysBool(valid))
				}
			}
		}
	}
	for _, k := range []string{"Duration", "Bytes", "Number"} {
		if nSites[k] == 0 {
			bad = true
			o.Fail(r.pos(su.Pos()), "no place found where the parser evaluates the text of a %s token", k)
		}
	}
	if !bad {
		o.OK("parseDuration and parseBytes use the lexer's validators").At(r.pos(su.Pos()))
	}
}

func sortedKeysBool(m map[string]bool) []string {
	var ks []string
	for k := range m {
		ks = append(ks, strings.ReplaceAll(k, modPath+"/", ""))
	}
	sort.Strings(ks)
	return ks
}

// ruleSingleGrouping: a grouping clause (by / without) is written at most once per aggregation: no
// successful path through an aggregation production parses two grouping clauses (the second would
// silently replace the first).
func ruleSingleGrouping(r *Run) {
	p := r.P
	lq := modPath + "/" + logqlPkg
	for _, name := range []string{"parseVectorAggregationExpr", "parseRangeAggregationExpr"} {
		fn := p.Method(logqlPkg, "parser", name)
		o := r.Ob("PV-ONCE", "logql.(*parser)."+name+" grouping", "an aggregation takes at most one grouping clause, before or after its arguments: no successful parse consumes two")
		if fn == nil {
			o.Fail("-", "method not found")
			continue
		}
		// follow only the production's own closures (not the recursive descent into operands)
		// ... and thin helpers around parseGrouping ("the grouping clause, if there is one")
		prods := map[*ssa.Function]bool{}
		for _, nm := range []string{"parseVectorAggregationExpr", "parseRangeAggregationExpr", "parseGrouping"} {
			if f := p.Method(logqlPkg, "parser", nm); f != nil {
				prods[f] = true
			}
		}
		wrapsGrouping := func(c *ssa.Function) bool {
			if prods[c] || c.Blocks == nil {
				return false
			}
			for _, cc := range callsIn(c) {
				if callIs(cc, lq, "(*parser).parseGrouping") {
					return true
				}
			}
			return false
		}
		inl := func(c *ssa.Function, d int) bool { return (c.Parent() == fn || wrapsGrouping(c)) && d <= 2 }
		w := &feWalker{Fn: fn, Inline: inl, MaxPath: 50000}
		ends := w.Run()
		if w.Aborted {
			o.Undecide(r.pos(fn.Pos()), "path enumeration aborted")
			continue
		}
		nOK, bad, seenOne := 0, false, false
		for _, e := range ends {
			if e.Cut {
				continue
			}
			if isErr, known := endReturnsError(e); known && isErr {
				continue
			}
			if _, isRet := e.Term.(*ssa.Return); !isRet {
				continue
			}
			nOK++
			n := 0
			for _, c := range e.State.calls {
				if callIs(c.Call, lq, "(*parser).parseGrouping") {
					n++
				}
			}
			if n == 1 {
				seenOne = true
			}
			if n > 1 && !bad {
				bad = true
				o.Fail(r.pos(e.Term.Pos()), "a successful path parses %d grouping clauses: `op by (a) (...) by (b)` is accepted and the last clause wins", n)
			}
		}
		if nOK == 0 || !seenOne {
			bad = true
			o.Fail(r.pos(fn.Pos()), "no successful path with a grouping clause found (%d successful path(s))", nOK)
		}
		if !bad {
			o.OK("%d successful path(s), none with more than one grouping clause", nOK).At(r.pos(fn.Pos()))
		}
	}
}
