package main

import (
	"go/constant"
	"go/token"
	"strings"

	"golang.org/x/tools/go/ssa"
)

// ruleGrouperSelection: which grouper a range/vector aggregation uses.
func ruleGrouperSelection(r *Run) {
	p := r.P
	for _, s := range []struct {
		fn       string
		noClause string // expected grouper without a grouping clause
		claim    string
	}{
		{"RangeAggregation", "identity", "a range aggregation groups by its own by/without clause whenever one is written (even an empty one) and keeps every label otherwise"},
		{"VectorAggregation", "all-in-one", "a vector aggregation groups by its own by/without clause whenever one is written (even an empty one); without a clause all series form one group with an empty label set"},
	} {
		fn := p.Func(metricPkg, s.fn)
		o := r.Ob("CH-SUM", "logqlmetric."+s.fn+" grouper", s.claim)
		if fn == nil {
			o.Fail("-", "function not found")
			continue
		}
		// atoms: expr.Grouping != nil, g.Without
		var gNonNil *ssa.BinOp
		var gTrueWhenNonNil bool
		var withoutLoads []ssa.Value
		for _, gf := range funcGroup(fn) {
			allInstrs(gf, func(in ssa.Instruction) {
				switch x := in.(type) {
				case *ssa.BinOp:
					if v, nn, ok := nilCheck(x); ok && typeKey(v.Type()) == "Grouping" {
						gNonNil, gTrueWhenNonNil = x, nn
					}
				case *ssa.UnOp:
					if f, base, ok := loadOfField(x); ok && f == "Without" && typeKey(base.Type()) == "Grouping" {
						withoutLoads = append(withoutLoads, x)
					}
				}
			})
		}
		if gNonNil == nil || len(withoutLoads) == 0 {
			o.Undecide(r.pos(fn.Pos()), "Grouping != nil / Without tests not found")
			continue
		}
		classify := func(v ssa.Value) string {
			d := describe(v, 0)
			switch {
			case strings.Contains(d, "AggregatedLabels).Without"):
				return "Without"
			case strings.Contains(d, "AggregatedLabels).By"):
				return "By"
			}
			// package-level grouper variables: summarise the function they hold
			if u, ok := v.(*ssa.UnOp); ok {
				if g, ok := u.X.(*ssa.Global); ok {
					return grouperSummary(p, g)
				}
			}
			return "?" + d
		}
		bad := false
		for _, c := range []struct {
			has, without bool
			want         string
		}{{false, false, s.noClause}, {true, false, "By"}, {true, true, "Without"}} {
			assume := map[ssa.Value]constant.Value{gNonNil: constant.MakeBool(c.has == gTrueWhenNonNil)}
			for _, wl := range withoutLoads {
				assume[wl] = constant.MakeBool(c.without)
			}
			w := &feWalker{Fn: fn, Assume: assume, Inline: inlineHelpers(fn)}
			got := map[string]bool{}
			labelsOK := true
			for _, e := range w.Run() {
				if isErr, known := endReturnsError(e); known && isErr {
					continue
				}
				// the grouper the result ends up with: the last write of a grouper field on the path
				// (a default that a later statement overrides does not count)
				var lastG *feStore
				for i := range e.State.stores {
					if n, _, ok := fieldNameOf(e.State.stores[i].Store.Addr); ok && n == "grouper" {
						lastG = &e.State.stores[i]
					}
				}
				if lastG != nil {
					got[classify(lastG.Val.V)] = true
				}
				for _, st := range e.State.stores {
					n, _, ok := fieldNameOf(st.Store.Addr)
					if !ok {
						continue
					}
					if n == "groupLabels" && c.has {
						// must be g.Labels
						if f, _, ok := loadOfField(st.Val.V); !ok || f != "Labels" {
							labelsOK = false
						}
					}
				}
			}
			g := joinSet(got)
			if g != c.want {
				bad = true
				o.Fail(r.pos(fn.Pos()), "with grouping clause=%v without=%v the grouper is %q, expected %q", c.has, c.without, g, c.want)
			}
			if !labelsOK {
				bad = true
				o.Fail(r.pos(fn.Pos()), "the grouping labels are not the clause's label list")
			}
		}
		if !bad {
			o.OK("no clause -> %s; by -> AggregatedLabels.By; without -> AggregatedLabels.Without; labels = g.Labels", s.noClause).At(r.pos(fn.Pos()))
		}
	}
	// newSampleIterator: by/without role
	ns := p.Func(enginePkg, "newSampleIterator")
	o := r.Ob("PV-ROLE", "logqlengine.newSampleIterator grouping", "a range aggregation's `without` labels go to the without-set and `by` labels to the by-set of the sampled label sets")
	if ns == nil {
		o.Fail("-", "function not found")
	} else {
		var withoutLoads []ssa.Value
		var gNonNil *ssa.BinOp
		var gT bool
		nsGrp := funcGroup(ns)
		for _, gf := range nsGrp {
			allInstrs(gf, func(in ssa.Instruction) {
				switch x := in.(type) {
				case *ssa.UnOp:
					if f, _, ok := loadOfField(x); ok && f == "Without" {
						withoutLoads = append(withoutLoads, x)
					}
				case *ssa.BinOp:
					if v, nn, ok := nilCheck(x); ok {
						if f, _, ok := loadOfField(originValueIn(v, nsGrp)); ok && f == "Grouping" {
							gNonNil, gT = x, nn
						}
					}
				}
			})
		}
		if gNonNil == nil || len(withoutLoads) == 0 {
			o.Undecide(r.pos(ns.Pos()), "Grouping/Without tests not found")
		} else {
			bad := false
			for _, wo := range []bool{false, true} {
				assume := map[ssa.Value]constant.Value{gNonNil: constant.MakeBool(gT)}
				for _, wl := range withoutLoads {
					assume[wl] = constant.MakeBool(wo)
				}
				// helpers that take part in the choice are followed, buildSet itself is not
				bs := p.Func(enginePkg, "buildSet")
				base := inlineHelpers(ns)
				w := &feWalker{Fn: ns, Assume: assume, Inline: func(c *ssa.Function, d int) bool { return (bs == nil || (c != bs && c.Origin() != bs)) && base(c, d) }}
				for _, e := range w.Run() {
					if isErr, known := endReturnsError(e); known && isErr {
						continue
					}
					// the sets stored to fields by / without: built from g.Labels for the chosen side, empty
					// (nil, or built from no labels) for the other
					for _, st := range e.State.stores {
						n, _, ok := fieldNameOf(st.Store.Addr)
						if !ok || (n != "by" && n != "without") || st.Store.Parent() != ns {
							continue
						}
						val := w.evalVal(e.State, st.Val.V).V
						var src ssa.Value = val
						isLabels := false
						if c, ok := val.(*ssa.Call); ok && len(c.Call.Args) >= 2 {
							// resolve the label list on this path
							src = w.evalVal(e.State, c.Call.Args[1]).V
							if f, _, ok := loadOfField(src); ok && f == "Labels" {
								isLabels = true
							}
						} else if !isNilConst(val) {
							bad = true
							o.Fail(r.pos(st.Store.Pos()), "the %s-set is %s, neither nil nor a set built by buildSet", n, describe(val, 1))
							continue
						}
						want := (n == "without") == wo
						if isLabels != want {
							bad = true
							o.Fail(r.pos(st.Store.Pos()), "with Without=%v the %s-set is built from %s", wo, n, describe(src, 0))
						}
					}
				}
			}
			if !bad {
				o.OK("Without -> without-set, otherwise by-set").At(r.pos(ns.Pos()))
			}
		}
	}
}

// grouperSummary summarises a package-level grouper variable's function:
// identity (returns its first parameter) or all-in-one (returns al.By() with no labels).
func grouperSummary(p *Program, g *ssa.Global) string {
	// find the init store
	var fn *ssa.Function
	for _, f := range p.SSAPkgs[g.Pkg.Pkg.Path()].Members {
		if init, ok := f.(*ssa.Function); ok && init.Name() == "init" {
			allInstrs(init, func(in ssa.Instruction) {
				if st, ok := in.(*ssa.Store); ok && st.Addr == ssa.Value(g) {
					fn = funcOfValue(st.Val)
				}
			})
		}
	}
	if fn == nil || len(fn.Params) < 1 {
		return "?global:" + globalName(g)
	}
	rets := returnsOf(fn)
	if len(rets) != 1 {
		return "?global:" + globalName(g)
	}
	rv := rets[0].Results[0]
	if rv == ssa.Value(fn.Params[0]) {
		return "identity"
	}
	if c, ok := rv.(*ssa.Call); ok && invokeIs(c, "By") && c.Call.Value == ssa.Value(fn.Params[0]) {
		// By() with an empty variadic list
		if len(c.Call.Args) == 1 && isNilConst(c.Call.Args[0]) {
			return "all-in-one"
		}
	}
	return "?global:" + globalName(g)
}

// ---------------------------------------------------------------------------

func ruleVectorOps(r *Run) {
	p := r.P
	vop := [2]string{logqlPkg, "VectorOp"}
	aggs := map[string]string{}
	for _, n := range []string{"Sum", "Avg", "Count", "Max", "Min", "Stddev", "Stdvar"} {
		aggs["VectorOp"+n] = "type:*logqlmetric." + n + "Aggregator"
	}
	runCHSite(r, &chSite{Rule: "CH-MAP", Rel: metricPkg, Fn: "buildAggregator", TagType: vop, TagConst: "VectorOpSum",
		Outcome: outClosureReturnType(), Expected: aggs, Other: "error",
		Claim: "each vector operation aggregates with the aggregator of its own name"})
	// VectorAggregation: iterator kind and comparator orientation per operation
	orient := map[string]string{
		"VectorOpBottomk":  "type:*logqlmetric.vectorAggHeapIterator;less=Less;greater=Greater",
		"VectorOpSort":     "type:*logqlmetric.vectorAggHeapIterator;less=Less;greater=Greater",
		"VectorOpTopk":     "type:*logqlmetric.vectorAggHeapIterator;less=Greater;greater=Less",
		"VectorOpSortDesc": "type:*logqlmetric.vectorAggHeapIterator;less=Greater;greater=Less",
	}
	for n := range aggs {
		orient[n] = "error|type:*logqlmetric.vectorAggIterator"
	}
	runCHSite(r, &chSite{Rule: "CH-MAP", Rel: metricPkg, Fn: "VectorAggregation", TagType: vop, TagConst: "VectorOpTopk",
		Outcome: func(r *Run, fn *ssa.Function, cr caseResult) string {
			set := map[string]bool{}
			for _, e := range cr.Ends {
				if isErr, known := endReturnsError(e); known && isErr {
					set["error"] = true
					continue
				}
				if len(e.Results) == 0 {
					continue
				}
				parts := []string{describeBuilt(e.Results[0].V)}
				for _, f := range []string{"less", "greater"} {
					vals := fieldStores(e, f)
					if len(vals) == 0 {
						continue
					}
					d := describe(vals[len(vals)-1].V, 0)
					switch {
					case strings.Contains(d, "Sample).Less"):
						d = "Less"
					case strings.Contains(d, "Sample).Greater"):
						d = "Greater"
					}
					parts = append(parts, f+"="+d)
				}
				set[strings.Join(parts, ";")] = true
			}
			return joinSet(set)
		},
		Expected: orient, Other: "error|type:*logqlmetric.vectorAggIterator",
		Claim: "bottomk/sort order ascending (less=Sample.Less), topk/sort_desc descending (less=Sample.Greater); the others aggregate"})

	// Sample.Less / Sample.Greater
	for _, m := range []struct {
		name string
		op   token_
	}{{"Less", tokLSS}, {"Greater", tokGTR}} {
		fn := p.Method(metricPkg, "Sample", m.name)
		o := r.Ob("CH-OP", "logqlmetric.Sample."+m.name, "Sample."+m.name+"(b) compares a.Data "+m.op.String()+" b.Data (NaN first)")
		if fn == nil {
			o.Fail("-", "method not found")
			continue
		}
		found := false
		allInstrs(fn, func(in ssa.Instruction) {
			b, ok := in.(*ssa.BinOp)
			if !ok {
				return
			}
			fx, bx, okx := loadOfField(b.X)
			fy, by, oky := loadOfField(b.Y)
			if !okx || !oky || fx != "Data" || fy != "Data" {
				return
			}
			px, py := spillParam(bx), spillParam(by)
			direct := b.Op == m.op.tok() && px == ssa.Value(fn.Params[0]) && py == ssa.Value(fn.Params[1])
			flipped := b.Op == flipCmp(m.op.tok()) && px == ssa.Value(fn.Params[1]) && py == ssa.Value(fn.Params[0])
			if direct || flipped {
				found = true
			} else {
				o.Fail(r.pos(b.Pos()), "compares %s %s %s", describe(b.X, 0), b.Op, describe(b.Y, 0))
			}
		})
		if found && o.Status != Violated {
			o.OK("a.Data %s b.Data", m.op.String()).At(r.pos(fn.Pos()))
		} else if !found {
			o.Fail(r.pos(fn.Pos()), "no comparison of a.Data with b.Data found")
		}
	}
	ruleAggregatorReset(r)
	ruleVectorAggNext(r)
	ruleHeapIterator(r)
	ruleByNesting(r)
}

type token_ int

const (
	tokLSS token_ = iota
	tokGTR
)

func (t token_) String() string {
	if t == tokLSS {
		return "<"
	}
	return ">"
}

// ruleAggregatorReset: the zero value of every aggregator is its reset state
// (vector aggregation creates aggregators without calling Reset).
func ruleAggregatorReset(r *Run) {
	p := r.P
	for _, n := range []string{"Sum", "Avg", "Count", "Max", "Min", "Stddev", "Stdvar"} {
		fn := p.Method(metricPkg, n+"Aggregator", "Reset")
		o := r.Ob("CH-SIB", "logqlmetric."+n+"Aggregator zero value", "a freshly allocated aggregator equals a Reset one: Reset only stores zero values (the vector path never calls Reset, the range path always does)")
		if fn == nil {
			o.Fail("-", "method not found")
			continue
		}
		bad := false
		allInstrs(fn, func(in ssa.Instruction) {
			st, ok := in.(*ssa.Store)
			if !ok {
				return
			}
			c, ok := st.Val.(*ssa.Const)
			zero := ok && (c.Value == nil || c.Value.String() == "0" || c.Value.String() == "false" || c.Value.String() == "\"\"")
			if !zero {
				bad = true
				o.Fail(r.pos(st.Pos()), "Reset stores %s into %s: an aggregator created without Reset (vector aggregation) starts from a different state", describe(st.Val, 0), describe(st.Addr, 0))
			}
		})
		if !bad {
			o.OK("Reset stores zero values only").At(r.pos(fn.Pos()))
		}
	}
	// batchApplier: Reset before the loop, one Apply per point, Result after
	ba := p.Method(metricPkg, "batchApplier", "Aggregate")
	o := r.Ob("PV-ONCE", "logqlmetric.batchApplier.Aggregate", "a range aggregation resets a fresh state, applies every point's value exactly once, and returns the result")
	if ba == nil {
		o.Fail("-", "method not found")
		return
	}
	loops := rangeIndexLoops(ba)
	if len(loops) != 1 || loops[0].X != ssa.Value(ba.Params[1]) {
		o.Fail(r.pos(ba.Pos()), "no single range loop over the whole points parameter")
		return
	}
	l := loops[0]
	var apply, reset, result ssa.CallInstruction
	nApply := 0
	for _, c := range callsIn(ba) {
		switch {
		case invokeIs(c, "Apply"):
			apply = c
			nApply++
		case invokeIs(c, "Reset"):
			reset = c
		case invokeIs(c, "Result"):
			result = c
		}
	}
	switch {
	case apply == nil || reset == nil || result == nil || nApply != 1:
		o.Fail(r.pos(ba.Pos()), "Reset=%v Apply calls=%d Result=%v", reset != nil, nApply, result != nil)
	case !l.Blocks[apply.Block()] || !mustPassThrough(l.Body, l.Header, apply.Block()) || len(l.earlyExits()) > 0:
		o.Fail(r.pos(apply.Pos()), "Apply is not executed exactly once for every point")
	case !instrDominates(reset, apply) || l.Blocks[reset.Block()]:
		o.Fail(r.pos(reset.Pos()), "Reset does not run once before the loop")
	default:
		f, _, ok := loadOfField(apply.Common().Args[0])
		if !ok || f != "Value" {
			o.Fail(r.pos(apply.Pos()), "Apply is given %s, not the point's Value", describe(apply.Common().Args[0], 0))
		} else {
			o.OK("Reset; for each point Apply(p.Value); Result").At(r.pos(ba.Pos()))
		}
	}
}

// ruleVectorAggNext: one aggregator per group, created on the miss edge; Apply once per sample.
func ruleVectorAggNext(r *Run) {
	p := r.P
	fn := p.Method(metricPkg, "vectorAggIterator", "Next")
	o := r.Ob("PV-FIRST", "logqlmetric.(*vectorAggIterator).Next", "each input sample is applied exactly once to the aggregator of its group; a group's aggregator is created only when the group is first seen; every group is reported once with its own labels and result")
	if fn == nil {
		o.Fail("-", "method not found")
		return
	}
	var loop *rangeLoop
	for _, l := range rangeIndexLoops(fn) {
		if f, _, ok := loadOfField(l.X); ok && f == "Samples" {
			loop = l
			break
		}
	}
	if loop == nil {
		o.Fail(r.pos(fn.Pos()), "no range loop over the whole step.Samples")
		return
	}
	good := true
	if len(loop.earlyExits()) > 0 {
		good = false
		o.Fail(r.pos(fn.Pos()), "the sample loop can be left early")
	}
	var apply *ssa.Call
	var lk *ssa.Lookup
	var mu *ssa.MapUpdate
	var newAgg *ssa.Call
	nApply := 0
	for b := range loop.Blocks {
		for _, in := range b.Instrs {
			switch x := in.(type) {
			case *ssa.Call:
				if invokeIs(x, "Apply") {
					apply = x
					nApply++
				}
				if f, base, ok := loadOfField(x.Call.Value); ok && f == "agg" && base == ssa.Value(fn.Params[0]) {
					newAgg = x
				}
			case *ssa.Lookup:
				if x.CommaOk {
					lk = x
				}
			case *ssa.MapUpdate:
				mu = x
			}
		}
	}
	if apply == nil || nApply != 1 || lk == nil || mu == nil || newAgg == nil {
		o.Fail(r.pos(fn.Pos()), "loop body: Apply calls=%d lookup=%v map store=%v aggregator factory call=%v", nApply, lk != nil, mu != nil, newAgg != nil)
		return
	}
	if !mustPassThrough(loop.Body, loop.Header, apply.Block()) {
		good = false
		o.Fail(r.pos(apply.Pos()), "Apply is skipped for some samples")
	}
	// Apply(s.Data) where s is the ranged sample
	if f, _, ok := loadOfField(apply.Call.Args[0]); !ok || f != "Data" {
		good = false
		o.Fail(r.pos(apply.Pos()), "Apply is given %s, not the sample's Data", describe(apply.Call.Args[0], 0))
	}
	// new aggregator + map store only on the miss edge
	var okv ssa.Value
	for _, ref := range *lk.Referrers() {
		if e, ok := ref.(*ssa.Extract); ok && e.Index == 1 {
			okv = e
		}
	}
	for _, in := range []ssa.Instruction{newAgg, mu} {
		if b, known := knownBoolAt(in.Block(), okv); !known || b {
			good = false
			o.Fail(r.pos(in.Pos()), "a group's aggregator is (re)created or stored on a path that is not the first sighting of the group")
		}
	}
	if mu.Map != lk.X || mu.Key != lk.Index {
		good = false
		o.Fail(r.pos(mu.Pos()), "the group is stored under a different map/key than it is looked up")
	}
	// Apply receiver: the group's agg (looked up or new)
	if good {
		o.OK("lookup by group key; miss -> new group{metric, agg()} stored; Apply(s.Data) once per sample").At(r.pos(fn.Pos()))
	}
	// output loop: one sample per group: Data = g.agg.Result(), Set = g.metric
	oo := r.Ob("PV-PAIR", "logqlmetric.(*vectorAggIterator).Next output", "each group is reported once, with the group's own label set and its aggregator's result; the step keeps its timestamp")
	var res *ssa.Call
	for _, c := range callsIn(fn) {
		if call, ok := c.(*ssa.Call); ok && invokeIs(call, "Result") {
			res = call
		}
	}
	ogood := res != nil
	if res == nil {
		oo.Fail(r.pos(fn.Pos()), "Result() is never called")
	} else {
		// the appended Sample literal
		var lit *ssa.Alloc
		for _, ref := range *res.Referrers() {
			if st, ok := ref.(*ssa.Store); ok {
				if _, base, ok := fieldNameOf(st.Addr); ok {
					lit, _ = base.(*ssa.Alloc)
				}
			}
		}
		if lit == nil {
			ogood = false
			oo.Fail(r.pos(res.Pos()), "the result is not stored into a Sample literal")
		} else {
			fs := allocFieldStores(lit)
			setV := fs["Set"]
			f, base, ok := loadOfField(setV)
			_, aggBase, ok2 := loadOfField(res.Call.Value)
			if !ok || f != "metric" || !ok2 || describe(base, 0) != describe(aggBase, 0) {
				ogood = false
				oo.Fail(r.pos(res.Pos()), "the reported sample pairs %s with the result of %s", describe(setV, 0), describe(res.Call.Value, 0))
			}
		}
		tsOK := false
		allInstrs(fn, func(in ssa.Instruction) {
			if st, ok := in.(*ssa.Store); ok {
				if n, base, ok := fieldNameOf(st.Addr); ok && n == "Timestamp" && base == ssa.Value(fn.Params[1]) {
					if f, _, ok := loadOfField(st.Val); ok && f == "Timestamp" {
						tsOK = true
					}
				}
			}
		})
		if !tsOK {
			ogood = false
			oo.Fail(r.pos(fn.Pos()), "the output step's timestamp is not the input step's timestamp")
		}
	}
	if ogood {
		oo.OK("Sample{Data: g.agg.Result(), Set: g.metric}; r.Timestamp = step.Timestamp").At(r.pos(fn.Pos()))
	}
}

// ruleHeapIterator: topk/bottomk/sort.
func ruleHeapIterator(r *Run) {
	p := r.P
	fn := p.Method(metricPkg, "vectorAggHeapIterator", "Next")
	o := r.Ob("FE-ORD", "logqlmetric.(*vectorAggHeapIterator).Next", "sort keeps every sample; topk/bottomk keep the first `limit` samples and then replace the worst kept sample iff the new one is better; kept samples are emitted unchanged (labels intact), ordered by the operation's order")
	if fn == nil {
		o.Fail("-", "method not found")
		return
	}
	var loop *rangeLoop
	for _, l := range rangeIndexLoops(fn) {
		if f, _, ok := loadOfField(l.X); ok && f == "Samples" {
			loop = l
			break
		}
	}
	if loop == nil {
		// the distribution of the samples over the heaps may be a helper that is handed step.Samples
		grp := funcGroup(fn)
		for _, g := range grp[1:] {
			for _, l := range rangeIndexLoops(g) {
				if f, _, ok := loadOfField(originValueIn(l.X, grp)); ok && f == "Samples" && loop == nil {
					loop, fn = l, g
				}
			}
		}
	}
	if loop == nil {
		o.Fail(r.pos(fn.Pos()), "no range loop over the whole step.Samples")
		return
	}
	// the three decisions are taken in the loop or in a helper called from the loop
	helpers := map[*ssa.Function]bool{}
	var addHelpers func(calls []ssa.CallInstruction, depth int)
	addHelpers = func(calls []ssa.CallInstruction, depth int) {
		for _, c := range calls {
			h := staticCallee(c)
			if h == nil || h.Blocks == nil || h == fn || helpers[h] || depth > 2 || len(h.Blocks) > 40 {
				continue
			}
			pk := h.Pkg
			if pk == nil && h.Origin() != nil {
				pk = h.Origin().Pkg
			}
			if pk != fn.Pkg {
				continue
			}
			helpers[h] = true
			addHelpers(callsIn(h), depth+1)
		}
	}
	var loopCalls []ssa.CallInstruction
	for _, c := range callsIn(fn) {
		if loop.Blocks[c.Block()] {
			loopCalls = append(loopCalls, c)
		}
	}
	addHelpers(loopCalls, 0)
	isElem0 := func(v ssa.Value) bool {
		// heap.Min(), or elements[0] read directly
		v = originValue(v)
		if mc, ok := v.(*ssa.Call); ok && staticCallee(mc) != nil && cname(staticCallee(mc)) == "Min" {
			return true
		}
		if lu, ok := v.(*ssa.UnOp); ok {
			if ia, ok := lu.X.(*ssa.IndexAddr); ok {
				if z, ok := constInt(ia.Index); ok && z == 0 {
					if f, _, ok := loadOfField(ia.X); ok && f == "elements" {
						return true
					}
				}
			}
		}
		return false
	}
	var cNeg, cRoom *ssa.BinOp
	var cLess *ssa.Call
	// a field of the iterator, read directly or handed to a helper as an argument (offer(s, i.limit, i.less))
	hgrp := []*ssa.Function{fn}
	for h := range helpers {
		hgrp = append(hgrp, h)
	}
	loadOfField := func(v ssa.Value) (string, ssa.Value, bool) {
		if f, b, ok := loadOfField(v); ok {
			return f, b, true
		}
		if q, ok := spillParam(unspill(v)).(*ssa.Parameter); ok && q.Parent() != fn {
			if ov := originValueIn(q, hgrp); ov != nil && ov != ssa.Value(q) {
				return loadOfField(ov)
			}
		}
		return "", nil, false
	}
	scan := func(in ssa.Instruction) {
		switch x := in.(type) {
		case *ssa.BinOp:
			if x.Op == tokLSS.tok() {
				fx, _, okx := loadOfField(x.X)
				if okx && fx == "limit" {
					if z, ok := constInt(x.Y); ok && z == 0 {
						cNeg = x
					}
				}
				if c, ok := x.X.(*ssa.Call); ok {
					isLen := staticCallee(c) != nil && cname(staticCallee(c)) == "Len"
					if bi, ok := c.Call.Value.(*ssa.Builtin); ok && bi.Name() == "len" {
						if f, _, ok := loadOfField(c.Call.Args[0]); ok && f == "elements" {
							isLen = true
						}
					}
					if fy, _, oky := loadOfField(x.Y); isLen && oky && fy == "limit" {
						cRoom = x
					}
				}
			}
		case *ssa.Call:
			if f, _, ok := loadOfField(x.Call.Value); ok && f == "less" && len(x.Call.Args) == 2 && isElem0(x.Call.Args[1]) {
				cLess = x
			}
		}
	}
	for b := range loop.Blocks {
		for _, in := range b.Instrs {
			scan(in)
		}
	}
	for h := range helpers {
		allInstrs(h, scan)
	}
	if cNeg == nil || cRoom == nil || cLess == nil {
		o.Undecide(r.pos(fn.Pos()), "the three decisions (limit < 0, heap.Len() < limit, less(s, heap.Min())) were not all found")
		return
	}
	good := true
	type ev struct{ push, pop, app int }
	run := func(neg, room, less bool) ev {
		assume := map[ssa.Value]constant.Value{cNeg: constant.MakeBool(neg), cRoom: constant.MakeBool(room), cLess: constant.MakeBool(less)}
		w := &feWalker{Fn: fn, Assume: assume, Inline: func(callee *ssa.Function, depth int) bool { return helpers[callee] && depth <= 3 }}
		var worst ev
		for _, e := range w.RunFrom(loop.Body, loop.Header) {
			var cur ev
			headerSeen := false
			// only the first iteration
			firstIter := map[*ssa.BasicBlock]bool{}
			for _, b := range e.State.trail[1:] {
				if b == loop.Header {
					headerSeen = true
					break
				}
				firstIter[b] = true
			}
			_ = headerSeen
			firstIter[loop.Body] = true
			for _, c := range e.State.calls {
				at := c.Call.Block()
				if c.Top != nil {
					at = c.Top.Block() // the loop instruction a helper's call belongs to
				}
				if !firstIter[at] || !loop.Blocks[at] {
					continue
				}
				if callIs(c.Call, "container/heap", "Push") {
					cur.push++
				}
				if callIs(c.Call, "container/heap", "Pop") {
					cur.pop++
				}
				if bi, ok := c.Call.Common().Value.(*ssa.Builtin); ok && bi.Name() == "append" {
					cur.app++
				}
			}
			if cur.push > worst.push {
				worst.push = cur.push
			}
			if cur.pop > worst.pop {
				worst.pop = cur.pop
			}
			if cur.app > worst.app {
				worst.app = cur.app
			}
		}
		return worst
	}
	// visits bound 2 means calls may be counted for two iterations; compare per-iteration by halving is fragile, so use presence
	check := func(neg, room, less bool, wantPush, wantPop, wantApp bool, what string) {
		e := run(neg, room, less)
		if (e.push > 0) != wantPush || (e.pop > 0) != wantPop || (e.app > 0) != wantApp {
			good = false
			o.Fail(r.pos(fn.Pos()), "%s: push=%v pop=%v append=%v, expected push=%v pop=%v append=%v", what, e.push > 0, e.pop > 0, e.app > 0, wantPush, wantPop, wantApp)
		}
	}
	check(true, false, false, false, false, true, "limit < 0 (sort): the sample is appended")
	check(false, true, false, true, false, false, "heap not full: the sample is pushed")
	check(false, false, true, true, true, false, "heap full and the sample is better than the worst kept: replace")
	check(false, false, false, false, false, false, "heap full and the sample is not better: ignored")
	// the heap is ordered by `greater`, so Min() is the worst kept sample for `less`
	hOK := false
	allInstrs(fn, func(in ssa.Instruction) {
		if st, ok := in.(*ssa.Store); ok {
			if n, base, ok := fieldNameOf(st.Addr); ok && n == "compare" && typeKey(base.Type()) == "sampleHeap" {
				if f, _, ok := loadOfField(st.Val); ok && f == "greater" {
					hOK = true
				}
			}
		}
	})
	if !hOK {
		good = false
		o.Fail(r.pos(fn.Pos()), "the per-group heap is not ordered by the operation's `greater` comparator (heap.Min() would not be the worst kept sample)")
	}
	// limit == 0 -> no samples
	if good {
		o.OK("append / push / pop+push / ignore table matches; heap ordered by greater; less(s, Min())").At(r.pos(fn.Pos()))
	}
	// sampleHeap adapter
	oh := r.Ob("PV-ROLE", "logqlmetric.sampleHeap adapter", "Less(i, j) = compare(elements[i], elements[j]); Min() = elements[0]; Push appends; Pop removes the last element")
	hl := p.Method(metricPkg, "sampleHeap", "Less")
	hm := p.Method(metricPkg, "sampleHeap", "Min")
	if hl == nil {
		oh.Fail("-", "sampleHeap.Less not found")
		return
	}
	aok := false
	for _, c := range callsIn(hl) {
		if f, _, ok := loadOfField(c.Common().Value); ok && f == "compare" {
			i0, ok0 := indexParam(unspill(c.Common().Args[0]), hl)
			i1, ok1 := indexParam(unspill(c.Common().Args[1]), hl)
			if ok0 && ok1 && i0 == 1 && i1 == 2 {
				aok = true
			}
		}
	}
	mok := hm == nil // without a Min method the worst element is read as elements[0] where it is used (checked above)
	for _, ret := range returnsOfOpt(hm) {
		if lu, ok := ret.Results[0].(*ssa.UnOp); ok {
			if ia, ok := lu.X.(*ssa.IndexAddr); ok {
				if z, ok := constInt(ia.Index); ok && z == 0 {
					mok = true
				}
			}
		}
	}
	if aok && mok {
		oh.OK("compare(elements[i], elements[j]); Min = elements[0]").At(r.pos(hl.Pos()))
	} else {
		oh.Fail(r.pos(hl.Pos()), "Less compares in order (i, j)=%v; Min returns elements[0]=%v", aok, mok)
	}
}

// ruleByNesting: By never widens the visible label set.
func ruleByNesting(r *Run) {
	p := r.P
	fn := p.Method(enginePkg, "aggregatedLabels", "By")
	o := r.Ob("AF-SET", "logqlengine.(*aggregatedLabels).By", "By(L) always restricts (also for an empty L) and keeps a label only if an enclosing by-set kept it: labels removed by an inner aggregation cannot reappear")
	if fn == nil {
		o.Fail("-", "method not found")
		return
	}
	good := true
	// never returns the receiver
	for _, ret := range returnsOf(fn) {
		for _, lv := range phiLeaves(ret.Results[0]) {
			root := stripTypeOnly(lv)
			if root == ssa.Value(fn.Params[0]) {
				good = false
				o.Fail(r.pos(ret.Pos()), "By returns its receiver unchanged on some path: `by ()` (or this case) would group by all labels")
				continue
			}
			isRecv := func(base ssa.Value) bool { return base == ssa.Value(fn.Params[0]) }
			var fs map[string]ssa.Value
			if al, ok := root.(*ssa.Alloc); ok {
				fs = allocFieldStores(al)
			} else if call, ok := root.(*ssa.Call); ok {
				// a constructor helper of the package that returns one literal: its parameters stand for the
				// arguments of this call
				h := staticCallee(call)
				if h != nil && h.Blocks != nil && pkgOfFunc(h) == pkgOfFunc(fn) {
					rets := returnsOf(h)
					if len(rets) == 1 && len(rets[0].Results) == 1 {
						if hal, ok := stripTypeOnly(rets[0].Results[0]).(*ssa.Alloc); ok {
							args := call.Call.Args
							argOf := func(v ssa.Value) (ssa.Value, bool) {
								prm, ok := v.(*ssa.Parameter)
								if !ok || prm.Parent() != h {
									return nil, false
								}
								for i, hp := range h.Params {
									if hp == prm && i < len(args) {
										return args[i], true
									}
								}
								return nil, false
							}
							fs = map[string]ssa.Value{}
							for k, v := range allocFieldStores(hal) {
								if a, ok := argOf(v); ok {
									v = a
								}
								fs[k] = v
							}
							isRecv = func(base ssa.Value) bool {
								if base == ssa.Value(fn.Params[0]) {
									return true
								}
								a, ok := argOf(base)
								return ok && a == ssa.Value(fn.Params[0])
							}
						}
					}
				}
			}
			if fs == nil {
				good = false
				o.Undecide(r.pos(ret.Pos()), "By returns %s", describe(root, 0))
				continue
			}
			if _, isMake := fs["by"].(*ssa.MakeMap); !isMake {
				good = false
				o.Fail(r.pos(ret.Pos()), "the result's by-set is %s, not a fresh set built from the argument list", describe(fs["by"], 0))
			}
			if f, base, ok := loadOfField(fs["without"]); !ok || f != "without" || !isRecv(base) {
				good = false
				o.Fail(r.pos(ret.Pos()), "the result's without-set is not the receiver's")
			}
			if f, base, ok := loadOfField(fs["entries"]); !ok || f != "entries" || !isRecv(base) {
				good = false
				o.Fail(r.pos(ret.Pos()), "the result's entries are not the receiver's")
			}
		}
	}
	// insertion decision
	var loop *rangeLoop
	for _, l := range rangeIndexLoops(fn) {
		if l.X == ssa.Value(fn.Params[1]) {
			loop = l
		}
	}
	if loop == nil {
		o.Fail(r.pos(fn.Pos()), "no range loop over the whole label list")
		return
	}
	var nonNil *ssa.BinOp
	var nn bool
	var okv ssa.Value
	isAggBy := func(v ssa.Value) bool {
		f, base, ok := loadOfField(v)
		return ok && f == "by" && typeKey(base.Type()) == "aggregatedLabels"
	}
	for _, gf := range funcGroup(fn) {
		for _, b := range gf.Blocks {
			if gf == fn && !loop.Blocks[b] {
				continue
			}
			for _, in := range b.Instrs {
				switch x := in.(type) {
				case *ssa.BinOp:
					if v, t, ok := nilCheck(x); ok && isAggBy(v) {
						nonNil, nn = x, t
					}
				case *ssa.Lookup:
					if isAggBy(x.X) && x.CommaOk {
						for _, ref := range *x.Referrers() {
							if e, ok := ref.(*ssa.Extract); ok && e.Index == 1 {
								okv = e
							}
						}
					}
				}
			}
		}
	}
	if nonNil == nil || okv == nil {
		good = false
		o.Fail(r.pos(fn.Pos()), "By does not consult the receiver's by-set: a nested by() can re-expose labels an inner aggregation removed")
	} else {
		for _, c := range []struct{ has, in, want bool }{{false, false, true}, {true, false, false}, {true, true, true}} {
			w := &feWalker{Fn: fn, Assume: map[ssa.Value]constant.Value{nonNil: constant.MakeBool(c.has == nn), okv: constant.MakeBool(c.in)}, Inline: inlineHelpers(fn)}
			ins := false
			for _, e := range w.RunFrom(loop.Body, loop.Header) {
				for _, b := range e.State.trail {
					if b.Parent() != fn {
						continue // blocks of an inlined helper
					}
					if !loop.Blocks[b] {
						break
					}
					for _, in := range b.Instrs {
						if _, ok := in.(*ssa.MapUpdate); ok {
							ins = true
						}
					}
				}
			}
			if ins != c.want {
				good = false
				o.Fail(r.pos(fn.Pos()), "receiver has by-set=%v, label in it=%v: label inserted=%v, expected %v", c.has, c.in, ins, c.want)
			}
		}
	}
	if good {
		o.OK("fresh by-set = L ∩ receiver's by-set (if any); never the receiver").At(r.pos(fn.Pos()))
	}
}

func returnsOfOpt(fn *ssa.Function) []*ssa.Return {
	if fn == nil {
		return nil
	}
	return returnsOf(fn)
}

// ruleAvgInfinityGuard (FE-CLASS): the running average treats infinities as Prometheus does. Over the
// finite set of classes (average so far: finite / +Inf / -Inf; new value: finite / +Inf / -Inf / NaN)
// the update is skipped exactly when the average is infinite and the new value is neither NaN nor an
// infinity of the opposite sign (so +Inf and -Inf in one group give NaN, and a NaN always wins).
func ruleAvgInfinityGuard(r *Run) {
	p := r.P
	fn := p.Method(metricPkg, "AvgAggregator", "Apply")
	o := r.Ob("FE-CLASS", "logqlmetric.(*AvgAggregator).Apply infinities", "an infinite running average is kept unless the new value is NaN or an infinity of the opposite sign (then the average becomes NaN); in every other case the value is folded in")
	if fn == nil || len(fn.Params) != 2 {
		o.Fail("-", "method not found")
		return
	}
	type cls struct {
		name     string
		inf, nan bool
		pos      bool
	}
	avgs := []cls{{"finite", false, false, true}, {"+Inf", true, false, true}, {"-Inf", true, false, false}}
	vals := []cls{{"finite", false, false, true}, {"+Inf", true, false, true}, {"-Inf", true, false, false}, {"NaN", false, true, false}}
	var cw *feWalker
	var cst *feState
	res := func(v ssa.Value) ssa.Value {
		v = unspill(v)
		if cw != nil && cst != nil {
			v = unspill(cw.evalVal(cst, v).V)
		}
		return v
	}
	which := func(v ssa.Value) string {
		v = res(v)
		if v == ssa.Value(fn.Params[1]) {
			return "v"
		}
		if f, base, ok := loadOfField(v); ok && f == "avg" && res(base) == ssa.Value(fn.Params[0]) {
			return "avg"
		}
		return ""
	}
	bad := false
	for _, a := range avgs {
		for _, v := range vals {
			a, v := a, v
			get := func(w string) cls {
				if w == "avg" {
					return a
				}
				return v
			}
			hook := func(w *feWalker, st *feState, x ssa.Value) (constant.Value, bool) {
				cw, cst = w, st
				switch y := x.(type) {
				case *ssa.Call:
					pk, nm := calleePkgName(y)
					if pk != "math" || len(y.Call.Args) == 0 {
						return nil, false
					}
					wh := which(y.Call.Args[0])
					if wh == "" {
						return nil, false
					}
					c := get(wh)
					switch nm {
					case "IsNaN":
						return constant.MakeBool(c.nan), true
					case "IsInf":
						sign, ok := constInt(y.Call.Args[1])
						if !ok {
							return nil, false
						}
						switch {
						case sign == 0:
							return constant.MakeBool(c.inf), true
						case sign > 0:
							return constant.MakeBool(c.inf && c.pos), true
						default:
							return constant.MakeBool(c.inf && !c.pos), true
						}
					}
				case *ssa.BinOp:
					// sign tests against zero
					wh := which(y.X)
					z, isz := constOf(y.Y)
					if wh == "" || !isz || constant.Sign(z) != 0 {
						return nil, false
					}
					c := get(wh)
					if c.nan {
						return constant.MakeBool(y.Op == token.NEQ), true
					}
					if !c.inf {
						return nil, false // the sign of a finite value is not fixed by the class
					}
					switch y.Op {
					case token.GTR, token.GEQ:
						return constant.MakeBool(c.pos), true
					case token.LSS, token.LEQ:
						return constant.MakeBool(!c.pos), true
					}
				}
				return nil, false
			}
			w := &feWalker{Fn: fn, Hook: hook, MaxPath: 2000, Inline: inlineHelpers(fn)}
			skip, fold := false, false
			for _, e := range w.Run() {
				updated := false
				for _, st := range e.State.stores {
					if f, _, ok := fieldNameOf(st.Store.Addr); ok && (f == "avg" || f == "count") {
						updated = true
					}
				}
				if updated {
					fold = true
				} else {
					skip = true
				}
			}
			wantSkip := a.inf && !v.nan && !(v.inf && v.pos != a.pos)
			if skip == fold || skip != wantSkip {
				bad = true
				o.Fail(r.pos(fn.Pos()), "average %s, new value %s: the update is %s, expected %s", a.name, v.name, map[bool]string{true: "skipped", false: "applied"}[skip && !fold], map[bool]string{true: "skipped", false: "applied"}[wantSkip])
			}
		}
	}
	if !bad {
		o.OK("12 (average class, value class) cases agree").At(r.pos(fn.Pos()))
	}
}
