#!/bin/bash
# usage: confirm_seed.sh <Cxx> <letter>   — confirm a sub-agent's seeded change in a scratch worktree, then keep it under /verif/seeded/<Cxx>-<letter>/
set -u
P=$1; X=$2; SRC=/tmp/wt-out/$P/$X; W=/var/tmp/confirm.$$
export GOFLAGS=-mod=mod GOPROXY=off GOSUMDB=off GOTOOLCHAIN=local; unset GOWORK
[ -f $SRC/patch.diff ] || { echo "no patch"; exit 2; }
git -C /repo worktree add -q --detach $W HEAD || exit 2
trap 'git -C /repo worktree remove --force $W >/dev/null 2>&1' EXIT
cd $W
demo=$(jq -r .demo_file $SRC/meta.json); ddir=$(jq -r .demo_dir $SRC/meta.json)
[ -f "$SRC/$demo" ] || demo=$(cd $SRC && ls *_test.go | head -1)
git apply --3way $SRC/patch.diff 2>/dev/null || git apply $SRC/patch.diff || { echo "$P-$X: PATCH DOES NOT APPLY"; exit 3; }
git diff HEAD > /tmp/confirm.patch.$$
go build ./... || { echo "$P-$X: BUILD FAILS"; exit 3; }
suite=$(go test -vet=off -count=1 ./... 2>&1 | grep -c -E "^(FAIL|---)" )
cp $SRC/$demo $ddir/
pat=$(grep -oE '^func (Test[A-Za-z0-9_]+)' $SRC/$demo | awk '{print $2}' | paste -sd'|')
withc=$(go test -vet=off -count=1 -run "^($pat)\$" ./$ddir 2>&1 | tail -1 | awk '{print $1}')
# fall back: run whole package if demo names do not match
git reset -q --hard HEAD
without=$(go test -vet=off -count=1 -run "^($pat)\$" ./$ddir 2>&1 | tail -1 | awk '{print $1}')
echo "$P-$X: suite_failures_with_change=$suite demo_with_change=$withc demo_without=$without"
if [ "$suite" = "0" ] && [ "$withc" = "FAIL" ] && [ "$without" = "ok" ]; then
  D=/verif/seeded/$P-$X; mkdir -p $D
  cp /tmp/confirm.patch.$$ $D/patch.diff; cp $SRC/$demo $D/
  jq --arg ran "confirmed $(date -u +%FT%TZ) on /repo $(git -C /repo rev-parse --short HEAD): patch applies; go build ok; full suite passes with change; demo ($demo in $ddir, -run Demo) FAILS with change and passes without" '. + {confirmed_by_main: $ran}' $SRC/meta.json > $D/meta.json
  echo "  kept in $D"
else
  echo "  NOT kept"
fi
rm -f /tmp/confirm.patch.$$
