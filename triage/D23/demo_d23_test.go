package dockerlog

import (
	"context"
	"fmt"
	"testing"
	"time"

	"github.com/tdakkota/docker-logql/internal/logql/logqlengine"
	"github.com/tdakkota/docker-logql/internal/otelstorage"
)

// A single container whose stream has a fault in mid-stream, evaluated as a range (matrix)
// metric query: the fault must be reported.
func TestDemoD23SingleContainerRangeQueryFault(t *testing.T) {
	for _, kind := range []string{"corrupt", "systemerr", "readerr"} {
		for at := 0; at < setopFrames; at++ {
			t.Run(fmt.Sprintf("%s@%d", kind, at), func(t *testing.T) {
				stream, readErr := setopStream("a0", kind, at)
				c := &setopClient{containers: []setopContainer{{id: "a0", group: "a", stream: stream, readErr: readErr}}}
				q, err := NewQuerier(c)
				if err != nil {
					t.Fatal(err)
				}
				eng := logqlengine.NewEngine(q, logqlengine.Options{})
				data, err := eng.Eval(context.Background(), `count_over_time({group="a"}[1m])`, logqlengine.EvalParams{
					Start: otelstorage.NewTimestampFromTime(setopBase),
					End:   otelstorage.NewTimestampFromTime(setopBase.Add(2 * time.Minute)),
					Step:  10 * time.Second,
				})
				if err == nil {
					t.Errorf("stream breaks at frame %d (%s) but Eval returned no error and a %q result", at, kind, data.Type)
				}
			})
		}
	}
}
