// Triage test for the repaired defects D4..D21 (engine level). Not a check:
// it was run once by hand in a scratch worktree of /repo (place in
// internal/logql/logqlengine) to confirm that each `fix:` commit corrects the
// failing input recorded in DESIGN.md §1.3.
package logqlengine

import (
	"context"
	"fmt"
	"sort"
	"testing"
	"time"

	"github.com/stretchr/testify/require"
	"go.opentelemetry.io/collector/pdata/pcommon"

	"github.com/tdakkota/docker-logql/internal/iterators"
	"github.com/tdakkota/docker-logql/internal/logql"
	"github.com/tdakkota/docker-logql/internal/logstorage"
	"github.com/tdakkota/docker-logql/internal/lokiapi"
	"github.com/tdakkota/docker-logql/internal/otelstorage"
)

const base = 1_000_000

type triageQuerier struct {
	records []logstorage.Record
	opened  int
	closed  int
}

type countingIter struct {
	iterators.Iterator[logstorage.Record]
	q *triageQuerier
}

func (c *countingIter) Close() error { c.q.closed++; return c.Iterator.Close() }

func (q *triageQuerier) Capabilities() (caps QuerierCapabilities) { return caps }

func (q *triageQuerier) SelectLogs(ctx context.Context, start, end otelstorage.Timestamp, params SelectLogsParams) (iterators.Iterator[logstorage.Record], error) {
	var out []logstorage.Record
	for _, r := range q.records {
		if r.Timestamp < start || r.Timestamp > end {
			continue
		}
		out = append(out, r)
	}
	q.opened++
	return &countingIter{Iterator: iterators.Slice(out), q: q}, nil
}

func rec(sec int64, body string, kv ...string) logstorage.Record {
	m := pcommon.NewMap()
	for i := 0; i+1 < len(kv); i += 2 {
		m.PutStr(kv[i], kv[i+1])
	}
	ts := otelstorage.NewTimestampFromTime(time.Unix(base+sec, 0))
	return logstorage.Record{Timestamp: ts, ObservedTimestamp: ts, Body: body, Attrs: otelstorage.Attrs(m)}
}

func ts(sec int64) otelstorage.Timestamp {
	return otelstorage.NewTimestampFromTime(time.Unix(base+sec, 0))
}

func evalMatrix(t *testing.T, q *triageQuerier, query string, start, end int64, step time.Duration) map[string]map[float64]string {
	t.Helper()
	eng := NewEngine(q, Options{ParseOptions: logql.ParseOptions{AllowDots: true}})
	data, err := eng.Eval(context.Background(), query, EvalParams{Start: ts(start), End: ts(end), Step: step, Limit: -1})
	require.NoError(t, err)
	out := map[string]map[float64]string{}
	add := func(labels lokiapi.LabelSet, tt float64, v string) {
		keys := make([]string, 0, len(labels))
		for k := range labels {
			keys = append(keys, k)
		}
		sort.Strings(keys)
		key := ""
		for _, k := range keys {
			key += k + "=" + labels[k] + ","
		}
		if out[key] == nil {
			out[key] = map[float64]string{}
		}
		tt -= base
		_, dup := out[key][tt]
		require.False(t, dup, "duplicate point for series %q at %v", key, tt)
		out[key][tt] = v
	}
	switch data.Type {
	case lokiapi.MatrixResultQueryResponseData:
		seen := map[string]bool{}
		for _, s := range data.MatrixResult.Result {
			ls := s.Metric.Value
			k := fmt.Sprint(ls)
			require.False(t, seen[k], "two series with label set %v", ls)
			seen[k] = true
			for _, p := range s.Values {
				add(ls, p.T, p.V)
			}
		}
	case lokiapi.VectorResultQueryResponseData:
		for _, s := range data.VectorResult.Result {
			add(s.Metric.Value, s.Value.T, s.Value.V)
		}
	default:
		t.Fatalf("unexpected result type %v", data.Type)
	}
	return out
}

func TestTriageD4MapOrder(t *testing.T) {
	q := &triageQuerier{records: []logstorage.Record{
		rec(1, "x", "a", "1", "b", "2", "c", "3", "d", "4"),
		rec(2, "y", "a", "1", "b", "2", "c", "3", "d", "4"),
		rec(3, "z", "a", "1", "b", "2", "c", "3", "d", "4"),
	}}
	for i := 0; i < 200; i++ {
		got := evalMatrix(t, q, `count_over_time({} | drop msg [10s])`, 5, 5, 0)
		require.Len(t, got, 1, "run %d: %v", i, got)
	}
}

func TestTriageD8D9Window(t *testing.T) {
	q := &triageQuerier{records: []logstorage.Record{rec(10, "x")}}
	a := evalMatrix(t, q, `count_over_time({}[10s])`, 15, 20, 5*time.Second)
	b := evalMatrix(t, q, `count_over_time({}[10s])`, 20, 25, 5*time.Second)
	c := evalMatrix(t, q, `count_over_time({}[10s])`, 20, 20, 0)
	for _, m := range []map[string]map[float64]string{a, b, c} {
		require.Len(t, m, 1)
		for _, pts := range m {
			require.Equal(t, "1", pts[20], "value at T=20: %v", m)
		}
	}
	// offset: sample at 10 is in [T-5-10, T-5] for T in 15..25
	d := evalMatrix(t, q, `count_over_time({}[10s] offset 5s)`, 15, 25, 5*time.Second)
	require.Len(t, d, 1)
	for _, pts := range d {
		require.Equal(t, map[float64]string{15: "1", 20: "1", 25: "1"}, pts)
	}
}

func TestTriageD6Close(t *testing.T) {
	q := &triageQuerier{records: []logstorage.Record{rec(10, "x")}}
	evalMatrix(t, q, `count_over_time({}[10s])`, 15, 20, 5*time.Second)
	require.Equal(t, q.opened, q.closed)
	require.Equal(t, 1, q.opened)
}

func TestTriageD14FloatOrder(t *testing.T) {
	var recs []logstorage.Record
	recs = append(recs, rec(1, "x", "s", "a"))
	recs = append(recs, rec(2, "x", "s", "b"), rec(3, "x", "s", "b"))
	recs = append(recs, rec(4, "x", "s", "c"), rec(5, "x", "s", "c"), rec(6, "x", "s", "c"))
	q := &triageQuerier{records: recs}
	seen := map[string]int{}
	for i := 0; i < 300; i++ {
		got := evalMatrix(t, q, `sum by (zz) (rate({} | drop msg [10s]))`, 8, 8, 0)
		require.Len(t, got, 1)
		for _, pts := range got {
			seen[pts[8]]++
		}
	}
	require.Len(t, seen, 1, "%v", seen)
}

func TestTriageD19D20D21Grouping(t *testing.T) {
	q := &triageQuerier{records: []logstorage.Record{rec(1, "x", "c", "x"), rec(2, "y", "c", "y"), rec(3, "y", "c", "y")}}
	for _, query := range []string{
		`sum(count_over_time({} | drop msg [10s]))`,
		`sum by () (count_over_time({} | drop msg [10s]))`,
	} {
		got := evalMatrix(t, q, query, 5, 5, 0)
		require.Equal(t, map[string]map[float64]string{"": {5: "3"}}, got, query)
	}
	got := evalMatrix(t, q, `sum by (c) (sum by (zz) (count_over_time({} | drop msg [10s])))`, 5, 5, 0)
	require.Equal(t, map[string]map[float64]string{"": {5: "3"}}, got)
	got = evalMatrix(t, q, `sum by (c) (count_over_time({} | drop msg [10s]))`, 5, 5, 0)
	require.Equal(t, map[string]map[float64]string{"c=x,": {5: "1"}, "c=y,": {5: "2"}}, got)
	got = evalMatrix(t, q, `topk(1, count_over_time({} | drop msg [10s]))`, 5, 5, 0)
	require.Equal(t, map[string]map[float64]string{"c=y,": {5: "2"}}, got)
	got = evalMatrix(t, q, `sum without (c) (count_over_time({} | drop msg [10s]))`, 5, 5, 0)
	require.Equal(t, map[string]map[float64]string{"": {5: "3"}}, got)
}

func TestTriageD5KeyDelimiter(t *testing.T) {
	a := newLabelSet()
	a.Set("ab", pcommon.NewValueStr("c"))
	b := newLabelSet()
	b.Set("a", pcommon.NewValueStr("bc"))
	require.NotEqual(t, newAggregatedLabels(a, nil, nil).Key(), newAggregatedLabels(b, nil, nil).Key())
}

func evalStreams(t *testing.T, q *triageQuerier, query string) lokiapi.Streams {
	t.Helper()
	eng := NewEngine(q, Options{})
	data, err := eng.Eval(context.Background(), query, EvalParams{Start: ts(0), End: ts(100), Limit: -1})
	require.NoError(t, err)
	return data.StreamsResult.Result
}

func TestTriageD11D12(t *testing.T) {
	q := &triageQuerier{records: []logstorage.Record{rec(1, "hello", "src", "v", "b", "x")}}
	s := evalStreams(t, q, `{} | label_format dst=src`)
	require.Len(t, s, 1)
	require.Equal(t, "v", s[0].Stream.Value["dst"])
	_, has := s[0].Stream.Value["src"]
	require.False(t, has)

	s = evalStreams(t, q, `{} | a > 1 or b = "x"`)
	require.Len(t, s, 1)
	require.Equal(t, "hello", s[0].Values[0].V)
}
