package main

// PF-PROGRESS: a loop iteration that changes nothing cannot be the last one.
//
// For every loop of the evaluation code the rule enumerates the simple cycles header -> ... ->
// header inside the loop and requires each to make progress: it changes a loop-carried variable
// (a header phi receives, along that cycle, a value other than itself), or it has an effect on
// memory the loop can observe (a store through a pointer / field / map, a call that is not known
// to be pure - consuming an iterator, popping a heap, ...). A cycle without progress re-enters the
// header in exactly the state it left it: if it can be taken once it is taken forever (hang).
// This is a necessary condition for termination, decided on the shape of the code; it does not
// prove that progress is towards the exit.

import (
	"go/constant"
	"go/token"
	"go/types"
	"sort"
	"strings"

	"golang.org/x/tools/go/ssa"
)

var purePkgs = map[string]bool{
	"time": true, "strings": true, "math": true, "unicode": true, "unicode/utf8": true, "strconv": true,
	"net/netip": true, "bytes": true, "errors": true, "fmt": true, "regexp": true, "cmp": true,
	"github.com/go-faster/errors": true,
}

// pureFuncs: foreign functions known not to change anything a loop could observe
var pureFuncs = map[string]bool{
	"(go.opentelemetry.io/collector/pdata/pcommon.Timestamp).AsTime": true,
	"(go.opentelemetry.io/collector/pdata/pcommon.Value).AsString":   true,
	"(go.opentelemetry.io/collector/pdata/pcommon.Value).Str":        true,
	"(go.opentelemetry.io/collector/pdata/pcommon.Value).Type":       true,
	"(go.opentelemetry.io/collector/pdata/pcommon.Value).Int":        true,
	"(go.opentelemetry.io/collector/pdata/pcommon.Value).Double":     true,
	"(go.opentelemetry.io/collector/pdata/pcommon.Map).Len":          true,
	"(go.opentelemetry.io/collector/pdata/pcommon.Map).Get":          true,
}

type puritySummary struct {
	memo map[*ssa.Function]int // 1 pure, 2 impure, 3 in progress
}

// pure: the function has no effect a caller's loop could observe as progress (no store through
// pointers/fields/maps, no dynamic calls, only pure callees).
func (ps *puritySummary) pure(fn *ssa.Function, depth int) bool {
	if fn == nil {
		return false
	}
	if v, ok := ps.memo[fn]; ok {
		return v == 1 || v == 3
	}
	if pureFuncs[funcName(fn)] {
		return true
	}
	if fn.Blocks == nil {
		pk := ""
		if fn.Pkg != nil {
			pk = fn.Pkg.Pkg.Path()
		} else if fn.Object() != nil && fn.Object().Pkg() != nil {
			pk = fn.Object().Pkg().Path()
		}
		return purePkgs[pk]
	}
	pk := fn.Pkg
	if pk == nil && fn.Origin() != nil {
		pk = fn.Origin().Pkg
	}
	if pk == nil && fn.Parent() != nil {
		pk = fn.Parent().Pkg
	}
	if pk != nil && !isFirstParty(pk.Pkg.Path()) {
		ok := purePkgs[pk.Pkg.Path()]
		// methods with pointer receivers of foreign packages may mutate (bytes.Buffer, strings.Builder)
		if ok && fn.Signature.Recv() != nil {
			if _, isPtr := fn.Signature.Recv().Type().(*types.Pointer); isPtr {
				ok = false
			}
		}
		return ok
	}
	if depth > 3 {
		return false
	}
	ps.memo[fn] = 3
	res := true
	allInstrs(fn, func(in ssa.Instruction) {
		if !res {
			return
		}
		if hasLoopVisibleEffect(in, ps, depth+1) {
			res = false
		}
	})
	if res {
		ps.memo[fn] = 1
	} else {
		ps.memo[fn] = 2
	}
	return res
}

// addrIsLocal: the address denotes a variable of the current activation that does not escape
// through the address itself (a plain Alloc, or a field/element of one).
func addrIsLocal(a ssa.Value) bool {
	for d := 0; d < 8; d++ {
		switch x := a.(type) {
		case *ssa.Alloc:
			return !x.Heap || true
		case *ssa.FieldAddr:
			if _, isPtrToStruct := x.X.(*ssa.Alloc); isPtrToStruct {
				return true
			}
			a = x.X
			// a field reached through a loaded pointer is not local
			if _, ok := a.(*ssa.UnOp); ok {
				return false
			}
		case *ssa.IndexAddr:
			if _, ok := x.X.(*ssa.Alloc); ok {
				return true
			}
			return false
		default:
			return false
		}
	}
	return false
}

func hasLoopVisibleEffect(in ssa.Instruction, ps *puritySummary, depth int) bool {
	switch x := in.(type) {
	case *ssa.Store:
		return !addrIsLocal(x.Addr)
	case *ssa.MapUpdate, *ssa.Send, *ssa.Go, *ssa.Defer, *ssa.Panic:
		return true
	case *ssa.Call:
		cc := x.Common()
		if cc.IsInvoke() {
			return true
		}
		if bi, ok := cc.Value.(*ssa.Builtin); ok {
			switch bi.Name() {
			case "len", "cap", "append", "copy", "min", "max", "real", "imag", "complex", "new", "make":
				return bi.Name() == "copy"
			case "delete", "close", "clear":
				return true
			}
			return false
		}
		callee := cc.StaticCallee()
		if callee == nil {
			return true // dynamic function value: may do anything
		}
		return !ps.pure(callee, depth)
	}
	return false
}

func ruleLoopProgress(r *Run, rels []string, floor int) {
	p := r.P
	ps := &puritySummary{memo: map[*ssa.Function]int{}}
	inScope := func(fn *ssa.Function) bool {
		pk := fn.Pkg
		if pk == nil && fn.Parent() != nil {
			pk = fn.Parent().Pkg
		}
		if pk == nil {
			return false
		}
		for _, rel := range rels {
			if pk.Pkg.Path() == modPath+"/"+rel {
				return true
			}
		}
		return false
	}
	nLoops := 0
	var fns []*ssa.Function
	for _, fn := range p.SrcFuncs() {
		if inScope(fn) {
			fns = append(fns, fn)
		}
	}
	sort.Slice(fns, func(i, j int) bool { return funcName(fns[i]) < funcName(fns[j]) })
	for _, fn := range fns {
		// natural loops by header
		headers := map[*ssa.BasicBlock][]*ssa.BasicBlock{} // header -> back-edge sources
		for _, b := range fn.Blocks {
			for _, s := range b.Succs {
				if s.Dominates(b) {
					headers[s] = append(headers[s], b)
				}
			}
		}
		var hs []*ssa.BasicBlock
		for h := range headers {
			hs = append(hs, h)
		}
		sort.Slice(hs, func(i, j int) bool { return hs[i].Index < hs[j].Index })
		for li, h := range hs {
			nLoops++
			// loop blocks
			inLoop := map[*ssa.BasicBlock]bool{h: true}
			work := append([]*ssa.BasicBlock{}, headers[h]...)
			for len(work) > 0 {
				b := work[len(work)-1]
				work = work[:len(work)-1]
				if inLoop[b] {
					continue
				}
				inLoop[b] = true
				work = append(work, b.Preds...)
			}
			o := r.Ob("PF-PROGRESS", shortFuncName(fn)+" loop#"+itoa(li), "every way round the loop changes a loop-carried variable or has an effect the loop can observe (a way round that changes nothing is taken forever)")
			// enumerate simple cycles
			var path []*ssa.BasicBlock
			onPath := map[*ssa.BasicBlock]bool{}
			nCycles, bad, aborted := 0, false, false
			var dfs func(b *ssa.BasicBlock)
			dfs = func(b *ssa.BasicBlock) {
				if bad || aborted {
					return
				}
				path = append(path, b)
				onPath[b] = true
				for _, s := range b.Succs {
					if !inLoop[s] {
						continue
					}
					if s == h {
						nCycles++
						if nCycles > 5000 {
							aborted = true
							break
						}
						if !cycleProgress(path, h, ps) {
							bad = true
							last := path[len(path)-1]
							o.Fail(r.pos(termPos(last)), "the loop can go round through block(s) %s without changing any loop variable and without any observable effect: from that state it never terminates", blockList(path))
							break
						}
						continue
					}
					if !onPath[s] {
						dfs(s)
					}
				}
				onPath[b] = false
				path = path[:len(path)-1]
			}
			dfs(h)
			switch {
			case bad:
			case aborted:
				o.Undecide(r.pos(termPos(h)), "too many ways round the loop to enumerate")
			default:
				o.OK("%d way(s) round, each makes progress", nCycles).At(r.pos(termPos(h)))
			}
		}
	}
	r.count("loops_checked", nLoops)
	inv := r.Ob("PF-PROGRESS", "inventory", "at least the confirmed number of loops is analysed")
	inv.Trivial = true
	inv.Check(nLoops >= floor, "-", itoa(nLoops)+" loops", "only "+itoa(nLoops)+" loops found, floor "+itoa(floor))
}

func blockList(path []*ssa.BasicBlock) string {
	var xs []string
	for _, b := range path {
		xs = append(xs, itoa(b.Index))
	}
	return strings.Join(xs, ">")
}

func itoa(i int) string {
	if i == 0 {
		return "0"
	}
	neg := i < 0
	if neg {
		i = -i
	}
	var b []byte
	for i > 0 {
		b = append([]byte{byte('0' + i%10)}, b...)
		i /= 10
	}
	if neg {
		b = append([]byte{'-'}, b...)
	}
	return string(b)
}

// cycleProgress: does the cycle path[0]=h -> ... -> path[n-1] -> h make progress?
func cycleProgress(path []*ssa.BasicBlock, h *ssa.BasicBlock, ps *puritySummary) bool {
	// effects
	for _, b := range path {
		for _, in := range b.Instrs {
			if hasLoopVisibleEffect(in, ps, 0) {
				return true
			}
			// a range over a string / map / channel advances its hidden iterator
			if _, ok := in.(*ssa.Next); ok {
				return true
			}
		}
	}
	// loop-carried variables: resolve phis along the path
	prevOf := map[*ssa.BasicBlock]*ssa.BasicBlock{}
	for i := 1; i < len(path); i++ {
		prevOf[path[i]] = path[i-1]
	}
	var resolve func(v ssa.Value, depth int) ssa.Value
	resolve = func(v ssa.Value, depth int) ssa.Value {
		ph, ok := v.(*ssa.Phi)
		if !ok || depth > 12 || ph.Block() == h {
			return v
		}
		pred, onP := prevOf[ph.Block()]
		if !onP {
			return v
		}
		for i, p := range ph.Block().Preds {
			if p == pred {
				return resolve(ph.Edges[i], depth+1)
			}
		}
		return v
	}
	last := path[len(path)-1]
	for _, in := range h.Instrs {
		ph, ok := in.(*ssa.Phi)
		if !ok {
			break
		}
		for i, p := range h.Preds {
			if p != last {
				continue
			}
			v := resolve(ph.Edges[i], 0)
			if v != ssa.Value(ph) {
				// x + 0 / x | 0 style no-ops are not produced by the compiler front end; any other value counts
				if b, ok := v.(*ssa.BinOp); ok && b.Op == token.ADD {
					if c, ok := constInt(b.Y); ok && c == 0 && b.X == ssa.Value(ph) {
						continue
					}
				}
				return true
			}
		}
	}
	// local cells that are loop-carried through memory (not lifted to phis): a store counts only when
	// the cell is read on the cycle before it is written (otherwise it is an iteration-local temporary)
	firstIsLoad := map[*ssa.Alloc]bool{}
	seenCell := map[*ssa.Alloc]bool{}
	cellOf := func(a ssa.Value) *ssa.Alloc {
		for d := 0; d < 4; d++ {
			switch x := a.(type) {
			case *ssa.Alloc:
				return x
			case *ssa.FieldAddr:
				a = x.X
			case *ssa.IndexAddr:
				a = x.X
			default:
				return nil
			}
		}
		return nil
	}
	for _, b := range path {
		for _, in := range b.Instrs {
			switch x := in.(type) {
			case *ssa.Alloc:
				// (re)allocated in the loop: a fresh variable each iteration
				seenCell[x] = true
			case *ssa.UnOp:
				if x.Op == token.MUL {
					if al := cellOf(x.X); al != nil && !seenCell[al] {
						seenCell[al] = true
						firstIsLoad[al] = true
					}
				}
			case *ssa.Store:
				if al := cellOf(x.Addr); al != nil {
					if !seenCell[al] {
						seenCell[al] = true
					}
					if firstIsLoad[al] {
						return true
					}
				}
			case *ssa.Call:
				// a local whose address is handed to a call may be written by it
				for _, a := range x.Call.Args {
					if al := cellOf(a); al != nil && firstIsLoad[al] {
						return true
					}
				}
			}
		}
	}
	return false
}

// ruleScannerLoopsStopAtEOF (PF-PROGRESS): text/scanner returns EOF for ever once the input is
// exhausted, and Next() keeps "succeeding". Every loop that advances a scanner must therefore leave
// when the scanner reports EOF: with every Peek()/Next() of the loop yielding scanner.EOF no path
// may go round the loop again.
func ruleScannerLoopsStopAtEOF(r *Run, rels []string, floor int) {
	p := r.P
	n := 0
	for _, fn := range p.SrcFuncs() {
		pk := fn.Pkg
		if pk == nil && fn.Parent() != nil {
			pk = fn.Parent().Pkg
		}
		in := false
		for _, rel := range rels {
			if pk != nil && pk.Pkg.Path() == modPath+"/"+rel {
				in = true
			}
		}
		if !in {
			continue
		}
		seen := map[*ssa.BasicBlock]bool{}
		for _, b := range fn.Blocks {
			for _, sc := range b.Succs {
				if !sc.Dominates(b) || seen[sc] {
					continue
				}
				seen[sc] = true
				blocks := naturalLoop(sc)
				assume := map[ssa.Value]constant.Value{}
				advances := false
				for lb := range blocks {
					for _, ins := range lb.Instrs {
						c, ok := ins.(*ssa.Call)
						if !ok {
							continue
						}
						if callIs(c, "text/scanner", "(*Scanner).Next") {
							advances = true
							assume[c] = constant.MakeInt64(-1)
						}
						if callIs(c, "text/scanner", "(*Scanner).Peek") {
							assume[c] = constant.MakeInt64(-1)
						}
					}
				}
				if !advances {
					continue
				}
				// a Peek hoisted in front of the loop (for ch := s.Peek(); ...; ch = s.Peek())
				for _, c := range callsIn(fn) {
					if call, ok := c.(*ssa.Call); ok && (callIs(call, "text/scanner", "(*Scanner).Peek") || callIs(call, "text/scanner", "(*Scanner).Next")) && call.Block().Dominates(sc) && !blocks[call.Block()] {
						assume[call] = constant.MakeInt64(-1)
					}
				}
				n++
				o := r.Ob("PF-PROGRESS", shortFuncName(fn)+" scanner loop@"+itoa(sc.Index), "a loop that advances a text/scanner stops at the end of the input (the scanner reports EOF for ever; a loop that does not test for it never ends)")
				var pre *ssa.BasicBlock
				for _, pb := range sc.Preds {
					if !blocks[pb] {
						pre = pb
					}
				}
				w := &feWalker{Fn: fn, Assume: assume, Hook: unicodeHook, MaxPath: 20000}
				var ends []*feEnd
				if pre != nil {
					ends = w.RunFrom(sc, pre)
				} else {
					ends = w.Run()
				}
				if w.Aborted {
					o.Undecide(r.pos(termPos(sc)), "path enumeration aborted")
					continue
				}
				bad := false
				for _, e := range ends {
					// does the path come back to the loop header after its first visit?
					visits := 0
					left := false
					for _, tb := range e.State.trail {
						if tb.Parent() != fn {
							continue
						}
						if !blocks[tb] {
							left = true
						}
						if tb == sc && !left {
							visits++
						}
					}
					if visits > 1 {
						bad = true
					}
				}
				if bad {
					o.Fail(r.pos(termPos(sc)), "with the scanner at EOF the loop goes round again: the input ends but the loop does not")
				} else {
					o.OK("leaves at EOF").At(r.pos(termPos(sc)))
				}
			}
		}
	}
	inv := r.Ob("PF-PROGRESS", "scanner loops inventory", "at least the confirmed number of scanner loops is analysed")
	inv.Trivial = true
	inv.Check(n >= floor, "-", itoa(n)+" scanner loops", "only "+itoa(n)+" scanner loops found, floor "+itoa(floor))
}
