package main

// Rules added after seed round x/y.

import (
	"go/token"
	"go/types"
	"strings"

	"golang.org/x/tools/go/ssa"
)

// verbatimTrace follows v backwards through what does not change a value (type-only conversions,
// phis, local cells) and returns the leaves it ends in plus every value-changing producer met on the
// way (arithmetic, calls, ...). Field loads, parameters, constants, free variables and globals are leaves.
func verbatimTrace(v ssa.Value) (leaves []ssa.Value, impure []ssa.Value) {
	seen := map[ssa.Value]bool{}
	var back func(v ssa.Value, d int)
	back = func(v ssa.Value, d int) {
		if v == nil || seen[v] {
			return
		}
		seen[v] = true
		if d > 24 {
			impure = append(impure, v)
			return
		}
		switch x := v.(type) {
		case *ssa.Const, *ssa.Parameter, *ssa.Field, *ssa.Global:
			leaves = append(leaves, v)
		case *ssa.Extract:
			if _, ok := x.Tuple.(*ssa.Next); ok {
				leaves = append(leaves, v) // key / element of a range loop
				return
			}
			impure = append(impure, v)
		case *ssa.FreeVar:
			if b := freeVarBinding(x); b != nil {
				back(b, d+1)
				return
			}
			leaves = append(leaves, v)
		case *ssa.Phi:
			for _, e := range x.Edges {
				back(e, d+1)
			}
		case *ssa.ChangeType:
			back(x.X, d+1)
		case *ssa.Convert:
			// a conversion between types of the same kind of content (string <-> named string, integer
			// widths) keeps the value; string <-> []byte keeps the bytes
			back(x.X, d+1)
		case *ssa.MakeInterface:
			back(x.X, d+1)
		case *ssa.UnOp:
			if x.Op != token.MUL {
				impure = append(impure, v)
				return
			}
			switch a := x.X.(type) {
			case *ssa.Alloc:
				sts := storesTo(a)
				if len(sts) == 0 {
					leaves = append(leaves, v)
					return
				}
				for _, st := range sts {
					back(st.Val, d+1)
				}
			case *ssa.FreeVar:
				if b := freeVarBinding(a); b != nil {
					if al, ok := b.(*ssa.Alloc); ok {
						for _, st := range storesTo(al) {
							back(st.Val, d+1)
						}
						return
					}
				}
				leaves = append(leaves, v)
			case *ssa.FieldAddr, *ssa.Global:
				leaves = append(leaves, v)
			default:
				impure = append(impure, v)
			}
		default:
			impure = append(impure, v)
		}
	}
	back(v, 0)
	return
}

// isFieldOfParam: v is a load of field `field` of a parameter (by value, spilled or through a pointer) of fn.
func isFieldOfParam(v ssa.Value, field string, fn *ssa.Function) bool {
	n, base, ok := loadOfField(v)
	if !ok || n != field {
		return false
	}
	base = unspill(base)
	if al, ok := base.(*ssa.Alloc); ok {
		// a by-value parameter spilled to a cell
		sts := storesTo(al)
		if len(sts) == 1 {
			base = sts[0].Val
		}
	}
	if u, ok := base.(*ssa.UnOp); ok && u.Op == token.MUL {
		base = unspill(u)
	}
	prm, ok := base.(*ssa.Parameter)
	return ok && prm.Parent() == fn
}

// ruleLogBoundsVerbatim (PV-VERBATIM): the time bounds of a log query reach the storage exactly as
// the caller gave them: Engine.selectLogs hands its params.Start/End to Querier.SelectLogs, and
// evalLogExpr fills them from the evaluation parameters, with no arithmetic on the way (the storage's
// bounds are inclusive and so are the query's).
func ruleLogBoundsVerbatim(r *Run) {
	p := r.P
	o := r.Ob("PV-VERBATIM", "logqlengine log query bounds", "the start and end of a log query reach Querier.SelectLogs exactly as given in the evaluation parameters (no adjustment of either bound)")
	sl := p.Method(enginePkg, "Engine", "selectLogs")
	ev := p.Method(enginePkg, "Engine", "evalLogExpr")
	if sl == nil || ev == nil {
		o.Fail("-", "selectLogs / evalLogExpr not found")
		return
	}
	good := true
	n := 0
	grp := funcGroup(sl)
	var check func(host *ssa.Function, what string, v ssa.Value, field string, at token.Pos, depth int)
	check = func(host *ssa.Function, what string, v ssa.Value, field string, at token.Pos, depth int) {
		leaves, impure := verbatimTrace(v)
		for _, im := range impure {
			good = false
			o.Fail(r.pos(at), "%s is computed: %s", what, describe(im, 0))
		}
		for _, l := range leaves {
			if isFieldOfParam(l, field, host) {
				continue
			}
			// a helper of selectLogs that receives the bound as a parameter: follow it to its call sites
			if prm, ok := l.(*ssa.Parameter); ok && host != sl && host != ev && depth < 3 {
				idx, sites := -1, 0
				for i, hp := range host.Params {
					if hp == prm {
						idx = i
					}
				}
				for _, gf := range grp {
					for _, c := range callsIn(gf) {
						if staticCallee(c) == host && idx >= 0 && idx < len(c.Common().Args) {
							sites++
							check(gf, what, c.Common().Args[idx], field, c.Pos(), depth+1)
						}
					}
				}
				if sites > 0 {
					continue
				}
			}
			good = false
			o.Fail(r.pos(at), "%s is %s, not the %s of %s's parameters", what, describe(l, 0), field, host.Name())
		}
		n++
	}
	// selectLogs -> Querier.SelectLogs(ctx, start, end, params), possibly in a helper of selectLogs
	found := false
	for _, gf := range grp {
		if pkgOfFunc(gf) != pkgOfFunc(sl) {
			continue
		}
		for _, c := range callsIn(gf) {
			cc := c.Common()
			if !cc.IsInvoke() || cc.Method.Name() != "SelectLogs" || len(cc.Args) < 3 {
				continue
			}
			found = true
			check(gf, "the start given to the storage", cc.Args[1], "Start", c.Pos(), 0)
			check(gf, "the end given to the storage", cc.Args[2], "End", c.Pos(), 0)
		}
	}
	if !found {
		o.Undecide(r.pos(sl.Pos()), "no Querier.SelectLogs call in selectLogs")
		return
	}
	// evalLogExpr -> selectLogs(..., selectLogsParams{Start, End, ...})
	found = false
	for _, c := range callsIn(ev) {
		if staticCallee(c) != sl {
			continue
		}
		args := c.Common().Args
		fs, ok := structLitStores(args[len(args)-1])
		if !ok {
			o.Undecide(r.pos(c.Pos()), "the parameters of selectLogs are not a literal")
			return
		}
		found = true
		check(ev, "Start of the log selection", fs["Start"], "Start", c.Pos(), 0)
		check(ev, "End of the log selection", fs["End"], "End", c.Pos(), 0)
	}
	if !found {
		o.Undecide(r.pos(ev.Pos()), "no selectLogs call in evalLogExpr")
		return
	}
	if good {
		o.OK("%d bounds traced: params.Start/End verbatim from evalLogExpr to Querier.SelectLogs", n).At(r.pos(sl.Pos()))
	}
}

// ruleDurationTextVerbatim (PV-VERBATIM): cmd parseDuration gives the flag's text to the parsers
// unchanged (no trimming or rewriting of the spelling).
func ruleDurationTextVerbatim(r *Run) {
	p := r.P
	o := r.Ob("PV-VERBATIM", "main.parseDuration text", "the text handed to strconv.ParseFloat / model.ParseDuration is the parameter's text itself")
	fn := p.Func(cmdPkg, "parseDuration")
	if fn == nil || len(fn.Params) != 1 {
		o.Fail("-", "parseDuration not found")
		return
	}
	good := true
	n := 0
	for _, gf := range funcGroup(fn) {
		for _, c := range callsIn(gf) {
			pk, nm := calleePkgName(c)
			isParser := (pk == "strconv" && nm == "ParseFloat") || (strings.HasSuffix(pk, "prometheus/common/model") && nm == "ParseDuration") || (pk == "time" && nm == "ParseDuration")
			if !isParser || len(c.Common().Args) == 0 {
				continue
			}
			n++
			leaves, impure := verbatimTrace(c.Common().Args[0])
			for _, im := range impure {
				good = false
				o.Fail(r.pos(c.Pos()), "%s.%s parses a rewritten text: %s", pk, nm, describe(im, 0))
			}
			for _, l := range leaves {
				lp, ok := l.(*ssa.Parameter)
				if !ok || (gf == fn && lp != fn.Params[0]) {
					good = false
					o.Fail(r.pos(c.Pos()), "%s.%s parses %s, not the parameter", pk, nm, describe(l, 0))
				}
			}
		}
	}
	if n == 0 {
		o.Undecide(r.pos(fn.Pos()), "no duration/float parser call found")
		return
	}
	if good {
		o.OK("%d parser call(s) read the parameter's text", n).At(r.pos(fn.Pos()))
	}
}

// ruleAggLabelNamesVerbatim (PV-VERBATIM): the series labels of a sample are the record's labels
// under their own names: newAggregatedLabels copies each label name as it is (two different labels can
// never collapse into one name, which would make the order of equal names depend on map iteration).
func ruleAggLabelNamesVerbatim(r *Run) {
	p := r.P
	o := r.Ob("PV-VERBATIM", "logqlengine.newAggregatedLabels names", "each entry's name is the label's own name (no normalisation that could map two labels to one name)")
	fn := p.Func(enginePkg, "newAggregatedLabels")
	if fn == nil {
		o.Fail("-", "newAggregatedLabels not found")
		return
	}
	good := true
	n := 0
	for _, gf := range funcGroup(fn) {
		if pkgOfFunc(gf) != pkgOfFunc(fn) {
			continue
		}
		allInstrs(gf, func(in ssa.Instruction) {
			st, ok := in.(*ssa.Store)
			if !ok {
				return
			}
			fa, ok := st.Addr.(*ssa.FieldAddr)
			if !ok {
				return
			}
			name, _, ok := fieldNameOf(fa)
			stt := derefStruct(fa.X.Type())
			if !ok || name != "name" || stt == nil {
				return
			}
			if nt, ok := deref(fa.X.Type()).(*types.Named); !ok || nt.Obj().Name() != "labelEntry" {
				return
			}
			n++
			leaves, impure := verbatimTrace(st.Val)
			for _, im := range impure {
				good = false
				o.Fail(r.pos(st.Pos()), "the entry name is computed: %s", describe(im, 0))
			}
			for _, l := range leaves {
				if _, ok := l.(*ssa.Parameter); !ok {
					if f, _, ok := loadOfField(l); ok && f == "name" {
						continue // copied from another entry
					}
					if ex, ok := l.(*ssa.Extract); ok && ex.Index == 1 {
						if _, isNext := ex.Tuple.(*ssa.Next); isNext {
							continue // the key of a range over the label map
						}
					}
					good = false
					o.Fail(r.pos(st.Pos()), "the entry name is %s, not the label", describe(l, 0))
				}
			}
		})
	}
	if n == 0 {
		o.Undecide(r.pos(fn.Pos()), "no store to labelEntry.name found")
		return
	}
	if good {
		o.OK("%d name store(s): the label itself", n).At(r.pos(fn.Pos()))
	}
}

func deref(t types.Type) types.Type {
	if p, ok := t.Underlying().(*types.Pointer); ok {
		return p.Elem()
	}
	return t
}

// ruleTimestampConversionTotal (PV-TOTAL): otelstorage.NewTimestampFromTime converts every instant
// (no clamping: a constant result would map different instants to one timestamp).
func ruleTimestampConversionTotal(r *Run) {
	p := r.P
	o := r.Ob("PV-TOTAL", "otelstorage.NewTimestampFromTime", "every instant is converted (no path returns a constant instead of the converted time)")
	fn := p.Func(otelPkg, "NewTimestampFromTime")
	if fn == nil {
		o.Fail("-", "NewTimestampFromTime not found")
		return
	}
	good := true
	n := 0
	for _, ret := range returnsOf(fn) {
		for _, lv := range phiLeaves(ret.Results[0]) {
			n++
			if _, ok := stripTypeOnly(lv).(*ssa.Const); ok {
				good = false
				o.Fail(r.pos(ret.Pos()), "a path returns the constant %s for a range of instants", describe(lv, 0))
			}
		}
	}
	if good {
		o.OK("%d return value(s), none constant", n).At(r.pos(fn.Pos()))
	}
}

func canonFuncName(fn *ssa.Function) string {
	if fn == nil {
		return ""
	}
	if fn.Object() != nil {
		return canonName(fn.Object())
	}
	return fn.Name()
}

func recvNamedOf(fn *ssa.Function) string {
	if fn == nil || fn.Signature.Recv() == nil {
		return ""
	}
	if nt, ok := deref(fn.Signature.Recv().Type()).(*types.Named); ok {
		return nt.Obj().Name()
	}
	return ""
}

// ruleExtractorsWriteOnly (PV-PURE): what a parser stage extracts depends on the line only: the
// extractors write the label set (Set/SetError) and never read it, so a label that already exists is
// overwritten like any other.
func ruleExtractorsWriteOnly(r *Run) {
	p := r.P
	n := 0
	for _, tn := range []string{"JSONExtractor", "LogfmtExtractor", "PatternExtractor", "RegexpExtractor", "UnpackExtractor"} {
		fn := p.Method(enginePkg, tn, "Process")
		o := r.Ob("PV-PURE", "logqlengine."+tn+" label set use", "the extractor only writes labels (Set/SetError): its result does not depend on labels the record already has")
		if fn == nil {
			o.Fail("-", "Process not found")
			continue
		}
		good := true
		k := 0
		for _, gf := range funcGroup(fn) {
			if recvNamedOf(gf) == "LabelSet" || pkgOfFunc(gf) != pkgOfFunc(fn) {
				continue
			}
			type use struct {
				callee *ssa.Function
				pos    token.Pos
			}
			var uses []use
			for _, c := range callsIn(gf) {
				if callee := staticCallee(c); callee != nil && recvNamedOf(callee) == "LabelSet" {
					uses = append(uses, use{callee, c.Pos()})
				}
				// a label set method handed on as a method value (set.Set given to a matcher as its callback)
				for _, a := range c.Common().Args {
					if _, isSig := a.Type().Underlying().(*types.Signature); !isSig {
						continue
					}
					if f, bound := predicateOf(stripTypeOnly(a)); f != nil && bound != nil && recvNamedOf(f) == "LabelSet" {
						uses = append(uses, use{f, c.Pos()})
					}
				}
			}
			for _, u := range uses {
				callee, c := u.callee, u
				k++
				switch nm := canonFuncName(callee); {
				case nm == "Set" || nm == "SetError":
				case !labelSetReader(callee):
					// configuration of the set, not its content
				default:
					good = false
					o.Fail(r.pos(c.pos), "the extractor reads the label set (%s): what it extracts depends on labels that are already there", callee.Name())
				}
			}
		}
		n += k
		if k == 0 {
			o.Undecide(r.pos(fn.Pos()), "no label set call found")
			continue
		}
		if good {
			o.OK("%d label set call(s), all Set/SetError", k).At(r.pos(fn.Pos()))
		}
	}
}

// ruleFirstLastPositional (PV-ROLE): first_over_time / last_over_time report the first / last sample
// of the window in arrival order: points[0] and points[len(points)-1].
func ruleFirstLastPositional(r *Run) {
	p := r.P
	for _, s := range []struct {
		typ  string
		last bool
	}{{"FirstOverTime", false}, {"LastOverTime", true}} {
		fn := p.Method(metricPkg, s.typ, "Aggregate")
		want := "points[0]"
		if s.last {
			want = "points[len(points)-1]"
		}
		o := r.Ob("PV-ROLE", "logqlmetric."+s.typ+".Aggregate element", "the value reported for a non-empty window is "+want+".Value (position in arrival order, not a search by timestamp)")
		if fn == nil || len(fn.Params) < 2 {
			o.Fail("-", "method not found")
			continue
		}
		pts := fn.Params[len(fn.Params)-1]
		good := true
		n := 0
		for _, ret := range returnsOf(fn) {
			for _, lv := range phiLeaves(ret.Results[0]) {
				lv = unspill(stripTypeOnly(lv))
				if _, ok := lv.(*ssa.Const); ok {
					continue
				}
				n++
				ia := valueFieldIndex(lv)
				if ia == nil || originValue(ia.X) != ssa.Value(pts) {
					good = false
					o.Fail(r.pos(ret.Pos()), "the result is %s, not %s.Value", describe(lv, 0), want)
					continue
				}
				ok := false
				if !s.last {
					c, isC := constInt(ia.Index)
					ok = isC && c == 0
				} else if b, isB := ia.Index.(*ssa.BinOp); isB && b.Op == token.SUB {
					one, isC := constInt(b.Y)
					ok = isC && one == 1 && isLenOf(b.X, pts)
				}
				if !ok {
					good = false
					o.Fail(r.pos(ret.Pos()), "the result is element %s, not %s", describe(ia.Index, 0), want)
				}
			}
		}
		if n == 0 {
			o.Undecide(r.pos(fn.Pos()), "no non-constant result found")
			continue
		}
		if good {
			o.OK("%d result(s): %s.Value", n, want).At(r.pos(fn.Pos()))
		}
	}
}

func isLenOf(v ssa.Value, of ssa.Value) bool {
	c, ok := v.(*ssa.Call)
	if !ok {
		return false
	}
	b, ok := c.Call.Value.(*ssa.Builtin)
	return ok && b.Name() == "len" && len(c.Call.Args) == 1 && originValue(c.Call.Args[0]) == of
}

// valueFieldIndex: v is x[i].Value (either order of load and field selection): returns the &x[i].
func valueFieldIndex(v ssa.Value) *ssa.IndexAddr {
	switch x := v.(type) {
	case *ssa.UnOp:
		if x.Op != token.MUL {
			return nil
		}
		if fa, ok := x.X.(*ssa.FieldAddr); ok {
			if n, _, ok := fieldNameOf(fa); ok && n == "Value" {
				ia, _ := fa.X.(*ssa.IndexAddr)
				return ia
			}
		}
	case *ssa.Field:
		if n, _, ok := fieldNameOf(x); ok && n == "Value" {
			if u, ok := unspill(x.X).(*ssa.UnOp); ok && u.Op == token.MUL {
				ia, _ := u.X.(*ssa.IndexAddr)
				return ia
			}
		}
	}
	return nil
}

// ruleParserResultsUsed (PV-WHOLE): what a parser helper parsed ends up in the tree: no call of a
// parser method drops one of its non-error results (the tokens were consumed, so dropping the result
// silently accepts and forgets a part of the query).
func ruleParserResultsUsed(r *Run) {
	p := r.P
	o := r.Ob("PV-WHOLE", "logql parser helper results", "every non-error result of a parse helper is used by its caller")
	sp := p.SSAPkg(logqlPkg)
	if sp == nil {
		o.Fail("-", "package not found")
		return
	}
	good := true
	n := 0
	for _, fn := range p.SrcFuncs() {
		if pkgOfFunc(fn) != sp || recvNamedOf(fn) != "parser" {
			continue
		}
		for _, c := range callsIn(fn) {
			call, ok := c.(*ssa.Call)
			callee := staticCallee(c)
			if !ok || callee == nil || recvNamedOf(callee) != "parser" {
				continue
			}
			tup, ok := call.Type().(*types.Tuple)
			if !ok || tup.Len() < 2 {
				continue
			}
			n++
			used := map[int]bool{}
			for _, ref := range *call.Referrers() {
				if ex, ok := ref.(*ssa.Extract); ok && len(*ex.Referrers()) > 0 {
					used[ex.Index] = true
				}
			}
			for i := 0; i < tup.Len(); i++ {
				if isErrorType(tup.At(i).Type()) || used[i] || !isTreeType(tup.At(i).Type(), sp.Pkg) {
					continue
				}
				good = false
				o.Fail(r.pos(call.Pos()), "result %d (%s) of %s is dropped in %s: that part of the query is consumed and forgotten", i, tup.At(i).Type(), callee.Name(), fn.Name())
			}
		}
	}
	if n < 5 {
		o.Undecide("-", "only %d multi-result parser calls found", n)
		return
	}
	if good {
		o.OK("%d multi-result parser call(s), every non-error result used", n)
	}
}

// isTreeType: t is (a pointer to / slice of) a type declared in the parser's own package: a piece of
// the syntax tree (tokens and their texts are the lexer's).
func isTreeType(t types.Type, pkg *types.Package) bool {
	for d := 0; d < 4; d++ {
		switch x := t.(type) {
		case *types.Pointer:
			t = x.Elem()
			continue
		case *types.Slice:
			t = x.Elem()
			continue
		case *types.Named:
			return x.Obj().Pkg() == pkg
		}
		break
	}
	return false
}

// labelSetReader: the LabelSet method looks at the labels the set holds (a map lookup, iteration or
// length in the method or the LabelSet methods it calls).
func labelSetReader(fn *ssa.Function) bool {
	reads := false
	for _, gf := range funcGroup(fn) {
		if recvNamedOf(gf) != "LabelSet" && gf.Parent() == nil {
			continue
		}
		allInstrs(gf, func(in ssa.Instruction) {
			switch x := in.(type) {
			case *ssa.Lookup:
				if _, ok := x.X.Type().Underlying().(*types.Map); ok {
					reads = true
				}
			case *ssa.Range:
				reads = true
			case *ssa.Call:
				if b, ok := x.Call.Value.(*ssa.Builtin); ok && b.Name() == "len" && len(x.Call.Args) == 1 {
					if _, ok := x.Call.Args[0].Type().Underlying().(*types.Map); ok {
						reads = true
					}
				}
			}
		})
	}
	return reads
}

// ruleLabelDurationGoSyntax (PV-API): a label value is a duration only in Go syntax
// (time.ParseDuration): the query-literal parser accepts more (d, w, y) and would turn conversion
// failures, which keep the record with __error__, into comparisons.
func ruleLabelDurationGoSyntax(r *Run) {
	p := r.P
	o := r.Ob("PV-API", "logqlengine.DurationLabelFilter value conversion", "label values are converted with time.ParseDuration (Go syntax), not with a query-literal duration parser")
	var fn *ssa.Function
	for _, tn := range []string{"DurationLabelFilter"} {
		fn = p.Method(enginePkg, tn, "Process")
	}
	if fn == nil {
		o.Fail("-", "DurationLabelFilter.Process not found")
		return
	}
	good := true
	n := 0
	grp := funcGroup(fn)
	for _, gf := range grp {
		if pkgOfFunc(gf) != pkgOfFunc(fn) {
			continue
		}
		for _, c := range callsIn(gf) {
			call, ok := c.(*ssa.Call)
			if !ok {
				continue
			}
			tup, ok := call.Type().(*types.Tuple)
			if !ok || tup.Len() != 2 || !isErrorType(tup.At(1).Type()) {
				continue
			}
			if nt, ok := tup.At(0).Type().(*types.Named); !ok || nt.Obj().Name() != "Duration" {
				continue
			}
			n++
			if staticCallee(c) == nil && !c.Common().IsInvoke() {
				// a conversion handed over as a function value: every function it can be must be time.ParseDuration
				fns, ok := resolveFuncValue(c.Common().Value, grp, 0)
				if !ok || len(fns) == 0 {
					good = false
					o.Undecide(r.pos(c.Pos()), "the conversion is a function value that could not be resolved: %s", describe(c.Common().Value, 0))
					continue
				}
				for _, f := range fns {
					if f.Pkg == nil || f.Pkg.Pkg.Path() != "time" || f.Name() != "ParseDuration" {
						good = false
						o.Fail(r.pos(c.Pos()), "the label value is converted with %s", f.String())
					}
				}
				continue
			}
			pk, nm := calleePkgName(c)
			if pk != "time" || nm != "ParseDuration" {
				good = false
				o.Fail(r.pos(c.Pos()), "the label value is converted with %s.%s", pk, nm)
			}
		}
	}
	if n == 0 {
		o.Undecide(r.pos(fn.Pos()), "no duration conversion found")
		return
	}
	if good {
		o.OK("%d conversion(s) with time.ParseDuration", n).At(r.pos(fn.Pos()))
	}
}

// ruleResetPerRecord (PV-ORDER): the label set is emptied for every record: reset() runs in
// SetFromRecord before anything is set, or in the iterator's loop after the record was read.
func ruleResetPerRecord(r *Run) {
	p := r.P
	o := r.Ob("PV-ORDER", "logqlengine.LabelSet reset per record", "labels of one record never survive into the next: the set is reset once per record read, before the record's labels are set")
	sfr := p.Method(enginePkg, "LabelSet", "SetFromRecord")
	next := p.Method(enginePkg, "entryIterator", "Next")
	if sfr == nil || next == nil {
		o.Fail("-", "SetFromRecord / entryIterator.Next not found")
		return
	}
	isReset := func(c ssa.CallInstruction) bool {
		cal := staticCallee(c)
		return cal != nil && recvNamedOf(cal) == "LabelSet" && canonFuncName(cal) == "reset"
	}
	// form 1: in SetFromRecord, dominating every other label set call
	for _, c := range callsIn(sfr) {
		if !isReset(c) {
			continue
		}
		ok := true
		for _, d := range callsIn(sfr) {
			cal := staticCallee(d)
			if d == c || cal == nil || recvNamedOf(cal) != "LabelSet" {
				continue
			}
			if !instrDominates(c, d) {
				ok = false
			}
		}
		if ok {
			o.OK("reset() opens SetFromRecord").At(r.pos(c.Pos()))
			return
		}
	}
	// form 2: in the iterator (or its helpers), after the read of the record in the same function
	for _, gf := range funcGroup(next) {
		if recvNamedOf(gf) == "LabelSet" {
			continue
		}
		for _, c := range callsIn(gf) {
			if !isReset(c) {
				continue
			}
			for _, d := range callsIn(gf) {
				dc, ok := d.(*ssa.Call)
				if !ok {
					continue
				}
				if rv, isNext := methodCallNamed(dc, "Next"); isNext && isResourceType(rv.Type()) && instrDominates(dc, c) {
					o.OK("reset() follows the read of each record").At(r.pos(c.Pos()))
					return
				}
			}
		}
	}
	o.Fail(r.pos(sfr.Pos()), "no reset() of the label set that runs for every record read (labels of a dropped record would show on the next one)")
}

// cellWrites: every value stored into a local variable, in its function and in the closures that capture it.
func cellWrites(al *ssa.Alloc) []ssa.Value {
	var out []ssa.Value
	for _, st := range storesTo(al) {
		out = append(out, st.Val)
	}
	fn := al.Parent()
	if fn == nil {
		return out
	}
	var visit func(f *ssa.Function)
	visit = func(f *ssa.Function) {
		for _, a := range f.AnonFuncs {
			for _, fv := range a.FreeVars {
				if freeVarBinding(fv) == ssa.Value(al) {
					for _, st := range storesTo(fv) {
						out = append(out, st.Val)
					}
				}
			}
			visit(a)
		}
	}
	visit(fn)
	return out
}

// ruleUnpackEntryNoSentinel (PV-TOTAL): whether a packed line is replaced by its _entry depends on
// the presence of the field, never on the content: the decoded text is not compared with a constant
// (an empty _entry is an entry like any other).
func ruleUnpackEntryNoSentinel(r *Run) {
	p := r.P
	o := r.Ob("PV-TOTAL", "logqlengine.parsePackEntry decoded text", "the text decoded from the packed object never steers control flow (no comparison of it with a constant such as the empty string)")
	fn := p.Func(enginePkg, "parsePackEntry")
	if fn == nil {
		if m := p.Method(enginePkg, "UnpackExtractor", "Process"); m != nil {
			fn = m
		}
	}
	if fn == nil {
		o.Fail("-", "parsePackEntry not found")
		return
	}
	var grp []*ssa.Function
	inGrp := map[*ssa.Function]bool{}
	addGrp := func(root *ssa.Function) {
		for _, gf := range funcGroup(root) {
			if pkgOfFunc(gf) == pkgOfFunc(fn) && recvNamedOf(gf) != "LabelSet" && !inGrp[gf] {
				inGrp[gf] = true
				grp = append(grp, gf)
			}
		}
	}
	addGrp(fn)
	if h, _ := unpackFieldHandler(fn); h != nil {
		addGrp(h) // the per-field handler may be a method value or a named function
	}
	// decoded: results of Decoder.Str and the variables, fields and pointed-to cells holding them
	isDecoded := func(v ssa.Value) bool {
		ex, ok := v.(*ssa.Extract)
		if !ok || ex.Index != 0 {
			return false
		}
		c, ok := ex.Tuple.(*ssa.Call)
		if !ok {
			return false
		}
		_, nm := calleePkgName(c)
		return nm == "Str" || nm == "StrBytes" || nm == "StrAppend"
	}
	nDecoded := 0
	// a storage class: a local variable (also as seen by closures), a struct field, or what a pointer
	// parameter points to (then also the variables whose address the call sites pass)
	type fieldKey struct {
		t types.Type
		i int
	}
	cellT := map[*ssa.Alloc]bool{}
	fieldT := map[fieldKey]bool{}
	paramT := map[*ssa.Parameter]bool{}
	cellOf := func(addr ssa.Value) *ssa.Alloc {
		switch a := addr.(type) {
		case *ssa.Alloc:
			return a
		case *ssa.FreeVar:
			al, _ := freeVarBinding(a).(*ssa.Alloc)
			return al
		}
		return nil
	}
	var tainted func(v ssa.Value, d int) bool
	addrTainted := func(addr ssa.Value) bool {
		if al := cellOf(addr); al != nil {
			return cellT[al]
		}
		switch a := addr.(type) {
		case *ssa.FieldAddr:
			return fieldT[fieldKey{deref(a.X.Type()), a.Field}]
		case *ssa.Parameter:
			return paramT[a]
		}
		return false
	}
	tainted = func(v ssa.Value, d int) bool {
		if d > 8 {
			return false
		}
		v = stripTypeOnly(v)
		if isDecoded(v) {
			return true
		}
		switch x := v.(type) {
		case *ssa.Phi:
			for _, e := range x.Edges {
				if tainted(e, d+1) {
					return true
				}
			}
		case *ssa.Convert:
			return tainted(x.X, d+1)
		case *ssa.UnOp:
			if x.Op == token.MUL {
				return addrTainted(x.X)
			}
		case *ssa.Field:
			return fieldT[fieldKey{x.X.Type(), x.Field}]
		case *ssa.Call:
			if b, ok := x.Call.Value.(*ssa.Builtin); ok && b.Name() == "len" && len(x.Call.Args) == 1 {
				return tainted(x.Call.Args[0], d+1)
			}
		}
		return false
	}
	for round := 0; round < 4; round++ {
		for _, gf := range grp {
			allInstrs(gf, func(in ssa.Instruction) {
				switch x := in.(type) {
				case *ssa.Store:
					if !tainted(x.Val, 0) {
						return
					}
					if al := cellOf(x.Addr); al != nil {
						cellT[al] = true
					}
					switch a := x.Addr.(type) {
					case *ssa.FieldAddr:
						fieldT[fieldKey{deref(a.X.Type()), a.Field}] = true
					case *ssa.Parameter:
						paramT[a] = true
					}
				case ssa.CallInstruction:
					// the address of a variable handed to a helper whose parameter receives decoded text
					callee := staticCallee(x)
					if callee == nil || !inGrp[callee] {
						return
					}
					for i, a := range x.Common().Args {
						if i < len(callee.Params) && paramT[callee.Params[i]] {
							if al := cellOf(a); al != nil {
								cellT[al] = true
							}
						}
					}
				}
			})
		}
	}
	good := true
	for _, gf := range grp {
		allInstrs(gf, func(in ssa.Instruction) {
			if v, ok := in.(ssa.Value); ok && isDecoded(v) {
				nDecoded++
			}
			b, ok := in.(*ssa.BinOp)
			if !ok {
				return
			}
			switch b.Op {
			case token.EQL, token.NEQ, token.LSS, token.GTR, token.LEQ, token.GEQ:
			default:
				return
			}
			_, cx := b.X.(*ssa.Const)
			_, cy := b.Y.(*ssa.Const)
			if (cy && tainted(b.X, 0)) || (cx && tainted(b.Y, 0)) {
				good = false
				o.Fail(r.pos(b.Pos()), "the decoded text is compared with a constant (%s): a packed line whose field has that content is treated differently", describe(b, 0))
			}
		})
	}
	if nDecoded == 0 {
		o.Undecide(r.pos(fn.Pos()), "no decoded string found")
		return
	}
	if good {
		o.OK("%d decoded string(s), none compared with a constant", nDecoded).At(r.pos(fn.Pos()))
	}
}

// ruleDropKeepAlwaysScan (PV-WHOLE): a drop/keep stage looks at every label of every record: each
// return of Process comes after the scan of the label set, unless the stage has nothing to do at all
// (every table of the stage is empty).
func ruleDropKeepAlwaysScan(r *Run) {
	p := r.P
	for _, tn := range []string{"DropLabels", "KeepLabels"} {
		fn := p.Method(enginePkg, tn, "Process")
		o := r.Ob("PV-WHOLE", "logqlengine.(*"+tn+").Process scan", "every record's label set is scanned: no return of Process precedes the scan, except when all tables of the stage are empty")
		if fn == nil {
			o.Fail("-", "method not found")
			continue
		}
		isScan := func(c ssa.CallInstruction) bool {
			cal := staticCallee(c)
			if cal == nil {
				return false
			}
			if recvNamedOf(cal) == "LabelSet" {
				return labelSetReader(cal) && canonFuncName(cal) != "Get" && canonFuncName(cal) != "GetString"
			}
			if pkgOfFunc(cal) != pkgOfFunc(fn) {
				return false
			}
			for _, gf := range funcGroup(cal) {
				for _, cc := range callsIn(gf) {
					if c2 := staticCallee(cc); c2 != nil && recvNamedOf(c2) == "LabelSet" && canonFuncName(c2) == "Range" {
						return true
					}
				}
			}
			return false
		}
		var scans []ssa.CallInstruction
		for _, c := range callsIn(fn) {
			if isScan(c) {
				scans = append(scans, c)
			}
		}
		if len(scans) == 0 {
			o.Undecide(r.pos(fn.Pos()), "no scan of the label set found in Process")
			continue
		}
		// tables of the stage: map/slice fields of the receiver
		var tables []string
		if st := derefStruct(fn.Params[0].Type()); st != nil {
			for i := 0; i < st.NumFields(); i++ {
				switch st.Field(i).Type().Underlying().(type) {
				case *types.Map, *types.Slice:
					tables = append(tables, canonName(st.Field(i)))
				}
			}
		}
		good := true
		for _, ret := range returnsOf(fn) {
			dom := false
			for _, s := range scans {
				if instrDominates(s, ret) {
					dom = true
				}
			}
			if dom {
				continue
			}
			empty := map[string]bool{}
			for _, f := range factsAt(ret.Block()) {
				b, ok := f.Cond.(*ssa.BinOp)
				if !ok {
					continue
				}
				c, ok := b.X.(*ssa.Call)
				if !ok {
					continue
				}
				bi, ok := c.Call.Value.(*ssa.Builtin)
				if !ok || bi.Name() != "len" {
					continue
				}
				z, isC := constInt(b.Y)
				if !isC || !((b.Op == token.EQL && z == 0 && f.Truth) || (b.Op == token.NEQ && z == 0 && !f.Truth) || (b.Op == token.GTR && z == 0 && !f.Truth)) {
					continue
				}
				if n, _, ok := loadOfField(c.Call.Args[0]); ok {
					empty[n] = true
				}
			}
			all := len(tables) > 0
			for _, t := range tables {
				if !empty[t] {
					all = false
				}
			}
			if !all {
				good = false
				o.Fail(r.pos(ret.Pos()), "Process returns without scanning the label set although the stage may have something to drop or keep")
			}
		}
		if good {
			o.OK("%d scan site(s) before every return", len(scans)).At(r.pos(fn.Pos()))
		}
	}
}

// resolveFuncValue: the functions a function-typed value can be: a function, a closure, or a
// parameter of a helper followed to the arguments of all the helper's call sites within the group.
func resolveFuncValue(v ssa.Value, grp []*ssa.Function, depth int) ([]*ssa.Function, bool) {
	if depth > 4 {
		return nil, false
	}
	switch x := stripTypeOnly(v).(type) {
	case *ssa.Function:
		return []*ssa.Function{x}, true
	case *ssa.MakeClosure:
		if f, ok := x.Fn.(*ssa.Function); ok {
			return []*ssa.Function{f}, true
		}
	case *ssa.Parameter:
		host := x.Parent()
		idx := -1
		for i, hp := range host.Params {
			if hp == x {
				idx = i
			}
		}
		var out []*ssa.Function
		sites := 0
		for _, gf := range grp {
			for _, c := range callsIn(gf) {
				if staticCallee(c) != host || idx < 0 || idx >= len(c.Common().Args) {
					continue
				}
				sites++
				fs, ok := resolveFuncValue(c.Common().Args[idx], grp, depth+1)
				if !ok {
					return nil, false
				}
				out = append(out, fs...)
			}
		}
		return out, sites > 0
	}
	return nil, false
}
