// verifcheck decides structural clauses of the properties in
// /verif/properties.jsonl for tdakkota/docker-logql from its source alone.
//
//	verifcheck <Cxx> [--tier quick|thorough]
//	verifcheck all [--tier quick]        (development: every property, one load)
//	verifcheck explain <report.json>
package main

import (
	"encoding/json"
	"fmt"
	"os"
	"runtime/debug"
	"sort"
	"strings"
	"time"
)

// PropSpec describes one property check.
type PropSpec struct {
	ID          string
	Explanation string
	Decided     []string
	NotDecided  []string
	Assumptions []string
	NeedCG      bool
	Technique   string
	// NotApplicable, when non-empty, lists the property under not_applicable with this reason.
	NotApplicable string
	Rules         func(r *Run)
}

var registry = map[string]*PropSpec{}

func register(s *PropSpec) { registry[s.ID] = s }

func main() {
	args := os.Args[1:]
	if len(args) == 0 {
		usage()
	}
	tier := os.Getenv("VERIF_TIER")
	var pos []string
	for i := 0; i < len(args); i++ {
		switch {
		case args[i] == "--tier" && i+1 < len(args):
			tier = args[i+1]
			i++
		case strings.HasPrefix(args[i], "--tier="):
			tier = strings.TrimPrefix(args[i], "--tier=")
		default:
			pos = append(pos, args[i])
		}
	}
	if tier == "" {
		tier = "quick"
	}
	if tier != "quick" && tier != "thorough" {
		usage()
	}
	if len(pos) == 0 {
		usage()
	}
	switch pos[0] {
	case "explain":
		if len(pos) < 2 {
			usage()
		}
		os.Exit(explain(pos[1]))
	case "manifest":
		os.Exit(writeManifest())
	case "symbols":
		p, err := loadProgram(defaultConfig)
		if err != nil {
			fmt.Fprintln(os.Stderr, err)
			os.Exit(2)
		}
		if err := writeSymbols(p); err != nil {
			fmt.Fprintln(os.Stderr, err)
			os.Exit(2)
		}
		return
	case "list":
		var ids []string
		for id := range registry {
			ids = append(ids, id)
		}
		sort.Strings(ids)
		for _, id := range ids {
			fmt.Println(id)
		}
		return
	case "all":
		var ids []string
		for id := range registry {
			ids = append(ids, id)
		}
		sort.Strings(ids)
		os.Exit(runProps(ids, tier))
	default:
		for _, id := range pos {
			if registry[id] == nil {
				fmt.Fprintf(os.Stderr, "unknown property %q\n", id)
				os.Exit(2)
			}
		}
		os.Exit(runProps(pos, tier))
	}
}

func usage() {
	fmt.Fprintln(os.Stderr, "usage: verifcheck <Cxx>|all [--tier quick|thorough] | explain <report> | list")
	os.Exit(2)
}

func runProps(ids []string, tier string) int {
	start := time.Now()
	configs := []BuildConfig{defaultConfig}
	if tier == "thorough" {
		configs = append(configs, extraConfigs...)
	}
	outcomes := map[string]*Outcome{}
	for _, id := range ids {
		outcomes[id] = &Outcome{Prop: id, Tier: tier, Spec: registry[id], Start: start}
	}
	for _, cfg := range configs {
		p, err := loadProgram(cfg)
		if err != nil {
			for _, id := range ids {
				outcomes[id].Fatal = append(outcomes[id].Fatal, fmt.Sprintf("load %s: %v", cfg.Name, err))
			}
			continue
		}
		curProg = p
		computeRenames(p)
		for _, n := range renameNotes {
			fmt.Printf("note: %s\n", n)
		}
		for _, id := range ids {
			oc := outcomes[id]
			run := newRun(id, p)
			run.count("packages_first_party", len(p.First))
			run.count("packages_total", len(p.Pkgs))
			run.count("functions_first_party", len(p.SrcFuncs()))
			func() {
				defer func() {
					if rec := recover(); rec != nil {
						oc.Fatal = append(oc.Fatal, fmt.Sprintf("analyser panic on %s: %v\n%s", cfg.Name, rec, debug.Stack()))
					}
				}()
				oc.Spec.Rules(run)
			}()
			oc.Runs = append(oc.Runs, run)
		}
		p = nil
		debug.FreeOSMemory()
	}
	var crossRefs []string
	if tier == "thorough" {
		crossRefs = crossReferences()
	}
	code := 0
	for _, id := range ids {
		oc := outcomes[id]
		if tier == "thorough" {
			runControls(oc)
			oc.CrossRefs = crossRefs
		}
		if c := oc.finish(); c != 0 {
			code = 1
		}
	}
	return code
}

func explain(path string) int {
	b, err := os.ReadFile(path)
	if err != nil {
		fmt.Fprintln(os.Stderr, err)
		return 2
	}
	var rep struct {
		Property   string        `json:"property"`
		Violations []*Obligation `json:"violations"`
		Fatal      []string      `json:"analysis_failures"`
	}
	if err := json.Unmarshal(b, &rep); err != nil {
		fmt.Fprintln(os.Stderr, err)
		return 2
	}
	fmt.Printf("property %s: %d violation(s), %d analysis failure(s)\n", rep.Property, len(rep.Violations), len(rep.Fatal))
	for _, f := range rep.Fatal {
		fmt.Printf("ANALYSIS-FAILURE: %s\n", f)
	}
	for _, o := range rep.Violations {
		fmt.Printf("%s rule=%s construct=%s at %s\n  claim: %s\n  found: %s\n", strings.ToUpper(string(o.Status)), o.Rule, o.Construct, o.Pos, o.Claim, o.Detail)
		for _, p := range o.Path {
			fmt.Printf("    %s\n", p)
		}
	}
	if len(rep.Violations)+len(rep.Fatal) > 0 {
		return 1
	}
	return 0
}
