package main

import (
	"go/ast"
	"go/constant"
	"go/token"
	"go/types"
)

// namesFromDecl: string constants of `names = []string{...}` in a var declaration.
func namesFromDecl(info *types.Info, d ast.Decl) []string {
	gd, ok := d.(*ast.GenDecl)
	if !ok || gd.Tok != token.VAR {
		return nil
	}
	var out []string
	for _, sp := range gd.Specs {
		vs := sp.(*ast.ValueSpec)
		for i, id := range vs.Names {
			if canonName(info.Defs[id]) != "names" || i >= len(vs.Values) {
				continue
			}
			cl, ok := vs.Values[i].(*ast.CompositeLit)
			if !ok {
				continue
			}
			for _, el := range cl.Elts {
				if tv, ok := info.Types[el]; ok && tv.Value != nil && tv.Value.Kind() == constant.String {
					out = append(out, constant.StringVal(tv.Value))
				}
			}
		}
	}
	return out
}
