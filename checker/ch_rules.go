package main

import (
	"fmt"
	"go/constant"
	"go/types"
	"os"
	"sort"
	"strings"

	"golang.org/x/tools/go/ssa"
)

const lexerPkg = "internal/logql/lexer"
const metricPkg = "internal/logql/logqlengine/logqlmetric"

// chSite describes one dispatch site and its expected relation.
type chSite struct {
	Rule     string
	Rel      string // package (module-relative)
	Recv     string // receiver type name ("" for functions)
	Fn       string
	TagType  [2]string // package rel, type name
	TagConst string    // a constant the tag is compared with (selects the tag value)
	// Outcome computes the canonical outcome of a case.
	Outcome  func(r *Run, fn *ssa.Function, cr caseResult) string
	Expected map[string]string // const name -> outcome
	Other    string            // expected outcome of every other constant and of "<other>"
	Claim    string
	// Pin: other tags of the same enum type, selected by a constant they are
	// compared with, are pinned to a constant: {comparedWith, assumedValue}.
	Pin [][2]string
	// AssumeBoolParam pins boolean parameters by name.
	AssumeBoolParam map[string]bool
	// Variant distinguishes several runs of the same site (appears in the construct key).
	Variant string
	// Only restricts the constants for which obligations are generated (nil = all).
	Only func(name string) bool
}

func (s *chSite) fnName() string {
	if s.Recv != "" {
		return "(" + s.Recv + ")." + s.Fn
	}
	return s.Fn
}

func resolveFn(p *Program, rel, recv, name string) *ssa.Function {
	if recv != "" {
		return p.Method(rel, strings.TrimPrefix(recv, "*"), name)
	}
	return p.Func(rel, name)
}

// pickTag chooses the SSA value of type T in fn that is compared with the
// constant named cname.
func pickTag(fn *ssa.Function, T types.Type, cval constant.Value) ssa.Value {
	var found ssa.Value
	allInstrs(fn, func(in ssa.Instruction) {
		b, ok := in.(*ssa.BinOp)
		if !ok || found != nil {
			return
		}
		check := func(tag ssa.Value, c ssa.Value) {
			cc, ok := c.(*ssa.Const)
			if !ok || cc.Value == nil {
				return
			}
			if !types.Identical(tag.Type(), T) {
				return
			}
			if _, isC := tag.(*ssa.Const); isC {
				return
			}
			if cc.Value.Kind() == cval.Kind() && constant.Compare(cc.Value, tokenEQL, cval) {
				found = tag
			}
		}
		check(b.X, b.Y)
		check(b.Y, b.X)
	})
	if found != nil {
		return found
	}
	// table-driven dispatch: the tag indexes a package-level constant map that has cval among its keys
	allInstrs(fn, func(in ssa.Instruction) {
		lk, ok := in.(*ssa.Lookup)
		if !ok || found != nil || !types.Identical(lk.Index.Type(), T) {
			return
		}
		u, ok := lk.X.(*ssa.UnOp)
		if !ok {
			return
		}
		g, ok := u.X.(*ssa.Global)
		if !ok || curProg == nil {
			return
		}
		if tbl, ok := curProg.constTable(g); ok {
			if _, has := tbl[cval.ExactString()]; has {
				found = lk.Index
			}
		}
	})
	return found
}

func runCHSite(r *Run, s *chSite) {
	p := r.P
	fn := resolveFn(p, s.Rel, s.Recv, s.Fn)
	anchor := r.Ob("ANCHOR", shortRel(s.Rel)+"."+s.fnName(), "anchor function resolves")
	anchor.Trivial = true
	if fn == nil || fn.Blocks == nil {
		anchor.Fail("-", "function not found")
		return
	}
	anchor.OK("resolved").At(r.pos(fn.Pos()))
	T := p.NamedType(s.TagType[0], s.TagType[1])
	if T == nil {
		r.Ob("ANCHOR", s.TagType[0]+"."+s.TagType[1], "enum type resolves").Fail("-", "type not found")
		return
	}
	consts := enumConstants(T)
	cv, ok := consts[s.TagConst]
	if !ok {
		r.Ob("ANCHOR", s.TagType[1]+"."+s.TagConst, "enum constant resolves").Fail("-", "constant not found")
		return
	}
	tag := pickTag(fn, T, cv)
	var inline func(*ssa.Function, int) bool
	var h *ssa.Function
	var coTags []ssa.Value
	if tag == nil {
		// the dispatch may have been extracted into a helper: follow exactly the call chain to it
		grp := funcGroup(fn)
		for _, gf := range grp[1:] {
			if t := pickTag(gf, T, cv); t != nil && h == nil {
				h, tag = gf, t
			}
		}
		if h != nil {
			chain := map[*ssa.Function]bool{h: true}
			calls := func(a, b *ssa.Function) bool {
				for _, c := range callsIn(a) {
					if staticCallee(c) == b {
						return true
					}
				}
				return false
			}
			for _, g := range grp[1:] {
				if g != h && calls(fn, g) && calls(g, h) {
					chain[g] = true
				}
			}
			// other instantiations of the same generic helper dispatch on their own copy of the value
			if h.Origin() != nil {
				for _, g := range grp[1:] {
					if g != h && g.Origin() == h.Origin() {
						if t := pickTag(g, T, cv); t != nil {
							chain[g] = true
							coTags = append(coTags, t)
						}
					}
				}
			}
			inline = func(callee *ssa.Function, depth int) bool { return chain[callee] && depth <= 3 }
		}
	}
	givenOnly := false
	if inline == nil && tag != nil {
		// helpers that are handed the dispatch value decide on it: they are walked as part of fn
		given := map[*ssa.Function]bool{}
		eq := equivLoads(fn, tag)
		for _, c := range callsIn(fn) {
			callee := staticCallee(c)
			if callee == nil || callee.Blocks == nil || callee == fn || len(callee.Blocks) > 60 || pkgOfFunc(callee) != pkgOfFunc(fn) {
				continue
			}
			for _, a := range c.Common().Args {
				for _, t := range eq {
					if a == t {
						given[callee] = true
					}
				}
			}
		}
		if len(given) > 0 {
			inline = func(callee *ssa.Function, depth int) bool { return given[callee] && depth <= 1 }
			givenOnly = true
		}
	}
	var tailInline func(*ssa.Function, int) bool
	if inline == nil || givenOnly {
		// tail delegation: a same-package helper whose result is what fn returns is followed, unless the
		// site's expected outcomes speak about that helper by name
		var exp strings.Builder
		for _, v := range s.Expected {
			exp.WriteString(v + "|")
		}
		exp.WriteString(s.Other)
		tail := map[*ssa.Function]bool{}
		for _, ret := range returnsOf(fn) {
			for _, res := range ret.Results {
				for _, lv := range phiLeaves(res) {
					var c *ssa.Call
					if cc, _, ok := extractOf(lv); ok {
						c = cc
					} else if cc, ok := lv.(*ssa.Call); ok {
						c = cc
					}
					if c == nil {
						continue
					}
					h := staticCallee(c)
					if h == nil && !c.Call.IsInvoke() {
						// a constructor looked up in a package-level table of functions: every entry may be the callee
						var lk *ssa.Lookup
						switch x := c.Call.Value.(type) {
						case *ssa.Extract:
							lk, _ = x.Tuple.(*ssa.Lookup)
						case *ssa.Lookup:
							lk = x
						}
						if lk != nil {
							if u, ok := lk.X.(*ssa.UnOp); ok {
								if g, ok := u.X.(*ssa.Global); ok {
									for _, tf := range r.P.funcTable(g) {
										if tf != nil && tf.Blocks != nil && len(tf.Blocks) <= 12 {
											tail[tf] = true
										}
									}
								}
							}
						}
						continue
					}
					if h == nil || h.Blocks == nil || h == fn || pkgOfFunc(h) != pkgOfFunc(fn) || len(h.Blocks) > 12 || strings.Contains(exp.String(), h.Name()) {
						continue
					}
					tail[h] = true
				}
			}
		}
		if len(tail) > 0 {
			prev := inline
			tailInline = func(callee *ssa.Function, depth int) bool {
				return (tail[callee] && depth <= 2) || (givenOnly && prev != nil && prev(callee, depth))
			}
		}
	}
	if tag == nil {
		r.Ob(s.Rule, shortRel(s.Rel)+"."+s.fnName(), s.Claim).Undecide(r.pos(fn.Pos()), "no dispatch on a %s value compared with %s found", s.TagType[1], s.TagConst)
		return
	}
	extra := map[ssa.Value]constant.Value{}
	for _, pin := range s.Pin {
		t2 := pickTag(fn, T, consts[pin[0]])
		if (t2 == nil || t2 == tag) && h != nil {
			// the pinned dispatch moved into the helper together with the main one
			t2 = pickTag(h, T, consts[pin[0]])
		}
		if t2 == nil || t2 == tag {
			r.Ob(s.Rule, shortRel(s.Rel)+"."+s.fnName(), s.Claim).Undecide(r.pos(fn.Pos()), "no second dispatch value compared with %s found", pin[0])
			return
		}
		extra[t2] = consts[pin[1]]
	}
	for name, val := range s.AssumeBoolParam {
		found := false
		// the function's only bool parameter, whatever it is called; by name when there are several
		var bools []*ssa.Parameter
		for _, prm := range fn.Params {
			if b, ok := prm.Type().Underlying().(*types.Basic); ok && b.Kind() == types.Bool {
				bools = append(bools, prm)
			}
		}
		for _, prm := range bools {
			if len(bools) == 1 || prm.Name() == name {
				extra[prm] = constant.MakeBool(val)
				found = true
			}
		}
		if !found {
			r.Ob(s.Rule, shortRel(s.Rel)+"."+s.fnName(), s.Claim).Undecide(r.pos(fn.Pos()), "no parameter %q", name)
			return
		}
	}
	cases := casesOfInlineCo(fn, append([]ssa.Value{tag}, coTags...), consts, extra, nil, inline)
	r.count("ch_cases", len(cases))
	// second derivation, used only for cases the first one does not settle: the same paths with
	// result-returning helpers followed (both derivations describe the same code; a case holds when
	// either shows the expected outcome)
	var casesTail []caseResult
	for ci, cr := range cases {
		if strings.HasPrefix(cr.Const, "_") {
			continue
		}
		want, listed := s.Expected[cr.Const]
		if !listed {
			want = s.Other
		}
		if s.Only != nil && !s.Only(cr.Const) {
			continue
		}
		construct := shortRel(s.Rel) + "." + s.fnName() + s.Variant + "[" + cr.Const + "]"
		o := r.Ob(s.Rule, construct, s.Claim+": "+cr.Const+" -> "+want)
		if !listed {
			o.Trivial = true
		}
		if cr.W.Aborted {
			o.Undecide(r.pos(fn.Pos()), "path enumeration aborted")
			continue
		}
		got := s.Outcome(r, fn, cr)
		if os.Getenv("VERIF_DUMP") != "" {
			fmt.Printf("DUMP %s = %s\n", construct, got)
		}
		if got != want && tailInline != nil {
			if casesTail == nil {
				casesTail = casesOfInline(fn, tag, consts, extra, nil, tailInline)
			}
			if ci < len(casesTail) && casesTail[ci].Const == cr.Const && !casesTail[ci].W.Aborted {
				if got2 := s.Outcome(r, fn, casesTail[ci]); got2 == want {
					got = got2
				}
			}
		}
		if got == want {
			o.OK("outcome %s", got).At(r.pos(fn.Pos()))
		} else {
			o.Fail(r.pos(fn.Pos()), "under %s == %s the outcome is %q, expected %q", s.TagType[1], cr.Const, got, want)
		}
	}
	// expected constants must exist
	for name := range s.Expected {
		if _, ok := consts[name]; !ok {
			r.Ob("ANCHOR", s.TagType[1]+"."+name, "enum constant resolves").Fail("-", "constant %s of the expected table does not exist", name)
		}
	}
}

func shortRel(rel string) string {
	i := strings.LastIndex(rel, "/")
	return rel[i+1:]
}

// ---- outcome functions ----------------------------------------------------

// outFieldConst: the set of constants (named through enum E) stored into the
// given field on non-error paths; "error" if every path is an error return;
// "unset" if some success path never stores.
func outFieldConst(enumRel, enumType, field string, structs ...string) func(r *Run, fn *ssa.Function, cr caseResult) string {
	return func(r *Run, fn *ssa.Function, cr caseResult) string {
		E := r.P.NamedType(enumRel, enumType)
		var consts map[string]constant.Value
		if E != nil {
			consts = enumConstants(E)
		}
		set := map[string]bool{}
		nSuccess := 0
		for _, e := range cr.Ends {
			if e.Cut {
				continue
			}
			if isErr, known := endReturnsError(e); known && isErr {
				continue
			}
			if _, isPanic := e.Term.(*ssa.Panic); isPanic {
				set["panic"] = true
				continue
			}
			nSuccess++
			vals := fieldStores(e, field, structs...)
			if len(vals) == 0 {
				set["unset"] = true
				continue
			}
			for _, v := range vals[len(vals)-1:] {
				if !v.Known {
					set["?"+describe(v.V, 0)] = true
					continue
				}
				if consts != nil {
					set[constName(consts, v.C)] = true
				} else {
					set[v.C.ExactString()] = true
				}
			}
		}
		if nSuccess == 0 && len(set) == 0 {
			return "error"
		}
		return joinSet(set)
	}
}

func joinSet(set map[string]bool) string {
	var xs []string
	for k := range set {
		xs = append(xs, k)
	}
	sort.Strings(xs)
	return strings.Join(xs, "|")
}

// outReturn: canonical description of result #idx over all non-error paths.
func outReturn(idx int, enumRel, enumType string) func(r *Run, fn *ssa.Function, cr caseResult) string {
	return func(r *Run, fn *ssa.Function, cr caseResult) string {
		var consts map[string]constant.Value
		if enumType != "" {
			if E := r.P.NamedType(enumRel, enumType); E != nil {
				consts = enumConstants(E)
			}
		}
		set := map[string]bool{}
		for _, e := range cr.Ends {
			if e.Cut {
				set["cut"] = true
				continue
			}
			if _, isPanic := e.Term.(*ssa.Panic); isPanic {
				set["panic"] = true
				continue
			}
			if isErr, known := endReturnsError(e); known && isErr {
				set["error"] = true
				continue
			}
			if idx >= len(e.Results) {
				set["?"] = true
				continue
			}
			v := e.Results[idx]
			if v.Known {
				if consts != nil {
					set[constName(consts, v.C)] = true
				} else {
					set[v.C.ExactString()] = true
				}
				continue
			}
			set[describeBuilt(v.V)] = true
		}
		return joinSet(set)
	}
}

// describeBuilt describes a constructed value: the concrete type put into an
// interface, with its type arguments, or a closure/function.
func describeBuilt(v ssa.Value) string {
	switch x := v.(type) {
	case *ssa.MakeInterface:
		return "type:" + shortType(x.X.Type())
	case *ssa.MakeClosure:
		return "closure:" + shortFuncName(x.Fn.(*ssa.Function))
	case *ssa.Function:
		return "func:" + shortFuncName(x)
	case *ssa.Alloc:
		return "type:" + shortType(x.Type())
	case *ssa.UnOp:
		// a composite literal's value that reached the return through a helper's parameter (the
		// interface conversion happened in the helper)
		if al, ok := x.X.(*ssa.Alloc); ok && allFieldStores(al) {
			return "type:" + shortType(x.Type())
		}
	}
	if isNilConst(v) {
		return "nil"
	}
	return describe(v, 0)
}

// allFieldStores: the cell is only written field by field (a composite literal under construction).
func allFieldStores(al *ssa.Alloc) bool {
	if _, isIface := derefType(al.Type()).Underlying().(*types.Interface); isIface {
		return false
	}
	return len(storesTo(al)) == 0
}

// ---- C05 / C01: token -> operator sites -----------------------------------

func tokOp(pairs ...string) map[string]string {
	m := map[string]string{}
	for i := 0; i+1 < len(pairs); i += 2 {
		m[pairs[i]] = pairs[i+1]
	}
	return m
}

func parseOpSites() []*chSite {
	tt := [2]string{lexerPkg, "TokenType"}
	return []*chSite{
		{
			Rule: "CH-MAP", Rel: logqlPkg, Recv: "*parser", Fn: "parseLabelMatcher", TagType: tt, TagConst: "Eq",
			Outcome:  outFieldConst(logqlPkg, "BinOp", "Op", "LabelMatcher"),
			Expected: tokOp("Eq", "OpEq", "NotEq", "OpNotEq", "Re", "OpRe", "NotRe", "OpNotRe"),
			Other:    "error",
			Claim:    "selector matcher operator token maps to the operator it spells",
		},
		{
			Rule: "CH-MAP", Rel: logqlPkg, Recv: "*parser", Fn: "parseLineFilter", TagType: tt, TagConst: "PipeExact",
			Outcome:  outFieldConst(logqlPkg, "BinOp", "Op", "LineFilter"),
			Expected: tokOp("PipeExact", "OpEq", "PipeMatch", "OpRe", "NotEq", "OpNotEq", "NotRe", "OpNotRe"),
			Other:    "error",
			Claim:    "line filter token maps to the operator it spells",
		},
		{
			Rule: "CH-MAP", Rel: logqlPkg, Recv: "*parser", Fn: "parseLabelPredicate", TagType: tt, TagConst: "CmpEq",
			Outcome: outFieldConst(logqlPkg, "BinOp", "Op", "LabelMatcher", "NumberFilter", "DurationFilter", "BytesFilter", "IPFilter"),
			Expected: tokOp("Eq", "OpEq", "CmpEq", "OpEq", "NotEq", "OpNotEq", "Re", "OpRe", "NotRe", "OpNotRe",
				"Gt", "OpGt", "Gte", "OpGte", "Lt", "OpLt", "Lte", "OpLte"),
			Other: "error",
			Claim: "label predicate comparison token maps to the operator it spells",
			// fix the leading token to Ident so that only the comparison arm is explored
			Pin: [][2]string{{"OpenParen", "Ident"}},
		},
	}
}

var tokenEQL = tokenEQLv()

func ruleCHParseOps(r *Run) {
	for _, s := range parseOpSites() {
		runCHSite(r, s)
	}
}

var _ = fmt.Sprintf

// outReturn2: results #0 and #1 together.
func outReturn2(enumRel, enumType string) func(r *Run, fn *ssa.Function, cr caseResult) string {
	f0 := outReturn(0, enumRel, enumType)
	f1 := outReturn(1, "", "")
	return func(r *Run, fn *ssa.Function, cr caseResult) string {
		return f0(r, fn, cr) + "," + f1(r, fn, cr)
	}
}

// outCalls: which of the named first-party functions/methods are called on the feasible paths.
func outCalls(names ...string) func(r *Run, fn *ssa.Function, cr caseResult) string {
	return func(r *Run, fn *ssa.Function, cr caseResult) string {
		set := map[string]bool{}
		for _, e := range cr.Ends {
			hit := false
			for _, c := range e.State.calls {
				callee := staticCallee(c.Call)
				if callee == nil {
					continue
				}
				n := cname(callee)
				for _, want := range names {
					if n == want {
						set[n] = true
						hit = true
					}
				}
			}
			if !hit {
				if isErr, known := endReturnsError(e); known && isErr {
					set["error"] = true
				} else {
					set["none"] = true
				}
			}
		}
		return joinSet(set)
	}
}

// outStoredIfaceTypes: the concrete types converted to the given interface on the feasible paths.
func outStoredIfaceTypes(iface string) func(r *Run, fn *ssa.Function, cr caseResult) string {
	return func(r *Run, fn *ssa.Function, cr caseResult) string {
		set := map[string]bool{}
		for _, e := range cr.Ends {
			n := 0
			for _, b := range e.State.trail {
				for _, in := range b.Instrs {
					mi, ok := in.(*ssa.MakeInterface)
					if !ok || typeKey(mi.Type()) != iface {
						continue
					}
					set[shortType(mi.X.Type())] = true
					n++
				}
			}
			if n == 0 {
				if isErr, known := endReturnsError(e); known && isErr {
					set["error"] = true
				} else {
					set["none"] = true
				}
			}
		}
		return joinSet(set)
	}
}

func parseSites2() []*chSite {
	tt := [2]string{lexerPkg, "TokenType"}
	rangeToks := tokOp("CountOverTime", "RangeOpCount", "Rate", "RangeOpRate", "RateCounter", "RangeOpRateCounter",
		"BytesOverTime", "RangeOpBytes", "BytesRate", "RangeOpBytesRate", "AvgOverTime", "RangeOpAvg", "SumOverTime", "RangeOpSum",
		"MinOverTime", "RangeOpMin", "MaxOverTime", "RangeOpMax", "StdvarOverTime", "RangeOpStdvar", "StddevOverTime", "RangeOpStddev",
		"QuantileOverTime", "RangeOpQuantile", "FirstOverTime", "RangeOpFirst", "LastOverTime", "RangeOpLast", "AbsentOverTime", "RangeOpAbsent")
	vecToks := tokOp("Sum", "VectorOpSum", "Avg", "VectorOpAvg", "Count", "VectorOpCount", "Max", "VectorOpMax", "Min", "VectorOpMin",
		"Stddev", "VectorOpStddev", "Stdvar", "VectorOpStdvar", "Bottomk", "VectorOpBottomk", "Topk", "VectorOpTopk",
		"Sort", "VectorOpSort", "SortDesc", "VectorOpSortDesc")
	route := map[string]string{"OpenParen": "parseExpr", "Number": "parseLiteralExpr", "Add": "parseLiteralExpr", "Sub": "parseLiteralExpr",
		"LabelReplace": "parseLabelReplace", "Vector": "parseVectorExpr"}
	for k := range rangeToks {
		route[k] = "parseRangeAggregationExpr"
	}
	for k := range vecToks {
		route[k] = "parseVectorAggregationExpr"
	}
	binops := tokOp("Or", "OpOr,true", "And", "OpAnd,true", "Unless", "OpUnless,true", "Add", "OpAdd,true", "Sub", "OpSub,true",
		"Mul", "OpMul,true", "Div", "OpDiv,true", "Mod", "OpMod,true", "Pow", "OpPow,true", "CmpEq", "OpEq,true", "NotEq", "OpNotEq,true",
		"Gt", "OpGt,true", "Gte", "OpGte,true", "Lt", "OpLt,true", "Lte", "OpLte,true")
	stages := tokOp("JSON", "*logql.JSONExpressionParser", "Logfmt", "*logql.LogfmtExpressionParser", "Regexp", "*logql.RegexpLabelParser",
		"Pattern", "*logql.PatternLabelParser", "Unpack", "*logql.UnpackLabelParser", "LineFormat", "*logql.LineFormat",
		"Decolorize", "*logql.DecolorizeExpr", "Ident", "*logql.LabelFilter", "OpenParen", "*logql.LabelFilter",
		"LabelFormat", "*logql.LabelFormatExpr", "Keep", "*logql.KeepLabelsExpr", "Drop", "*logql.DropLabelsExpr", "Distinct", "*logql.DistinctFilter")
	withErr := func(m map[string]string) map[string]string {
		out := map[string]string{}
		for k, v := range m {
			out[k] = v + "|error"
		}
		return out
	}
	stagesNoUnwrap := withErr(stages)
	stagesNoUnwrap["Unpack"] = "*logql.UnpackLabelParser"
	stagesNoUnwrap["Decolorize"] = "*logql.DecolorizeExpr"
	stagesUnwrap := map[string]string{}
	for k, v := range stagesNoUnwrap {
		stagesUnwrap[k] = v
	}
	stagesUnwrap["Unwrap"] = "none"
	return []*chSite{
		{Rule: "CH-MAP", Rel: logqlPkg, Recv: "*parser", Fn: "peekBinOp", TagType: tt, TagConst: "Or",
			Outcome: outReturn2(logqlPkg, "BinOp"), Expected: binops, Other: "<0>,false",
			Claim: "binary operator token maps to the operator it spells"},
		{Rule: "CH-MAP", Rel: logqlPkg, Recv: "*parser", Fn: "parseRangeAggregationExpr", TagType: tt, TagConst: "CountOverTime",
			Outcome: outFieldConst(logqlPkg, "RangeOp", "Op", "RangeAggregationExpr"), Expected: withErrOnlyIfNeeded(rangeToks), Other: "",
			Only:  func(n string) bool { _, ok := rangeToks[n]; return ok },
			Claim: "range aggregation function token maps to the range operation it spells"},
		{Rule: "CH-MAP", Rel: logqlPkg, Recv: "*parser", Fn: "parseVectorAggregationExpr", TagType: tt, TagConst: "Sum",
			Outcome: outFieldConst(logqlPkg, "VectorOp", "Op", "VectorAggregationExpr"), Expected: vecToks, Other: "",
			Only:  func(n string) bool { _, ok := vecToks[n]; return ok },
			Pin:   [][2]string{},
			Claim: "vector aggregation function token maps to the vector operation it spells"},
		{Rule: "CH-MAP", Rel: logqlPkg, Recv: "*parser", Fn: "parseMetricExpr1", TagType: tt, TagConst: "OpenParen",
			Outcome:  outCalls("parseExpr", "parseRangeAggregationExpr", "parseVectorAggregationExpr", "parseLiteralExpr", "parseLabelReplace", "parseVectorExpr"),
			Expected: route, Other: "error",
			Claim: "a metric expression starting with this token is parsed by the matching production"},
		{Rule: "CH-MAP", Rel: logqlPkg, Recv: "*parser", Fn: "parsePipeline", TagType: tt, TagConst: "JSON",
			Pin: [][2]string{{"Pipe", "Pipe"}}, AssumeBoolParam: map[string]bool{"allowUnwrap": false}, Variant: "{allowUnwrap=false}",
			Outcome: outStoredIfaceTypes("PipelineStage"), Expected: stagesNoUnwrap, Other: "error",
			Claim: "the token after | selects the stage it names; | unwrap in a log query is an error"},
		{Rule: "CH-MAP", Rel: logqlPkg, Recv: "*parser", Fn: "parsePipeline", TagType: tt, TagConst: "JSON",
			Pin: [][2]string{{"Pipe", "Pipe"}}, AssumeBoolParam: map[string]bool{"allowUnwrap": true}, Variant: "{allowUnwrap=true}",
			Outcome: outStoredIfaceTypes("PipelineStage"), Expected: stagesUnwrap, Other: "error",
			Claim: "the token after | selects the stage it names; | unwrap ends the pipeline of a range expression"},
	}
}

func withErrOnlyIfNeeded(m map[string]string) map[string]string { return m }

func ruleCHParseSites2(r *Run) {
	for _, s := range parseSites2() {
		runCHSite(r, s)
	}
}

// outClosureReturnType: result #0 is a closure; report the concrete types its returns build.
func outClosureReturnType() func(r *Run, fn *ssa.Function, cr caseResult) string {
	return func(r *Run, fn *ssa.Function, cr caseResult) string {
		set := map[string]bool{}
		for _, e := range cr.Ends {
			if isErr, known := endReturnsError(e); known && isErr {
				set["error"] = true
				continue
			}
			if len(e.Results) == 0 {
				set["?"] = true
				continue
			}
			var cfn *ssa.Function
			switch x := e.Results[0].V.(type) {
			case *ssa.MakeClosure:
				cfn = x.Fn.(*ssa.Function)
			case *ssa.Function:
				cfn = x
			}
			if cfn == nil && cr.W != nil {
				// a function taken from a constant table (or bound on the path)
				cfn, _ = cr.W.resolveCallee(e.State, e.Results[0].V, 0)
			}
			if cfn == nil || cfn.Blocks == nil {
				set[describeBuilt(e.Results[0].V)] = true
				continue
			}
			for _, ret := range returnsOf(cfn) {
				for _, lv := range phiLeaves(ret.Results[0]) {
					set[describeBuilt(lv)] = true
				}
			}
		}
		return joinSet(set)
	}
}

// outFieldFuncs: describe the values stored into several fields on success paths: "f1=..,f2=..".
func outFieldDesc(fields ...string) func(r *Run, fn *ssa.Function, cr caseResult) string {
	return func(r *Run, fn *ssa.Function, cr caseResult) string {
		set := map[string]bool{}
		for _, e := range cr.Ends {
			if isErr, known := endReturnsError(e); known && isErr {
				set["error"] = true
				continue
			}
			var parts []string
			if len(e.Results) > 0 {
				parts = append(parts, describeBuilt(e.Results[0].V))
			}
			for _, f := range fields {
				vals := fieldStores(e, f)
				if len(vals) == 0 {
					continue
				}
				v := vals[len(vals)-1]
				parts = append(parts, f+"="+describeBuilt(v.V))
			}
			set[strings.Join(parts, ";")] = true
		}
		return joinSet(set)
	}
}

func builderSites() []*chSite {
	op := [2]string{logqlPkg, "BinOp"}
	cmpT := func(prefix, elem string) map[string]string {
		m := map[string]string{}
		for _, c := range []string{"Eq", "NotEq", "Gt", "Gte", "Lt", "Lte"} {
			m["Op"+c] = "type:*logqlengine." + prefix + "[logqlengine." + c + "Comparator[" + elem + "]]"
		}
		return m
	}
	return []*chSite{
		{Rule: "CH-MAP", Rel: enginePkg, Fn: "buildStringMatcher", TagType: op, TagConst: "OpEq",
			AssumeBoolParam: map[string]bool{"label": true}, Variant: "{label=true}",
			Outcome: outReturn(0, "", ""),
			Expected: map[string]string{
				"OpEq":    "type:logqlengine.EqualsMatcher",
				"OpNotEq": "type:logqlengine.NotMatcher[string,logqlengine.EqualsMatcher]",
				"OpRe":    "error|type:logqlengine.RegexpMatcher",
				"OpNotRe": "error|type:logqlengine.NotMatcher[string,logqlengine.RegexpMatcher]"},
			Other: "error", Claim: "label string matcher implements the operator (negated forms wrap the positive matcher in NotMatcher)"},
		{Rule: "CH-MAP", Rel: enginePkg, Fn: "buildStringMatcher", TagType: op, TagConst: "OpEq",
			AssumeBoolParam: map[string]bool{"label": false}, Variant: "{label=false}",
			Outcome: outReturn(0, "", ""),
			Expected: map[string]string{
				"OpEq":    "type:logqlengine.ContainsMatcher",
				"OpNotEq": "type:logqlengine.NotMatcher[string,logqlengine.ContainsMatcher]",
				"OpRe":    "error|type:logqlengine.RegexpMatcher",
				"OpNotRe": "error|type:logqlengine.NotMatcher[string,logqlengine.RegexpMatcher]"},
			Other: "error", Claim: "line string matcher implements the operator (negated forms wrap the positive matcher in NotMatcher)"},
		{Rule: "CH-MAP", Rel: enginePkg, Fn: "buildDurationLabelFilter", TagType: op, TagConst: "OpEq",
			Outcome: outReturn(0, "", ""), Expected: cmpT("DurationLabelFilter", "time.Duration"), Other: "error",
			Claim: "duration label filter is instantiated with the comparator of its operator"},
		{Rule: "CH-MAP", Rel: enginePkg, Fn: "buildBytesLabelFilter", TagType: op, TagConst: "OpEq",
			Outcome: outReturn(0, "", ""), Expected: cmpT("BytesLabelFilter", "uint64"), Other: "error",
			Claim: "bytes label filter is instantiated with the comparator of its operator"},
		{Rule: "CH-MAP", Rel: enginePkg, Fn: "buildNumberLabelFilter", TagType: op, TagConst: "OpEq",
			Outcome: outReturn(0, "", ""), Expected: cmpT("NumberLabelFilter", "float64"), Other: "error",
			Claim: "number label filter is instantiated with the comparator of its operator"},
		{Rule: "CH-MAP", Rel: enginePkg, Fn: "buildIPMatcher", TagType: op, TagConst: "OpEq",
			Outcome: outReturn(0, "", ""),
			Expected: map[string]string{
				"OpEq":    "error|type:logqlengine.EqualIPMatcher|type:logqlengine.PrefixIPMatcher|type:logqlengine.RangeIPMatcher",
				"OpNotEq": "error|type:logqlengine.NotMatcher[netip.Addr,logqlengine.EqualIPMatcher]|type:logqlengine.NotMatcher[netip.Addr,logqlengine.PrefixIPMatcher]|type:logqlengine.NotMatcher[netip.Addr,logqlengine.RangeIPMatcher]"},
			Other: "error", Claim: "ip matcher implements = and != (negated forms wrap the positive matcher in NotMatcher)"},
		{Rule: "CH-MAP", Rel: enginePkg, Fn: "buildLabelPredicate", TagType: op, TagConst: "OpAnd",
			// over the paths that reach the operator dispatch: every one of them builds the composite (a
			// short cut that merges the two operands into something else shows up as another outcome)
			Outcome:  outReturnViaTag(op, "OpAnd"),
			Expected: map[string]string{"OpAnd": "type:*logqlengine.AndLabelMatcher", "OpOr": "type:*logqlengine.OrLabelMatcher"},
			Only:     func(n string) bool { return n == "OpAnd" || n == "OpOr" || n == "OpUnless" || n == "<other>" },
			Other:    "error", Claim: "and/or predicate builds the matching composite"},
	}
}

func ruleCHBuilders(r *Run) {
	for _, s := range builderSites() {
		runCHSite(r, s)
	}
}

// outReturnViaTag: outReturn(0) over the paths that evaluate the dispatch value (the other arms of
// an enclosing type switch do not take part in the dispatch).
func outReturnViaTag(tagType [2]string, tagConst string) func(r *Run, fn *ssa.Function, cr caseResult) string {
	base := outReturn(0, "", "")
	return func(r *Run, fn *ssa.Function, cr caseResult) string {
		T := r.P.NamedType(tagType[0], tagType[1])
		var tb *ssa.BasicBlock
		if T != nil {
			for _, g := range funcGroup(fn) {
				if tag := pickTag(g, T, enumConstants(T)[tagConst]); tag != nil && tb == nil {
					if in, ok := tag.(ssa.Instruction); ok {
						tb = in.Block()
					}
				}
			}
		}
		if tb == nil {
			return base(r, fn, cr)
		}
		sub := cr
		sub.Ends = nil
		for _, e := range cr.Ends {
			for _, b := range e.State.trail {
				if b == tb {
					sub.Ends = append(sub.Ends, e)
					break
				}
			}
		}
		return base(r, fn, sub)
	}
}

// onlyPrefix keeps the outcome atoms with the given prefix.
func onlyPrefix(f func(r *Run, fn *ssa.Function, cr caseResult) string, prefix string) func(r *Run, fn *ssa.Function, cr caseResult) string {
	return func(r *Run, fn *ssa.Function, cr caseResult) string {
		var keep []string
		for _, a := range strings.Split(f(r, fn, cr), "|") {
			if strings.HasPrefix(a, prefix) {
				keep = append(keep, a)
			}
		}
		return strings.Join(keep, "|")
	}
}

func ruleCHParseSites3(r *Run) {
	tt := [2]string{lexerPkg, "TokenType"}
	sites := []*chSite{
		{Rule: "CH-MAP", Rel: logqlPkg, Recv: "*parser", Fn: "parseLabelsAndMatchers", TagType: tt, TagConst: "Eq",
			Outcome:  dropAtom(outCalls("parseLabelMatcher", "parseIdent"), "error"),
			Expected: tokOp("Eq", "parseLabelMatcher", "NotEq", "parseLabelMatcher", "Re", "parseLabelMatcher", "NotRe", "parseLabelMatcher"),
			Other:    "parseIdent",
			Claim:    "in drop/keep an identifier followed by a matcher operator is parsed as a matcher, otherwise as a label name"},
		{Rule: "CH-MAP", Rel: logqlPkg, Recv: "*parser", Fn: "parseGrouping", TagType: tt, TagConst: "Without",
			Outcome:  outFieldConst("", "", "Without", "Grouping"),
			Expected: map[string]string{"By": "unset", "Without": "true"},
			Other:    "error",
			Claim:    "`without` sets Grouping.Without, `by` leaves it false"},
	}
	for _, s := range sites {
		runCHSite(r, s)
	}
	// literal-kind admissibility in parseLabelPredicate
	p := r.P
	fn := p.Method(logqlPkg, "parser", "parseLabelPredicate")
	T := p.NamedType(lexerPkg, "TokenType")
	if fn == nil || T == nil {
		return
	}
	consts := enumConstants(T)
	lead := pickTag(fn, T, consts["OpenParen"])
	opTag := pickTag(fn, T, consts["CmpEq"])
	litTag := pickTag(fn, T, consts["String"])
	if lead == nil || opTag == nil || litTag == nil {
		// the filter arm may have been split off: the helper that holds all three dispatches
		for _, gf := range funcGroup(fn)[1:] {
			l2, o2, t2 := pickTag(gf, T, consts["OpenParen"]), pickTag(gf, T, consts["CmpEq"]), pickTag(gf, T, consts["String"])
			if l2 != nil && o2 != nil && t2 != nil {
				fn, lead, opTag, litTag = gf, l2, o2, t2
				break
			}
		}
	}
	// helpers that are handed the operator token (or its type) take part in the admissibility decision
	opHelpers := map[*ssa.Function]bool{}
	if opTag != nil {
		var opBase ssa.Value
		switch x := opTag.(type) {
		case *ssa.Field:
			opBase = x.X
		case *ssa.UnOp:
			if fa, ok := x.X.(*ssa.FieldAddr); ok {
				opBase = fa.X
			}
		}
		for _, c := range callsIn(fn) {
			callee := staticCallee(c)
			if callee == nil || callee.Blocks == nil || len(callee.Blocks) > 16 || pkgOfFunc(callee) != pkgOfFunc(fn) || callee == fn {
				continue
			}
			for _, a := range c.Common().Args {
				given := a == opTag
				if u, ok := a.(*ssa.UnOp); ok && opBase != nil && u.X == opBase {
					given = true
				}
				if opBase != nil && a == opBase {
					given = true
				}
				for _, t := range equivLoads(fn, opTag) {
					if a == t {
						given = true
					}
				}
				if given {
					opHelpers[callee] = true
				}
			}
		}
	}
	var opInline func(*ssa.Function, int) bool
	if len(opHelpers) > 0 {
		opInline = func(callee *ssa.Function, depth int) bool { return opHelpers[callee] && depth <= 1 }
	}
	if lead == nil || opTag == nil || litTag == nil || opTag == litTag {
		r.Ob("CH-MAP", "logql.(*parser).parseLabelPredicate literal kinds", "operator/literal admissibility").Undecide(r.pos(fn.Pos()), "dispatch values not identified")
		return
	}
	admit := map[string]map[string]bool{
		"String":   set("Eq", "NotEq", "Re", "NotRe"),
		"Number":   set("CmpEq", "NotEq", "Lt", "Lte", "Gt", "Gte"),
		"Duration": set("CmpEq", "NotEq", "Lt", "Lte", "Gt", "Gte"),
		"Bytes":    set("CmpEq", "NotEq", "Lt", "Lte", "Gt", "Gte"),
		"IP":       set("CmpEq", "NotEq"),
	}
	structOf := map[string]string{"String": "LabelMatcher", "Number": "NumberFilter", "Duration": "DurationFilter", "Bytes": "BytesFilter", "IP": "IPFilter"}
	ops := []string{"Eq", "CmpEq", "NotEq", "Re", "NotRe", "Gt", "Gte", "Lt", "Lte"}
	for _, lit := range []string{"String", "Number", "Duration", "Bytes", "IP"} {
		o := r.Ob("CH-MAP", "logql.(*parser).parseLabelPredicate["+lit+" literal]", "a "+lit+" literal admits exactly the operators LogQL allows for it and builds a "+structOf[lit])
		bad := false
		for _, opn := range ops {
			assume := map[ssa.Value]constant.Value{}
			for tg, cn := range map[ssa.Value]string{lead: "Ident", opTag: opn, litTag: lit} {
				for _, t := range equivLoads(fn, tg) {
					assume[t] = consts[cn]
				}
			}
			w := &feWalker{Fn: fn, Assume: assume, MaxPath: 20000, Inline: opInline}
			built := map[string]bool{}
			succ := false
			for _, e := range w.Run() {
				if e.Cut {
					continue
				}
				if isErr, known := endReturnsError(e); known && isErr {
					continue
				}
				succ = true
				for _, b := range e.State.trail {
					for _, in := range b.Instrs {
						if mi, ok := in.(*ssa.MakeInterface); ok && typeKey(mi.Type()) == "LabelPredicate" {
							built[typeKey(mi.X.Type())] = true
						}
					}
				}
			}
			want := admit[lit][opn]
			if succ != want {
				bad = true
				o.Fail(r.pos(fn.Pos()), "operator token %s with a %s literal is %s, expected %s", opn, lit, accRej(succ), accRej(want))
			}
			if succ && !built[structOf[lit]] {
				bad = true
				o.Fail(r.pos(fn.Pos()), "operator token %s with a %s literal builds %v, expected %s", opn, lit, built, structOf[lit])
			}
		}
		if !bad {
			o.OK("9 operator tokens agree").At(r.pos(fn.Pos()))
		}
	}
}

// ruleParserErrProp: errors inside the parser reach failure exits.
func ruleParserErrProp(r *Run) {
	p := r.P
	pkg := p.SSAPkg(logqlPkg)
	if pkg == nil {
		return
	}
	n := 0
	for _, fn := range p.SrcFuncs() {
		if fn.Pkg == nil || fn.Pkg.Pkg.Path() != modPath+"/"+logqlPkg {
			continue
		}
		res := fn.Signature.Results()
		if res.Len() == 0 || !isErrorType(res.At(res.Len()-1).Type()) {
			continue
		}
		name := fn.Name()
		if !(strings.HasPrefix(name, "parse") || name == "Parse" || name == "ParseSelector" || name == "consume" || name == "consumeText") {
			continue
		}
		n++
		ruleErrProp(r, fn, errPropOpts{})
	}
	// closures inside parse functions
	for _, fn := range p.SrcFuncs() {
		if fn.Parent() == nil || fn.Parent().Pkg == nil || fn.Parent().Pkg.Pkg.Path() != modPath+"/"+logqlPkg {
			continue
		}
		res := fn.Signature.Results()
		if res.Len() == 0 || !isErrorType(res.At(res.Len()-1).Type()) {
			continue
		}
		n++
		ruleErrProp(r, fn, errPropOpts{})
	}
	r.count("parser_functions", n)
	// Parse rejects trailing tokens
	pf := p.Func(logqlPkg, "Parse")
	o := r.Ob("ERR-PROP", "logql.Parse trailing tokens", "a query with tokens left after a complete expression is rejected")
	if pf == nil {
		o.Fail("-", "function not found")
		return
	}
	T := p.NamedType(lexerPkg, "TokenType")
	consts := enumConstants(T)
	tag := pickTag(pf, T, consts["EOF"])
	if tag == nil {
		o.Fail(r.pos(pf.Pos()), "Parse never compares the next token with EOF: trailing text would be ignored")
		return
	}
	w := &feWalker{Fn: pf, Assume: map[ssa.Value]constant.Value{tag: consts["Ident"]}}
	bad := false
	for _, e := range w.Run() {
		reached := false
		for _, b := range e.State.trail {
			if in, ok := tag.(ssa.Instruction); ok && b == in.Block() {
				reached = true
			}
		}
		if !reached {
			continue
		}
		if isErr, known := endReturnsError(e); !(known && isErr) {
			bad = true
			o.Fail(r.pos(e.Term.Pos()), "with a non-EOF token after the expression Parse does not return an error")
		}
	}
	if !bad {
		o.OK("next token != EOF -> error").At(r.pos(pf.Pos()))
	}
}

func dropAtom(f func(r *Run, fn *ssa.Function, cr caseResult) string, atom string) func(r *Run, fn *ssa.Function, cr caseResult) string {
	return func(r *Run, fn *ssa.Function, cr caseResult) string {
		var keep []string
		for _, a := range strings.Split(f(r, fn, cr), "|") {
			if a != atom {
				keep = append(keep, a)
			}
		}
		return strings.Join(keep, "|")
	}
}
