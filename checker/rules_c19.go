package main

import (
	"fmt"
	"go/constant"
	"golang.org/x/tools/go/ssa"
)

// ruleFilterEffects: effect summaries of the stateless filters.
func ruleFilterEffects(r *Run) {
	p := r.P
	eng := modPath + "/" + enginePkg
	for _, spec := range []struct {
		typ        string
		allowError bool
	}{
		{"LineFilter", false}, {"IPLineFilter", false}, {"LabelMatcher", false}, {"AndLabelMatcher", false}, {"OrLabelMatcher", false},
		{"DurationLabelFilter", true}, {"BytesLabelFilter", true}, {"NumberLabelFilter", true}, {"IPLabelFilter", true},
	} {
		fn := p.Method(enginePkg, spec.typ, "Process")
		o := r.Ob("EFFECT", "logqlengine."+spec.typ+".Process", "a stateless filter writes neither its receiver nor the label set (typed label filters may only flag __error__), so filters commute and are idempotent")
		if fn == nil {
			o.Fail("-", "method not found")
			continue
		}
		bad := false
		allInstrs(fn, func(in ssa.Instruction) {
			switch x := in.(type) {
			case *ssa.Store:
				// stores to locals are fine; stores through the receiver are not
				root := x.Addr
				for {
					switch a := root.(type) {
					case *ssa.FieldAddr:
						root = a.X
						continue
					case *ssa.IndexAddr:
						root = a.X
						continue
					}
					break
				}
				if root == ssa.Value(fn.Params[0]) {
					bad = true
					o.Fail(r.pos(x.Pos()), "writes its receiver (%s): the filter is stateful", describe(x.Addr, 0))
				}
			case *ssa.MapUpdate:
				bad = true
				o.Fail(r.pos(x.Pos()), "updates a map")
			case ssa.CallInstruction:
				callee := staticCallee(x)
				if callee == nil {
					return
				}
				if isFunc(callee, eng, "(*LabelSet).SetError") {
					if !spec.allowError {
						bad = true
						o.Fail(r.pos(x.Pos()), "flags __error__ although the filter cannot fail")
					}
					return
				}
				for _, m := range []string{"Set", "Delete", "SetFromRecord", "SetAttrs", "reset"} {
					if isFunc(callee, eng, "(*LabelSet)."+m) {
						bad = true
						o.Fail(r.pos(x.Pos()), "modifies the label set through %s", m)
					}
				}
			}
		})
		if !bad {
			o.OK("no receiver store, no label-set mutation").At(r.pos(fn.Pos()))
		}
	}
}

// ruleLineFilterBuilder: buildLineFilter maps every operator/pattern to the
// matcher built by buildStringMatcher/buildIPMatcher – no short cuts.
func ruleLineFilterBuilder(r *Run) {
	p := r.P
	eng := modPath + "/" + enginePkg
	for _, spec := range []struct{ fn, matcher, typ string }{
		{"buildLineFilter", "buildStringMatcher", "LineFilter"},
		{"buildLabelMatcher", "buildStringMatcher", "LabelMatcher"},
		{"buildIPLabelFilter", "buildIPMatcher", "IPLabelFilter"},
	} {
		fn := p.Func(enginePkg, spec.fn)
		o := r.Ob("PV-PAIR", "logqlengine."+spec.fn, "every successful return is a "+spec.typ+" (or ip variant) whose matcher is the result of the matcher builder applied to the stage's own operator, value and regexp")
		if fn == nil {
			o.Fail("-", "function not found")
			continue
		}
		bad := false
		stage := fn.Params[0]
		w := &feWalker{Fn: fn}
		for _, e := range w.Run() {
			if isErr, known := endReturnsError(e); known && isErr {
				continue
			}
			if len(e.Results) == 0 {
				continue
			}
			mi, ok := e.Results[0].V.(*ssa.MakeInterface)
			if !ok {
				bad = true
				o.Fail(r.pos(e.Term.Pos()), "returns %s", describe(e.Results[0].V, 0))
				continue
			}
			al, ok := mi.X.(*ssa.Alloc)
			if !ok {
				bad = true
				o.Fail(r.pos(e.Term.Pos()), "returns %s, not a freshly built filter", describe(mi.X, 0))
				continue
			}
			tn := typeKey(al.Type())
			if tn != spec.typ && !(spec.fn == "buildLineFilter" && tn == "IPLineFilter") {
				bad = true
				o.Fail(r.pos(e.Term.Pos()), "returns a %s", tn)
				continue
			}
			mv := allocFieldStores(al)["matcher"]
			c, idx, ok := extractOf(mv)
			wantBuilder := spec.matcher
			if tn == "IPLineFilter" {
				wantBuilder = "buildIPMatcher"
			}
			if !ok || idx != 0 || !callIs(c, eng, wantBuilder) {
				bad = true
				o.Fail(r.pos(e.Term.Pos()), "the %s's matcher is %s, not the result of %s", tn, describe(mv, 0), wantBuilder)
				continue
			}
			// arguments come from the stage's own fields
			for i, a := range c.Call.Args {
				if _, isConst := a.(*ssa.Const); isConst {
					continue
				}
				f, base, ok := loadOfField(a)
				if !ok || spillParam(base) != ssa.Value(stage) {
					bad = true
					o.Fail(r.pos(c.Pos()), "argument %d of %s is %s, not a field of the stage", i, wantBuilder, describe(a, 0))
					continue
				}
				wantField := map[int]string{0: "Op", 1: "Value", 2: "Re"}[i]
				if f != wantField {
					bad = true
					o.Fail(r.pos(c.Pos()), "argument %d of %s is the stage's %s, expected %s", i, wantBuilder, f, wantField)
				}
			}
			// label flag: true for label matchers, false for line filters
			if wantBuilder == "buildStringMatcher" && len(c.Call.Args) == 4 {
				wantLabel := spec.fn != "buildLineFilter"
				if !isConstBool(c.Call.Args[3], wantLabel) {
					bad = true
					o.Fail(r.pos(c.Pos()), "buildStringMatcher is called with label=%s, expected %v", describe(c.Call.Args[3], 0), wantLabel)
				}
			}
			// name field for label filters
			if spec.typ != "LineFilter" {
				nv := allocFieldStores(al)["name"]
				if f, base, ok := loadOfField(nv); !ok || f != "Label" || spillParam(base) != ssa.Value(stage) {
					bad = true
					o.Fail(r.pos(e.Term.Pos()), "the filter's label name is %s, not the stage's Label", describe(nv, 0))
				}
			}
		}
		if !bad {
			o.OK("all successful returns wrap %s(stage.Op, stage.Value, ...)", spec.matcher).At(r.pos(fn.Pos()))
		}
	}
}

// ruleIPScanStarts (FE-CLASS): the ip() line filter tries to read an address at every position
// whose character can begin one: a decimal digit (IPv4, IPv6), a hex letter (IPv6 such as fe80::1)
// or a colon (::1). Decided per character class on the paths of one scan step.
func ruleIPScanStarts(r *Run) {
	p := r.P
	fn := p.Method(enginePkg, "IPLineFilter", "Process")
	o := r.Ob("FE-CLASS", "logqlengine.(*IPLineFilter).Process scan starts", "an address capture is attempted at every position holding a digit, a hex letter or ':' (addresses may begin with any of them)")
	if fn == nil || len(fn.Params) < 3 {
		o.Fail("-", "method not found")
		return
	}
	line := fn.Params[2]
	// the scan loop and the character under the cursor
	var ch ssa.Instruction
	var chVal, chIndex ssa.Value
	allInstrs(fn, func(in ssa.Instruction) {
		switch x := in.(type) {
		case *ssa.Lookup:
			if x.X == ssa.Value(line) && !x.CommaOk {
				ch, chVal, chIndex = x, x, x.Index
			}
		case *ssa.Index:
			if x.X == ssa.Value(line) {
				ch, chVal, chIndex = x, x, x.Index
			}
		}
	})
	var host *ssa.Function // the helper that looks at the character, when Process does not itself
	var hostCall ssa.Instruction
	if ch == nil {
		// the test of the character may sit in a helper that is handed line[i:]
		for _, c := range callsIn(fn) {
			h := staticCallee(c)
			if h == nil || h.Blocks == nil || pkgOfFunc(h) != pkgOfFunc(fn) {
				continue
			}
			for ai, a := range c.Common().Args {
				sl, ok := a.(*ssa.Slice)
				if !ok || sl.X != ssa.Value(line) || sl.Low == nil || sl.High != nil || ai >= len(h.Params) {
					continue
				}
				prm := h.Params[ai]
				allInstrs(h, func(in ssa.Instruction) {
					switch x := in.(type) {
					case *ssa.Lookup:
						if k, ok := constInt(x.Index); ok && k == 0 && x.X == ssa.Value(prm) && !x.CommaOk {
							ch, chVal, chIndex, host, hostCall = x, x, sl.Low, h, c
						}
					case *ssa.Index:
						if k, ok := constInt(x.Index); ok && k == 0 && x.X == ssa.Value(prm) {
							ch, chVal, chIndex, host, hostCall = x, x, sl.Low, h, c
						}
					}
				})
			}
		}
	}
	if ch == nil {
		o.Undecide(r.pos(fn.Pos()), "the character under the scan position (line[i]) was not found")
		return
	}
	loopAt := ch.Block()
	if hostCall != nil {
		loopAt = hostCall.Block()
	}
	header := (*ssa.BasicBlock)(nil)
	for _, b := range fn.Blocks {
		for _, sc := range b.Succs {
			if sc.Dominates(b) && naturalLoop(sc)[loopAt] {
				header = sc
			}
		}
	}
	if header == nil {
		o.Undecide(r.pos(fn.Pos()), "line[i] is not read inside a loop")
		return
	}
	isCapture := func(c *feCall) bool {
		callee := staticCallee(c.Call)
		if callee == nil || callee.Blocks == nil || callee.Pkg != fn.Pkg || callee == host {
			return false
		}
		for _, a := range c.Args {
			if sl, ok := a.V.(*ssa.Slice); ok && sl.X == ssa.Value(line) && sl.Low != nil && sl.Low == chIndex {
				return true
			}
		}
		return false
	}
	var miss []string
	for _, c := range []rune{'0', '7', '9', 'a', 'f', 'A', 'F', ':'} {
		w := &feWalker{Fn: fn, Assume: map[ssa.Value]constant.Value{chVal: constant.MakeInt64(int64(c))}, MaxPath: 5000}
		if host != nil {
			w.Inline = func(callee *ssa.Function, depth int) bool { return callee == host && depth <= 1 }
		}
		var pre *ssa.BasicBlock
		for _, pb := range loopAt.Preds {
			pre = pb
		}
		ends := w.RunFrom(loopAt, pre)
		attempted := false
		for _, e := range ends {
			for i := range e.State.calls {
				if isCapture(&e.State.calls[i]) {
					attempted = true
				}
			}
		}
		if !attempted {
			miss = append(miss, fmt.Sprintf("%q", c))
		}
	}
	if len(miss) > 0 {
		o.Fail(r.pos(ch.Pos()), "no address capture is attempted at a position holding %v: addresses beginning with such a character are never found", miss)
		return
	}
	o.OK("capture attempted at digits, hex letters and ':'").At(r.pos(ch.Pos()))
}
