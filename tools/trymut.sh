#!/bin/bash
# usage: trymut.sh "<C01 C05 ...>" <patchfile|-> [sed-expr file]   (development helper)
# Applies a patch (or `SED=<file>:<expr>`) to a scratch copy of /repo and runs the
# given property checks against the copy. Evidence/reports go to a scratch dir.
set -u
props="$1"; patch="${2:--}"
S=/var/tmp/mut.$$; V=/var/tmp/mutverif.$$
rm -rf $S $V; mkdir -p $V
rsync -a --exclude .git /repo/ $S/
cp /verif/known_findings.json /verif/properties.jsonl $V/ 2>/dev/null
if [ -n "${SED:-}" ]; then
  f="${SED%%:*}"; e="${SED#*:}"; sed -i -E "$e" "$S/$f" || exit 3
  (cd $S && diff -u /repo/$f $f | head -20)
elif [ "$patch" != "-" ]; then
  (cd $S && patch -p1 -s < "$patch") || { echo "PATCH FAILED"; rm -rf $S $V; exit 3; }
fi
if [ -n "${BUILD:-}" ]; then (cd $S && GOFLAGS=-mod=mod GOPROXY=off GOSUMDB=off go build ./... ) || echo "BUILD FAILED"; fi
VERIF_REPO=$S VERIF_DIR=$V ${VERIFCHECK:-/verif/bin/verifcheck} $props --tier quick 2>&1 | cut -c1-${CUT:-400} | grep -v "^  DISCHARGED" | head -${HEAD:-30}
rm -rf $S $V
