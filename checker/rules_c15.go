package main

import (
	"go/constant"
	"go/token"
	"go/types"
	"strings"

	"golang.org/x/tools/go/ssa"
)

const cmdPkg = "cmd/docker-logql"

// optFact: is v (a bool) `opts.<field>` of the render options?
func optField(v ssa.Value, opts ssa.Value) (string, bool) {
	f, base, ok := loadOfField(v)
	if !ok {
		return "", false
	}
	if base == opts || spillParam(base) == opts {
		return f, true
	}
	return "", false
}

// underOpt: the block is only reached when opts.<field> is true.
func underOpt(b *ssa.BasicBlock, opts ssa.Value, field string) bool {
	for _, f := range factsAt(b) {
		if n, ok := optField(f.Cond, opts); ok && n == field && f.Truth {
			return true
		}
	}
	return false
}

func ruleRender(r *Run) {
	p := r.P
	fn := p.Func(cmdPkg, "renderResult")
	anchor := r.Ob("ANCHOR", "main.renderResult", "anchor resolves")
	anchor.Trivial = true
	if fn == nil || len(fn.Params) != 3 {
		anchor.Fail("-", "function not found")
		return
	}
	anchor.OK("resolved").At(r.pos(fn.Pos()))
	stdout, opts := fn.Params[0], fn.Params[1]
	loops := rangeIndexLoops(fn)

	// ---- palette index (FE-MODIDX)
	om := r.Ob("FE-MODIDX", "main.renderResult palette index", "the palette lookup names[(number of coloured containers) % m + c] is in range for every number of containers")
	{
		var ia *ssa.IndexAddr
		for _, gf := range funcGroup(fn) {
			allInstrs(gf, func(in ssa.Instruction) {
				if x, ok := in.(*ssa.IndexAddr); ok {
					if u, ok := x.X.(*ssa.UnOp); ok {
						if g, ok := u.X.(*ssa.Global); ok && globalName(g) == "names" {
							ia = x
						}
					}
				}
			})
		}
		if ia == nil {
			om.Fail(r.pos(fn.Pos()), "no lookup in the palette names found")
		} else {
			idx := ia.Index
			var c int64
			if b, ok := idx.(*ssa.BinOp); ok && (b.Op == token.ADD || b.Op == token.SUB) {
				if k, ok := constInt(b.Y); ok {
					if b.Op == token.SUB {
						k = -k
					}
					c, idx = k, b.X
				} else if k, ok := constInt(b.X); ok && b.Op == token.ADD {
					c, idx = k, b.Y
				}
			}
			rem, ok := idx.(*ssa.BinOp)
			if !ok || rem.Op != token.REM {
				om.Undecide(r.pos(ia.Pos()), "index %s is not of the form x %% m + c", describe(ia.Index, 0))
			} else {
				// m = len(names) + d
				var d int64
				m := rem.Y
				if b, ok := m.(*ssa.BinOp); ok && (b.Op == token.ADD || b.Op == token.SUB) {
					if k, ok := constInt(b.Y); ok {
						if b.Op == token.SUB {
							k = -k
						}
						d, m = k, b.X
					}
				}
				lenOK := false
				if lc, ok := m.(*ssa.Call); ok {
					if bi, ok := lc.Call.Value.(*ssa.Builtin); ok && bi.Name() == "len" {
						if u, ok := lc.Call.Args[0].(*ssa.UnOp); ok {
							if g, ok := u.X.(*ssa.Global); ok && globalName(g) == "names" {
								lenOK = true
							}
						}
					}
				}
				// x >= 0: len of a map
				xOK := false
				if lc, ok := rem.X.(*ssa.Call); ok {
					if bi, ok := lc.Call.Value.(*ssa.Builtin); ok && bi.Name() == "len" {
						xOK = true
					}
				}
				// len(names) constant and > -d
				n := int64(len(namesLiteral(p)))
				switch {
				case !lenOK || !xOK:
					om.Undecide(r.pos(ia.Pos()), "modulus %s / dividend %s not recognised", describe(rem.Y, 0), describe(rem.X, 0))
				case n+d < 1:
					om.Fail(r.pos(ia.Pos()), "the modulus len(names)%+d is not positive", d)
				case c < 0 || c+d > 0:
					om.Fail(r.pos(ia.Pos()), "index = x %% (len(names)%+d) %+d ranges over [%d, %d] but names has %d elements: out of range once enough containers are seen", d, c, c, n+d-1+c, n)
				default:
					om.OK("x %% (len(names)%+d) %+d is within [0, len(names))", d, c).At(r.pos(ia.Pos()))
				}
			}
		}
	}
	// ---- palette table: every name has a colour
	oc := r.Ob("PV-WHOLE", "main.colors table", "every palette name has an escape code: the colour table is filled by ranging over all names")
	{
		names := namesLiteral(p)
		// the function whose result initialises the colors global, and which of its
		// slice-typed values denote the whole names table
		var initFn *ssa.Function
		whole := map[ssa.Value]bool{}
		isNames := func(v ssa.Value) bool {
			u, ok := v.(*ssa.UnOp)
			if !ok {
				return false
			}
			g, ok := u.X.(*ssa.Global)
			return ok && globalName(g) == "names"
		}
		if sp := p.SSAPkg(cmdPkg); sp != nil {
			if f := sp.Func("init"); f != nil {
				allInstrs(f, func(in ssa.Instruction) {
					st, ok := in.(*ssa.Store)
					if !ok {
						return
					}
					g, ok := st.Addr.(*ssa.Global)
					if !ok || globalName(g) != "colors" {
						return
					}
					c, ok := st.Val.(*ssa.Call)
					if !ok {
						return
					}
					callee := c.Common().StaticCallee()
					if callee == nil || callee.Blocks == nil {
						return
					}
					initFn = callee
					for i, a := range c.Call.Args {
						if i < len(callee.Params) && isNames(a) {
							whole[callee.Params[i]] = true
						}
					}
				})
			}
		}
		good := false
		if initFn != nil {
			for _, l := range rangeIndexLoops(initFn) {
				if !(isNames(l.X) || whole[l.X]) || len(l.earlyExits()) > 0 {
					continue
				}
				for b := range l.Blocks {
					for _, in := range b.Instrs {
						if mu, ok := in.(*ssa.MapUpdate); ok {
							if lu, ok := mu.Key.(*ssa.UnOp); ok && isIndexOf(lu.X, l) {
								good = true
							}
						}
					}
				}
			}
		}
		if good && len(names) >= 2 {
			oc.OK("colors[name] is set for each of the %d names", len(names))
		} else {
			oc.Fail("-", "the colour table is not filled by a loop over the whole names slice with m[name] = ... (names found: %d)", len(names))
		}
	}

	// ---- collection loops
	ow := r.Ob("PV-WHOLE", "main.renderResult collection", "every entry of every stream is collected exactly once, with its own container label")
	var outer, inner, write *rangeLoop
	for _, l := range loops {
		if f, _, ok := loadOfField(l.X); ok {
			switch f {
			case "Result":
				outer = l
			case "Values":
				inner = l
			}
		}
	}
	var entriesAppend *ssa.Call
	if outer == nil || inner == nil {
		ow.Fail(r.pos(fn.Pos()), "range over data.StreamsResult.Result=%v, range over stream.Values=%v", outer != nil, inner != nil)
	} else {
		bad := false
		if len(outer.earlyExits()) > 0 || len(inner.earlyExits()) > 0 {
			bad = true
			ow.Fail(r.pos(fn.Pos()), "a collection loop can be left early")
		}
		// every stream's values are visited: no way round the inner loop within one outer iteration
		if outer.Blocks[inner.Header] && !mustPassThroughUnless(outer.Body, outer.Header, inner.Header, func(from, to *ssa.BasicBlock) bool {
			// a way round that is taken only when the stream has no values skips nothing
			ef, ok := edgeFact(from, to)
			if !ok {
				return false
			}
			ef = normFact(ef)
			b, ok := ef.Cond.(*ssa.BinOp)
			if !ok {
				return false
			}
			lc, ok := b.X.(*ssa.Call)
			if !ok {
				return false
			}
			if bi, ok := lc.Call.Value.(*ssa.Builtin); !ok || bi.Name() != "len" {
				return false
			}
			if lc.Call.Args[0] != inner.X && describe(lc.Call.Args[0], 0) != describe(inner.X, 0) {
				return false
			}
			k, ok := constInt(b.Y)
			if !ok {
				return false
			}
			switch {
			case b.Op == token.EQL && k == 0 && ef.Truth, b.Op == token.NEQ && k == 0 && !ef.Truth,
				b.Op == token.LSS && k == 1 && ef.Truth, b.Op == token.GTR && k == 0 && !ef.Truth,
				b.Op == token.LEQ && k == 0 && ef.Truth, b.Op == token.GEQ && k == 1 && !ef.Truth:
				return true
			}
			return false
		}) {
			bad = true
			ow.Fail(r.pos(termPos(outer.Body)), "an iteration over the streams can go on to the next stream without visiting this stream's values: its entries are never printed")
		}
		n := 0
		for b := range inner.Blocks {
			for _, in := range b.Instrs {
				if c, ok := in.(*ssa.Call); ok {
					if bi, ok := c.Call.Value.(*ssa.Builtin); ok && bi.Name() == "append" {
						if sl, ok := c.Type().Underlying().(*types.Slice); ok && typeKey(sl.Elem()) == "entry" {
							n++
							entriesAppend = c
							if !mustPassThrough(inner.Body, inner.Header, b) {
								bad = true
								ow.Fail(r.pos(c.Pos()), "some entries are not collected")
							}
						}
					}
				}
			}
		}
		if n != 1 {
			bad = true
			ow.Fail(r.pos(fn.Pos()), "expected one append of an entry per value, found %d", n)
		}
		if !bad {
			ow.OK("range Result { range Values { entries = append(entries, entry{e, container}) } }").At(r.pos(fn.Pos()))
		}
	}

	// ---- sort + write loop
	os := r.Ob("PV-ORDER", "main.renderResult order", "the entries that are written are all collected entries sorted by timestamp ascending, whatever the options")
	var sortCall *ssa.Call
	for _, c := range callsIn(fn) {
		if call, ok := c.(*ssa.Call); ok && isSortCall(call) {
			sortCall = call
		}
	}
	var writeCall *ssa.Call
	for _, c := range callsIn(fn) {
		if call, ok := c.(*ssa.Call); ok && invokeIs(call, "Write") && call.Call.Value == ssa.Value(stdout) {
			writeCall = call
		}
	}
	for _, l := range loops {
		if writeCall != nil && l.Blocks[writeCall.Block()] {
			write = l
		}
	}
	if sortCall == nil || write == nil {
		os.Fail(r.pos(fn.Pos()), "sort call=%v, write loop=%v", sortCall != nil, write != nil)
	} else {
		bad := false
		if !instrDominates(sortCall, write.Len) {
			bad = true
			os.Fail(r.pos(write.Len.Pos()), "the write loop can be reached without the sort (output order would follow stream order)")
		}
		if sortCall.Call.Args[0] != write.X {
			bad = true
			os.Fail(r.pos(sortCall.Pos()), "the sorted slice (%s) is not the slice that is written (%s)", describe(sortCall.Call.Args[0], 0), describe(write.X, 0))
		}
		// the sorted slice is the final value of the collected entries
		if entriesAppend != nil {
			reaches := false
			for _, lv := range phiLeaves(write.X) {
				if lv == ssa.Value(entriesAppend) {
					reaches = true
				}
			}
			if !reaches {
				bad = true
				os.Fail(r.pos(write.Len.Pos()), "the written slice does not derive from the collected entries")
			}
		}
		fld, asc, ok := cmpOrientation(funcOfValue(sortCall.Call.Args[1]))
		if !ok {
			bad = true
			os.Undecide(r.pos(sortCall.Pos()), "comparator is not cmp.Compare(a.f, b.f)")
		} else if fld != "T" || !asc {
			bad = true
			os.Fail(r.pos(sortCall.Pos()), "entries are ordered by %s ascending=%v, expected T ascending", fld, asc)
		}
		if !bad {
			os.OK("SortFunc(entries, cmp.Compare(a.T, b.T)) dominates the loop writing entries").At(r.pos(sortCall.Pos()))
		}
	}

	// ---- one Write per entry
	// the function that builds the written line: renderResult itself, or a helper whose
	// result is what is written (its options / buffer parameters are bound at the call)
	builder := fn
	var builderCall *ssa.Call
	if writeCall != nil {
		if hc, ok := writeCall.Call.Args[0].(*ssa.Call); ok {
			if h := hc.Common().StaticCallee(); h != nil && h.Blocks != nil && h.Pkg == fn.Pkg {
				for i, a := range hc.Call.Args {
					if i < len(h.Params) && (a == ssa.Value(opts) || unspill(a) == ssa.Value(opts)) {
						builder, builderCall = h, hc
					}
				}
			}
		}
	}
	o1 := r.Ob("PV-ONCE", "main.renderResult write", "each entry produces exactly one Write of one line: buffer reset at the top of the iteration, message with trailing CR/LF trimmed, then a single \\n; a write error is returned")
	if write == nil || writeCall == nil {
		o1.Fail(r.pos(fn.Pos()), "no write loop")
	} else {
		bad := false
		nW := 0
		for b := range write.Blocks {
			for _, in := range b.Instrs {
				if c, ok := in.(*ssa.Call); ok && invokeIs(c, "Write") {
					nW++
				}
			}
		}
		if nW != 1 || !mustPassThrough(write.Body, write.Header, writeCall.Block()) {
			bad = true
			o1.Fail(r.pos(writeCall.Pos()), "Write calls in the loop=%d, on every iteration=%v", nW, mustPassThrough(write.Body, write.Header, writeCall.Block()))
		}
		// early exits only on write error
		for _, ex := range write.earlyExits() {
			isErr := false
			if f, ok := edgeFact(ex[0], ex[1]); ok {
				f = normFact(f)
				if x, nn, ok := nilCheck(f.Cond); ok && isErrorType(x.Type()) && nn == f.Truth {
					isErr = true
				}
			}
			if !isErr {
				bad = true
				o1.Fail(r.pos(termPos(ex[0])), "the write loop is left early on a non-error path")
			}
		}
		// written buffer: append(append(X, TrimRight(entry.V, "\r\n")...), "\n"...), built in the
		// loop or by a line-builder helper called once per entry
		bufv := writeCall.Call.Args[0]
		outs := []ssa.Value{bufv}
		if builder != fn {
			outs = nil
			for _, ret := range returnsOf(builder) {
				if len(ret.Results) == 1 {
					outs = append(outs, phiLeaves(ret.Results[0])...)
				}
			}
		}
		shape := len(outs) > 0
		for _, out := range outs {
			one := false
			if a2, ok := out.(*ssa.Call); ok && isAppend(a2) {
				nl, okNL := constStr(a2.Call.Args[1])
				if !okNL {
					// append(buf, '\n'): a one-element byte slice holding 10
					if sl, ok := a2.Call.Args[1].(*ssa.Slice); ok {
						if arr, ok := sl.X.(*ssa.Alloc); ok {
							cnt := 0
							for _, ref := range *arr.Referrers() {
								if ia, ok := ref.(*ssa.IndexAddr); ok {
									for _, st := range storesTo(ia) {
										cnt++
										if c, ok := constInt(st.Val); ok && c == 10 && cnt == 1 {
											nl, okNL = "\n", true
										} else {
											okNL = false
										}
									}
								}
							}
						}
					}
				}
				if okNL && nl == "\n" {
					if a1, ok := sameBlockValue(a2.Call.Args[0]).(*ssa.Call); ok && isAppend(a1) {
						if tr, ok := a1.Call.Args[1].(*ssa.Call); ok && callIs(tr, "strings", "TrimRight") {
							cut, okc := constStr(tr.Call.Args[1])
							f, _, okf := loadOfField(tr.Call.Args[0])
							if okc && strings.Contains(cut, "\r") && strings.Contains(cut, "\n") && len(cut) == 2 && okf && f == "V" {
								one = true
							}
						}
					}
				}
			}
			if !one {
				shape = false
			}
		}
		if !shape {
			bad = true
			o1.Fail(r.pos(writeCall.Pos()), "the written bytes are %s, expected ...message with strings.TrimRight(entry.V, \"\\r\\n\") followed by one \"\\n\"", describe(bufv, 2))
		}
		// reset: the per-iteration buffer starts from buf[:0]
		resetOK := false
		for _, in := range write.Body.Instrs {
			if sl, ok := in.(*ssa.Slice); ok && sl.High != nil {
				if z, ok := constInt(sl.High); ok && z == 0 {
					if builder == fn || (builderCall != nil && argIndex(builderCall, sl) >= 0) {
						resetOK = true
					}
				}
			}
		}
		if !resetOK {
			bad = true
			o1.Fail(r.pos(write.Len.Pos()), "the line buffer is not reset (buf[:0]) at the top of each iteration")
		}
		// the write error is returned
		errRet := false
		for _, ret := range returnsOf(fn) {
			if c, idx, ok := extractOf(ret.Results[0]); ok && c == writeCall && idx == 1 {
				errRet = true
			}
		}
		if !errRet {
			bad = true
			o1.Fail(r.pos(writeCall.Pos()), "a failing Write is not reported")
		}
		if !bad {
			o1.OK("buf[:0]; ...; TrimRight(V, \"\\r\\n\"); \"\\n\"; one Write; error returned").At(r.pos(writeCall.Pos()))
		}
	}

	// ---- option guards: colour bytes only with colour on; container/timestamp parts under their options
	og := r.Ob("GUARD", "main.renderResult options", "escape sequences are appended only when colour is on; the container name only with the container option; the timestamp only with the timestamp option, formatted as RFC3339Nano from time.Unix(0, T)")
	ruleRenderGuards(r, og, fn, opts)

	// ---- colour assignment first-wins
	of := r.Ob("PV-FIRST", "main.renderResult colour assignment", "a container gets its colour when it is first seen and keeps it; the colour is the palette entry selected by the number of containers seen so far")
	{
		var mu *ssa.MapUpdate
		for _, gf := range funcGroup(fn) {
			allInstrs(gf, func(in ssa.Instruction) {
				if m, ok := in.(*ssa.MapUpdate); ok {
					if mt, ok := m.Map.Type().Underlying().(*types.Map); ok && isStringType(mt.Elem()) && isStringType(mt.Key()) {
						mu = m
					}
				}
			})
		}
		if mu == nil {
			of.Fail(r.pos(fn.Pos()), "no colour assignment found")
		} else {
			var lk *ssa.Lookup
			allInstrs(mu.Parent(), func(in ssa.Instruction) {
				if l, ok := in.(*ssa.Lookup); ok && l.CommaOk && (l.Index == mu.Key || describe(l.Index, 2) == describe(mu.Key, 2)) && (l.X == mu.Map || describe(l.X, 2) == describe(mu.Map, 2)) {
					lk = l
				}
			})
			bad := false
			if lk == nil {
				bad = true
				of.Fail(r.pos(mu.Pos()), "the assignment is not preceded by a presence test of the same container")
			} else {
				var okv ssa.Value
				for _, ref := range *lk.Referrers() {
					if e, ok := ref.(*ssa.Extract); ok && e.Index == 1 {
						okv = e
					}
				}
				if b, known := knownBoolAt(mu.Block(), okv); !known || b {
					bad = true
					of.Fail(r.pos(mu.Pos()), "a container's colour is reassigned after it was first chosen")
				}
			}
			// value: colors[names[...]]
			vl, ok := mu.Value.(*ssa.Lookup)
			good := ok
			if good {
				u, ok := vl.X.(*ssa.UnOp)
				g, ok2 := func() (*ssa.Global, bool) {
					if !ok {
						return nil, false
					}
					g, ok := u.X.(*ssa.Global)
					return g, ok
				}()
				good = ok2 && globalName(g) == "colors"
			}
			if !good {
				bad = true
				of.Fail(r.pos(mu.Pos()), "the assigned colour is %s, not colors[names[..]]", describe(mu.Value, 0))
			}
			if !bad {
				of.OK("containerColors[c] = colors[names[..]] on the miss edge only").At(r.pos(mu.Pos()))
			}
		}
	}

	// ---- other result kinds are errors
	oe := r.Ob("ERR-PROP", "main.renderResult result kind", "a result that is not a stream result is reported as an error, not rendered as nothing")
	{
		T := p.NamedType("internal/lokiapi", "QueryResponseDataType")
		if T == nil {
			oe.Undecide("-", "result type enum not found")
		} else {
			consts := enumConstants(T)
			tag := pickTag(fn, T, consts["StreamsResultQueryResponseData"])
			if tag == nil {
				oe.Fail(r.pos(fn.Pos()), "no dispatch on the result kind")
			} else {
				bad := false
				for _, cr := range casesOf(fn, tag, consts, nil, nil) {
					if cr.Const == "StreamsResultQueryResponseData" {
						continue
					}
					for _, e := range cr.Ends {
						if isErr, known := endReturnsError(e); !(known && isErr) && !e.Cut {
							bad = true
							oe.Fail(r.pos(e.Term.Pos()), "result kind %s does not end in an error", cr.Const)
						}
					}
				}
				if !bad {
					oe.OK("every kind but streams -> error").At(r.pos(fn.Pos()))
				}
			}
		}
	}
	_ = constant.MakeBool
}

// namesLiteral returns the string constants of the package-level `names` slice literal.
func namesLiteral(p *Program) []string {
	pkg := p.Pkg(cmdPkg)
	if pkg == nil {
		return nil
	}
	var out []string
	for _, f := range pkg.Syntax {
		for _, d := range f.Decls {
			out = append(out, namesFromDecl(pkg.TypesInfo, d)...)
		}
	}
	return out
}

func isAppend(c *ssa.Call) bool {
	bi, ok := c.Call.Value.(*ssa.Builtin)
	return ok && bi.Name() == "append" && len(c.Call.Args) == 2
}

func argIndex(c *ssa.Call, v ssa.Value) int {
	for i, a := range c.Call.Args {
		if a == v {
			return i
		}
	}
	return -1
}

// ruleRenderGuards decides the option guards of rendering by dataflow over renderResult and
// everything it calls in its package (helpers, methods, closures): a value is colour-derived when it
// comes from the colour tables (colors, resetColor), from a map that colour values are stored into, from
// a function that returns such a value, or through a parameter that is given one. Every append of a
// colour-derived value to a byte buffer must happen where the colour option is known to be on - in the
// function itself, or because the closure / helper that does it only exists or is only called there.
func ruleRenderGuards(r *Run, og *Obligation, fn *ssa.Function, opts ssa.Value) {
	grp := funcGroup(fn)
	inGrp := map[*ssa.Function]bool{}
	for _, f := range grp {
		inGrp[f] = true
	}
	isOpt := func(v ssa.Value, name string) bool {
		f, base, ok := loadOfField(v)
		if !ok || f != name {
			return false
		}
		if fv, ok := base.(*ssa.FreeVar); ok {
			if b := freeVarBinding(fv); b != nil {
				base = b
			}
		}
		return base == opts || spillParam(base) == opts || originValueIn(base, grp) == opts || originValueIn(spillParam(base), grp) == opts
	}
	localUnder := func(b *ssa.BasicBlock, name string) bool {
		for _, f := range factsAt(b) {
			if isOpt(f.Cond, name) && f.Truth {
				return true
			}
		}
		return false
	}
	// under: the block runs only with the option on (locally, or because its function does)
	var under func(b *ssa.BasicBlock, name string, depth int) bool
	under = func(b *ssa.BasicBlock, name string, depth int) bool {
		if localUnder(b, name) {
			return true
		}
		if depth > 3 {
			return false
		}
		f := b.Parent()
		if f == fn {
			return false
		}
		// every place the function is created (closure) or called (named helper) is under the option
		n, all := 0, true
		for _, g := range grp {
			allInstrs(g, func(in ssa.Instruction) {
				switch x := in.(type) {
				case *ssa.MakeClosure:
					if x.Fn == ssa.Value(f) {
						n++
						if !under(x.Block(), name, depth+1) {
							all = false
						}
					}
				case ssa.CallInstruction:
					if f.Parent() == nil && staticCallee(x) == f {
						n++
						if !under(x.Block(), name, depth+1) {
							all = false
						}
					}
				}
			})
		}
		return n > 0 && all
	}
	// ---- colour-derived values
	taint := map[ssa.Value]bool{}
	taintMap := map[string]bool{}
	retTaint := map[*ssa.Function]bool{}
	mapKey := func(v ssa.Value) string {
		v = stripTypeOnly(v)
		if u, ok := v.(*ssa.UnOp); ok && u.Op == token.MUL {
			if f, base, ok := fieldNameOf(u.X); ok {
				return "F:" + typeKey(base.Type()) + "." + f
			}
			if al, ok := u.X.(*ssa.Alloc); ok {
				return "A:" + al.Name() + "@" + al.Parent().Name()
			}
			if fv, ok := u.X.(*ssa.FreeVar); ok {
				if b := freeVarBinding(fv); b != nil {
					if al, ok := b.(*ssa.Alloc); ok {
						return "A:" + al.Name() + "@" + al.Parent().Name()
					}
				}
			}
		}
		for _, lv := range phiLeaves(v) {
			if mm, ok := lv.(*ssa.MakeMap); ok {
				return "M:" + mm.Name() + "@" + mm.Parent().Name()
			}
		}
		return ""
	}
	isColourGlobal := func(v ssa.Value) bool {
		u, ok := v.(*ssa.UnOp)
		if !ok || u.Op != token.MUL {
			return false
		}
		g, ok := u.X.(*ssa.Global)
		return ok && (globalName(g) == "colors" || globalName(g) == "resetColor")
	}
	for changed, iter := true, 0; changed && iter < 12; iter++ {
		changed = false
		mark := func(v ssa.Value) {
			if v != nil && !taint[v] {
				taint[v] = true
				changed = true
			}
		}
		for _, g := range grp {
			allInstrs(g, func(in ssa.Instruction) {
				switch x := in.(type) {
				case *ssa.UnOp:
					if isColourGlobal(x) {
						mark(x)
					}
					if x.Op == token.MUL {
						if al, ok := x.X.(*ssa.Alloc); ok {
							for _, st := range storesTo(al) {
								if taint[st.Val] {
									mark(x)
								}
							}
						}
						if fv, ok := x.X.(*ssa.FreeVar); ok {
							if b := freeVarBinding(fv); b != nil {
								if al, ok := b.(*ssa.Alloc); ok {
									for _, st := range storesTo(al) {
										if taint[st.Val] {
											mark(x)
										}
									}
								}
							}
						}
					}
				case *ssa.Lookup:
					if taint[x.X] || isColourGlobal(x.X) {
						mark(x)
					}
					if k := mapKey(x.X); k != "" && taintMap[k] {
						mark(x)
					}
				case *ssa.Extract:
					if taint[x.Tuple] && x.Index == 0 {
						mark(x)
					}
				case *ssa.Phi:
					for _, e := range x.Edges {
						if taint[e] {
							mark(x)
						}
					}
				case *ssa.Convert:
					if taint[x.X] {
						mark(x)
					}
				case *ssa.ChangeType:
					if taint[x.X] {
						mark(x)
					}
				case *ssa.Slice:
					if taint[x.X] {
						mark(x)
					}
				case *ssa.MapUpdate:
					if taint[x.Value] {
						if k := mapKey(x.Map); k != "" && !taintMap[k] {
							taintMap[k] = true
							changed = true
						}
					}
				case *ssa.Return:
					for _, res := range x.Results {
						if taint[res] && isStringType(res.Type()) && !retTaint[g] {
							retTaint[g] = true
							changed = true
						}
					}
				case *ssa.Call:
					callee := staticCallee(x)
					if callee != nil && inGrp[callee] {
						if retTaint[callee] {
							mark(x)
						}
						for k, a := range x.Call.Args {
							if taint[a] && k < len(callee.Params) {
								mark(callee.Params[k])
							}
						}
					}
				}
			})
		}
	}
	bad := false
	nColour, nContainer, nTime := 0, 0, 0
	for _, g := range grp {
		for _, c := range callsIn(g) {
			call, ok := c.(*ssa.Call)
			if !ok {
				continue
			}
			if isAppend(call) {
				if bt, ok := call.Type().Underlying().(*types.Slice); !ok || typeString(bt.Elem()) != "byte" && typeString(bt.Elem()) != "uint8" {
					continue
				}
				arg := call.Call.Args[1]
				if taint[arg] {
					nColour++
					if !under(call.Block(), "color", 0) {
						bad = true
						og.Fail(r.pos(call.Pos()), "colour bytes (%s) are appended on a path where the colour option is not known to be on", describe(arg, 1))
					}
				}
				if f, _, ok := loadOfField(arg); ok && f == "container" {
					nContainer++
					if !under(call.Block(), "container", 0) {
						bad = true
						og.Fail(r.pos(call.Pos()), "the container name is written with the container option off")
					}
				}
			}
			if callIs(call, "time", "(Time).AppendFormat") {
				nTime++
				if !under(call.Block(), "timestamp", 0) {
					bad = true
					og.Fail(r.pos(call.Pos()), "the timestamp is written with the timestamp option off")
				}
				if layout, ok := constStr(call.Call.Args[2]); !ok || layout != "2006-01-02T15:04:05.999999999Z07:00" {
					bad = true
					og.Fail(r.pos(call.Pos()), "the timestamp layout is %s, not RFC3339Nano", describe(call.Call.Args[2], 0))
				}
				tv := originValueIn(call.Call.Args[0], grp)
				tc, ok := tv.(*ssa.Call)
				good := ok && callIs(tc, "time", "Unix")
				if good {
					z, okz := constInt(tc.Call.Args[0])
					f, _, okf := loadOfField(stripConv(tc.Call.Args[1]))
					good = okz && z == 0 && okf && f == "T"
				}
				if !good {
					bad = true
					og.Fail(r.pos(call.Pos()), "the formatted time is %s, not time.Unix(0, int64(entry.T))", describe(call.Call.Args[0], 0))
				}
			}
		}
	}
	if nColour < 2 || nContainer < 1 || nTime < 1 {
		bad = true
		og.Fail(r.pos(fn.Pos()), "expected colour appends (found %d), a container-name append (found %d) and a timestamp append (found %d) in the rendering code", nColour, nContainer, nTime)
	}
	if !bad {
		og.OK("%d colour append(s) under the colour option; container under opts.container; RFC3339Nano of time.Unix(0, T) under opts.timestamp", nColour).At(r.pos(fn.Pos()))
	}
}

// sameBlockValue resolves a load of a local cell to the value stored into that cell earlier in the
// same block, when no call lies between the store and the load (a captured variable that is
// assigned and immediately read back).
func sameBlockValue(v ssa.Value) ssa.Value {
	u, ok := v.(*ssa.UnOp)
	if !ok || u.Op != token.MUL {
		return v
	}
	al, ok := u.X.(*ssa.Alloc)
	if !ok {
		return v
	}
	instrs := u.Block().Instrs
	idx := -1
	for i, in := range instrs {
		if in == ssa.Instruction(u) {
			idx = i
		}
	}
	for i := idx - 1; i >= 0; i-- {
		switch x := instrs[i].(type) {
		case *ssa.Store:
			if x.Addr == ssa.Value(al) {
				return x.Val
			}
		case ssa.CallInstruction:
			if _, isBuiltin := x.Common().Value.(*ssa.Builtin); !isBuiltin {
				return v
			}
		}
	}
	return v
}
