package main

import (
	"fmt"
	"go/constant"
	"go/token"
	"sort"
	"strconv"
	"strings"

	"golang.org/x/tools/go/ssa"
)

// ---------------------------------------------------------------------------
// AF – affine time expressions: base + Σ coeff·duration-atom

type affine struct {
	Base  string // name of the time atom ("" for pure durations)
	Coeff map[string]int
	OK    bool
}

func (a affine) String() string {
	if !a.OK {
		return "?"
	}
	var ks []string
	for k, c := range a.Coeff {
		if c != 0 {
			ks = append(ks, k)
		}
	}
	sort.Strings(ks)
	s := a.Base
	for _, k := range ks {
		c := a.Coeff[k]
		switch {
		case c == 1:
			s += "+" + k
		case c == -1:
			s += "-" + k
		default:
			s += fmt.Sprintf("%+d*%s", c, k)
		}
	}
	if s == "" {
		s = "0"
	}
	if a.Base == "" {
		s = strings.TrimPrefix(s, "+")
	}
	return s
}

// afEval evaluates a time.Time / time.Duration SSA value symbolically. atom
// names values the rule wants to treat as opaque atoms.
func afEval(v ssa.Value, atom func(ssa.Value) (string, bool), depth int) affine {
	return afEvalEnv(v, atom, depth, nil)
}

// afEvalEnv: env gives the value of the parameters of a first-party helper that is being looked
// through (the affine value of the corresponding argument at its call site).
func afEvalEnv(v ssa.Value, atom func(ssa.Value) (string, bool), depth int, env map[*ssa.Parameter]affine) affine {
	bad := affine{}
	if prm, ok := v.(*ssa.Parameter); ok && env != nil {
		if a, ok := env[prm]; ok {
			return a
		}
	}
	if depth > 16 || v == nil {
		return bad
	}
	if n, ok := atom(v); ok {
		if strings.HasPrefix(n, "T:") {
			return affine{Base: n[2:], Coeff: map[string]int{}, OK: true}
		}
		return affine{Coeff: map[string]int{n: 1}, OK: true}
	}
	switch x := v.(type) {
	case *ssa.Const:
		if x.Value != nil && constant.Sign(x.Value) == 0 {
			return affine{Coeff: map[string]int{}, OK: true}
		}
		return bad
	case *ssa.UnOp:
		if x.Op == token.SUB {
			a := afEvalEnv(x.X, atom, depth+1, env)
			if !a.OK || a.Base != "" {
				return bad
			}
			out := affine{Coeff: map[string]int{}, OK: true}
			for k, c := range a.Coeff {
				out.Coeff[k] = -c
			}
			return out
		}
		if x.Op == token.MUL {
			// load of a local with a single store
			if al, ok := x.X.(*ssa.Alloc); ok {
				if st := storesTo(al); len(st) == 1 {
					return afEvalEnv(st[0].Val, atom, depth+1, env)
				}
			}
		}
		return bad
	case *ssa.Phi:
		// "offset is zero when absent": phi(0, d) evaluates to d
		var res *affine
		for _, e := range x.Edges {
			a := afEvalEnv(e, atom, depth+1, env)
			if !a.OK {
				return bad
			}
			if len(a.Coeff) == 0 && a.Base == "" {
				continue
			}
			if res != nil && res.String() != a.String() {
				return bad
			}
			aa := a
			res = &aa
		}
		if res == nil {
			return affine{Coeff: map[string]int{}, OK: true}
		}
		return *res
	case *ssa.Call:
		if callIs(x, "time", "(Time).Add") {
			t := afEvalEnv(x.Call.Args[0], atom, depth+1, env)
			d := afEvalEnv(x.Call.Args[1], atom, depth+1, env)
			if !t.OK || !d.OK || d.Base != "" {
				return bad
			}
			out := affine{Base: t.Base, Coeff: map[string]int{}, OK: true}
			for k, c := range t.Coeff {
				out.Coeff[k] += c
			}
			for k, c := range d.Coeff {
				out.Coeff[k] += c
			}
			return out
		}
		// conversions between the two time representations are the identity on the time line
		if callee := staticCallee(x); callee != nil && len(x.Call.Args) == 1 {
			switch cname(callee) {
			case "AsTime", "NewTimestampFromTime":
				if callee.Pkg != nil && (strings.HasSuffix(callee.Pkg.Pkg.Path(), "/otelstorage") || strings.HasSuffix(callee.Pkg.Pkg.Path(), "/pcommon")) {
					return afEvalEnv(x.Call.Args[0], atom, depth+1, env)
				}
			}
		}
		// a small first-party helper with one result: the value all its returns agree on
		// (a zero result on some path is "absent", as for a phi)
		if callee := staticCallee(x); callee != nil && callee.Blocks != nil && len(callee.Blocks) <= 12 && depth < 8 &&
			callee.Pkg != nil && strings.HasPrefix(callee.Pkg.Pkg.Path(), modPath) && callee.Signature.Results().Len() == 1 {
			sub := map[*ssa.Parameter]affine{}
			for i, prm := range callee.Params {
				if i < len(x.Call.Args) {
					if a := afEvalEnv(x.Call.Args[i], atom, depth+1, env); a.OK {
						sub[prm] = a
					}
				}
			}
			var res *affine
			for _, ret := range returnsOf(callee) {
				a := afEvalEnv(ret.Results[0], atom, depth+1, sub)
				if !a.OK {
					return bad
				}
				if len(a.Coeff) == 0 && a.Base == "" {
					continue
				}
				if res != nil && res.String() != a.String() {
					return bad
				}
				aa := a
				res = &aa
			}
			if res == nil {
				return affine{Coeff: map[string]int{}, OK: true}
			}
			return *res
		}
		return bad
	case *ssa.ChangeType:
		return afEvalEnv(x.X, atom, depth+1, env)
	case *ssa.Convert:
		return afEvalEnv(x.X, atom, depth+1, env)
	}
	return bad
}

// fieldPathAtom recognises loads like params.Start, qrange.Range, o.Duration, i.offset by field name.
func fieldAtoms(m map[string]string) func(ssa.Value) (string, bool) {
	return func(v ssa.Value) (string, bool) {
		if f, _, ok := loadOfField(v); ok {
			if n, ok := m[f]; ok {
				return n, true
			}
		}
		if prm, ok := v.(*ssa.Parameter); ok && prm.Parent() != nil {
			// positional: "param#<index>" (independent of the parameter's name)
			for i, q := range prm.Parent().Params {
				if q == prm {
					if n, ok := m["param#"+strconv.Itoa(i)]; ok {
						return n, true
					}
				}
			}
		}
		return "", false
	}
}

// ---------------------------------------------------------------------------

// timeOrderHook decides time.Time.After/Before/Equal calls between mapped values.
func timeOrderHook(vals map[ssa.Value]int64) feHook {
	return func(w *feWalker, st *feState, v ssa.Value) (constant.Value, bool) {
		get := func(v ssa.Value) (int64, bool) {
			if n, ok := vals[v]; ok {
				return n, true
			}
			u := unspill(v)
			if n, ok := vals[u]; ok {
				return n, true
			}
			// resolve parameters of inlined helpers and loads of local cells
			rv := w.evalVal(st, v).V
			if rv != nil {
				if n, ok := vals[rv]; ok {
					return n, true
				}
				if n, ok := vals[unspill(rv)]; ok {
					return n, true
				}
			}
			return 0, false
		}
		c, ok := v.(*ssa.Call)
		if !ok {
			return nil, false
		}
		for _, m := range []string{"After", "Before", "Equal"} {
			if callIs(c, "time", "(Time)."+m) {
				a, oka := get(c.Call.Args[0])
				b, okb := get(c.Call.Args[1])
				if !oka || !okb {
					return nil, false
				}
				switch m {
				case "After":
					return constant.MakeBool(a > b), true
				case "Before":
					return constant.MakeBool(a < b), true
				default:
					return constant.MakeBool(a == b), true
				}
			}
		}
		return nil, false
	}
}

// deleteFuncRetention decides the retention table when the per-point loop is the standard
// library's slices.DeleteFunc: every element is examined by contract, and a point is retained
// iff the predicate returns false. Reports whether that form was found (and decided).
func deleteFuncRetention(r *Run, oc *Obligation, cw *ssa.Function, admittedAtStart bool) bool {
	grp := funcGroup(cw)
	var del *ssa.Call
	var pred *ssa.Function
	for _, g := range grp {
		for _, c := range callsIn(g) {
			call, ok := c.(*ssa.Call)
			if !ok {
				continue
			}
			callee := staticCallee(call)
			if callee == nil || len(call.Call.Args) != 2 {
				continue
			}
			o := callee
			if o.Origin() != nil {
				o = o.Origin()
			}
			if o.Pkg == nil || o.Pkg.Pkg.Path() != "slices" || o.Name() != "DeleteFunc" {
				continue
			}
			switch f := stripTypeOnly(call.Call.Args[1]).(type) {
			case *ssa.MakeClosure:
				pred, _ = f.Fn.(*ssa.Function)
			case *ssa.Function:
				pred = f
			}
			del = call
		}
	}
	if del == nil || pred == nil || pred.Blocks == nil {
		return false
	}
	var tVal *ssa.Call
	for _, c := range callsIn(pred) {
		call, ok := c.(*ssa.Call)
		if !ok {
			continue
		}
		if callee := staticCallee(call); callee != nil && cname(callee) == "AsTime" {
			if fl, base, ok := loadOfField(call.Call.Args[0]); ok && fl == "Timestamp" && (originValue(base) == ssa.Value(pred.Params[0]) || originCell(base, 0) == ssa.Value(pred.Params[0])) {
				tVal = call
			}
		}
	}
	if tVal == nil {
		oc.Fail(r.pos(pred.Pos()), "the filter predicate does not examine the point's timestamp")
		return true
	}
	var wsRaw ssa.Value
	for _, c := range callsIn(pred) {
		call, ok := c.(*ssa.Call)
		if !ok {
			continue
		}
		for _, m := range []string{"After", "Before", "Equal"} {
			if callIs(call, "time", "(Time)."+m) {
				if unspill(call.Call.Args[0]) == ssa.Value(tVal) {
					wsRaw = call.Call.Args[1]
				} else if unspill(call.Call.Args[1]) == ssa.Value(tVal) {
					wsRaw = call.Call.Args[0]
				}
			}
		}
	}
	if wsRaw == nil || originValueIn(wsRaw, grp) != ssa.Value(cw.Params[1]) {
		oc.Fail(r.pos(tVal.Pos()), "the points' timestamps are not compared with clearWindow's windowStart")
		return true
	}
	// the filtered slice is a series' points and the result is what the series keeps
	if fl, _, ok := loadOfField(del.Call.Args[0]); !ok || fl != "Data" {
		oc.Fail(r.pos(del.Pos()), "the filter runs over %s, not over a series' points", describe(del.Call.Args[0], 0))
		return true
	}
	kept := false
	for _, ref := range *del.Referrers() {
		if st, ok := ref.(*ssa.Store); ok && st.Val == ssa.Value(del) {
			if fl, _, ok := fieldNameOf(st.Addr); ok && fl == "Data" {
				kept = true
			}
		}
	}
	if !kept {
		oc.Fail(r.pos(del.Pos()), "the filtered points are not stored back into the series")
		return true
	}
	bad := false
	retainedAtStart := false
	for _, c := range []struct {
		t    int64
		want bool
		desc string
	}{{5, false, "t < windowStart"}, {10, true, "t == windowStart"}, {15, true, "t > windowStart"}} {
		hook := timeOrderHook(map[ssa.Value]int64{tVal: c.t, wsRaw: 10, unspill(wsRaw): 10})
		w := &feWalker{Fn: pred, Hook: hook}
		got := map[bool]bool{}
		undecided := false
		for _, e := range w.Run() {
			if len(e.Results) != 1 || !e.Results[0].Known {
				undecided = true
				continue
			}
			got[!constant.BoolVal(e.Results[0].C)] = true
		}
		if undecided || len(got) != 1 {
			bad = true
			oc.Undecide(r.pos(pred.Pos()), "%s: the predicate's result is not determined by the ordering", c.desc)
			continue
		}
		retained := got[true]
		if c.t == 10 {
			retainedAtStart = retained
		}
		if retained != c.want {
			bad = true
			oc.Fail(r.pos(pred.Pos()), "%s: point retained=%v, expected %v", c.desc, retained, c.want)
		}
	}
	if !bad && retainedAtStart != admittedAtStart {
		bad = true
		oc.Fail(r.pos(cw.Pos()), "sibling disagreement at the lower window edge: fillWindow admits=%v, clearWindow retains=%v – whether the sample counts at T would depend on earlier steps", admittedAtStart, retainedAtStart)
	}
	hasDelete := false
	allInstrs(cw, func(in ssa.Instruction) {
		if c, ok := in.(*ssa.Call); ok {
			if bi, ok := c.Call.Value.(*ssa.Builtin); ok && bi.Name() == "delete" {
				hasDelete = true
			}
		}
	})
	if !hasDelete {
		bad = true
		oc.Fail(r.pos(cw.Pos()), "series whose window became empty are not deleted: they would be reported with no samples")
	}
	if !bad {
		oc.OK("slices.DeleteFunc(points, t < windowStart): retain iff t >= windowStart, agrees with fillWindow at the edge; empty series deleted").At(r.pos(cw.Pos()))
	}
	return true
}

func ruleRangeWindow(r *Run) {
	p := r.P
	mp := modPath + "/" + metricPkg
	fw := p.Method(metricPkg, "rangeAggIterator", "fillWindow")
	cw := p.Method(metricPkg, "rangeAggIterator", "clearWindow")
	nx := p.Method(metricPkg, "rangeAggIterator", "Next")
	anchor := r.Ob("ANCHOR", "logqlmetric.rangeAggIterator", "anchor methods resolve")
	anchor.Trivial = true
	evictInline := false
	if cw == nil && fw != nil {
		// eviction inlined into the admission routine: the loop over the window map is the eviction
		hasRange := false
		allInstrs(fw, func(in ssa.Instruction) {
			if rg, ok := in.(*ssa.Range); ok {
				if f, _, ok := loadOfField(rg.X); ok && f == "window" {
					hasRange = true
				}
			}
		})
		if hasRange {
			cw, evictInline = fw, true
		}
	}
	if fw == nil || cw == nil || nx == nil {
		anchor.Fail("-", "fillWindow/clearWindow/Next not found")
		return
	}
	anchor.OK("resolved").At(r.pos(fw.Pos()))

	// ---- fillWindow admission table
	of := r.Ob("FE-ORD", "logqlmetric.(*rangeAggIterator).fillWindow", "a sample is admitted iff windowStart <= ts <= windowEnd, kept for the next step iff ts > windowEnd, and skipped iff ts < windowStart")
	var tsVal ssa.Value
	for _, c := range callsIn(fw) {
		call, ok := c.(*ssa.Call)
		if !ok {
			continue
		}
		if callee := staticCallee(call); callee != nil && cname(callee) == "AsTime" {
			if f, _, ok := loadOfField(call.Call.Args[0]); ok && f == "Timestamp" {
				tsVal = call
			}
		}
	}
	admittedAtStart := false
	if tsVal == nil {
		of.Undecide(r.pos(fw.Pos()), "sample timestamp (e.Timestamp.AsTime()) not found")
	} else {
		ws, we := fw.Params[1], fw.Params[2]
		bad := false
		for _, c := range []struct {
			ts   int64
			want string
			desc string
		}{{5, "skip", "ts < windowStart"}, {10, "admit", "ts == windowStart"}, {15, "admit", "windowStart < ts < windowEnd"}, {20, "admit", "ts == windowEnd"}, {25, "buffer", "ts > windowEnd"}} {
			hook := timeOrderHook(map[ssa.Value]int64{tsVal: c.ts, ws: 10, we: 20})
			w := &feWalker{Fn: fw, Hook: hook, MaxPath: 4000, Inline: inlineHelpers(fw)}
			got := map[string]bool{}
			for _, e := range w.Run() {
				reached := false
				for _, cc := range e.State.calls {
					if cc.Call == ssa.CallInstruction(tsVal.(*ssa.Call)) {
						reached = true
					}
				}
				if !reached {
					continue
				}
				admit, buffer := false, false
				for _, b := range e.State.trail {
					for _, in := range b.Instrs {
						if _, ok := in.(*ssa.MapUpdate); ok {
							admit = true
						}
					}
				}
				for _, s := range e.State.stores {
					if n, _, ok := fieldNameOf(s.Store.Addr); ok && n == "buffered" && isConstBool(s.Store.Val, true) {
						buffer = true
					}
				}
				switch {
				case admit:
					got["admit"] = true
				case buffer:
					got["buffer"] = true
				default:
					got["skip"] = true
				}
			}
			g := joinSet(got)
			if c.ts == 10 && got["admit"] && len(got) == 1 {
				admittedAtStart = true
			}
			if g != c.want {
				bad = true
				of.Fail(r.pos(fw.Pos()), "%s: the sample is %q, expected %q", c.desc, g, c.want)
			}
		}
		if !bad {
			of.OK("5 orderings of ts against [windowStart, windowEnd] agree").At(r.pos(fw.Pos()))
		}
	}
	// the buffered sample is re-examined before a new read; clearWindow first
	ob := r.Ob("PV-ORDER", "logqlmetric.(*rangeAggIterator).fillWindow look-ahead", "eviction runs before admission, and a sample held back for a later window is re-examined before anything new is read")
	{
		bad := false
		var clearCall, nextCall, fillCall ssa.CallInstruction
		// eviction may be triggered by the admission routine or by its caller (Next)
		root := nx
		fwGrp := funcGroup(nx)
		inFw := map[*ssa.Function]bool{}
		for _, g := range funcGroup(fw) {
			inFw[g] = true
		}
		var evictAt ssa.Instruction
		if evictInline {
			allInstrs(fw, func(in ssa.Instruction) {
				if rg, ok := in.(*ssa.Range); ok {
					if f, _, ok := loadOfField(rg.X); ok && f == "window" {
						evictAt = rg
					}
				}
			})
		}
		for _, gf := range fwGrp {
			if gf == cw && !evictInline {
				continue
			}
			for _, c := range callsIn(gf) {
				if callIs(c, mp, "(*rangeAggIterator).clearWindow") {
					clearCall = c
				}
				if staticCallee(c) == fw {
					fillCall = c
				}
				if call, ok := c.(*ssa.Call); ok && invokeIs(call, "Next") && inFw[gf] {
					nextCall = call
				}
			}
		}
		if evictInline && evictAt != nil && nextCall != nil && fillCall != nil {
			if !runsBefore(evictAt, nextCall, root, fwGrp) {
				bad = true
				ob.Fail(r.pos(nextCall.Pos()), "samples are read before the window was cleared")
			}
		}
		if evictInline && evictAt != nil {
			// fall through to the checks on the read below with the eviction standing for the call
		}
		if (clearCall == nil && !(evictInline && evictAt != nil)) || nextCall == nil || fillCall == nil {
			bad = true
			ob.Fail(r.pos(fw.Pos()), "clearWindow call=%v iterator Next call=%v fillWindow call=%v", clearCall != nil, nextCall != nil, fillCall != nil)
		} else {
			if clearCall != nil && !runsBefore(clearCall, nextCall, root, fwGrp) {
				bad = true
				ob.Fail(r.pos(nextCall.Pos()), "samples are read before the window was cleared")
			}
			if clearCall != nil && originValueIn(clearCall.Common().Args[1], fwGrp) != originValueIn(fillCall.Common().Args[1], fwGrp) {
				bad = true
				ob.Fail(r.pos(clearCall.Pos()), "clearWindow is given %s, not windowStart", describe(clearCall.Common().Args[1], 0))
			}
			// Next only under buffered == false
			okGuard := false
			for _, f := range factsAt(nextCall.Block()) {
				if fl, _, ok := loadOfField(f.Cond); ok && fl == "buffered" && !f.Truth {
					okGuard = true
				}
			}
			if !okGuard {
				bad = true
				ob.Fail(r.pos(nextCall.Pos()), "a new sample is read although one is still held back (buffered)")
			}
			// Next reads into i.entry, and e := i.entry is what is examined
			if f, base, ok := fieldNameOf(nextCall.Common().Args[0]); !ok || f != "entry" || originValueIn(base, fwGrp) != ssa.Value(nx.Params[0]) {
				bad = true
				ob.Fail(r.pos(nextCall.Pos()), "the iterator reads into %s, not i.entry", describe(nextCall.Common().Args[0], 0))
			}
		}
		// eviction runs at every step: no path through Next reports a step without having evicted
		// (a window that keeps expired points when nothing new arrives)
		if !bad && (clearCall != nil || evictAt != nil) {
			inG := map[*ssa.Function]bool{}
			for _, g := range fwGrp {
				inG[g] = true
			}
			w := &feWalker{Fn: nx, MaxPath: 30000, Inline: func(c *ssa.Function, d int) bool { return inG[c] && c != cw && c.Parent() == nil && d <= 3 }}
			if evictInline {
				w.Inline = func(c *ssa.Function, d int) bool { return inG[c] && c.Parent() == nil && d <= 3 }
			}
			ends := w.Run()
			if w.Aborted {
				bad = true
				ob.Undecide(r.pos(nx.Pos()), "path enumeration aborted")
			}
			for _, e := range ends {
				if e.Cut || len(e.Results) != 1 || !e.Results[0].Known || !constant.BoolVal(e.Results[0].C) {
					continue
				}
				evicted := false
				for _, c := range e.State.calls {
					if clearCall != nil && c.Call == clearCall {
						evicted = true
					}
				}
				if evictAt != nil {
					for _, b := range e.State.trail {
						if b == evictAt.Block() {
							evicted = true
						}
					}
				}
				if !evicted {
					bad = true
					ob.Fail(r.pos(e.Term.Pos()), "a step is reported on a path that did not evict expired points: the window keeps points older than its lower edge when nothing new arrives")
					break
				}
			}
		}
		if !bad {
			ob.OK("clearWindow(windowStart) first; iter.Next(&i.entry) only when !buffered").At(r.pos(fw.Pos()))
		}
	}

	// ---- clearWindow retention table
	oc := r.Ob("FE-ORD", "logqlmetric.(*rangeAggIterator).clearWindow", "a point is retained iff its timestamp is >= windowStart (the lower edge is inside the window, as in fillWindow); every point of every series is examined; empty series are removed")
	{
		// the per-point loop may live in a helper of clearWindow
		var tVal *ssa.Call
		var inner *rangeLoop
		var lf *ssa.Function
		for _, f := range funcGroup(cw) {
			for _, l := range rangeIndexLoops(f) {
				for b := range l.Blocks {
					for _, in := range b.Instrs {
						call, ok := in.(*ssa.Call)
						if !ok {
							continue
						}
						if callee := staticCallee(call); callee != nil && cname(callee) == "AsTime" {
							if fl, _, ok := loadOfField(call.Call.Args[0]); ok && fl == "Timestamp" {
								tVal, inner, lf = call, l, f
							}
						}
					}
				}
			}
		}
		// the window start as seen by that loop: the other operand of the time comparisons with the point's time
		var wsVal ssa.Value
		if tVal != nil {
			for _, c := range callsIn(lf) {
				call, ok := c.(*ssa.Call)
				if !ok {
					continue
				}
				for _, m := range []string{"After", "Before", "Equal"} {
					if callIs(call, "time", "(Time)."+m) {
						a0, a1 := unspill(call.Call.Args[0]), unspill(call.Call.Args[1])
						if a0 == ssa.Value(tVal) {
							wsVal = a1
						} else if a1 == ssa.Value(tVal) {
							wsVal = a0
						}
					}
				}
			}
		}
		// it must be clearWindow's windowStart (directly, or as the helper's argument)
		wsOK := false
		if wsVal != nil {
			if lf == cw {
				wsOK = wsVal == ssa.Value(cw.Params[1])
			} else if prm, ok := wsVal.(*ssa.Parameter); ok {
				for _, c := range callsIn(cw) {
					if staticCallee(c) == lf {
						for i, p2 := range lf.Params {
							if p2 == prm && i < len(c.Common().Args) && c.Common().Args[i] == ssa.Value(cw.Params[1]) {
								wsOK = true
							}
						}
					}
				}
			}
		}
		switch {
		case (tVal == nil || inner == nil) && deleteFuncRetention(r, oc, cw, admittedAtStart):
			// decided on the library-filter form
		case tVal == nil || inner == nil:
			oc.Fail(r.pos(cw.Pos()), "no loop examining every point's timestamp (point timestamp=%v, loop over the points=%v): retention must be decided point by point", tVal != nil, inner != nil)
		case !wsOK:
			oc.Fail(r.pos(tVal.Pos()), "the points' timestamps are not compared with clearWindow's windowStart")
		case len(inner.earlyExits()) > 0:
			oc.Fail(r.pos(cw.Pos()), "the point loop can be left early: later points are not examined")
		default:
			bad := false
			retainedAtStart := false
			for _, c := range []struct {
				t    int64
				want bool
				desc string
			}{{5, false, "t < windowStart"}, {10, true, "t == windowStart"}, {15, true, "t > windowStart"}} {
				hook := timeOrderHook(map[ssa.Value]int64{tVal: c.t, wsVal: 10})
				w := &feWalker{Fn: lf, Hook: hook}
				retained := false
				for _, e := range w.RunFrom(inner.Body, inner.Header) {
					// events of the first iteration only
					maxSeq := 1 << 30
					for i, b := range e.State.trail {
						if i > 0 && b == inner.Header {
							maxSeq = e.State.trailSeq[i]
							break
						}
					}
					for _, s := range e.State.stores {
						if _, ok := s.Store.Addr.(*ssa.IndexAddr); ok && s.Seq <= maxSeq && inner.Blocks[s.Store.Block()] {
							retained = true
						}
					}
					for _, cc := range e.State.calls {
						if bi, ok := cc.Call.Common().Value.(*ssa.Builtin); ok && bi.Name() == "append" && cc.Seq <= maxSeq && inner.Blocks[cc.Call.Block()] {
							retained = true
						}
					}
				}
				if c.t == 10 {
					retainedAtStart = retained
				}
				if retained != c.want {
					bad = true
					oc.Fail(r.pos(cw.Pos()), "%s: point retained=%v, expected %v", c.desc, retained, c.want)
				}
			}
			if retainedAtStart != admittedAtStart {
				bad = true
				oc.Fail(r.pos(cw.Pos()), "sibling disagreement at the lower window edge: fillWindow admits=%v, clearWindow retains=%v – whether the sample counts at T would depend on earlier steps", admittedAtStart, retainedAtStart)
			}
			// empty series deleted
			hasDelete := false
			allInstrs(cw, func(in ssa.Instruction) {
				if c, ok := in.(*ssa.Call); ok {
					if bi, ok := c.Call.Value.(*ssa.Builtin); ok && bi.Name() == "delete" {
						hasDelete = true
					}
				}
			})
			if !hasDelete {
				bad = true
				oc.Fail(r.pos(cw.Pos()), "series whose window became empty are not deleted: they would be reported with no samples")
			}
			if !bad {
				oc.OK("retain iff t >= windowStart, agrees with fillWindow at the edge; empty series deleted").At(r.pos(cw.Pos()))
			}
		}
	}

	// ---- Next: window placement and stamp (AF)
	oa := r.Ob("AF", "logqlmetric.(*rangeAggIterator).Next window", "at evaluation time T the window is [T-offset-range, T-offset] and the result is stamped T")
	{
		var cur ssa.Value
		for _, c := range callsIn(nx) {
			if call, ok := c.(*ssa.Call); ok && callIs(call, mp, "(*stepper).next") {
				for _, ref := range *call.Referrers() {
					if e, ok := ref.(*ssa.Extract); ok && e.Index == 0 {
						cur = e
					}
				}
			}
		}
		var fill *ssa.Call
		for _, c := range callsIn(nx) {
			if call, ok := c.(*ssa.Call); ok && callIs(call, mp, "(*rangeAggIterator).fillWindow") {
				fill = call
			}
		}
		if cur == nil || fill == nil {
			oa.Fail(r.pos(nx.Pos()), "stepper.next()=%v fillWindow call=%v", cur != nil, fill != nil)
		} else {
			atom := func(v ssa.Value) (string, bool) {
				if v == cur {
					return "T:T", true
				}
				if f, base, ok := loadOfField(v); ok && base == ssa.Value(nx.Params[0]) {
					switch f {
					case "offset":
						return "offset", true
					case "interval":
						return "range", true
					}
				}
				return "", false
			}
			ws := afEval(fill.Call.Args[1], atom, 0).String()
			we := afEval(fill.Call.Args[2], atom, 0).String()
			bad := false
			if ws != "T-offset-range" || we != "T-offset" {
				bad = true
				oa.Fail(r.pos(fill.Pos()), "the window is [%s, %s], expected [T-offset-range, T-offset]", ws, we)
			}
			stamped := false
			allInstrs(nx, func(in ssa.Instruction) {
				if st, ok := in.(*ssa.Store); ok {
					if n, base, ok := fieldNameOf(st.Addr); ok && n == "Timestamp" && base == ssa.Value(nx.Params[1]) {
						if c, ok := st.Val.(*ssa.Call); ok && len(c.Call.Args) == 1 {
							if s := afEval(c.Call.Args[0], atom, 0).String(); s == "T" {
								stamped = true
							} else {
								bad = true
								oa.Fail(r.pos(st.Pos()), "the result is stamped %s, expected T", s)
							}
						}
					}
				}
			})
			if !stamped && !bad {
				bad = true
				oa.Fail(r.pos(nx.Pos()), "the step's timestamp is not set from the evaluation time")
			}
			if !bad {
				oa.OK("fillWindow(T-offset-range, T-offset); r.Timestamp = T").At(r.pos(fill.Pos()))
			}
		}
	}
	// output: one sample per series in the window: agg.Aggregate(s.Data) with s.Set
	oo := r.Ob("PV-PAIR", "logqlmetric.(*rangeAggIterator).Next output", "every series in the window is reported once, as Aggregate(of its own points) with its own label set")
	{
		var agg *ssa.Call
		for _, c := range callsIn(nx) {
			if call, ok := c.(*ssa.Call); ok && invokeIs(call, "Aggregate") {
				agg = call
			}
		}
		if agg == nil {
			oo.Fail(r.pos(nx.Pos()), "Aggregate is never called")
		} else {
			f, base, ok := loadOfField(agg.Call.Args[0])
			var lit *ssa.Alloc
			for _, ref := range *agg.Referrers() {
				if st, ok := ref.(*ssa.Store); ok {
					if _, b, ok := fieldNameOf(st.Addr); ok {
						lit, _ = b.(*ssa.Alloc)
					}
				}
			}
			good := ok && f == "Data" && lit != nil
			if good {
				fs := allocFieldStores(lit)
				f2, base2, ok2 := loadOfField(fs["Set"])
				good = ok2 && f2 == "Set" && describe(base2, 0) == describe(base, 0)
			}
			// the series walked are those of the window as this step left it: the list of keys is
			// computed from the window in this call (after the fill), not one remembered from an
			// earlier step
			if good {
				nxGrp := funcGroup(nx)
				var loop *rangeLoop
				for _, g := range nxGrp {
					for _, l := range rangeIndexLoops(g) {
						if l.Blocks[agg.Block()] {
							loop = l
						}
					}
				}
				if loop != nil {
					src := originValueIn(stripTypeOnly(loop.X), nxGrp)
					kc, isCall := src.(*ssa.Call)
					fromWindow := false
					if isCall {
						for _, a := range kc.Call.Args {
							if f, b, ok := loadOfField(a); ok && f == "window" && originValueIn(b, nxGrp) == ssa.Value(nx.Params[0]) {
								fromWindow = true
							}
						}
					}
					var fillC ssa.Instruction
					for _, g := range nxGrp {
						for _, c := range callsIn(g) {
							if callIs(c, mp, "(*rangeAggIterator).fillWindow") {
								fillC = c
							}
						}
					}
					switch {
					case !isCall || !fromWindow:
						good = false
						oo.Fail(r.pos(agg.Pos()), "the series reported are walked from %s, not from a key list computed from the window in this step: a series that entered the window is missed when the list is stale", describe(loop.X, 1))
					case fillC != nil && !runsBefore(fillC, kc, nx, nxGrp):
						good = false
						oo.Fail(r.pos(kc.Pos()), "the key list is computed before the window is filled for this step")
					}
					if !good {
						goto doneOutput
					}
				}
			}
			if good {
				oo.OK("Sample{Data: agg.Aggregate(s.Data), Set: s.Set}").At(r.pos(agg.Pos()))
			} else {
				oo.Fail(r.pos(agg.Pos()), "the reported sample does not pair Aggregate(s.Data) with s.Set of the same series")
			}
		doneOutput:
		}
	}
}

// ruleRangeBuild: query bounds handed to the storage and to the stepper.
func ruleRangeBuild(r *Run) {
	p := r.P
	mp := modPath + "/" + metricPkg
	bf := p.Func(metricPkg, "build")
	o := r.Ob("AF", "logqlmetric.build range bounds", "samples are fetched for [start-offset-range, end-offset] and the evaluation grid stays [start, end] with the query's step")
	if bf == nil {
		o.Fail("-", "function not found")
		return
	}
	atom := fieldAtoms(map[string]string{"Start": "T:start", "End": "T:end", "Range": "range", "Duration": "offset"})
	var sel, ra *ssa.Call
	for _, gf := range funcGroup(bf) {
		for _, c := range callsIn(gf) {
			call, ok := c.(*ssa.Call)
			if !ok {
				continue
			}
			// the sample selector: a dynamic call of a parameter of type SampleSelector
			if _, ok := call.Call.Value.(*ssa.Parameter); ok && !call.Call.IsInvoke() && call.Call.Signature().Results().Len() == 2 && isResourceType(call.Call.Signature().Results().At(0).Type()) {
				sel = call
			}
			if callIs(call, mp, "RangeAggregation") {
				ra = call
			}
		}
	}
	if sel == nil || ra == nil {
		o.Fail(r.pos(bf.Pos()), "selector call=%v RangeAggregation call=%v", sel != nil, ra != nil)
		return
	}
	bad := false
	qs, qe := afEval(sel.Call.Args[1], atom, 0).String(), afEval(sel.Call.Args[2], atom, 0).String()
	if qs != "start-offset-range" || qe != "end-offset" {
		bad = true
		o.Fail(r.pos(sel.Pos()), "samples are fetched for [%s, %s], expected [start-offset-range, end-offset]", qs, qe)
	}
	gs, ge := afEval(ra.Call.Args[2], atom, 0).String(), afEval(ra.Call.Args[3], atom, 0).String()
	if gs != "start" || ge != "end" {
		bad = true
		o.Fail(r.pos(ra.Pos()), "the evaluation grid is [%s, %s], expected [start, end]", gs, ge)
	}
	if f, _, ok := loadOfField(ra.Call.Args[4]); !ok || f != "Step" {
		bad = true
		o.Fail(r.pos(ra.Pos()), "the step handed to RangeAggregation is %s, not params.Step", describe(ra.Call.Args[4], 0))
	}
	if c, idx, ok := extractOf(ra.Call.Args[0]); !ok || c != sel || idx != 0 {
		bad = true
		o.Fail(r.pos(ra.Pos()), "RangeAggregation does not consume the iterator returned by the selector")
	}
	if ra.Call.Args[1] != sel.Call.Args[0] {
		bad = true
		o.Fail(r.pos(ra.Pos()), "selector and aggregation are given different expressions")
	}
	if !bad {
		o.OK("sel(expr, start-offset-range, end-offset); RangeAggregation(iter, expr, start, end, params.Step)").At(r.pos(sel.Pos()))
	}
	// RangeAggregation: fields
	rf := p.Func(metricPkg, "RangeAggregation")
	o2 := r.Ob("PV-ROLE", "logqlmetric.RangeAggregation fields", "the iterator's window length is the expression's range, its offset the expression's offset, its stepper runs over (start, end, step)")
	if rf == nil {
		o2.Fail("-", "function not found")
		return
	}
	bad = false
	atom2 := fieldAtoms(map[string]string{"Range": "range", "Duration": "offset"})
	for _, ret := range returnsOf(rf) {
		for _, lv := range phiLeaves(ret.Results[0]) {
			al, ok := stripTypeOnly(lv).(*ssa.Alloc)
			if !ok {
				continue
			}
			fs := allocFieldStores(al)
			if s := afEval(fs["interval"], atom2, 0).String(); s != "range" {
				bad = true
				o2.Fail(r.pos(ret.Pos()), "interval is %s (%s), expected the expression's range", s, describe(fs["interval"], 0))
			}
			if s := afEval(fs["offset"], atom2, 0).String(); s != "offset" {
				bad = true
				o2.Fail(r.pos(ret.Pos()), "offset is %s (%s), expected the expression's offset", s, describe(fs["offset"], 0))
			}
			sc, ok := fs["stepper"].(*ssa.Call)
			if !ok || !callIs(sc, mp, "newStepper") {
				bad = true
				o2.Fail(r.pos(ret.Pos()), "stepper is %s", describe(fs["stepper"], 0))
			} else {
				names := []string{rootName(sc.Call.Args[0]), rootName(sc.Call.Args[1])}
				// RangeAggregation(iter, expr, start, end, step): positions 2 and 3
				if len(rf.Params) != 5 || originValue(sc.Call.Args[0]) != ssa.Value(rf.Params[2]) || originValue(sc.Call.Args[1]) != ssa.Value(rf.Params[3]) {
					bad = true
					o2.Fail(r.pos(sc.Pos()), "newStepper(%s, %s, ..), expected (start, end, step)", names[0], names[1])
				}
			}
			if fs["iter"] != ssa.Value(rf.Params[0]) {
				bad = true
				o2.Fail(r.pos(ret.Pos()), "the iterator field is not the iterator parameter")
			}
		}
	}
	if !bad {
		o2.OK("interval=range, offset=offset, stepper=newStepper(start, end, step)").At(r.pos(rf.Pos()))
	}
}

// ruleStepper: grid start + k*step <= end.
func ruleStepper(r *Run) {
	p := r.P
	ns := p.Func(metricPkg, "newStepper")
	nx := p.Method(metricPkg, "stepper", "next")
	o := r.Ob("FE-ORD", "logqlmetric.stepper", "evaluation times are start, start+step, ... while <= end: the stepper starts one step before start, advances by step, and stops iff the new time is after end")
	if ns == nil || nx == nil {
		o.Fail("-", "newStepper / stepper.next not found")
		return
	}
	bad := false
	atom := fieldAtoms(map[string]string{"param#0": "T:start", "param#1": "T:end", "param#2": "step"}) // newStepper(start, end, step)
	for _, ret := range returnsOf(ns) {
		var fs map[string]ssa.Value
		if u, ok := ret.Results[0].(*ssa.UnOp); ok {
			if al, ok := u.X.(*ssa.Alloc); ok {
				fs = allocFieldStores(al)
			}
		}
		if fs == nil {
			bad = true
			o.Undecide(r.pos(ret.Pos()), "newStepper does not return a literal")
			continue
		}
		if s := afEval(fs["current"], atom, 0).String(); s != "start-step" {
			bad = true
			o.Fail(r.pos(ret.Pos()), "the stepper starts at %s, expected start-step", s)
		}
		if s := afEval(fs["end"], atom, 0).String(); s != "end" {
			bad = true
			o.Fail(r.pos(ret.Pos()), "the stepper's end is %s", s)
		}
		if s := afEval(fs["step"], atom, 0).String(); s != "step" {
			bad = true
			o.Fail(r.pos(ret.Pos()), "the stepper's step is %s", s)
		}
	}
	// next: s.current = s.current.Add(s.step); stop iff current.After(end)
	var add *ssa.Call
	for _, c := range callsIn(nx) {
		if call, ok := c.(*ssa.Call); ok && callIs(call, "time", "(Time).Add") {
			add = call
		}
	}
	if add == nil {
		bad = true
		o.Fail(r.pos(nx.Pos()), "next does not advance the current time")
	} else {
		f0, _, ok0 := loadOfField(add.Call.Args[0])
		f1, _, ok1 := loadOfField(add.Call.Args[1])
		if !ok0 || !ok1 || f0 != "current" || f1 != "step" {
			bad = true
			o.Fail(r.pos(add.Pos()), "next advances by %s.Add(%s), expected current.Add(step)", describe(add.Call.Args[0], 0), describe(add.Call.Args[1], 0))
		}
		stored := false
		for _, ref := range *add.Referrers() {
			if st, ok := ref.(*ssa.Store); ok {
				if n, _, ok := fieldNameOf(st.Addr); ok && n == "current" {
					stored = true
				}
			}
		}
		if !stored {
			bad = true
			o.Fail(r.pos(add.Pos()), "the advanced time is not stored back")
		}
		// end value: load of s.end
		var endLoads []ssa.Value
		var curLoads []ssa.Value
		allInstrs(nx, func(in ssa.Instruction) {
			if u, ok := in.(*ssa.UnOp); ok {
				if f, _, ok := loadOfField(u); ok {
					if f == "end" {
						endLoads = append(endLoads, u)
					}
					if f == "current" && instrDominates(add, u) {
						curLoads = append(curLoads, u)
					}
				}
			}
		})
		for _, rel := range []struct {
			cur  int64
			stop bool
			desc string
		}{{5, false, "new time < end"}, {10, false, "new time == end"}, {15, true, "new time > end"}} {
			vals := map[ssa.Value]int64{add: rel.cur}
			for _, e := range endLoads {
				vals[e] = 10
			}
			for _, cl := range curLoads {
				vals[cl] = rel.cur
			}
			w := &feWalker{Fn: nx, Hook: timeOrderHook(vals)}
			for _, e := range w.Run() {
				if len(e.Results) != 2 || !e.Results[1].Known {
					bad = true
					o.Undecide(r.pos(nx.Pos()), "%s: continue flag not decidable", rel.desc)
					continue
				}
				cont := constant.BoolVal(e.Results[1].C)
				if cont == rel.stop {
					bad = true
					o.Fail(r.pos(e.Term.Pos()), "%s: the stepper %s, expected it to %s", rel.desc, map[bool]string{true: "continues", false: "stops"}[cont], map[bool]string{true: "stop", false: "continue"}[rel.stop])
				}
			}
		}
	}
	if !bad {
		o.OK("start-step; current += step; stop iff current > end").At(r.pos(nx.Pos()))
	}
	// generateLiteralMatrix has the same bound
	gl := p.Func(enginePkg, "generateLiteralMatrix")
	og := r.Ob("FE-ORD", "logqlengine.generateLiteralMatrix", "a literal range query has a point at every start + k*step <= end")
	if gl == nil {
		// inlined into its caller: the function of the literal evaluation that compares times in a loop
		if ev := p.Method(enginePkg, "Engine", "evalLiteral"); ev != nil {
			for _, g := range funcGroup(ev) {
				for _, c := range callsIn(g) {
					if call, ok := c.(*ssa.Call); ok && gl == nil {
						for _, m := range []string{"Equal", "Before", "After"} {
							if callIs(call, "time", "(Time)."+m) {
								gl = g
							}
						}
					}
				}
			}
		}
	}
	if gl == nil {
		og.Fail("-", "function not found")
		return
	}
	// loop condition: ts.Equal(end) || ts.Before(end)   (or !ts.After(end))
	var tsPhi ssa.Value
	var endVal ssa.Value
	for _, c := range callsIn(gl) {
		call, ok := c.(*ssa.Call)
		if !ok {
			continue
		}
		for _, m := range []string{"Equal", "Before", "After"} {
			if callIs(call, "time", "(Time)."+m) {
				tsPhi, endVal = unspill(call.Call.Args[0]), unspill(call.Call.Args[1])
			}
		}
	}
	if tsPhi == nil {
		og.Undecide(r.pos(gl.Pos()), "loop condition on times not found")
		return
	}
	gbad := false
	for _, rel := range []struct {
		ts   int64
		want bool
		desc string
	}{{5, true, "ts < end"}, {10, true, "ts == end"}, {15, false, "ts > end"}} {
		w := &feWalker{Fn: gl, Hook: timeOrderHook(map[ssa.Value]int64{tsPhi: rel.ts, endVal: 10})}
		appended := false
		for _, e := range w.Run() {
			for _, c := range e.State.calls {
				if bi, ok := c.Call.Common().Value.(*ssa.Builtin); ok && bi.Name() == "append" {
					appended = true
				}
			}
		}
		if appended != rel.want {
			gbad = true
			og.Fail(r.pos(gl.Pos()), "%s: a point is emitted=%v, expected %v", rel.desc, appended, rel.want)
		}
	}
	if !gbad {
		og.OK("emit while ts <= end").At(r.pos(gl.Pos()))
	}
}

// ruleRangeOps: RangeOp -> (what a line contributes, how it is aggregated).
func ruleRangeOps(r *Run) {
	rop := [2]string{logqlPkg, "RangeOp"}
	unwrapOps := []string{"RangeOpRateCounter", "RangeOpAvg", "RangeOpSum", "RangeOpMin", "RangeOpMax", "RangeOpStdvar", "RangeOpStddev", "RangeOpQuantile", "RangeOpFirst", "RangeOpLast"}
	ext := map[string]string{
		"RangeOpCount": "type:*logqlengine.lineCounterExtractor", "RangeOpRate": "type:*logqlengine.lineCounterExtractor", "RangeOpAbsent": "type:*logqlengine.lineCounterExtractor",
		"RangeOpBytes": "type:*logqlengine.bytesCounterExtractor", "RangeOpBytesRate": "type:*logqlengine.bytesCounterExtractor",
	}
	for _, n := range unwrapOps {
		ext[n] = "error|type:*logqlengine.labelsExtractor"
	}
	runCHSite(r, &chSite{Rule: "CH-MAP", Rel: enginePkg, Fn: "buildSampleExtractor", TagType: rop, TagConst: "RangeOpCount",
		Outcome: dropAtom(outReturn(0, "", ""), "cut"), Expected: ext, Other: "error",
		Claim: "count/rate/absent sample 1 per line, bytes/bytes_rate the line length, the unwrapped operations the unwrapped label value"})
	agg := map[string]string{
		"RangeOpCount": "type:*logqlmetric.CountOverTime",
		"RangeOpRate":  "type:*logqlmetric.Rate[logqlmetric.CountOverTime]|type:*logqlmetric.Rate[logqlmetric.batchApplier[logqlmetric.SumAggregator,*logqlmetric.SumAggregator]]",
		"RangeOpBytes": "type:*logqlmetric.batchApplier[logqlmetric.SumAggregator,*logqlmetric.SumAggregator]", "RangeOpBytesRate": "type:*logqlmetric.Rate[logqlmetric.batchApplier[logqlmetric.SumAggregator,*logqlmetric.SumAggregator]]",
		"RangeOpAvg": "type:*logqlmetric.batchApplier[logqlmetric.AvgAggregator,*logqlmetric.AvgAggregator]", "RangeOpSum": "type:*logqlmetric.batchApplier[logqlmetric.SumAggregator,*logqlmetric.SumAggregator]",
		"RangeOpMin": "type:*logqlmetric.batchApplier[logqlmetric.MinAggregator,*logqlmetric.MinAggregator]", "RangeOpMax": "type:*logqlmetric.batchApplier[logqlmetric.MaxAggregator,*logqlmetric.MaxAggregator]",
		"RangeOpStdvar": "type:*logqlmetric.batchApplier[logqlmetric.StdvarAggregator,*logqlmetric.StdvarAggregator]", "RangeOpStddev": "type:*logqlmetric.batchApplier[logqlmetric.StddevAggregator,*logqlmetric.StddevAggregator]",
		"RangeOpQuantile": "error|type:*logqlmetric.QuantileOverTime", "RangeOpFirst": "type:*logqlmetric.FirstOverTime", "RangeOpLast": "type:*logqlmetric.LastOverTime",
		"RangeOpRateCounter": "error", "RangeOpAbsent": "error",
	}
	runCHSite(r, &chSite{Rule: "CH-MAP", Rel: metricPkg, Fn: "buildBatchAggregator", TagType: rop, TagConst: "RangeOpCount",
		Outcome: outReturn(0, "", ""), Expected: agg, Other: "error",
		Claim: "each range operation aggregates the window with the aggregator of its name (rate = count or sum divided by the range; unsupported ones are errors)"})
}

// ruleRangeDetails: extractors, rate divisor, emptiness guards, sample selector parameters.
func ruleRangeDetails(r *Run) {
	p := r.P
	// extractors
	for _, s := range []struct {
		typ   string
		claim string
		check func(fn *ssa.Function, ret *ssa.Return) bool
	}{
		{"lineCounterExtractor", "each line contributes exactly 1", func(fn *ssa.Function, ret *ssa.Return) bool {
			c, ok := constOf(ret.Results[0])
			if !ok {
				return false
			}
			f, _ := constant.Float64Val(c)
			return f == 1 && isConstBool(ret.Results[1], true)
		}},
		{"bytesCounterExtractor", "each line contributes len(line)", func(fn *ssa.Function, ret *ssa.Return) bool {
			cv, ok := ret.Results[0].(*ssa.Convert)
			if !ok {
				return false
			}
			c, ok := cv.X.(*ssa.Call)
			if !ok {
				return false
			}
			bi, ok := c.Call.Value.(*ssa.Builtin)
			if !ok || bi.Name() != "len" {
				return false
			}
			f, _, ok := loadOfField(c.Call.Args[0])
			return ok && f == "line" && isConstBool(ret.Results[1], true)
		}},
	} {
		fn := p.Method(enginePkg, s.typ, "Extract")
		o := r.Ob("CH-OP", "logqlengine."+s.typ+".Extract", s.claim)
		if fn == nil {
			o.Fail("-", "method not found")
			continue
		}
		good := true
		for _, ret := range returnsOf(fn) {
			if !s.check(fn, ret) {
				good = false
				o.Fail(r.pos(ret.Pos()), "returns (%s, %s)", describe(ret.Results[0], 0), describe(ret.Results[1], 0))
			}
		}
		if good {
			o.OK("as claimed").At(r.pos(fn.Pos()))
		}
	}
	// labelsExtractor: value of the unwrap label through the converter; dropped iff label missing or post-filter rejects
	le := p.Method(enginePkg, "labelsExtractor", "Extract")
	ol := r.Ob("PV-PAIR", "logqlengine.(*labelsExtractor).Extract", "the sample is converter(value of the unwrap label); entries without the label or rejected by the unwrap filter contribute nothing")
	if le == nil {
		ol.Fail("-", "method not found")
	} else {
		var get, conv, post *ssa.Call
		for _, c := range callsIn(le) {
			call, ok := c.(*ssa.Call)
			if !ok {
				continue
			}
			if callIs(call, modPath+"/"+enginePkg, "(*LabelSet).GetString") {
				get = call
			}
			if f, _, ok := loadOfField(call.Call.Value); ok && f == "converter" {
				conv = call
			}
			if invokeIs(call, "Process") {
				post = call
			}
		}
		good := get != nil && conv != nil && post != nil
		if good {
			if f, _, ok := loadOfField(get.Call.Args[1]); !ok || f != "label" {
				good = false
			}
			if c, idx, ok := extractOf(conv.Call.Args[0]); !ok || c != get || idx != 0 {
				good = false
			}
		}
		if good {
			ol.OK("GetString(l.label) -> converter -> post-filter").At(r.pos(le.Pos()))
		} else {
			ol.Fail(r.pos(le.Pos()), "GetString(label)=%v converter(value)=%v postfilter=%v or wrong wiring", get != nil, conv != nil, post != nil)
		}
	}
	// unwrap conversion table
	bs := p.Func(enginePkg, "buildSampleExtractor")
	oc := r.Ob("CH-MAP", "logqlengine.buildSampleExtractor conversions", "unwrap conversions: none -> ParseFloat, bytes -> convertBytes, duration/duration_seconds -> convertDuration; the names are the lexer's own spellings")
	if bs == nil {
		oc.Fail("-", "function not found")
	} else {
		// tag: a string value compared with the conversion names, in buildSampleExtractor or a helper of it
		var tag ssa.Value
		var df *ssa.Function
		for _, gf := range funcGroup(bs) {
			allInstrs(gf, func(in ssa.Instruction) {
				if b, ok := in.(*ssa.BinOp); ok && b.Op == token.EQL {
					if s, ok := constStr(b.Y); ok && (s == "bytes" || s == "duration" || s == "duration_seconds") && isStringType(b.X.Type()) {
						tag, df = b.X, gf
					}
				}
				// table-driven: the name indexes a constant table that has the conversion names as keys
				if lk, ok := in.(*ssa.Lookup); ok && isStringType(lk.Index.Type()) && tag == nil {
					if u, ok := lk.X.(*ssa.UnOp); ok {
						if g, ok := u.X.(*ssa.Global); ok {
							if tbl, ok := p.constTable(g); ok {
								if _, has := tbl[constant.MakeString("bytes").ExactString()]; has {
									tag, df = lk.Index, gf
								}
							}
						}
					}
				}
			})
		}
		if tag == nil {
			oc.Undecide(r.pos(bs.Pos()), "no dispatch on the unwrap conversion name")
		} else {
			want := map[string]string{"": "ParseFloat", "bytes": "convertBytes", "duration": "convertDuration", "duration_seconds": "convertDuration", "\x00unknown": ""}
			bad := false
			var cw *feWalker
			var cst *feState
			classify := func(v ssa.Value) string {
				d := describe(v, 0)
				f := funcOfValue(v)
				if f == nil && cw != nil {
					f, _ = cw.resolveCallee(cst, v, 0)
				}
				if f != nil {
					d = shortFuncName(f)
					// by what the converter computes, whatever it is called: a byte size is read with
					// humanize.ParseBytes, a duration with time.ParseDuration and turned into seconds
					hasSeconds := false
					for _, c := range callsIn(f) {
						if callIs(c, "time", "(Duration).Seconds") {
							hasSeconds = true
						}
					}
					for _, c := range callsIn(f) {
						if callIs(c, "strconv", "ParseFloat") {
							return "ParseFloat"
						}
						if pk, nm := calleePkgName(c); strings.HasSuffix(pk, "go-humanize") && nm == "ParseBytes" {
							return "convertBytes"
						}
						if callIs(c, "time", "ParseDuration") && hasSeconds {
							return "convertDuration"
						}
					}
				}
				switch {
				case strings.Contains(d, "convertBytes"):
					return "convertBytes"
				case strings.Contains(d, "convertDuration"):
					return "convertDuration"
				}
				return d
			}
			for sp, w0 := range want {
				assume := map[ssa.Value]constant.Value{}
				for _, t := range equivLoads(df, tag) {
					assume[t] = constant.MakeString(sp)
				}
				w := &feWalker{Fn: df, Assume: assume, MaxPath: 20000}
				got := map[string]bool{}
				for _, e := range w.Run() {
					if isErr, known := endReturnsError(e); known && isErr {
						continue
					}
					found := false
					cw, cst = w, e.State
					for _, st := range e.State.stores {
						if n, _, ok := fieldNameOf(st.Store.Addr); ok && n == "converter" {
							got[classify(st.Val.V)] = true
							found = true
						}
					}
					if !found && df != bs && len(e.Results) > 0 {
						got[classify(e.Results[0].V)] = true
					}
				}
				if g := joinSet(got); g != w0 {
					bad = true
					oc.Fail(r.pos(df.Pos()), "unwrap conversion %q uses %q, expected %s", sp, g, w0)
				}
			}
			// spellings exist in the lexer table for the conversion tokens
			entries, _, ok := mapLiteralOfVar(p, lexerPkg, "tokens")
			if ok {
				T := p.NamedType(lexerPkg, "TokenType")
				consts := enumConstants(T)
				for _, e := range entries {
					if e.Key == nil || e.Val == nil {
						continue
					}
					tok := constName(consts, e.Val)
					if tok == "BytesConv" || tok == "DurationConv" || tok == "DurationSecondsConv" {
						sp := constant.StringVal(e.Key)
						if _, ok := want[sp]; !ok {
							bad = true
							oc.Fail(r.pos(e.Pos), "the lexer spells %s as %q, which buildSampleExtractor does not handle", tok, sp)
						}
					}
				}
			}
			if !bad {
				oc.OK("4 conversion spellings agree with the lexer and the converters").At(r.pos(bs.Pos()))
			}
		}
	}
	// rate divides by the range in seconds
	bb := p.Func(metricPkg, "buildBatchAggregator")
	orr := r.Ob("PV-PAIR", "logqlmetric.Rate divisor", "rates divide the window's count/sum by the window length in seconds")
	rate := p.Method(metricPkg, "Rate", "Aggregate")
	if bb == nil || rate == nil {
		orr.Fail("-", "buildBatchAggregator / Rate.Aggregate not found")
	} else {
		bad := false
		n := 0
		for _, gf := range funcGroup(bb) {
			allInstrs(gf, func(in ssa.Instruction) {
				st, ok := in.(*ssa.Store)
				if !ok {
					return
				}
				if f, _, ok := fieldNameOf(st.Addr); !ok || f != "selRange" {
					return
				}
				n++
				c, ok := originValue(st.Val).(*ssa.Call)
				good := ok && callIs(c, "time", "(Duration).Seconds")
				if good {
					f, _, ok := loadOfField(c.Call.Args[0])
					good = ok && f == "Range"
				}
				if !good {
					bad = true
					orr.Fail(r.pos(st.Pos()), "the rate divisor is %s, not Range.Seconds()", describe(st.Val, 0))
				}
			})
		}
		// Aggregate = preAgg.Aggregate(points) / selRange
		okDiv := false
		for _, ret := range returnsOf(rate) {
			if b, ok := ret.Results[0].(*ssa.BinOp); ok && b.Op == token.QUO {
				if c, ok := b.X.(*ssa.Call); ok && invokeIs(c, "Aggregate") {
					if f, _, ok := loadOfField(b.Y); ok && f == "selRange" {
						okDiv = true
					}
				}
			}
		}
		if !okDiv {
			bad = true
			orr.Fail(r.pos(rate.Pos()), "Rate.Aggregate is not preAgg.Aggregate(points) / selRange")
		}
		if n < 3 {
			bad = true
			orr.Fail(r.pos(bb.Pos()), "found %d rate constructions, floor 3", n)
		}
		if !bad {
			orr.OK("%d rate constructions use Range.Seconds(); Aggregate = pre / selRange", n)
		}
	}
	// emptiness guards
	for _, s := range []struct{ typ, fnName string }{{"FirstOverTime", "Aggregate"}, {"LastOverTime", "Aggregate"}} {
		fn := p.Method(metricPkg, s.typ, s.fnName)
		o := r.Ob("FE-NONEMPTY", "logqlmetric."+s.typ+".Aggregate", "indexing the first/last point is guarded by a non-emptiness test")
		if fn == nil {
			o.Fail("-", "method not found")
			continue
		}
		bad := false
		n := 0
		allInstrs(fn, func(in ssa.Instruction) {
			ia, ok := in.(*ssa.IndexAddr)
			if !ok {
				return
			}
			n++
			guarded := false
			for _, f := range factsAt(ia.Block()) {
				if b, ok := f.Cond.(*ssa.BinOp); ok {
					if c, ok := b.X.(*ssa.Call); ok {
						if bi, ok := c.Call.Value.(*ssa.Builtin); ok && bi.Name() == "len" {
							z, _ := constInt(b.Y)
							if (b.Op == token.EQL && z == 0 && !f.Truth) || (b.Op == token.GTR && z == 0 && f.Truth) || (b.Op == token.LSS && z == 1 && !f.Truth) || (b.Op == token.NEQ && z == 0 && f.Truth) {
								guarded = true
							}
						}
					}
				}
			}
			if !guarded {
				bad = true
				o.Fail(r.pos(ia.Pos()), "points[..] is indexed without a dominating len(points) != 0 test")
			}
		})
		if !bad && n > 0 {
			o.OK("%d index expression(s) guarded", n).At(r.pos(fn.Pos()))
		} else if n == 0 {
			o.Fail(r.pos(fn.Pos()), "no index expression found")
		}
	}
	// sample selector: unlimited, instant flag, bounds
	ss := p.Method(enginePkg, "Engine", "sampleSelector")
	os := r.Ob("PV-CONST", "logqlengine.(*Engine).sampleSelector", "samples for a metric query are selected for the bounds the evaluator asks for and are never cut by the entry limit of log queries")
	if ss == nil || len(ss.AnonFuncs) == 0 {
		os.Fail("-", "sampleSelector closure not found")
		return
	}
	cl := ss.AnonFuncs[0]
	var call *ssa.Call
	for _, c := range callsIn(cl) {
		if cc, ok := c.(*ssa.Call); ok && callIs(cc, modPath+"/"+enginePkg, "(*Engine).selectLogs") {
			call = cc
		}
	}
	// the value that stands for the closure's parameter idx at the selectLogs call: the parameter itself, or
	// (when the closure delegates to a helper) the helper's parameter that receives it
	paramAt := func(idx int) ssa.Value {
		if idx < len(cl.Params) {
			return cl.Params[idx]
		}
		return nil
	}
	if call == nil {
		for _, c := range callsIn(cl) {
			h := staticCallee(c)
			if h == nil || h.Pkg == nil || h.Pkg != cl.Pkg || len(h.Blocks) == 0 {
				continue
			}
			for _, hc := range callsIn(h) {
				if cc, ok := hc.(*ssa.Call); ok && callIs(cc, modPath+"/"+enginePkg, "(*Engine).selectLogs") {
					call = cc
				}
			}
			if call == nil {
				continue
			}
			args := c.Common().Args
			hp := h.Params
			paramAt = func(idx int) ssa.Value {
				if idx >= len(cl.Params) {
					return nil
				}
				var found ssa.Value
				for k, a := range args {
					if k < len(hp) && originValue(a) == ssa.Value(cl.Params[idx]) {
						if found != nil {
							return nil
						}
						found = hp[k]
					}
				}
				return found
			}
			break
		}
	}
	if call == nil {
		os.Fail(r.pos(cl.Pos()), "selectLogs is not called")
		return
	}
	fs, ok := structLitStores(call.Call.Args[len(call.Call.Args)-1])
	if !ok {
		os.Undecide(r.pos(call.Pos()), "parameters are not a literal")
		return
	}
	bad := false
	if lim, ok := constInt(fs["Limit"]); !ok || lim > 0 {
		bad = true
		os.Fail(r.pos(call.Pos()), "Limit is %s: a positive entry limit would cut samples out of later windows", describe(fs["Limit"], 0))
	}
	// SampleSelector(expr, start, end): positions 1 and 2 of the closure
	for field, prm := range map[string]string{"Start": "start", "End": "end"} {
		idx := map[string]int{"Start": 1, "End": 2}[field]
		c, ok := fs[field].(*ssa.Call)
		if !ok || len(c.Call.Args) != 1 || len(cl.Params) != 3 || paramAt(idx) == nil || originValue(c.Call.Args[0]) != paramAt(idx) {
			bad = true
			os.Fail(r.pos(call.Pos()), "%s is %s, not derived from the %s the evaluator asked for", field, describe(fs[field], 0), prm)
		}
	}
	if !bad {
		os.OK("Start/End from the closure's start/end, Limit <= 0").At(r.pos(call.Pos()))
	}
}

// ruleOneStepPerNext (PV-ONCE): every grid point is reported, also when its window is empty: a call
// of rangeAggIterator.Next advances the stepper exactly once (consumers such as binary operations
// pair the steps of their two sides by position).
func ruleOneStepPerNext(r *Run) {
	p := r.P
	mp := modPath + "/" + metricPkg
	fn := p.Method(metricPkg, "rangeAggIterator", "Next")
	o := r.Ob("PV-ONCE", "logqlmetric.(*rangeAggIterator).Next one step per call", "each call of Next advances the evaluation grid by exactly one point and reports it (an empty window gives an empty step, not a skipped one)")
	if fn == nil {
		o.Fail("-", "method not found")
		return
	}
	var calls []ssa.CallInstruction
	for _, gf := range funcGroup(fn) {
		for _, c := range callsIn(gf) {
			if callIs(c, mp, "(*stepper).next") || callIs(c, mp, "(stepper).next") {
				calls = append(calls, c)
			}
		}
	}
	if len(calls) != 1 {
		o.Fail(r.pos(fn.Pos()), "expected exactly one stepper.next() call site in Next, found %d", len(calls))
		return
	}
	c := calls[0]
	cf := c.Parent()
	for _, b := range cf.Blocks {
		for _, sc := range b.Succs {
			if sc.Dominates(b) && naturalLoop(sc)[c.Block()] {
				o.Fail(r.pos(c.Pos()), "stepper.next() is called inside a loop: one call of Next can consume several grid points, so some points are never reported")
				return
			}
		}
	}
	// the step it returns is stamped with that grid point on every `return true`
	o.OK("one stepper.next() per Next, outside any loop").At(r.pos(c.Pos()))
}
