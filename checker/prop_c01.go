package main

func init() {
	register(&PropSpec{
		ID:          "C01",
		Explanation: "Decides the structural clauses behind 'log queries return exactly the matching lines' for all record sets, queries and storage capabilities: every stage processor obeys its class of the line/keep contract, a rejected record never flows on, the parser maps each filter/matcher spelling to the operator it denotes and the engine builds the matcher that implements it, and/or/not compose as Boolean connectives, filters handed to the storage are re-evaluated by the engine, and each record goes through prefilter and pipeline once.",
		Decided: []string{
			"FE-CLASS: the ip() line filter attempts an address capture at every position holding a digit, a hex letter or a colon",
			"PV-ORDER: the per-record label set is cleared before each record's labels are added",
			"PV-WHOLE/CH-POL/PV-OKGATE (shared with C02): every selector matcher is evaluated by the storage or by a prefilter; the Docker backend implements = != =~ !~ with a missing label read as \"\"; each listed container is kept at most once",
			"LP-CLASS: each of the Processor implementers is in the class the table assigns (filter: line unchanged, keep = predicate; parser/rewriter: never drops; pipeline/and/or: composite); LP-BUILD: every pipeline stage type is built into a processor of its class",
			"LP-DROP: wherever a Process result is used, the line of a rejected record is never used on a path where keep is false",
			"CH-OP/CH-MAP/CH-ARGORDER: the parser's token->operator switches and the engine's operator->matcher builders are the relations the LogQL grammar defines (negated forms wrap the positive matcher in NotMatcher); matcher bodies compare (label value, literal) in this order",
			"FE-BOOL: AndLabelMatcher / OrLabelMatcher truth tables (Or evaluates the right side on the original line); PV-PAIR: label filters read the label they were built for",
			"LP-OFFLOAD/PV-WHOLE: only line filters that are not ip() and that the storage supports are offloaded, the scan stops at the first stage that may rewrite the line, and the engine still builds its own pipeline from the whole stage list",
			"LP-PIPE/PV-ONCE/PV-ORDER: Pipeline.Process runs every stage in order on the previous stage's line and stops only on a drop; entryIterator.Next applies SetFromRecord -> prefilter(record.Body) -> pipeline(prefilter line), emits only under both keeps with the record's timestamp and the pipeline's line; groupEntries appends every entry once",
			"CH-EXH/ERR-NILNIL: buildStage / buildLabelPredicate handle every stage and predicate type or fail; no builder returns (nil, nil)",
			"FE-BOOL distinct: a record lacking a listed label is kept, a repeated value drops it, unseen values are remembered, the line is unchanged; LP-ERRPATH: unpack / line_format return the input line when they fail; LP-OFFLOAD provenance: only the selector's own matchers travel as selector matchers; PV-WHOLE: no index loop deletes from the slice it walks while advancing",
			"CH-MAP GetFloat: integer and double labels convert without error; PV-FRESH: every JSON document is walked from an empty path stack",
			"ERR-LOOP extractor scan loops run to the end of the line; PV-API Docker labels are stored under KeyToLabel(key) (what an offloaded matcher looks up)",
			"PV-PURE LabelSet read accessors do not write the label map",
			"merge iterator rules of C04 (every non-empty stream contributes its first record, nothing else)",
			"PV-API pattern literals are consumed as prefixes; KeyToLabel class table (C20)",
			"PV-API IsValidLabel (which packed fields unpack accepts)",
			"PV-ALIAS label values are not rewritten in place; record bodies own their bytes",
			"PV-API duration label values are converted with time.ParseDuration (a value in another syntax is a conversion failure: kept with __error__); PV-PURE parser stages only write the label set (an extracted field overwrites an existing label)",
		},
		NotDecided: []string{"library semantics of strings.Contains / regexp / netip", "that the storage evaluates offloaded filters correctly (the engine re-checks them, so only completeness of the storage matters: C02)"},
		Technique:  "SSA summary/typestate analysis of the Processor implementers (line/keep contract), enum-table chain extraction over feasible paths from parser tokens to built matchers, finite-case truth tables, dominance and path rules on the offload scan and the per-record pipeline",
		Rules: func(r *Run) {
			ruleIPScanStarts(r)
			ruleSetClearedPerRecord(r)
			ruleLPClass(r, nil)
			ruleLPDrop(r)
			ruleCHParseOps(r)
			ruleCHParseSites2(r)
			ruleCHBuilders(r)
			ruleMatcherBodies(r)
			ruleAndOr(r)
			ruleLPOffload(r)
			ruleMatcherLoop(r)
			ruleValueStrGuarded(r)
			ruleDockerMatch(r)
			ruleFetchContainers(r)
			ruleLPPipe(r)
			ruleGroupEntries(r)
			ruleTypeSwitchExhaustive(r, enginePkg, "", "buildStage", logqlPkg, "PipelineStage", 13, false)
			ruleTypeSwitchExhaustive(r, enginePkg, "", "buildLabelPredicate", logqlPkg, "LabelPredicate", 7, false)
			ruleNilNil(r, []string{enginePkg}, map[string]string{})
			ruleLineFilterBuilder(r)
			ruleErrorPathKeepsLine(r, []string{"DurationLabelFilter", "BytesLabelFilter", "NumberLabelFilter", "IPLabelFilter", "JSONExtractor", "LogfmtExtractor", "UnpackExtractor", "LineFormat"}) // "unless a formatting stage rewrote it, its original line": a stage that fails leaves the line alone
			ruleDistinct(r)
			ruleIndexLoopDeletion(r, []string{metricPkg, enginePkg, dockerlogPkg})
			ruleOffloadProvenance(r)
			ruleGetFloatKinds(r)
			ruleJSONPathStateFresh(r)
			ruleExtractorErrors(r) // the labels a later filter reads: an extractor visits the whole line
			ruleSanitiserSites(r)  // an offloaded matcher addresses a Docker label under its sanitised name
			ruleLabelSetReadersPure(r)
			ruleMergeIter(r) // no phantom or lost records between the containers and the pipeline
			rulePatternLiteralAnchored(r)
			ruleKeyToLabel(r)                                                // a filter on a sanitised name finds the label the extractor stored
			ruleIdentPredicates(r)                                           // unpack keeps a line packed when it rejects a field name
			ruleNoInPlaceValueMutation(r, []string{enginePkg, metricPkg}, 2) // a selector label that a stage rewrites in place changes for the later records
			ruleNoUnsafeStrings(r, []string{enginePkg, dockerlogPkg})
			ruleDaemonLog(r)
			ruleLabelDurationGoSyntax(r)
			ruleExtractorsWriteOnly(r)
		},
	})
}
