package main

func init() {
	register(&PropSpec{
		ID:          "C19",
		Technique:   "SSA summaries of filter processors (line unchanged, keep semantics), negation-sibling extraction from the matcher builders, truth tables of and/or, effect summaries",
		Explanation: "Decides the structural clauses behind the filter algebra for all data: filters never change the line they keep (sub-multiset), a negated operator builds NotMatcher over the same positive matcher and NotMatcher.Match is `!` (partition), and/or keep iff both/either and the line survives or, string-matcher filters have no side effects (commutation/idempotence), each stage runs once per record.",
		Decided: []string{
			"FE-CLASS: ip() scan starts (shared with C01)",
			"LP-CLASS: every filter stage returns its input line whenever it keeps the record",
			"CH-POL / CH-MAP: OpNotEq/OpNotRe build NotMatcher[positive matcher] with the same arguments, for line, label and ip matchers; NotMatcher.Match negates; the four matcher bodies apply the operator to (subject, pattern)",
			"FE-BOOL + LP-DROP: And keeps iff both, Or iff either; the right operand sees the input line or a kept line",
			"EFFECT: LineFilter, LabelMatcher and the string/ip matchers write neither receiver nor label set; typed label filters write only SetError; DistinctFilter is stateful (excluded by the property's wording)",
			"LP-PIPE: one Process call per stage per record",
			"LP-OFFLOAD provenance: a pipeline label filter is never offloaded as selector matcher",
			"CH-MAP GetFloat kinds; LP-BUILD: a stage is not wrapped between its builder and the pipeline",
			"label and line regexps with the same text stay different matchers; the engine evaluates every written filter stage",
			"PV-PURE LabelSet read accessors do not write the label map; groupEntries keeps every entry (no de-duplication), deterministic",
			"LP-ERRPATH: every stage that flags __error__ (typed label filters, extractors, line_format) returns the unchanged line, kept, on its failing paths",
			"CH-MAP builder tables incl. and/or predicate; templates are compiled per stage instance",
			"labels are cleared per record; limit plumbing",
			"CH-MAP the docker storage declares no line-filter capability (|= and != are decided by the engine on the record body)",
		},
		NotDecided: []string{"strings.Contains(s, \"\") being true (library semantics)", "regexp engine semantics"},
		Rules: func(r *Run) {
			ruleIPScanStarts(r)
			ruleValueStrGuarded(r)
			ruleLPClass(r, func(s string) bool {
				return s == "LineFilter" || s == "LabelFilter" || s == "DistinctFilter" || s == "AndLabelMatcher" || s == "OrLabelMatcher" || s == "Pipeline"
			})
			ruleLPDrop(r)
			for _, s := range builderSites() {
				runCHSite(r, s)
			}
			ruleMatcherBodies(r)
			ruleAndOr(r)
			ruleLPPipe(r)
			ruleFilterEffects(r)
			ruleLineFilterBuilder(r)
			ruleOffloadProvenance(r)
			ruleGetFloatKinds(r)
			ruleLabelRegexAnchoring(r) // a label regexp and a line regexp with the same text stay two different matchers
			ruleLPOffload(r)           // every written filter stage is evaluated: the engine builds its pipeline from the whole stage list
			ruleLabelSetReadersPure(r)
			ruleGroupEntries(r)
			ruleMO(r, 10, "LabelSet", "groupEntries", "Engine).Eval")
			ruleErrorPathKeepsLine(r, []string{"DurationLabelFilter", "BytesLabelFilter", "NumberLabelFilter", "IPLabelFilter", "JSONExtractor", "LogfmtExtractor", "UnpackExtractor", "LineFormat"}) // a filter that cannot read a value keeps the record (flagged), whatever the comparison
			ruleCHBuilders(r)
			ruleTemplatePerStage(r)
			ruleTemplateBinding(r)
			ruleSetClearedPerRecord(r)
			ruleLimit(r)
			ruleDockerMatch(r) // the storage advertises label capabilities only: line filters are evaluated by the engine, on the message
		},
	})
}
