package main

// LP – processor line/keep contract.

import (
	"fmt"
	"go/constant"
	"go/types"
	"sort"

	"golang.org/x/tools/go/ssa"
)

const enginePkg = "internal/logql/logqlengine"
const logqlPkg = "internal/logql"

// lineKind classifies the `line` result of one return of a Process method.
type lineKind int

const (
	lineParam lineKind = iota // the line parameter, unchanged
	lineInner                 // line result of an inner Process call
	lineConst                 // a constant (typically "")
	lineOther                 // anything else: may rewrite
)

func (k lineKind) String() string {
	return [...]string{"Param", "Inner", "Const", "Other"}[k]
}

type keepKind int

const (
	keepTrue keepKind = iota
	keepFalse
	keepInner // keep result of an inner Process call
	keepDyn
)

func (k keepKind) String() string { return [...]string{"true", "false", "inner", "dynamic"}[k] }

type lpReturn struct {
	Ret       *ssa.Return
	Line      lineKind
	LineVal   ssa.Value
	LineCall  *ssa.Call // for lineInner
	Keep      keepKind
	KeepCall  *ssa.Call
	KeepVal   ssa.Value
	CalledSet bool // SetError called on some dominating path
}

type lpSummary struct {
	Fn      *ssa.Function
	Type    string
	Returns []lpReturn
}

// processorMethods enumerates every first-party method whose signature is
// that of logqlengine.Processor.Process.
func processorMethods(p *Program) (map[string]*ssa.Function, *types.Signature) {
	iface := p.NamedType(enginePkg, "Processor")
	if iface == nil {
		return nil, nil
	}
	it, ok := iface.Underlying().(*types.Interface)
	if !ok || it.NumMethods() != 1 {
		return nil, nil
	}
	want := it.Method(0).Type().(*types.Signature)
	out := map[string]*ssa.Function{}
	for _, pkg := range p.First {
		scope := pkg.Types.Scope()
		for _, name := range scope.Names() {
			tn, ok := scope.Lookup(name).(*types.TypeName)
			if !ok || tn.IsAlias() {
				continue
			}
			named, ok := tn.Type().(*types.Named)
			if !ok {
				continue
			}
			for i := 0; i < named.NumMethods(); i++ {
				m := named.Method(i)
				if m.Name() != it.Method(0).Name() {
					continue
				}
				sig := m.Type().(*types.Signature)
				if sameParamsResults(sig, want) {
					if fn := p.SSA.FuncValue(m); fn != nil && fn.Blocks != nil {
						out[name] = fn
					}
				}
			}
		}
	}
	return out, want
}

func sameParamsResults(a, b *types.Signature) bool {
	if a.Params().Len() != b.Params().Len() || a.Results().Len() != b.Results().Len() {
		return false
	}
	for i := 0; i < a.Params().Len(); i++ {
		if !types.Identical(a.Params().At(i).Type(), b.Params().At(i).Type()) {
			return false
		}
	}
	for i := 0; i < a.Results().Len(); i++ {
		if !types.Identical(a.Results().At(i).Type(), b.Results().At(i).Type()) {
			return false
		}
	}
	return true
}

// isProcessCall reports whether c calls a Processor.Process implementation
// (by interface or statically).
func isProcessCall(c ssa.CallInstruction, want *types.Signature) bool {
	cc := c.Common()
	if cc.IsInvoke() {
		return cc.Method.Name() == "Process" && sameParamsResults(cc.Method.Type().(*types.Signature), want)
	}
	fn := cc.StaticCallee()
	if fn == nil || fn.Signature.Recv() == nil {
		return false
	}
	name := fn.Name()
	return name == "Process" && sameParamsResults(fn.Signature, want)
}

// lineParamOf returns the `line` parameter of a Process method (params are
// recv, ts, line, set).
func lineParamOf(fn *ssa.Function) *ssa.Parameter {
	if len(fn.Params) != 4 {
		return nil
	}
	return fn.Params[2]
}

// knownFalseAt: does a dominating fact at blk make v false (true)?
func knownBoolAt(blk *ssa.BasicBlock, v ssa.Value) (val bool, known bool) {
	for _, f := range factsAt(blk) {
		if f.Cond == v {
			return f.Truth, true
		}
	}
	return false, false
}

func summarizeProcess(fn *ssa.Function, want *types.Signature) *lpSummary {
	return summarizeProcessWith(fn, want, lineParamOf(fn), 0)
}

// summarizeProcessWith: lp is the parameter that carries the input line (the Process method's
// own, or the parameter of a helper the method's result is delegated to).
func summarizeProcessWith(fn *ssa.Function, want *types.Signature, lp *ssa.Parameter, depth int) *lpSummary {
	s := &lpSummary{Fn: fn}
	for _, ret := range returnsOf(fn) {
		if len(ret.Results) != 2 {
			continue
		}
		// `return helper(.., line, ..)`: the helper's returns are this function's returns
		if c0, i0, ok0 := extractOf(ret.Results[0]); ok0 && i0 == 0 && depth < 3 && lp != nil {
			if c1, i1, ok1 := extractOf(ret.Results[1]); ok1 && i1 == 1 && c1 == c0 && !isProcessCall(c0, want) {
				if callee := staticCallee(c0); callee != nil && callee.Blocks != nil && callee != fn && pkgOfFunc(callee) == pkgOfFunc(fn) {
					var hp *ssa.Parameter
					for i, a := range c0.Call.Args {
						if (a == ssa.Value(lp) || unspill(a) == ssa.Value(lp)) && i < len(callee.Params) {
							hp = callee.Params[i]
						}
					}
					if hp != nil {
						hs := summarizeProcessWith(callee, want, hp, depth+1)
						if len(hs.Returns) > 0 {
							s.Returns = append(s.Returns, hs.Returns...)
							continue
						}
					}
				}
			}
		}
		lineLeaves := phiLeaves(ret.Results[0])
		keepLeaves := phiLeaves(ret.Results[1])
		for _, lv := range lineLeaves {
			for _, kv := range keepLeaves {
				r := lpReturn{Ret: ret, LineVal: lv, KeepVal: kv}
				switch {
				case lv == ssa.Value(lp):
					r.Line = lineParam
				default:
					if c, idx, ok := extractOf(lv); ok && idx == 0 && isProcessCall(c, want) {
						r.Line = lineInner
						r.LineCall = c
						// a static callee that returns its own line parameter, fed with our
						// line parameter, yields our line parameter.
						if callee := c.Common().StaticCallee(); callee != nil && callee != fn && callee.Blocks != nil {
							args := callArgs(c)
							if len(args) == 3 && args[1] == ssa.Value(lp) && returnsOnlyParamLine(callee, want) {
								r.Line = lineParam
							}
						}
					} else if _, ok := constOf(lv); ok {
						r.Line = lineConst
					} else {
						r.Line = lineOther
					}
				}
				switch {
				case isConstBool(kv, true):
					r.Keep = keepTrue
				case isConstBool(kv, false):
					r.Keep = keepFalse
				default:
					if b, known := knownBoolAt(ret.Block(), kv); known {
						if b {
							r.Keep = keepTrue
						} else {
							r.Keep = keepFalse
						}
					} else if c, idx, ok := extractOf(kv); ok && idx == 1 && isProcessCall(c, want) {
						r.Keep = keepInner
						r.KeepCall = c
					} else {
						r.Keep = keepDyn
					}
				}
				s.Returns = append(s.Returns, r)
			}
		}
	}
	return s
}

func returnsOnlyParamLine(fn *ssa.Function, want *types.Signature) bool {
	s := summarizeProcess(fn, want)
	if len(s.Returns) == 0 {
		return false
	}
	for _, r := range s.Returns {
		if r.Line != lineParam {
			return false
		}
	}
	return true
}

// Stage classes by AST stage type (LogQL semantics, DESIGN Appendix B).
type stageClass int

const (
	classFilter         stageClass = iota // may drop; never changes the line
	classKeepAllParam                     // never drops, never changes the line
	classKeepAllRewrite                   // never drops, may rewrite the line
)

func (c stageClass) String() string {
	return [...]string{"filter(line unchanged, may drop)", "keeps every line unchanged", "keeps every line, may rewrite it"}[c]
}

var stageClasses = map[string]stageClass{
	"LineFilter":             classFilter,
	"LabelFilter":            classFilter,
	"DistinctFilter":         classFilter,
	"JSONExpressionParser":   classKeepAllParam,
	"LogfmtExpressionParser": classKeepAllParam,
	"RegexpLabelParser":      classKeepAllParam,
	"PatternLabelParser":     classKeepAllParam,
	"LabelFormatExpr":        classKeepAllParam,
	"DropLabelsExpr":         classKeepAllParam,
	"KeepLabelsExpr":         classKeepAllParam,
	"UnpackLabelParser":      classKeepAllRewrite,
	"LineFormat":             classKeepAllRewrite,
	"DecolorizeExpr":         classKeepAllRewrite,
}

// builtTypes computes the set of concrete named types that can flow into
// result #0 of builder function fn, following static callees that return the
// same interface. Unresolvable flows are returned in `unknown`.
func builtTypes(fn *ssa.Function, seen map[*ssa.Function]bool) (typs map[string]types.Type, unknown []string) {
	typs = map[string]types.Type{}
	if seen[fn] {
		return typs, nil
	}
	seen[fn] = true
	for _, ret := range returnsOf(fn) {
		if len(ret.Results) == 0 {
			continue
		}
		for _, lv := range phiLeaves(ret.Results[0]) {
			lv2 := lv
			if isNilConst(lv2) {
				continue
			}
			switch x := lv2.(type) {
			case *ssa.MakeInterface:
				typs[typeKey(x.X.Type())] = x.X.Type()
			case *ssa.Extract:
				if c, ok := x.Tuple.(*ssa.Call); ok && x.Index == 0 {
					if callee := c.Common().StaticCallee(); callee != nil && callee.Blocks != nil {
						t2, u2 := builtTypes(callee, seen)
						for k, v := range t2 {
							typs[k] = v
						}
						unknown = append(unknown, u2...)
						continue
					}
				}
				unknown = append(unknown, fmt.Sprintf("%s: %s", shortFuncName(fn), lv2.String()))
			case *ssa.Call:
				// a constructor: a static callee, a local function variable, or an entry of a package-level
				// table of functions looked up by key (then every entry may be the one)
				var callees []*ssa.Function
				if callee := staticCallee(x); callee != nil && callee.Blocks != nil {
					callees = append(callees, callee)
				} else if !x.Call.IsInvoke() && curProg != nil {
					var lk *ssa.Lookup
					switch y := x.Call.Value.(type) {
					case *ssa.Extract:
						lk, _ = y.Tuple.(*ssa.Lookup)
					case *ssa.Lookup:
						lk = y
					}
					if lk != nil {
						if u, ok := lk.X.(*ssa.UnOp); ok {
							if g, ok := u.X.(*ssa.Global); ok {
								var keys []string
								ft := curProg.funcTable(g)
								for k := range ft {
									keys = append(keys, k)
								}
								sort.Strings(keys)
								for _, k := range keys {
									if ft[k] != nil && ft[k].Blocks != nil {
										callees = append(callees, ft[k])
									}
								}
							}
						}
					}
				}
				if len(callees) == 0 {
					unknown = append(unknown, fmt.Sprintf("%s: %s", shortFuncName(fn), lv2.String()))
					continue
				}
				for _, callee := range callees {
					t2, u2 := builtTypes(callee, seen)
					for k, v := range t2 {
						typs[k] = v
					}
					unknown = append(unknown, u2...)
				}
			case *ssa.Global:
				unknown = append(unknown, "global "+x.Name())
			case *ssa.UnOp:
				// load of a package-level var such as NopProcessor
				if g, ok := x.X.(*ssa.Global); ok {
					typs["global:"+globalName(g)] = g.Type()
					continue
				}
				unknown = append(unknown, fmt.Sprintf("%s: %s", shortFuncName(fn), lv2.String()))
			default:
				unknown = append(unknown, fmt.Sprintf("%s: %s", shortFuncName(fn), lv2.String()))
			}
		}
	}
	return typs, unknown
}

func typeKey(t types.Type) string {
	if n := namedOf(t); n != nil {
		return canonName(n.Obj())
	}
	return types.TypeString(t, nil)
}

// typeSwitchArms extracts, from a function whose body is a type switch over
// its parameter, the relation  asserted type name -> static callees invoked
// on that arm with the asserted value (first call in the arm block chain).
type tsArm struct {
	TypeName string
	Block    *ssa.BasicBlock // block entered when the assertion holds
	Assert   *ssa.TypeAssert
}

func typeSwitchArms(fn *ssa.Function, on ssa.Value) []tsArm {
	var arms []tsArm
	allInstrs(fn, func(in ssa.Instruction) {
		ta, ok := in.(*ssa.TypeAssert)
		if !ok || !ta.CommaOk {
			return
		}
		if stripTypeOnly(ta.X) != on && ta.X != on {
			return
		}
		// find the If on Extract #1
		var okVal ssa.Value
		for _, r := range *ta.Referrers() {
			if e, ok := r.(*ssa.Extract); ok && e.Index == 1 {
				okVal = e
			}
		}
		if okVal == nil {
			return
		}
		for _, r := range *okVal.Referrers() {
			if ifi, ok := r.(*ssa.If); ok {
				arms = append(arms, tsArm{TypeName: typeKey(ta.AssertedType), Block: ifi.Block().Succs[0], Assert: ta})
			}
		}
	})
	return arms
}

// stageBuilders maps each AST stage type name to the processor types its
// buildStage arm can produce.
func stageBuilders(r *Run) (map[string]map[string]types.Type, bool) {
	p := r.P
	fn := p.Func(enginePkg, "buildStage")
	ob := r.Ob("ANCHOR", "logqlengine.buildStage", "anchor function resolves")
	if fn == nil || len(fn.Params) != 1 {
		ob.Fail("-", "function logqlengine.buildStage not found")
		return nil, false
	}
	ob.OK("resolved").At(r.pos(fn.Pos()))
	ob.Trivial = true
	out := map[string]map[string]types.Type{}
	arms := typeSwitchArms(fn, fn.Params[0])
	for _, arm := range arms {
		// the arm block returns the result of a static call
		typs := map[string]types.Type{}
		var unknown []string
		found := false
		for _, in := range arm.Block.Instrs {
			c, ok := in.(*ssa.Call)
			if !ok {
				continue
			}
			callee := c.Common().StaticCallee()
			if callee == nil || callee.Blocks == nil {
				continue
			}
			if callee.Signature.Results().Len() != 2 {
				continue
			}
			found = true
			t2, u2 := builtTypes(callee, map[*ssa.Function]bool{})
			for k, v := range t2 {
				typs[k] = v
			}
			unknown = append(unknown, u2...)
		}
		o := r.Ob("LP-BUILD", "buildStage["+arm.TypeName+"]", "the processor types built for this stage are statically known")
		// the stage's processor is what its builder returned: buildStage does not put anything
		// of its own between the pipeline and the stage (a wrapper changes when the stage's
		// verdict counts)
		wrapped := ""
		seenB := map[*ssa.BasicBlock]bool{}
		var scan func(b *ssa.BasicBlock)
		scan = func(b *ssa.BasicBlock) {
			if seenB[b] || wrapped != "" {
				return
			}
			seenB[b] = true
			for _, in := range b.Instrs {
				if ta, ok := in.(*ssa.TypeAssert); ok && ta.CommaOk && b != arm.Block {
					return // next arm of the switch
				}
				if ret, ok := in.(*ssa.Return); ok && len(ret.Results) == 2 {
					for _, lv := range phiLeaves(ret.Results[0]) {
						if isNilConst(lv) {
							continue
						}
						if _, _, ok := extractOf(lv); ok {
							continue
						}
						if mi, ok := lv.(*ssa.MakeInterface); ok && found {
							wrapped = typeKey(mi.X.Type())
						}
					}
				}
			}
			for _, s2 := range b.Succs {
				scan(s2)
			}
		}
		scan(arm.Block)
		if wrapped != "" {
			o.Fail(r.pos(arm.Assert.Pos()), "buildStage calls the stage's builder but returns a %s of its own: the stage's processor is wrapped, so its verdict no longer decides alone", wrapped)
			continue
		}
		if !found || len(unknown) > 0 || len(typs) == 0 {
			o.Undecide(r.pos(arm.Assert.Pos()), "cannot resolve built processor types (found=%v unknown=%v)", found, unknown)
			continue
		}
		var names []string
		for k := range typs {
			names = append(names, k)
		}
		sort.Strings(names)
		o.OK("builds %v", names).At(r.pos(arm.Assert.Pos()))
		out[arm.TypeName] = typs
	}
	return out, true
}

// ruleLPClass checks every processor type against the class of the stage(s)
// that build it.
func ruleLPClass(r *Run, only func(stage string) bool) {
	p := r.P
	procs, want := processorMethods(p)
	ob := r.Ob("ANCHOR", "logqlengine.Processor", "Processor interface and its implementers resolve")
	if want == nil || len(procs) < 20 {
		ob.Fail("-", "Processor interface not found or implementer count %d below the confirmed floor 20", len(procs))
		return
	}
	ob.OK("%d implementers", len(procs))
	ob.Trivial = true
	r.count("processor_implementers", len(procs))
	builders, ok := stageBuilders(r)
	if !ok {
		return
	}
	stages := make([]string, 0, len(builders))
	for s := range builders {
		stages = append(stages, s)
	}
	sort.Strings(stages)
	for _, stage := range stages {
		if only != nil && !only(stage) {
			continue
		}
		class, known := stageClasses[stage]
		if !known {
			r.Notes = append(r.Notes, "LP-CLASS: stage type "+stage+" has no class in the table; only the generic rules apply")
			continue
		}
		var tnames []string
		for t := range builders[stage] {
			tnames = append(tnames, t)
		}
		sort.Strings(tnames)
		for _, tname := range tnames {
			fn := procs[tname]
			o := r.Ob("LP-CLASS", stage+"->"+tname+".Process", "stage "+stage+" "+class.String())
			if fn == nil {
				o.Undecide("-", "no Process method found for built type %s", tname)
				continue
			}
			checkClass(r, o, fn, want, class)
		}
	}
	// stand-alone processors
	for _, extra := range []struct {
		name  string
		class stageClass
	}{{"nopProcessor", classKeepAllParam}, {"Pipeline", classFilter}, {"AndLabelMatcher", classFilter}, {"OrLabelMatcher", classFilter}} {
		if only != nil && !only(extra.name) {
			continue
		}
		fn := procs[extra.name]
		o := r.Ob("LP-CLASS", extra.name+".Process", extra.name+" "+extra.class.String())
		if fn == nil {
			o.Fail("-", "type %s with a Process method not found", extra.name)
			continue
		}
		checkClass(r, o, fn, want, extra.class)
	}
}

func checkClass(r *Run, o *Obligation, fn *ssa.Function, want *types.Signature, class stageClass) {
	s := summarizeProcess(fn, want)
	r.count("process_returns", len(s.Returns))
	if len(s.Returns) == 0 {
		o.Undecide(r.pos(fn.Pos()), "no return found")
		return
	}
	o.At(r.pos(fn.Pos()))
	okCount := 0
	for _, ret := range s.Returns {
		pos := r.pos(ret.Ret.Pos())
		switch class {
		case classFilter:
			// keep==false: any line (LP-DROP covers misuse). Otherwise the line must be the
			// parameter or the paired result of an inner Process call.
			if ret.Keep == keepFalse {
				okCount++
				continue
			}
			switch ret.Line {
			case lineParam:
				okCount++
			case lineInner:
				if ret.Keep == keepInner && ret.KeepCall == ret.LineCall {
					okCount++
				} else if b, known := knownBoolAt(ret.Ret.Block(), innerKeep(ret.LineCall)); known && b {
					okCount++
				} else if ret.Keep == keepTrue && lineGuardedByKeep(ret.Ret.Results[0], ret.LineVal, ret.LineCall) {
					okCount++
				} else {
					o.Fail(pos, "returns the line of an inner Process call without its keep result (keep=%s)", ret.Keep)
				}
			default:
				o.Fail(pos, "a filter returns a line that is not its input (%s: %s) while keep may be true (keep=%s)", ret.Line, ret.LineVal, ret.Keep)
			}
		case classKeepAllParam:
			if ret.Keep != keepTrue {
				o.Fail(pos, "keep result is %s (%s), must be constant true: the stage may drop a line", ret.Keep, ret.KeepVal)
				continue
			}
			if ret.Line != lineParam {
				o.Fail(pos, "line result is %s (%s), must be the unchanged input line", ret.Line, ret.LineVal)
				continue
			}
			okCount++
		case classKeepAllRewrite:
			if ret.Keep != keepTrue {
				o.Fail(pos, "keep result is %s (%s), must be constant true: the stage may drop a line", ret.Keep, ret.KeepVal)
				continue
			}
			okCount++
		}
	}
	if o.Status != Violated {
		o.OK("%d return(s) conform: %s", okCount, summarizeReturns(s))
	}
}

func summarizeReturns(s *lpSummary) string {
	out := ""
	for i, r := range s.Returns {
		if i > 0 {
			out += ", "
		}
		out += "(" + r.Line.String() + "," + r.Keep.String() + ")"
	}
	return out
}

func innerKeep(c *ssa.Call) ssa.Value {
	if c == nil {
		return nil
	}
	for _, r := range *c.Referrers() {
		if e, ok := r.(*ssa.Extract); ok && e.Index == 1 {
			return e
		}
	}
	return nil
}

func innerLine(c *ssa.Call) ssa.Value {
	if c == nil {
		return nil
	}
	for _, r := range *c.Referrers() {
		if e, ok := r.(*ssa.Extract); ok && e.Index == 0 {
			return e
		}
	}
	return nil
}

// lineGuardedByKeep: `root` is a phi tree; leaf is the Extract#0 of call.
// The leaf is guarded if at every phi edge through which it enters, the
// predecessor block carries the fact keep(call)==true.
func lineGuardedByKeep(root ssa.Value, leaf ssa.Value, call *ssa.Call) bool {
	k := innerKeep(call)
	if k == nil {
		return false
	}
	ok := true
	found := false
	seen := map[ssa.Value]bool{}
	var walk func(v ssa.Value)
	walk = func(v ssa.Value) {
		if seen[v] {
			return
		}
		seen[v] = true
		phi, isPhi := v.(*ssa.Phi)
		if !isPhi {
			return
		}
		for i, e := range phi.Edges {
			if e == leaf {
				found = true
				pred := phi.Block().Preds[i]
				if !factHoldsOnEdge(pred, phi.Block(), k, true) {
					ok = false
				}
			} else {
				walk(e)
			}
		}
	}
	walk(root)
	return found && ok
}

// factHoldsOnEdge: cond==truth holds whenever control takes pred->succ.
func factHoldsOnEdge(pred, succ *ssa.BasicBlock, cond ssa.Value, truth bool) bool {
	if f, ok := edgeFact(pred, succ); ok {
		f = normFact(f)
		if f.Cond == cond && f.Truth == truth {
			return true
		}
	}
	for _, f := range factsAt(pred) {
		if f.Cond == cond && f.Truth == truth {
			return true
		}
	}
	return false
}

// ruleLPDrop: the line result of an inner Process call flows on only under
// that call's keep==true (or paired with it in the same return).
func ruleLPDrop(r *Run) {
	p := r.P
	procs, want := processorMethods(p)
	if want == nil {
		r.Ob("ANCHOR", "logqlengine.Processor", "Processor interface resolves").Fail("-", "not found")
		return
	}
	// does any implementer return (non-param line, false)?  Then a rejected
	// line is observable garbage and must not flow on.
	var garbage []string
	names := make([]string, 0, len(procs))
	for n := range procs {
		names = append(names, n)
	}
	sort.Strings(names)
	for _, n := range names {
		s := summarizeProcess(procs[n], want)
		for _, ret := range s.Returns {
			if ret.Keep == keepFalse && (ret.Line == lineConst || ret.Line == lineOther) {
				garbage = append(garbage, n)
				break
			}
		}
	}
	// every function that calls Process
	nCalls := 0
	for _, fn := range p.SrcFuncs() {
		for _, c := range callsIn(fn) {
			call, ok := c.(*ssa.Call)
			if !ok || !isProcessCall(call, want) {
				continue
			}
			nCalls++
			L := innerLine(call)
			K := innerKeep(call)
			construct := shortFuncName(fn) + " call " + calleeName(call) + "#" + fmt.Sprint(callOrdinal(fn, call, want))
			o := r.Ob("LP-DROP", construct, "the line returned by an inner Process call is used only when that call kept the record")
			o.At(r.pos(call.Pos()))
			if L == nil {
				o.OK("line result unused")
				continue
			}
			if callee := call.Common().StaticCallee(); callee != nil {
				// static callee that always keeps: its line is always meaningful
				s := summarizeProcess(callee, want)
				allTrue := len(s.Returns) > 0
				for _, ret := range s.Returns {
					if ret.Keep != keepTrue {
						allTrue = false
					}
				}
				if allTrue {
					o.OK("static callee always keeps")
					continue
				}
			}
			bad := unguardedUses(L, K, call)
			if len(bad) > 0 && pathGuardedUses(fn, call, L, K) {
				// second derivation: on every path each use of the line happens where this call kept the record
				o.OK("on every path the line result is used only where this call's keep result is true")
				continue
			}
			if len(bad) == 0 {
				o.OK("every use of the line result is paired with or guarded by the keep result")
				continue
			}
			if len(garbage) == 0 {
				o.OK("line result used unguarded at %v, but every implementer returns its input line on reject, so the flow is harmless", posList(r, bad))
				continue
			}
			o.Fail(r.pos(bad[0].Pos()), "line result of %s flows on without a keep==true guard while implementers %v return a non-input line on reject", calleeName(call), garbage)
			for _, b := range bad {
				o.WithPath(r.pos(b.Pos()) + ": " + b.String())
			}
		}
	}
	r.count("process_call_sites", nCalls)
	ob := r.Ob("LP-DROP", "inventory", "at least the confirmed number of inner Process call sites is analysed")
	ob.Check(nCalls >= 8, "-", fmt.Sprintf("%d call sites", nCalls), fmt.Sprintf("only %d Process call sites found, floor is 8", nCalls))
	ob.Trivial = true
}

func posList(r *Run, ins []ssa.Instruction) []string {
	var out []string
	for _, i := range ins {
		out = append(out, r.pos(i.Pos()))
	}
	return out
}

func callOrdinal(fn *ssa.Function, call *ssa.Call, want *types.Signature) int {
	n := 0
	for _, c := range callsIn(fn) {
		if cc, ok := c.(*ssa.Call); ok && isProcessCall(cc, want) {
			if cc == call {
				return n
			}
			n++
		}
	}
	return -1
}

// unguardedUses returns the uses of L (transitively through phis) that are
// neither paired with K in a return nor dominated by K==true.
func unguardedUses(L, K ssa.Value, call *ssa.Call) []ssa.Instruction {
	var bad []ssa.Instruction
	type item struct {
		v ssa.Value
	}
	seen := map[ssa.Value]bool{}
	var visit func(v ssa.Value)
	guardedAt := func(b *ssa.BasicBlock) bool {
		if K == nil {
			return false
		}
		for _, f := range factsAt(b) {
			if f.Cond == K && f.Truth {
				return true
			}
		}
		return false
	}
	visit = func(v ssa.Value) {
		if seen[v] {
			return
		}
		seen[v] = true
		refs := v.Referrers()
		if refs == nil {
			return
		}
		for _, ref := range *refs {
			switch x := ref.(type) {
			case *ssa.DebugRef:
				continue
			case *ssa.Phi:
				// checked at the predecessor edge
				okAll := true
				for i, e := range x.Edges {
					if e != v {
						continue
					}
					pred := x.Block().Preds[i]
					if !(K != nil && factHoldsOnEdge(pred, x.Block(), K, true)) {
						okAll = false
					}
				}
				if !okAll {
					// the phi merges a possibly-rejected line: follow it, uses must be guarded
					visit(x)
				}
			case *ssa.Return:
				if guardedAt(x.Block()) {
					continue
				}
				// paired with K in the same return?
				if len(x.Results) == 2 {
					paired := true
					for _, kv := range phiLeaves(x.Results[1]) {
						if kv == K {
							continue
						}
						if isConstBool(kv, false) {
							continue
						}
						paired = false
					}
					if b, known := knownBoolAt(x.Block(), x.Results[1]); known && !b {
						paired = true
					}
					if paired && K != nil {
						continue
					}
				}
				bad = append(bad, x)
			default:
				if guardedAt(ref.Block()) {
					continue
				}
				bad = append(bad, ref)
			}
		}
	}
	visit(L)
	return bad
}

// pathGuardedUses decides LP-DROP on paths: wherever the line result L of the call is used on a
// path through fn (stored, passed on, or returned), the keep result K of the same call is true on
// that path - or L is returned together with K itself. It resolves values that reach the use
// through phis (line, keep := a(); if keep { line, keep = b() }; if !keep { return }; use(line)).
func pathGuardedUses(fn *ssa.Function, call *ssa.Call, L, K ssa.Value) bool {
	if L == nil || K == nil {
		return false
	}
	w := &feWalker{Fn: fn, MaxPath: 20000}
	ends := w.Run()
	if w.Aborted || len(ends) == 0 {
		return false
	}
	for _, e := range ends {
		kTrue, kKnown := false, false
		for _, f := range e.State.free {
			f = normFact(f)
			if f.Cond == K {
				kTrue, kKnown = f.Truth, true
			}
		}
		callSeq := -1
		for _, c := range e.State.calls {
			if c.Call == ssa.CallInstruction(call) {
				callSeq = c.Seq
			}
		}
		if callSeq < 0 {
			continue
		}
		used := false
		for _, st := range e.State.stores {
			if st.Seq > callSeq && (st.Val.V == L || st.Store.Val == L) {
				used = true
			}
		}
		for _, c := range e.State.calls {
			if c.Seq <= callSeq {
				continue
			}
			for _, a := range c.Args {
				if a.V == L {
					used = true
				}
			}
		}
		retPaired := false
		if ret, ok := e.Term.(*ssa.Return); ok {
			for i, res := range e.Results {
				if res.V == L || (i < len(ret.Results) && ret.Results[i] == L) {
					// returned: fine when the keep result returned with it is K itself or known false/true consistently
					paired := false
					for j, r2 := range e.Results {
						if j != i && (r2.V == K || (r2.Known && kKnown && constant.BoolVal(r2.C) == kTrue)) {
							paired = true
						}
					}
					if paired {
						retPaired = true
					} else {
						used = true
					}
				}
			}
		}
		_ = retPaired
		if used && !(kKnown && kTrue) {
			return false
		}
	}
	return true
}
