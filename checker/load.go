package main

import (
	"fmt"
	"go/ast"
	"go/constant"
	"go/token"
	"go/types"
	"os"
	"sort"
	"strings"
	"sync"

	"golang.org/x/tools/go/callgraph"
	"golang.org/x/tools/go/callgraph/cha"
	"golang.org/x/tools/go/callgraph/vta"
	"golang.org/x/tools/go/packages"
	"golang.org/x/tools/go/ssa"
	"golang.org/x/tools/go/ssa/ssautil"
)

const modPath = "github.com/tdakkota/docker-logql"

// BuildConfig is one build configuration of /repo that the rules are run on.
type BuildConfig struct {
	Name string
	Env  []string
	Tags string
}

var defaultConfig = BuildConfig{Name: "linux/amd64"}

var extraConfigs = []BuildConfig{
	{Name: "linux/amd64,purego", Tags: "purego"},
	{Name: "linux/386", Env: []string{"GOARCH=386"}},
}

// Program is the loaded, type-checked and SSA-built program.
type Program struct {
	Config   BuildConfig
	RepoDir  string
	Fset     *token.FileSet
	Pkgs     []*packages.Package // all packages (first-party + deps), sorted by path
	First    []*packages.Package // first-party, non-test
	ByPath   map[string]*packages.Package
	SSA      *ssa.Program
	SSAPkgs  map[string]*ssa.Package
	allBuilt bool

	cgOnce sync.Once
	cg     *callgraph.Graph

	srcFuncsOnce sync.Once
	srcFuncs     []*ssa.Function // first-party functions incl. anonymous ones

	tables       map[*ssa.Global]map[string]constant.Value
	tablesOK     map[*ssa.Global]bool
	arrays       map[*ssa.Global]map[int64]constant.Value
	arraysLen    map[*ssa.Global]int64
	arraysOK     map[*ssa.Global]bool
	presenceOnly map[*ssa.Global]map[string]bool
	funcTables   map[*ssa.Global]map[string]*ssa.Function
}

func repoDir() string {
	if d := os.Getenv("VERIF_REPO"); d != "" {
		return d
	}
	return "/repo"
}

// extraPatterns are dependency packages used as reference siblings.
var extraPatterns = []string{
	"github.com/docker/docker/pkg/stdcopy",
}

func loadProgram(cfg BuildConfig) (*Program, error) {
	dir := repoDir()
	env := append(os.Environ(),
		"GOFLAGS=-mod=mod", "GOPROXY=off", "GOSUMDB=off", "GOWORK=off", "GOTOOLCHAIN=local", "CGO_ENABLED=0")
	env = append(env, cfg.Env...)
	pcfg := &packages.Config{
		Mode:  packages.LoadAllSyntax,
		Dir:   dir,
		Env:   env,
		Tests: false,
	}
	if cfg.Tags != "" {
		pcfg.BuildFlags = []string{"-tags=" + cfg.Tags}
	}
	patterns := append([]string{"./..."}, extraPatterns...)
	initial, err := packages.Load(pcfg, patterns...)
	if err != nil {
		return nil, fmt.Errorf("packages.Load: %w", err)
	}
	if len(initial) == 0 {
		return nil, fmt.Errorf("packages.Load: zero packages")
	}
	p := &Program{Config: cfg, RepoDir: dir, ByPath: map[string]*packages.Package{}, SSAPkgs: map[string]*ssa.Package{}}
	var errs []string
	packages.Visit(initial, nil, func(pkg *packages.Package) {
		p.ByPath[pkg.PkgPath] = pkg
		p.Pkgs = append(p.Pkgs, pkg)
		if isFirstParty(pkg.PkgPath) {
			for _, e := range pkg.Errors {
				errs = append(errs, e.Error())
			}
			if pkg.IllTyped {
				errs = append(errs, pkg.PkgPath+": ill-typed")
			}
		}
	})
	if len(errs) > 0 {
		sort.Strings(errs)
		return nil, fmt.Errorf("type errors in first-party packages: %s", strings.Join(errs, "; "))
	}
	sort.Slice(p.Pkgs, func(i, j int) bool { return p.Pkgs[i].PkgPath < p.Pkgs[j].PkgPath })
	for _, pkg := range p.Pkgs {
		if isFirstParty(pkg.PkgPath) {
			p.First = append(p.First, pkg)
		}
	}
	if len(p.First) == 0 {
		return nil, fmt.Errorf("no first-party packages loaded")
	}
	p.Fset = initial[0].Fset
	prog, _ := ssautil.AllPackages(initial, ssa.InstantiateGenerics)
	p.SSA = prog
	for _, sp := range prog.AllPackages() {
		p.SSAPkgs[sp.Pkg.Path()] = sp
	}
	// Build first-party packages (and reference siblings) now; the rest lazily.
	var wg sync.WaitGroup
	for _, pkg := range p.Pkgs {
		if isFirstParty(pkg.PkgPath) || isExtra(pkg.PkgPath) {
			if sp := p.SSAPkgs[pkg.PkgPath]; sp != nil {
				wg.Add(1)
				go func() { defer wg.Done(); sp.Build() }()
			}
		}
	}
	wg.Wait()
	return p, nil
}

func isFirstParty(path string) bool {
	return path == modPath || strings.HasPrefix(path, modPath+"/")
}

func isExtra(path string) bool {
	for _, e := range extraPatterns {
		if e == path {
			return true
		}
	}
	return false
}

// BuildAll builds SSA for every package (needed for the whole-program call graph).
func (p *Program) BuildAll() {
	if p.allBuilt {
		return
	}
	p.SSA.Build()
	p.allBuilt = true
}

// CallGraph returns the whole-program VTA call graph (built once).
func (p *Program) CallGraph() *callgraph.Graph {
	p.cgOnce.Do(func() {
		p.BuildAll()
		p.cg = vta.CallGraph(ssautil.AllFunctions(p.SSA), cha.CallGraph(p.SSA))
	})
	return p.cg
}

// Pkg returns the first-party package with the given module-relative path
// ("internal/logql"), or nil.
func (p *Program) Pkg(rel string) *packages.Package {
	if rel == "" {
		return p.ByPath[modPath]
	}
	return p.ByPath[modPath+"/"+rel]
}

func (p *Program) SSAPkg(rel string) *ssa.Package {
	if strings.Contains(rel, ".") && !strings.HasPrefix(rel, "internal") && !strings.HasPrefix(rel, "cmd") {
		return p.SSAPkgs[rel]
	}
	return p.SSAPkgs[modPath+"/"+rel]
}

// Func resolves a package-level function by symbol.
func (p *Program) Func(rel, name string) *ssa.Function {
	sp := p.SSAPkg(rel)
	if sp == nil {
		return nil
	}
	if f := sp.Func(name); f != nil {
		return f
	}
	if alias, ok := renamedAlias[sp.Pkg.Path()+"||"+name]; ok {
		return sp.Func(alias)
	}
	return nil
}

// Method resolves a method by receiver type name and method name. The
// receiver may be a pointer or value receiver; for generic types the generic
// (uninstantiated) method body is returned.
func (p *Program) Method(rel, typeName, method string) *ssa.Function {
	sp := p.SSAPkg(rel)
	if sp == nil {
		return nil
	}
	obj := sp.Pkg.Scope().Lookup(typeName)
	tn, ok := obj.(*types.TypeName)
	if !ok {
		for o2, old := range renamedObj {
			if t2, isT := o2.(*types.TypeName); isT && old == typeName && t2.Pkg() == sp.Pkg {
				tn, ok = t2, true
			}
		}
	}
	if !ok {
		return nil
	}
	named, ok := tn.Type().(*types.Named)
	if !ok {
		// alias
		if a, ok2 := types.Unalias(tn.Type()).(*types.Named); ok2 {
			named = a
		} else {
			return nil
		}
	}
	for i := 0; i < named.NumMethods(); i++ {
		m := named.Method(i)
		if m.Name() == method {
			return p.SSA.FuncValue(m)
		}
	}
	// renamed since the baseline?
	for i := 0; i < named.NumMethods(); i++ {
		m := named.Method(i)
		if canonName(m) == method {
			return p.SSA.FuncValue(m)
		}
	}
	// promoted from an embedded struct?
	if sel := types.NewMethodSet(types.NewPointer(named)).Lookup(sp.Pkg, method); sel != nil && len(sel.Index()) > 1 {
		if f, ok := sel.Obj().(*types.Func); ok {
			return p.SSA.FuncValue(f)
		}
	}
	return nil
}

// NamedType resolves a named type by symbol.
func (p *Program) NamedType(rel, typeName string) *types.Named {
	sp := p.SSAPkg(rel)
	if sp == nil {
		return nil
	}
	tn, ok := sp.Pkg.Scope().Lookup(typeName).(*types.TypeName)
	if !ok {
		// renamed since the baseline?
		for obj, old := range renamedObj {
			if t2, isT := obj.(*types.TypeName); isT && old == typeName && t2.Pkg() == sp.Pkg {
				tn, ok = t2, true
			}
		}
		if !ok {
			return nil
		}
	}
	n, _ := types.Unalias(tn.Type()).(*types.Named)
	return n
}

// SrcFuncs lists all first-party functions that have bodies, including
// anonymous functions and methods; generic origins are included,
// instantiations are not (their bodies repeat the origin's).
func (p *Program) SrcFuncs() []*ssa.Function {
	p.srcFuncsOnce.Do(func() {
		seen := map[*ssa.Function]bool{}
		var add func(fn *ssa.Function)
		add = func(fn *ssa.Function) {
			if fn == nil || seen[fn] || fn.Blocks == nil {
				return
			}
			seen[fn] = true
			p.srcFuncs = append(p.srcFuncs, fn)
			for _, a := range fn.AnonFuncs {
				add(a)
			}
		}
		for _, pkg := range p.First {
			sp := p.SSAPkgs[pkg.PkgPath]
			if sp == nil {
				continue
			}
			for _, mem := range sp.Members {
				switch m := mem.(type) {
				case *ssa.Function:
					add(m)
				case *ssa.Type:
					if named, ok := m.Type().(*types.Named); ok {
						for i := 0; i < named.NumMethods(); i++ {
							add(p.SSA.FuncValue(named.Method(i)))
						}
					}
				}
			}
		}
		sort.Slice(p.srcFuncs, func(i, j int) bool {
			a, b := p.srcFuncs[i], p.srcFuncs[j]
			pa, pb := p.Fset.Position(a.Pos()), p.Fset.Position(b.Pos())
			if pa.Filename != pb.Filename {
				return pa.Filename < pb.Filename
			}
			if pa.Offset != pb.Offset {
				return pa.Offset < pb.Offset
			}
			return a.String() < b.String()
		})
	})
	return p.srcFuncs
}

// Pos renders a position relative to the repository root.
func (p *Program) Pos(pos token.Pos) string {
	if !pos.IsValid() {
		return "-"
	}
	ps := p.Fset.Position(pos)
	fn := strings.TrimPrefix(ps.Filename, p.RepoDir+"/")
	return fmt.Sprintf("%s:%d", fn, ps.Line)
}

// FuncDecl finds the AST declaration of a source function.
func (p *Program) FuncDecl(fn *ssa.Function) *ast.FuncDecl {
	if fn == nil {
		return nil
	}
	if d, ok := fn.Syntax().(*ast.FuncDecl); ok {
		return d
	}
	return nil
}

// InfoFor returns the types.Info of the package containing fn.
func (p *Program) InfoFor(fn *ssa.Function) *types.Info {
	if fn == nil || fn.Pkg == nil {
		if fn != nil && fn.Origin() != nil && fn.Origin().Pkg != nil {
			return p.ByPath[fn.Origin().Pkg.Pkg.Path()].TypesInfo
		}
		return nil
	}
	if pkg := p.ByPath[fn.Pkg.Pkg.Path()]; pkg != nil {
		return pkg.TypesInfo
	}
	return nil
}

// funcOfExpr resolves a function-valued element of a package-level table literal: a
// function literal (an anonymous function of the package initialiser) or the name of
// a declared function.
func (p *Program) funcOfExpr(pkg *packages.Package, g *ssa.Global, e ast.Expr) *ssa.Function {
	switch x := ast.Unparen(e).(type) {
	case *ast.FuncLit:
		if init := g.Pkg.Func("init"); init != nil {
			var found *ssa.Function
			var visit func(f *ssa.Function)
			visit = func(f *ssa.Function) {
				for _, a := range f.AnonFuncs {
					if a.Syntax() == ast.Node(x) {
						found = a
					}
					visit(a)
				}
			}
			visit(init)
			return found
		}
	case *ast.Ident:
		if fo, ok := pkg.TypesInfo.Uses[x].(*types.Func); ok {
			return p.SSA.FuncValue(fo)
		}
	case *ast.SelectorExpr:
		if fo, ok := pkg.TypesInfo.Uses[x.Sel].(*types.Func); ok {
			return p.SSA.FuncValue(fo)
		}
	}
	return nil
}

// funcOfInit reads a function-valued table element off the package initialiser's SSA
// (covers instantiations of generic functions, which have no single AST function).
func (p *Program) funcOfInit(g *ssa.Global, key constant.Value) *ssa.Function {
	init := g.Pkg.Func("init")
	if init == nil {
		return nil
	}
	var m ssa.Value
	allInstrs(init, func(in ssa.Instruction) {
		if st, ok := in.(*ssa.Store); ok && st.Addr == ssa.Value(g) {
			m = st.Val
		}
	})
	if m == nil {
		return nil
	}
	var out *ssa.Function
	allInstrs(init, func(in ssa.Instruction) {
		mu, ok := in.(*ssa.MapUpdate)
		if !ok || mu.Map != m {
			return
		}
		kc, ok := mu.Key.(*ssa.Const)
		if !ok || kc.Value == nil || kc.Value.ExactString() != key.ExactString() {
			return
		}
		switch v := mu.Value.(type) {
		case *ssa.Function:
			out = v
		case *ssa.MakeClosure:
			if f, ok := v.Fn.(*ssa.Function); ok && len(v.Bindings) == 0 {
				out = f
			}
		}
	})
	return out
}

// constArray returns the elements of a package-level array or slice variable that is initialised
// by a composite literal of constants (keyed or positional) and never written outside the package
// initialiser: index -> value; indexes that are not listed hold the zero value (ok reports that the
// variable is such a table, n is its length when it is an array, -1 otherwise).
func (p *Program) constArray(g *ssa.Global) (vals map[int64]constant.Value, n int64, ok bool) {
	if p.arrays == nil {
		p.arrays = map[*ssa.Global]map[int64]constant.Value{}
		p.arraysLen = map[*ssa.Global]int64{}
		p.arraysOK = map[*ssa.Global]bool{}
	}
	if okk, done := p.arraysOK[g]; done {
		return p.arrays[g], p.arraysLen[g], okk
	}
	p.arraysOK[g] = false
	if g.Pkg == nil || !isFirstParty(g.Pkg.Pkg.Path()) {
		return nil, 0, false
	}
	pt, _ := g.Type().Underlying().(*types.Pointer)
	if pt == nil {
		return nil, 0, false
	}
	length := int64(-1)
	switch t := pt.Elem().Underlying().(type) {
	case *types.Array:
		length = t.Len()
	case *types.Slice:
	default:
		return nil, 0, false
	}
	// never written outside init (element stores or whole-variable stores)
	for _, fn := range p.SrcFuncs() {
		if fn.Name() == "init" {
			continue
		}
		written := false
		allInstrs(fn, func(in ssa.Instruction) {
			st, isSt := in.(*ssa.Store)
			if !isSt {
				return
			}
			if st.Addr == ssa.Value(g) {
				written = true
			}
			if ia, isIA := st.Addr.(*ssa.IndexAddr); isIA {
				if ia.X == ssa.Value(g) {
					written = true
				}
				if u, isU := ia.X.(*ssa.UnOp); isU && u.X == ssa.Value(g) {
					written = true
				}
			}
		})
		if written {
			return nil, 0, false
		}
	}
	rel := strings.TrimPrefix(g.Pkg.Pkg.Path(), modPath+"/")
	pkg := p.Pkg(rel)
	if pkg == nil {
		return nil, 0, false
	}
	for _, f := range pkg.Syntax {
		for _, d := range f.Decls {
			gd, isGD := d.(*ast.GenDecl)
			if !isGD || gd.Tok != token.VAR {
				continue
			}
			for _, sp := range gd.Specs {
				vs := sp.(*ast.ValueSpec)
				for i, id := range vs.Names {
					if pkg.TypesInfo.Defs[id] != g.Object() || i >= len(vs.Values) {
						continue
					}
					cl, isCL := vs.Values[i].(*ast.CompositeLit)
					if !isCL {
						return nil, 0, false
					}
					out := map[int64]constant.Value{}
					next := int64(0)
					for _, el := range cl.Elts {
						val := el
						if kv, isKV := el.(*ast.KeyValueExpr); isKV {
							ktv := pkg.TypesInfo.Types[kv.Key]
							if ktv.Value == nil {
								return nil, 0, false
							}
							k, exact := constant.Int64Val(constant.ToInt(ktv.Value))
							if !exact {
								return nil, 0, false
							}
							next = k
							val = kv.Value
						}
						vtv := pkg.TypesInfo.Types[val]
						if vtv.Value == nil {
							return nil, 0, false
						}
						out[next] = vtv.Value
						next++
					}
					p.arrays[g], p.arraysLen[g], p.arraysOK[g] = out, length, true
					return out, length, true
				}
			}
		}
	}
	return nil, 0, false
}

// funcTable: for a constant table (see constTable) whose values are functions, key -> function.
func (p *Program) funcTable(g *ssa.Global) map[string]*ssa.Function {
	if _, ok := p.constTable(g); !ok {
		return nil
	}
	return p.funcTables[g]
}

// constTable returns the entries of a package-level map variable that is
// initialised by a composite literal with constant keys (and constant or
// empty-struct values) and is never stored to outside the package initialiser.
func (p *Program) constTable(g *ssa.Global) (map[string]constant.Value, bool) {
	if p.tables == nil {
		p.tables = map[*ssa.Global]map[string]constant.Value{}
		p.tablesOK = map[*ssa.Global]bool{}
	}
	if ok, done := p.tablesOK[g]; done {
		return p.tables[g], ok
	}
	p.tablesOK[g] = false
	if g.Pkg == nil || !isFirstParty(g.Pkg.Pkg.Path()) {
		return nil, false
	}
	// never written outside init
	for _, fn := range p.SrcFuncs() {
		if fn.Name() == "init" {
			continue
		}
		written := false
		allInstrs(fn, func(in ssa.Instruction) {
			switch x := in.(type) {
			case *ssa.Store:
				if x.Addr == ssa.Value(g) {
					written = true
				}
			case *ssa.MapUpdate:
				if u, ok := x.Map.(*ssa.UnOp); ok && u.X == ssa.Value(g) {
					written = true
				}
			}
		})
		if written {
			return nil, false
		}
	}
	rel := strings.TrimPrefix(g.Pkg.Pkg.Path(), modPath+"/")
	pkg := p.Pkg(rel)
	if pkg == nil {
		return nil, false
	}
	for _, f := range pkg.Syntax {
		for _, d := range f.Decls {
			gd, ok := d.(*ast.GenDecl)
			if !ok || gd.Tok != token.VAR {
				continue
			}
			for _, sp := range gd.Specs {
				vs := sp.(*ast.ValueSpec)
				for i, id := range vs.Names {
					if pkg.TypesInfo.Defs[id] != g.Object() || i >= len(vs.Values) {
						continue
					}
					cl, ok := vs.Values[i].(*ast.CompositeLit)
					if !ok {
						return nil, false
					}
					out := map[string]constant.Value{}
					for _, el := range cl.Elts {
						kv, ok := el.(*ast.KeyValueExpr)
						if !ok {
							return nil, false
						}
						ktv := pkg.TypesInfo.Types[kv.Key]
						if ktv.Value == nil {
							return nil, false
						}
						vtv := pkg.TypesInfo.Types[kv.Value]
						if vtv.Value != nil {
							out[ktv.Value.ExactString()] = vtv.Value
						} else {
							out[ktv.Value.ExactString()] = constant.MakeBool(true) // presence only (struct{}{} sets)
							if p.presenceOnly == nil {
								p.presenceOnly = map[*ssa.Global]map[string]bool{}
								p.funcTables = map[*ssa.Global]map[string]*ssa.Function{}
							}
							if p.presenceOnly[g] == nil {
								p.presenceOnly[g] = map[string]bool{}
								p.funcTables[g] = map[string]*ssa.Function{}
							}
							p.presenceOnly[g][ktv.Value.ExactString()] = true
							if fn := p.funcOfExpr(pkg, g, kv.Value); fn != nil {
								p.funcTables[g][ktv.Value.ExactString()] = fn
							} else if fn := p.funcOfInit(g, ktv.Value); fn != nil {
								p.funcTables[g][ktv.Value.ExactString()] = fn
							}
						}
					}
					p.tables[g] = out
					p.tablesOK[g] = true
					return out, true
				}
			}
		}
	}
	return nil, false
}

// NamedTypeByPath looks a named type up in any loaded package by import path.
func (p *Program) NamedTypeByPath(path, typeName string) *types.Named {
	for _, sp := range p.SSA.AllPackages() {
		if sp.Pkg.Path() != path {
			continue
		}
		if tn, ok := sp.Pkg.Scope().Lookup(typeName).(*types.TypeName); ok {
			n, _ := types.Unalias(tn.Type()).(*types.Named)
			return n
		}
	}
	return nil
}
