package main

import (
	"fmt"
	"go/constant"
	"go/types"
	"sort"
	"strings"

	"golang.org/x/tools/go/ssa"
)

// precedence classes, loosest first (specification: arithmetic convention).
var precClasses = [][]string{
	{"OpOr"},
	{"OpAnd", "OpUnless"},
	{"OpEq", "OpNotEq", "OpRe", "OpNotRe", "OpGt", "OpGte", "OpLt", "OpLte"},
	{"OpAdd", "OpSub"},
	{"OpMul", "OpDiv", "OpMod"},
	{"OpPow"},
}

var rightAssoc = map[string]bool{"OpPow": true}

func specPrec(op string) int {
	for i, cl := range precClasses {
		for _, o := range cl {
			if o == op {
				return i
			}
		}
	}
	return -1
}

// codePrecedence evaluates BinOp.Precedence for every operator constant.
func codePrecedence(r *Run) (map[string]int64, map[string]constant.Value, bool) {
	p := r.P
	fn := p.Method(logqlPkg, "BinOp", "Precedence")
	T := p.NamedType(logqlPkg, "BinOp")
	if fn == nil || T == nil {
		r.Ob("ANCHOR", "logql.BinOp.Precedence", "anchor resolves").Fail("-", "not found")
		return nil, nil, false
	}
	consts := enumConstants(T)
	out := map[string]int64{}
	for name, cv := range consts {
		if strings.HasPrefix(name, "_") {
			continue
		}
		w := &feWalker{Fn: fn, Assume: map[ssa.Value]constant.Value{fn.Params[0]: cv}}
		ends := w.Run()
		if len(ends) != 1 || len(ends[0].Results) != 1 || !ends[0].Results[0].Known {
			r.Ob("CH-MAP", "logql.BinOp.Precedence["+name+"]", "precedence is a constant per operator").Undecide(r.pos(fn.Pos()), "not a single constant")
			return nil, nil, false
		}
		v, _ := constant.Int64Val(ends[0].Results[0].C)
		out[name] = v
	}
	return out, consts, true
}

func rulePrecedenceTable(r *Run) {
	prec, _, ok := codePrecedence(r)
	if !ok {
		return
	}
	fn := r.P.Method(logqlPkg, "BinOp", "Precedence")
	for i, cl := range precClasses {
		o := r.Ob("CH-MAP", "logql.BinOp.Precedence class "+strings.Join(cl, "="), "operators of one conventional level share a precedence, tighter than every looser level: ^ > * / % > + - > comparisons > and unless > or")
		bad := false
		for _, op := range cl {
			if _, ok := prec[op]; !ok {
				bad = true
				o.Fail(r.pos(fn.Pos()), "operator %s not found", op)
				continue
			}
			if prec[op] != prec[cl[0]] {
				bad = true
				o.Fail(r.pos(fn.Pos()), "%s has precedence %d but %s has %d", op, prec[op], cl[0], prec[cl[0]])
			}
			if prec[op] < 0 {
				bad = true
				o.Fail(r.pos(fn.Pos()), "%s has no precedence (%d)", op, prec[op])
			}
		}
		if i > 0 {
			for _, lo := range precClasses[i-1] {
				for _, hi := range cl {
					if !(prec[lo] < prec[hi]) {
						bad = true
						o.Fail(r.pos(fn.Pos()), "%s (%d) must bind tighter than %s (%d)", hi, prec[hi], lo, prec[lo])
					}
				}
			}
		}
		if !bad {
			o.OK("level %d: %v", prec[cl[0]], cl).At(r.pos(fn.Pos()))
		}
	}
	// every operator constant is classified
	var unclassified []string
	for op := range prec {
		if specPrec(op) < 0 {
			unclassified = append(unclassified, op)
		}
	}
	sort.Strings(unclassified)
	o := r.Ob("CH-EXH", "logql.BinOp.Precedence coverage", "every binary operator has a place in the precedence order")
	if len(unclassified) > 0 {
		o.Undecide(r.pos(fn.Pos()), "operators %v are not in the specification table", unclassified)
	} else {
		o.OK("%d operators", len(prec))
	}
}

// ruleParseBinOp: FE-ORD on the precedence-climbing guards.
func ruleParseBinOp(r *Run) {
	p := r.P
	lq := modPath + "/" + logqlPkg
	fn := p.Method(logqlPkg, "parser", "parseBinOp")
	anchor := r.Ob("ANCHOR", "logql.(*parser).parseBinOp", "anchor resolves")
	anchor.Trivial = true
	if fn == nil || len(fn.Params) != 3 {
		anchor.Fail("-", "method not found")
		return
	}
	anchor.OK("resolved").At(r.pos(fn.Pos()))
	prec, consts, ok := codePrecedence(r)
	if !ok {
		return
	}
	// the two peekBinOp calls: outer (first in block order) and inner
	// (the look-ahead loop may live in a helper of parseBinOp; the walkers below follow helpers)
	var peeks []*ssa.Call
	for _, gf := range funcGroup(fn) {
		for _, c := range callsIn(gf) {
			if call, ok := c.(*ssa.Call); ok && callIs(call, lq, "(*parser).peekBinOp") {
				peeks = append(peeks, call)
			}
		}
	}
	// only helpers that take part in the climbing (peek at an operator or recurse) are followed;
	// everything else (Precedence(), IsLogic(), ...) is evaluated at value level as before
	follow := map[*ssa.Function]bool{}
	for _, gf := range funcGroup(fn) {
		if gf == fn || gf.Parent() != nil {
			continue
		}
		for _, c := range callsIn(gf) {
			if callIs(c, lq, "(*parser).peekBinOp") || staticCallee(c) == fn {
				follow[gf] = true
			}
		}
	}
	// ... and helpers on the way to them
	for changed := true; changed; {
		changed = false
		for _, gf := range funcGroup(fn) {
			if gf == fn || gf.Parent() != nil || follow[gf] {
				continue
			}
			for _, c := range callsIn(gf) {
				if callee := staticCallee(c); callee != nil && follow[callee] {
					follow[gf] = true
					changed = true
				}
			}
		}
	}
	inl := func(callee *ssa.Function, depth int) bool { return follow[callee] && depth <= 3 }
	if len(peeks) != 2 {
		r.Ob("FE-ORD", "logql.(*parser).parseBinOp", "precedence climbing shape").Undecide(r.pos(fn.Pos()), "expected two peekBinOp calls (outer operator, look-ahead), found %d: the parser is not the precedence-climbing algorithm this rule understands", len(peeks))
		return
	}
	ex := func(c *ssa.Call, i int) ssa.Value {
		for _, ref := range *c.Referrers() {
			if e, ok := ref.(*ssa.Extract); ok && e.Index == i {
				return e
			}
		}
		return nil
	}
	outer, inner := peeks[0], peeks[1]
	switch {
	case outer.Parent() == fn && inner.Parent() == fn:
		if !outer.Block().Dominates(inner.Block()) {
			outer, inner = inner, outer
		}
	case inner.Parent() == fn:
		outer, inner = inner, outer
	case outer.Parent() != fn:
		r.Ob("FE-ORD", "logql.(*parser).parseBinOp", "precedence climbing shape").Undecide(r.pos(fn.Pos()), "parseBinOp itself does not peek at the operator")
		return
	}
	opV, okV := ex(outer, 0), ex(outer, 1)
	ropV, rokV := ex(inner, 0), ex(inner, 1)
	minP := fn.Params[2]
	if opV == nil || okV == nil || ropV == nil || rokV == nil {
		r.Ob("FE-ORD", "logql.(*parser).parseBinOp", "precedence climbing shape").Undecide(r.pos(fn.Pos()), "peekBinOp results unused")
		return
	}
	ops := []string{}
	for _, cl := range precClasses {
		for _, o := range cl {
			if o != "OpRe" && o != "OpNotRe" {
				ops = append(ops, o)
			}
		}
	}
	// --- outer guard
	og := r.Ob("FE-ORD", "logql.(*parser).parseBinOp outer guard", "the loop stops (returns the left operand) iff the next operator binds looser than the minimum precedence, or there is none")
	bad := false
	for _, op := range ops {
		for d := int64(-1); d <= 1; d++ {
			assume := map[ssa.Value]constant.Value{opV: consts[op], okV: constant.MakeBool(true), minP: constant.MakeInt64(prec[op] + d)}
			w := &feWalker{Fn: fn, Assume: assume, MaxPath: 3000, Inline: inl}
			stops := true
			for _, e := range w.Run() {
				// did the path consume the operator (call p.next) ?
				for _, c := range e.State.calls {
					if callIs(c.Call, lq, "(*parser).next") {
						stops = false
					}
				}
			}
			wantStop := d > 0 // prec(op) < min
			if stops != wantStop {
				bad = true
				og.Fail(r.pos(fn.Pos()), "with prec(%s)=%d and minPrecedence=%d the loop %s, expected %s", op, prec[op], prec[op]+d, stopStr(stops), stopStr(wantStop))
			}
		}
	}
	{
		w := &feWalker{Fn: fn, Assume: map[ssa.Value]constant.Value{okV: constant.MakeBool(false)}, MaxPath: 3000, Inline: inl}
		for _, e := range w.Run() {
			for _, c := range e.State.calls {
				if callIs(c.Call, lq, "(*parser).next") {
					bad = true
					og.Fail(r.pos(fn.Pos()), "a token is consumed although no binary operator follows")
				}
			}
			if len(e.Results) == 2 && e.Results[0].V != ssa.Value(fn.Params[1]) {
				if _, isPhi := e.Results[0].V.(*ssa.Phi); !isPhi {
					bad = true
					og.Fail(r.pos(fn.Pos()), "without a following operator the result is %s, not the left operand", describe(e.Results[0].V, 0))
				}
			}
		}
	}
	if !bad {
		og.OK("%d operators x 3 orderings agree", len(ops)).At(r.pos(fn.Pos()))
	}
	// --- inner decisions
	type decision struct {
		leave   bool
		recurse bool
		k       int64
		kKnown  bool
	}
	decide := func(op, rop string) (decision, bool) {
		assume := map[ssa.Value]constant.Value{opV: consts[op], okV: constant.MakeBool(true), minP: constant.MakeInt64(-100),
			ropV: consts[rop], rokV: constant.MakeBool(true)}
		w := &feWalker{Fn: fn, Assume: assume, MaxPath: 6000, Inline: inl}
		var d decision
		seen := false
		skipped := false
		for _, e := range w.Run() {
			// first event after the first execution of the inner peek
			innerSeq := -1
			for _, c := range e.State.calls {
				if c.Call == ssa.CallInstruction(inner) {
					innerSeq = c.Seq
					break
				}
			}
			if innerSeq < 0 {
				// a path that completes the current operation without ever looking at the next
				// operator: the right operand was not offered to a tighter operator
				for _, s := range e.State.stores {
					if _, base, ok := fieldNameOf(s.Store.Addr); ok && typeKey(base.Type()) == "BinOpExpr" {
						skipped = true
					}
				}
				continue
			}
			recSeq, leaveSeq := 1<<30, 1<<30
			var recK feVal
			for _, c := range e.State.calls {
				if c.Seq > innerSeq && callIs(c.Call, lq, "(*parser).parseBinOp") && c.Seq < recSeq {
					recSeq = c.Seq
					recK = c.Args[2]
				}
			}
			for _, s := range e.State.stores {
				if s.Seq > innerSeq {
					if _, base, ok := fieldNameOf(s.Store.Addr); ok && typeKey(base.Type()) == "BinOpExpr" && s.Seq < leaveSeq {
						leaveSeq = s.Seq
					}
				}
			}
			if recSeq == 1<<30 && leaveSeq == 1<<30 {
				continue // error path before any decision
			}
			seen = true
			if recSeq < leaveSeq {
				d.recurse = true
				if recK.Known {
					d.k, _ = constant.Int64Val(recK.C)
					d.kKnown = true
				}
			} else {
				d.leave = true
			}
		}
		return d, seen && d.leave != d.recurse && !skipped
	}
	type row struct{ name, claim string }
	rows := map[string]*Obligation{}
	get := func(key, claim string) *Obligation {
		if o, ok := rows[key]; ok {
			return o
		}
		o := r.Ob("FE-ORD", "logql.(*parser).parseBinOp "+key, claim)
		rows[key] = o
		return o
	}
	failed := map[string]bool{}
	for _, op := range ops {
		for _, rop := range ops {
			po, pr := specPrec(op), specPrec(rop)
			var o *Obligation
			switch {
			case pr < po:
				o = get("look-ahead binds looser", "when the look-ahead operator binds looser than the current one, the current operation is complete (left grouping)")
			case pr > po:
				o = get("look-ahead binds tighter", "when the look-ahead operator binds tighter, the right operand is extended by a recursive call that consumes it but nothing of the current level")
			default:
				cl := precClasses[po]
				var shown []string
				for _, c := range cl {
					if c != "OpRe" && c != "OpNotRe" {
						shown = append(shown, c)
					}
				}
				if rightAssoc[op] {
					o = get("equal precedence "+strings.Join(shown, ","), "operators of equal precedence associate right to left for ^")
				} else {
					o = get("equal precedence "+strings.Join(shown, ","), "operators of equal precedence associate left to right (a-b+c is (a-b)+c)")
				}
			}
			d, okd := decide(op, rop)
			if !okd {
				failed[o.Construct] = true
				o.Undecide(r.pos(fn.Pos()), "decision for current=%s look-ahead=%s could not be read off the paths", op, rop)
				continue
			}
			cpo, cpr := prec[op], prec[rop]
			good := false
			switch {
			case pr < po:
				good = d.leave || (d.kKnown && d.k > cpr)
			case pr > po:
				good = d.recurse && d.kKnown && d.k > cpo && d.k <= cpr
			default:
				if rightAssoc[op] {
					good = d.recurse && d.kKnown && d.k <= cpo
				} else {
					good = d.leave || (d.kKnown && d.k > cpo)
				}
			}
			if !good {
				failed[o.Construct] = true
				what := "leaves the inner loop"
				if d.recurse {
					what = fmt.Sprintf("recurses with minimum precedence %d", d.k)
				}
				o.Fail(r.pos(fn.Pos()), "current %s (prec %d), look-ahead %s (prec %d): the parser %s", op, cpo, rop, cpr, what)
			}
		}
	}
	for _, o := range rows {
		if !failed[o.Construct] {
			o.OK("all operator pairs of this row agree").At(r.pos(fn.Pos()))
		}
	}
}

func stopStr(b bool) string {
	if b {
		return "stops"
	}
	return "continues"
}

// ruleParens: parentheses override precedence.
func ruleParens(r *Run) {
	p := r.P
	lq := modPath + "/" + logqlPkg
	un := p.Func(logqlPkg, "UnparenExpr")
	o := r.Ob("PV-API", "logql.UnparenExpr", "UnparenExpr removes every level of redundant parentheses: it never returns a ParenExpr")
	if un == nil {
		o.Fail("-", "function not found")
	} else {
		bad := false
		var ta *ssa.TypeAssert
		allInstrs(un, func(in ssa.Instruction) {
			if t, ok := in.(*ssa.TypeAssert); ok && t.CommaOk && typeKey(t.AssertedType) == "ParenExpr" {
				ta = t
			}
		})
		if ta == nil {
			o.Undecide(r.pos(un.Pos()), "no *ParenExpr type test found")
		} else {
			var okv ssa.Value
			for _, ref := range *ta.Referrers() {
				if e, ok := ref.(*ssa.Extract); ok && e.Index == 1 {
					okv = e
				}
			}
			for _, truth := range []bool{false, true} {
				w := &feWalker{Fn: un, Assume: map[ssa.Value]constant.Value{okv: constant.MakeBool(truth)}}
				for _, e := range w.Run() {
					if e.Cut {
						continue // a loop that keeps stripping is fine
					}
					if len(e.Results) != 1 {
						continue
					}
					v := e.Results[0].V
					if !truth {
						if v != ta.X && v != ssa.Value(un.Params[0]) {
							if _, isPhi := v.(*ssa.Phi); !isPhi {
								bad = true
								o.Fail(r.pos(e.Term.Pos()), "a non-parenthesised expression is returned as %s", describe(v, 0))
							}
						}
					} else {
						c, isCall := v.(*ssa.Call)
						if !isCall || !callIs(c, lq, "UnparenExpr") {
							bad = true
							o.Fail(r.pos(e.Term.Pos()), "for a ParenExpr the function returns %s instead of unwrapping further", describe(v, 0))
						}
					}
				}
			}
			if !bad {
				o.OK("ParenExpr -> UnparenExpr(p.X); otherwise the expression itself").At(r.pos(un.Pos()))
			}
		}
	}
	// the evaluators dispatch on the unparenthesised expression
	for _, site := range []struct{ rel, recv, fn string }{{metricPkg, "", "build"}, {enginePkg, "*Engine", "evalExpr"}} {
		f := resolveFn(p, site.rel, site.recv, site.fn)
		oo := r.Ob("PV-API", shortRel(site.rel)+"."+site.fn+" unparen", "the evaluator dispatches on the expression with parentheses removed")
		if f == nil {
			oo.Fail("-", "function not found")
			continue
		}
		n, good := 0, 0
		allInstrs(f, func(in ssa.Instruction) {
			ta, ok := in.(*ssa.TypeAssert)
			if !ok || !ta.CommaOk {
				return
			}
			if !types.IsInterface(ta.X.Type()) || typeKey(ta.X.Type()) != "Expr" {
				return
			}
			// the main switch value: operand used by >= 3 assertions
			cnt := 0
			for _, ref := range *ta.X.Referrers() {
				if _, ok := ref.(*ssa.TypeAssert); ok {
					cnt++
				}
			}
			if cnt < 3 {
				return
			}
			n++
			if c, ok := ta.X.(*ssa.Call); ok && callIs(c, lq, "UnparenExpr") {
				good++
			}
		})
		if n == 0 {
			oo.Undecide(r.pos(f.Pos()), "no type switch over an Expr found")
		} else if good == n {
			oo.OK("switch on UnparenExpr(expr)").At(r.pos(f.Pos()))
		} else {
			oo.Fail(r.pos(f.Pos()), "the type switch is not applied to UnparenExpr(expr)")
		}
	}
	// ( expr ) in parseMetricExpr1: recursion into parseExpr and a closing paren
	pm := p.Method(logqlPkg, "parser", "parseMetricExpr1")
	op := r.Ob("PV-ORDER", "logql.(*parser).parseMetricExpr1 parentheses", "`(` starts a full sub-expression that must be closed by `)` and is kept as one operand")
	if pm == nil {
		op.Fail("-", "method not found")
		return
	}
	T := p.NamedType(lexerPkg, "TokenType")
	consts := enumConstants(T)
	tag := pickTag(pm, T, consts["OpenParen"])
	if tag == nil {
		op.Undecide(r.pos(pm.Pos()), "no dispatch on OpenParen")
		return
	}
	assume := map[ssa.Value]constant.Value{}
	for _, t := range equivLoads(pm, tag) {
		assume[t] = consts["OpenParen"]
	}
	w := &feWalker{Fn: pm, Assume: assume}
	bad := false
	for _, e := range w.Run() {
		if isErr, known := endReturnsError(e); known && isErr {
			continue
		}
		sawExpr, sawClose := false, false
		for _, c := range e.State.calls {
			if callIs(c.Call, lq, "(*parser).parseExpr") {
				sawExpr = true
			}
			if callIs(c.Call, lq, "(*parser).consume") && len(c.Args) > 1 && c.Args[1].Known && constant.Compare(c.Args[1].C, tokenEQL, consts["CloseParen"]) && sawExpr {
				sawClose = true
			}
		}
		isParen := false
		if len(e.Results) > 0 {
			if mi, ok := e.Results[0].V.(*ssa.MakeInterface); ok && typeKey(mi.X.Type()) == "ParenExpr" {
				isParen = true
			}
		}
		if !(sawExpr && sawClose && isParen) {
			bad = true
			op.Fail(r.pos(e.Term.Pos()), "success path: parseExpr=%v, consume(CloseParen) after it=%v, result is ParenExpr=%v", sawExpr, sawClose, isParen)
		}
	}
	if !bad {
		op.OK("( -> parseExpr -> consume(CloseParen) -> ParenExpr").At(r.pos(pm.Pos()))
	}
}
