package main

import (
	"fmt"
	"go/token"

	"golang.org/x/tools/go/ssa"
)

const itersPkg = "internal/iterators"

// ruleErrLoop (ERR-LOOP): a function that drains an iterator and returns an
// error reports the iterator's Err() before any successful return.
func ruleErrLoop(r *Run, rels []string) {
	p := r.P
	n := 0
	for _, fn := range p.SrcFuncs() {
		if fn.Pkg == nil && fn.Origin() == nil {
			continue
		}
		pk := fn.Pkg
		if pk == nil {
			continue
		}
		in := false
		for _, rel := range rels {
			if pk.Pkg.Path() == modPath+"/"+rel {
				in = true
			}
		}
		if !in {
			continue
		}
		res := fn.Signature.Results()
		if res.Len() == 0 || !isErrorType(res.At(res.Len()-1).Type()) {
			continue
		}
		loops := callLoops(fn, func(c *ssa.Call) bool {
			recv, ok := methodCallNamed(c, "Next")
			return ok && isResourceType(recv.Type())
		})
		// also `for { if !it.Next() { break } }`
		if len(loops) == 0 {
			continue
		}
		for li, loop := range loops {
			n++
			recv, _ := methodCallNamed(loop.Call, "Next")
			o := r.Ob("ERR-LOOP", fmt.Sprintf("%s loop#%d", shortFuncName(fn), li), "after draining the iterator, its Err() is checked and a non-nil error reaches a failure exit before any successful return (no silently truncated result)")
			o.At(r.pos(loop.Call.Pos()))
			w := &feWalker{Fn: fn, MaxPath: 20000}
			ends := w.Run()
			if w.Aborted {
				o.Undecide(r.pos(fn.Pos()), "path enumeration aborted")
				continue
			}
			nSucc := 0
			for _, e := range ends {
				if e.Cut {
					continue
				}
				if isErr, known := endReturnsError(e); known && isErr {
					continue
				} else if !known {
					// returns some error value: fine if it is the Err() result itself
					if len(e.Results) > 0 {
						if c, ok := e.Results[len(e.Results)-1].V.(*ssa.Call); ok {
							if rv, ok := methodCallNamed(c, "Err"); ok && sameRecv(rv, recv) {
								continue
							}
						}
					}
				}
				lastNext := -1
				for i, c := range e.State.calls {
					if c.Call == ssa.CallInstruction(loop.Call) {
						lastNext = i
					}
				}
				if lastNext < 0 {
					continue
				}
				nSucc++
				checked := false
				for i, c := range e.State.calls {
					if i <= lastNext {
						continue
					}
					call, ok := c.Call.(*ssa.Call)
					if !ok {
						continue
					}
					rv, ok := methodCallNamed(call, "Err")
					if !ok || !sameRecv(rv, recv) {
						continue
					}
					for _, f := range e.State.free {
						if x, nn, ok := nilCheck(f.Cond); ok && x == ssa.Value(call) && nn != f.Truth {
							checked = true
						}
					}
				}
				if !checked {
					o.Fail(r.pos(e.Term.Pos()), "a successful return is reachable after the last Next() without a nil-checked Err() of the same iterator")
				}
			}
			if o.Status != Violated {
				o.OK("%d successful path(s) all pass a nil-checked Err()", nSucc)
			}
		}
	}
	r.count("consumer_loops", n)
	inv := r.Ob("ERR-LOOP", "inventory", "at least the confirmed number of consumer loops is analysed")
	inv.Trivial = true
	inv.Check(n >= 3, "-", fmt.Sprintf("%d consumer loops", n), fmt.Sprintf("only %d consumer loops found, floor 3", n))
}

func sameRecv(a, b ssa.Value) bool {
	a, b = resRoot(a), resRoot(b)
	if a == b {
		return true
	}
	return describe(a, 0) == describe(b, 0)
}

// ruleSelectLogsCleanup: the failure-cleanup idiom of the concurrent open.
func ruleSelectLogsCleanup(r *Run) {
	p := r.P
	fn := p.Method(dockerlogPkg, "Querier", "SelectLogs")
	o := r.Ob("OWN-CLEANUP", "dockerlog.(*Querier).SelectLogs cleanup", "when the concurrent open fails, every reader that was opened is closed: a deferred loop over the whole slot slice, registered before the goroutines start, closes each non-nil slot when the function returns an error")
	if fn == nil {
		o.Fail("-", "method not found")
		return
	}
	errCell := errorResultCell(fn)
	var firstGo ssa.CallInstruction
	for _, gs := range goSites(r.P) {
		if gs.In == fn && firstGo == nil {
			firstGo = gs.Instr
		}
	}
	if firstGo == nil {
		o.Fail(r.pos(fn.Pos()), "no goroutine start found")
		return
	}
	// the slot slice cell: captured by the goroutine closure and indexed for writing
	var def *ssa.Defer
	var body *ssa.Function
	var mc *ssa.MakeClosure
	for _, c := range callsIn(fn) {
		d, ok := c.(*ssa.Defer)
		if !ok {
			continue
		}
		if m, ok := d.Call.Value.(*ssa.MakeClosure); ok {
			b, _ := m.Fn.(*ssa.Function)
			if b != nil && len(closureCloseEffects(b, func(*ssa.FreeVar) bool { return false })) > 0 {
				def, body, mc = d, b, m
			}
		}
	}
	if def == nil {
		o.Fail(r.pos(fn.Pos()), "no deferred cleanup closure that closes the opened readers")
		return
	}
	good := true
	if !instrDominates(def, firstGo) {
		good = false
		o.Fail(r.pos(def.Pos()), "the cleanup is registered after goroutines may already have opened readers")
	}
	isErrFV := func(fv *ssa.FreeVar) bool {
		for i, f := range body.FreeVars {
			if f == fv && mc.Bindings[i] == ssa.Value(errCell) {
				return true
			}
		}
		return false
	}
	effs := closureCloseEffects(body, isErrFV)
	loopClose := false
	for _, e := range effs {
		if e.Loop && e.FreeVar >= 0 {
			loopClose = true
			if !e.OnError {
				// closing unconditionally would close readers handed to the merged iterator
				good = false
				o.Fail(r.pos(def.Pos()), "the cleanup closes the readers even when the function succeeds")
			}
		}
	}
	if !loopClose {
		good = false
		o.Fail(r.pos(def.Pos()), "the cleanup does not close the elements of the slot slice")
	}
	// the loop in the closure: whole slice, no early exit, Close on every non-nil element
	loops := rangeIndexLoops(body)
	if len(loops) != 1 {
		good = false
		o.Fail(r.pos(body.Pos()), "expected one range loop in the cleanup, found %d", len(loops))
	} else {
		l := loops[0]
		if d, ok := isWholeValue(l.X); !ok {
			good = false
			o.Fail(r.pos(body.Pos()), "the cleanup ranges over a %s of the slots", d)
		}
		if ex := l.earlyExits(); len(ex) > 0 {
			good = false
			o.Fail(r.pos(termPos(ex[0][0])), "the cleanup loop can be left before every slot was visited (readers opened for later containers leak)")
		}
		// the only way to skip Close in an iteration is element == nil
		var closeCall ssa.CallInstruction
		for b := range l.Blocks {
			for _, in := range b.Instrs {
				if c, ok := in.(ssa.CallInstruction); ok {
					if _, ok := methodCallNamed(c, "Close"); ok {
						closeCall = c
					}
				}
			}
		}
		if closeCall != nil {
			// paths from body to header avoiding the close block must all pass a `elem == nil` true edge
			for b := range l.Blocks {
				ifi, ok := b.Instrs[len(b.Instrs)-1].(*ssa.If)
				if !ok || b == l.Header {
					continue
				}
				x, nn, ok := nilCheck(ifi.Cond)
				isElemNil := false
				if ok {
					if lu, ok := x.(*ssa.UnOp); ok && lu.Op == token.MUL {
						if isIndexOf(lu.X, l) {
							isElemNil = true
						}
					}
				}
				_ = nn
				if !isElemNil {
					good = false
					o.Fail(r.pos(ifi.Pos()), "a slot may be skipped by a condition other than `slot == nil`")
				}
			}
		}
	}
	// success path hands the whole slot slice to newMergeIter
	handed := false
	for _, c := range callsIn(fn) {
		if callIs(c, modPath+"/"+dockerlogPkg, "newMergeIter") {
			if d, ok := isWholeValue(c.Common().Args[0]); ok && d != "re-slice" {
				handed = true
			}
		}
	}
	if !handed {
		good = false
		o.Fail(r.pos(fn.Pos()), "the opened readers are not all handed to the merged iterator")
	}
	if good {
		o.OK("defer (before Go): if rerr != nil, range all slots, close non-nil; success: newMergeIter(iters)").At(r.pos(def.Pos()))
	}
}
