package main

// FE – finite-case evaluation. A small abstract interpreter over a
// function's CFG: values are either a known constant or unknown; branch
// conditions that fold to a constant are followed, the others fork the walk.
// Under an assumption that fixes the atoms of interest (a switch tag equal to
// one enum constant, an ordering between two times, a rune class) the set of
// feasible paths is finite and small, and the rule reads the outcome (returned
// constants, calls made, values stored) off each feasible path. No repository
// code is executed: the interpreter folds go/constant values over SSA.

import (
	"fmt"
	"go/constant"
	"go/token"
	"go/types"
	"os"

	"golang.org/x/tools/go/ssa"
)

type feHook func(w *feWalker, st *feState, v ssa.Value) (constant.Value, bool)

type feWalker struct {
	inPhi   map[*ssa.Phi]bool // re-entrancy guard of the phi-source fallback
	Fn      *ssa.Function
	Assume  map[ssa.Value]constant.Value
	Hook    feHook // optional: decide calls and other opaque values
	Depth   int    // callee interpretation depth (value-level evalCall)
	MaxPath int
	// Inline decides whether a statically resolved first-party callee is
	// walked as part of the path (so that extracting a helper does not hide
	// events from a rule). nil: never.
	Inline func(callee *ssa.Function, depth int) bool
	P      *Program // for constant package-level tables (optional)
	// LoopFresh: a branch decision taken in one loop iteration does not decide the same
	// condition in the next iteration (its operands are recomputed). Off by default: most rules
	// read the first iteration only and rely on "decided once, decided on the whole path" to keep
	// the path set small.
	LoopFresh bool
	paths     int
	Ends      []*feEnd
	Aborted   bool
}

type feFrame struct {
	fn        *ssa.Function
	prev, cur *ssa.BasicBlock
	idx       int
	call      *ssa.Call // call site in the parent frame
	visits    map[*ssa.BasicBlock]int
	// det: every branch since the last fork of this frame was decided (the path is executing
	// concretely); blocks entered that way are counted separately, with a larger budget, so that
	// a fully determined loop (over a literal argument list, say) is run to its end
	det       bool
	detVisits map[*ssa.BasicBlock]int
}

type feState struct {
	frames   []*feFrame
	phis     map[*ssa.Phi]constant.Value
	phiSrc   map[*ssa.Phi]ssa.Value // which incoming value the phi took on this path
	trail    []*ssa.BasicBlock
	trailSeq []int // value of seq when the block was entered
	calls    []feCall
	stores   []feStore
	free     []condFact           // undecided conditions taken on this path
	mem      map[*ssa.Alloc]feVal // last value stored into local cells on this path
	loads    map[*ssa.UnOp]feVal  // value a load of a local cell observed on this path
	bind     map[ssa.Value]feVal  // parameters / free variables of inlined callees, results of inlined calls
	tuples   map[*ssa.Call][]feVal
	arr      map[feArrKey]feVal  // elements of local array cells stored with a known index
	arrDirty map[*ssa.Alloc]bool // local arrays whose content is no longer known
	loadSeq  map[*ssa.UnOp]int   // value of seq when a load was (last) executed on this path
	// freeStale marks entries of free (by index) that speak about a value of an earlier loop
	// iteration: the value has been recomputed since, so the recorded decision no longer
	// decides it (the entry stays in free as history of the path)
	freeStale map[int]bool
	seq       int
}

type feArrKey struct {
	al *ssa.Alloc
	i  int64
}

type feStore struct {
	Store *ssa.Store
	Val   feVal
	Seq   int
	Top   ssa.Instruction // the instruction of the root function under which this happened
}

type feCall struct {
	Call ssa.CallInstruction
	Args []feVal // evaluated at the time of the call (receiver included for static method calls)
	Seq  int
	Top  ssa.Instruction
}

type feEnd struct {
	Term    ssa.Instruction // *ssa.Return or *ssa.Panic (or nil when cut)
	Results []feVal         // evaluated results for Return
	State   *feState
	Cut     bool // path abandoned (loop bound)
}

type feVal struct {
	V     ssa.Value      // the SSA value (phis resolved along the path where possible)
	C     constant.Value // non-nil when known
	Known bool
}

func newFEState() *feState {
	return &feState{phis: map[*ssa.Phi]constant.Value{}, phiSrc: map[*ssa.Phi]ssa.Value{}, mem: map[*ssa.Alloc]feVal{},
		loads: map[*ssa.UnOp]feVal{}, bind: map[ssa.Value]feVal{}, tuples: map[*ssa.Call][]feVal{},
		arr: map[feArrKey]feVal{}, arrDirty: map[*ssa.Alloc]bool{}, loadSeq: map[*ssa.UnOp]int{}}
}

func (s *feState) top() *feFrame { return s.frames[len(s.frames)-1] }

func (s *feState) clone() *feState {
	n := newFEState()
	n.seq = s.seq
	for _, f := range s.frames {
		nf := *f
		nf.visits = map[*ssa.BasicBlock]int{}
		for k, v := range f.visits {
			nf.visits[k] = v
		}
		if f.detVisits != nil {
			nf.detVisits = map[*ssa.BasicBlock]int{}
			for k, v := range f.detVisits {
				nf.detVisits[k] = v
			}
		}
		n.frames = append(n.frames, &nf)
	}
	for k, v := range s.phis {
		n.phis[k] = v
	}
	for k, v := range s.phiSrc {
		n.phiSrc[k] = v
	}
	n.trail = append([]*ssa.BasicBlock{}, s.trail...)
	n.trailSeq = append([]int{}, s.trailSeq...)
	n.calls = append([]feCall{}, s.calls...)
	n.stores = append([]feStore{}, s.stores...)
	n.free = append([]condFact{}, s.free...)
	for k, v := range s.mem {
		n.mem[k] = v
	}
	for k, v := range s.loads {
		n.loads[k] = v
	}
	for k, v := range s.bind {
		n.bind[k] = v
	}
	for k, v := range s.tuples {
		n.tuples[k] = v
	}
	for k, v := range s.arr {
		n.arr[k] = v
	}
	for k, v := range s.arrDirty {
		n.arrDirty[k] = v
	}
	for k, v := range s.loadSeq {
		n.loadSeq[k] = v
	}
	if len(s.freeStale) > 0 {
		n.freeStale = map[int]bool{}
		for k, v := range s.freeStale {
			n.freeStale[k] = v
		}
	}
	return n
}

// Run walks all feasible paths from the entry block.
func (w *feWalker) Run() []*feEnd {
	if w.MaxPath == 0 {
		w.MaxPath = 4096
	}
	if len(w.Fn.Blocks) == 0 {
		return nil
	}
	st := newFEState()
	st.frames = []*feFrame{{fn: w.Fn, cur: w.Fn.Blocks[0], visits: map[*ssa.BasicBlock]int{}, det: true}}
	w.walk(st)
	return w.Ends
}

// RunFrom walks from a given block (treated as entered from prev).
func (w *feWalker) RunFrom(cur, prev *ssa.BasicBlock) []*feEnd {
	if w.MaxPath == 0 {
		w.MaxPath = 4096
	}
	st := newFEState()
	st.frames = []*feFrame{{fn: w.Fn, cur: cur, prev: prev, visits: map[*ssa.BasicBlock]int{}}}
	w.walk(st)
	return w.Ends
}

// inlineHelpers is the standard inlining policy: small first-party functions of
// the root function's own package, two levels deep.
func inlineHelpers(root *ssa.Function) func(callee *ssa.Function, depth int) bool {
	rootPkg := pkgOfFunc(root)
	return func(callee *ssa.Function, depth int) bool {
		if callee == nil || callee.Blocks == nil || depth > 2 || len(callee.Blocks) > 40 {
			return false
		}
		pk := callee.Pkg
		if pk == nil && callee.Parent() != nil {
			pk = callee.Parent().Pkg
		}
		if pk == nil && callee.Origin() != nil {
			pk = callee.Origin().Pkg
		}
		return pk != nil && rootPkg != nil && pk == rootPkg
	}
}

func (w *feWalker) topInstr(st *feState, in ssa.Instruction) ssa.Instruction {
	if len(st.frames) > 1 {
		return st.frames[1].call
	}
	return in
}

func (w *feWalker) walk(st *feState) {
	for {
		if w.paths > w.MaxPath {
			w.Aborted = true
			return
		}
		fr := st.top()
		b := fr.cur
		if fr.idx == 0 {
			over := false
			if fr.det && fr.visits[b] > 0 {
				// re-entered while executing concretely
				if fr.detVisits == nil {
					fr.detVisits = map[*ssa.BasicBlock]int{}
				}
				fr.detVisits[b]++
				over = fr.detVisits[b] > 48
			} else {
				fr.visits[b]++
				over = fr.visits[b] > 2
			}
			if over {
				if os.Getenv("VERIF_DEBUG_CUT") != "" {
					fmt.Fprintf(os.Stderr, "CUT in %s block %d (frames %d)\n", fr.fn.Name(), b.Index, len(st.frames))
				}
				w.paths++
				w.Ends = append(w.Ends, &feEnd{State: st, Cut: true})
				return
			}
			if w.LoopFresh && (fr.visits[b] > 1 || (fr.detVisits != nil && fr.detVisits[b] > 0)) {
				// a new iteration: decisions about values computed in the loop (this block and the
				// blocks it dominates) were about the previous iteration's values
				for i, f := range st.free {
					if st.freeStale[i] {
						continue
					}
					in, ok := f.Cond.(ssa.Instruction)
					if !ok || in.Parent() != fr.fn || in.Block() == nil {
						continue
					}
					if in.Block() == b || b.Dominates(in.Block()) {
						if st.freeStale == nil {
							st.freeStale = map[int]bool{}
						}
						st.freeStale[i] = true
					}
				}
			}
			st.trail = append(st.trail, b)
			st.trailSeq = append(st.trailSeq, st.seq)
			// phis first: all of a block's phis take their values at once, from the state at the
			// end of the predecessor (a loop counter's next value is computed from its current one)
			type phiNew struct {
				phi *ssa.Phi
				src ssa.Value
				c   constant.Value
				ok  bool
			}
			var news []phiNew
			for _, in := range b.Instrs {
				phi, ok := in.(*ssa.Phi)
				if !ok {
					break
				}
				pn := phiNew{phi: phi}
				if fr.prev != nil {
					for i, p := range b.Preds {
						if p == fr.prev {
							src := phi.Edges[i]
							if ps, ok := src.(*ssa.Phi); ok {
								if s2, ok := st.phiSrc[ps]; ok {
									src = s2
								}
							}
							pn.src = src
							pn.c, pn.ok = w.eval(st, phi.Edges[i])
							break
						}
					}
				}
				news = append(news, pn)
			}
			for _, pn := range news {
				delete(st.phis, pn.phi)
				delete(st.phiSrc, pn.phi)
				if pn.src != nil {
					st.phiSrc[pn.phi] = pn.src
				}
				if pn.ok {
					st.phis[pn.phi] = pn.c
				}
			}
		}
		inlined := false
		for fr.idx < len(b.Instrs)-1 {
			in := b.Instrs[fr.idx]
			fr.idx++
			switch x := in.(type) {
			case *ssa.Store:
				sv := w.evalVal(st, x.Val)
				st.seq++
				st.stores = append(st.stores, feStore{x, sv, st.seq, w.topInstr(st, x)})
				if al := w.cellOf(st, x.Addr); al != nil {
					st.mem[al] = sv
				}
				if ia, ok := x.Addr.(*ssa.IndexAddr); ok {
					// an element of a local array (argument list of a variadic call, array literal)
					var al *ssa.Alloc
					if a, ok := ia.X.(*ssa.Alloc); ok {
						al = a
					} else if a, _, ok := w.localArray(st, ia.X); ok {
						al = a
					}
					if al != nil {
						if idx, ok := w.eval(st, ia.Index); ok && idx.Kind() == constant.Int {
							i64, _ := constant.Int64Val(idx)
							st.arr[feArrKey{al, i64}] = sv
						} else {
							st.arrDirty[al] = true
						}
					}
				}
			case *ssa.UnOp:
				if x.Op == token.MUL {
					st.loadSeq[x] = st.seq
					if al := w.cellOf(st, x.X); al != nil {
						if mv, ok := st.mem[al]; ok {
							st.loads[x] = mv
						} else {
							delete(st.loads, x)
						}
					}
				}
			case ssa.CallInstruction:
				st.seq++
				fc := feCall{Call: x, Seq: st.seq, Top: w.topInstr(st, x)}
				for _, a := range x.Common().Args {
					fc.Args = append(fc.Args, w.evalVal(st, a))
				}
				st.calls = append(st.calls, fc)
				call, isCall := x.(*ssa.Call)
				// a local array handed to a call that is not followed may be rewritten by it
				escapes := func() {
					if _, isBuiltin := x.Common().Value.(*ssa.Builtin); isBuiltin {
						return
					}
					for _, a := range x.Common().Args {
						if _, isSlice := a.Type().Underlying().(*types.Slice); !isSlice {
							continue
						}
						if al, _, ok := w.localArray(st, a); ok {
							st.arrDirty[al] = true
						}
					}
				}
				if !isCall || w.Inline == nil {
					escapes()
					continue
				}
				callee := x.Common().StaticCallee()
				var dynClosure *ssa.MakeClosure
				if callee == nil && !x.Common().IsInvoke() {
					callee, dynClosure = w.resolveCallee(st, x.Common().Value, 0)
				}
				if callee == nil || callee.Blocks == nil {
					escapes()
					continue
				}
				rec := false
				for _, f := range st.frames {
					if f.fn == callee {
						rec = true
					}
				}
				if rec || !w.Inline(callee, len(st.frames)) {
					escapes()
					continue
				}
				// a call whose result the caller of the walker pinned (Assume) is not followed:
				// its outcome is given
				pinned := false
				if _, ok := w.Assume[ssa.Value(call)]; ok {
					pinned = true
				}
				if refs := call.Referrers(); refs != nil {
					for _, ref := range *refs {
						if ex, ok := ref.(*ssa.Extract); ok {
							if _, ok := w.Assume[ex]; ok {
								pinned = true
							}
						}
					}
				}
				if pinned {
					escapes()
					continue
				}
				// bind parameters and free variables
				for i, prm := range callee.Params {
					if i < len(fc.Args) {
						st.bind[prm] = fc.Args[i]
					}
				}
				mc, ok := x.Common().Value.(*ssa.MakeClosure)
				if !ok && dynClosure != nil {
					mc, ok = dynClosure, true
				}
				if ok {
					for i, fv := range callee.FreeVars {
						if i < len(mc.Bindings) {
							st.bind[fv] = w.evalVal(st, mc.Bindings[i])
						}
					}
				}
				st.frames = append(st.frames, &feFrame{fn: callee, cur: callee.Blocks[0], call: call, visits: map[*ssa.BasicBlock]int{}, det: true})
				inlined = true
			}
			if inlined {
				break
			}
		}
		if inlined {
			continue
		}
		term := b.Instrs[len(b.Instrs)-1]
		fr.idx = 0
		switch t := term.(type) {
		case *ssa.Return:
			var results []feVal
			for _, r := range t.Results {
				results = append(results, w.evalVal(st, r))
			}
			if len(st.frames) == 1 {
				w.paths++
				w.Ends = append(w.Ends, &feEnd{Term: t, Results: results, State: st})
				return
			}
			// return into the caller
			call := fr.call
			st.frames = st.frames[:len(st.frames)-1]
			if len(results) == 1 {
				st.bind[call] = results[0]
			} else {
				st.tuples[call] = results
			}
			// the caller frame's idx already points past the call; restore "mid-block" marker
			caller := st.top()
			if caller.idx == 0 {
				caller.idx = len(caller.cur.Instrs) // defensive; should not happen
			}
			continue
		case *ssa.Panic:
			w.paths++
			w.Ends = append(w.Ends, &feEnd{Term: t, State: st})
			return
		case *ssa.Jump:
			fr.prev, fr.cur = b, b.Succs[0]
		case *ssa.If:
			if c, ok := w.eval(st, t.Cond); ok && c.Kind() == constant.Bool {
				if constant.BoolVal(c) {
					fr.prev, fr.cur = b, b.Succs[0]
				} else {
					fr.prev, fr.cur = b, b.Succs[1]
				}
				continue
			}
			// fork
			fr.det = false
			other := st.clone()
			other.free = append(other.free, condFact{t.Cond, false})
			other.free = append(other.free, derivedFacts(other, t.Cond, false)...)
			of := other.top()
			of.prev, of.cur, of.idx = b, b.Succs[1], 0
			st.free = append(st.free, condFact{t.Cond, true})
			st.free = append(st.free, derivedFacts(st, t.Cond, true)...)
			fr.prev, fr.cur = b, b.Succs[0]
			w.walk(st)
			w.walk(other)
			return
		default:
			// unreachable / other terminators
			w.paths++
			w.Ends = append(w.Ends, &feEnd{State: st, Cut: true})
			return
		}
	}
}

// derivedFacts: a branch taken on !x, or on a phi whose incoming value on this path is x, also
// decides x.
func derivedFacts(st *feState, cond ssa.Value, truth bool) []condFact {
	var out []condFact
	for d := 0; d < 6; d++ {
		switch x := cond.(type) {
		case *ssa.UnOp:
			if x.Op != token.NOT {
				return out
			}
			cond, truth = x.X, !truth
		case *ssa.Phi:
			src, ok := st.phiSrc[x]
			if !ok || src == cond {
				return out
			}
			cond = src
		default:
			return out
		}
		out = append(out, condFact{cond, truth})
	}
	return out
}

// cellOf resolves an address to the local cell it denotes: an Alloc, or a
// free variable / parameter of an inlined callee bound to one.
func (w *feWalker) cellOf(st *feState, addr ssa.Value) *ssa.Alloc {
	switch x := addr.(type) {
	case *ssa.Alloc:
		return x
	case *ssa.FreeVar, *ssa.Parameter:
		if bv, ok := st.bind[x]; ok {
			if al, ok := bv.V.(*ssa.Alloc); ok {
				return al
			}
		}
	}
	return nil
}

func (w *feWalker) evalVal(st *feState, v ssa.Value) feVal {
	if u, ok := v.(*ssa.UnOp); ok {
		if lv, ok := st.loads[u]; ok {
			return lv
		}
	}
	if bv, ok := st.bind[v]; ok {
		return bv
	}
	if ex, ok := v.(*ssa.Extract); ok {
		if c, ok := ex.Tuple.(*ssa.Call); ok {
			if tv, ok := st.tuples[c]; ok && ex.Index < len(tv) {
				return tv[ex.Index]
			}
		}
	}
	switch x := v.(type) {
	case *ssa.ChangeType:
		inner := w.evalVal(st, x.X)
		if inner.V != x.X {
			return inner
		}
	case *ssa.MakeInterface:
		inner := w.evalVal(st, x.X)
		if inner.V != x.X && inner.V != nil {
			if _, isConst := inner.V.(*ssa.Const); !isConst {
				return inner
			}
		}
	}
	out := feVal{V: v}
	if phi, ok := v.(*ssa.Phi); ok {
		if src, ok := st.phiSrc[phi]; ok {
			out.V = src
		}
	}
	if c, ok := w.eval(st, v); ok {
		out.C, out.Known = c, true
	}
	return out
}

// eval folds v to a constant on the current path if possible.
func (w *feWalker) eval(st *feState, v ssa.Value) (constant.Value, bool) {
	if c, ok := w.Assume[v]; ok {
		return c, true
	}
	// len(x) of the same SSA value x is the same number wherever it is evaluated (no CSE in
	// go/ssa: `if len(x) == 0 {..}; if len(x) == 1 {..}` has two calls)
	if c, ok := v.(*ssa.Call); ok {
		if bi, ok := c.Call.Value.(*ssa.Builtin); ok && bi.Name() == "len" && len(c.Call.Args) == 1 {
			if _, isSlice := c.Call.Args[0].Type().Underlying().(*types.Slice); isSlice || isStringType(c.Call.Args[0].Type()) {
				for k, kv := range w.Assume {
					if kc, ok := k.(*ssa.Call); ok && kc != c {
						if kb, ok := kc.Call.Value.(*ssa.Builtin); ok && kb.Name() == "len" && kc.Call.Args[0] == c.Call.Args[0] {
							return kv, true
						}
					}
				}
			}
		}
	}
	if c, ok := v.(*ssa.Call); ok {
		if bi, ok := c.Call.Value.(*ssa.Builtin); ok && bi.Name() == "len" && len(c.Call.Args) == 1 {
			if _, n, ok := w.localArray(st, c.Call.Args[0]); ok {
				return constant.MakeInt64(n), true
			}
		}
	}
	if u, ok := v.(*ssa.UnOp); ok && u.Op == token.MUL {
		switch a := u.X.(type) {
		case *ssa.IndexAddr:
			// element of a local array whose content the path determines
			if al, n, ok := w.localArray(st, a.X); ok {
				if idx, ok := w.eval(st, a.Index); ok && idx.Kind() == constant.Int {
					if i64, _ := constant.Int64Val(idx); i64 >= 0 && i64 < n {
						if ev, has := st.arr[feArrKey{al, i64}]; has && ev.Known {
							return ev.C, true
						}
					}
				}
			}
		case *ssa.FieldAddr:
			// field of a struct passed by value into a followed helper: the assumption made about
			// that field of the caller's value holds for the copy
			if al, ok := a.X.(*ssa.Alloc); ok {
				if mv, ok := st.mem[al]; ok && mv.V != nil {
					if c, ok := w.assumedField(st, mv.V, a.Field); ok {
						return c, true
					}
				}
			}
		}
	}
	if f, ok := v.(*ssa.Field); ok {
		if bv := w.evalVal(st, f.X); bv.V != nil && bv.V != f.X {
			if c, ok := w.assumedField(st, bv.V, f.Field); ok {
				return c, true
			}
		}
	}
	// a free condition already taken on this path is known
	for i, f := range st.free {
		if f.Cond == v && !st.freeStale[i] {
			return constant.MakeBool(f.Truth), true
		}
	}
	if u, ok := v.(*ssa.UnOp); ok {
		if lv, ok := st.loads[u]; ok {
			return lv.C, lv.Known
		}
	}
	if bv, ok := st.bind[v]; ok {
		if bv.Known {
			return bv.C, true
		}
		if bv.V != nil && bv.V != v {
			return w.eval(st, bv.V)
		}
		return nil, false
	}
	if ex, ok := v.(*ssa.Extract); ok {
		if c, ok := ex.Tuple.(*ssa.Call); ok {
			if tv, ok := st.tuples[c]; ok && ex.Index < len(tv) {
				if tv[ex.Index].Known {
					return tv[ex.Index].C, true
				}
				if tv[ex.Index].V != nil && tv[ex.Index].V != v {
					return w.eval(st, tv[ex.Index].V)
				}
				return nil, false
			}
		}
		if lk, ok := ex.Tuple.(*ssa.Lookup); ok {
			if val, found, ok := w.constTableLookup(st, lk); ok {
				if ex.Index == 1 {
					return constant.MakeBool(found), true
				}
				if val != nil {
					return val, true
				}
			}
		}
	}
	if lk, ok := v.(*ssa.Lookup); ok && !lk.CommaOk {
		if val, _, ok := w.constTableLookup(st, lk); ok && val != nil {
			return val, true
		}
	}
	// an element of a constant package-level array / slice table with a known index
	if u, ok := v.(*ssa.UnOp); ok && u.Op == token.MUL {
		if ia, ok := u.X.(*ssa.IndexAddr); ok {
			var g *ssa.Global
			switch b := ia.X.(type) {
			case *ssa.Global:
				g = b
			case *ssa.UnOp:
				g, _ = b.X.(*ssa.Global)
			}
			if g != nil {
				if w.P == nil {
					w.P = curProg
				}
				if w.P != nil {
					if tbl, n, ok := w.P.constArray(g); ok {
						if idx, ok := w.eval(st, ia.Index); ok && idx.Kind() == constant.Int {
							i64, _ := constant.Int64Val(idx)
							if val, has := tbl[i64]; has {
								return val, true
							}
							if i64 >= 0 && (n < 0 || i64 < n) {
								// an element the literal does not list: the zero value
								if at, ok := u.Type().Underlying().(*types.Basic); ok {
									switch {
									case at.Info()&types.IsNumeric != 0:
										return constant.MakeInt64(0), true
									case at.Info()&types.IsString != 0:
										return constant.MakeString(""), true
									case at.Info()&types.IsBoolean != 0:
										return constant.MakeBool(false), true
									}
								}
							}
						}
					}
				}
			}
		}
	}
	switch x := v.(type) {
	case *ssa.Const:
		if x.Value == nil {
			return nil, false
		}
		return x.Value, true
	case *ssa.Phi:
		if c, ok := st.phis[x]; ok {
			return c, ok
		}
		// not a constant when the block was entered: the incoming value may have been decided since
		// (conditions only: `keep` merged from two calls and tested afterwards; loop-carried
		// arithmetic refers back to the phi and is left alone)
		if bt, isB := x.Type().Underlying().(*types.Basic); isB && bt.Kind() == types.Bool && !w.inPhi[x] {
			if src, ok := st.phiSrc[x]; ok && src != v {
				switch src.(type) {
				case *ssa.Extract, *ssa.Call, *ssa.UnOp, *ssa.Parameter, *ssa.FreeVar:
					if w.inPhi == nil {
						w.inPhi = map[*ssa.Phi]bool{}
					}
					w.inPhi[x] = true
					c, ok := w.eval(st, src)
					delete(w.inPhi, x)
					return c, ok
				}
			}
		}
		return nil, false
	case *ssa.ChangeType:
		return w.eval(st, x.X)
	case *ssa.Convert:
		c, ok := w.eval(st, x.X)
		if !ok {
			return nil, false
		}
		return convertConst(c, x.Type())
	case *ssa.UnOp:
		switch x.Op {
		case token.NOT:
			c, ok := w.eval(st, x.X)
			if ok && c.Kind() == constant.Bool {
				return constant.MakeBool(!constant.BoolVal(c)), true
			}
		case token.SUB:
			c, ok := w.eval(st, x.X)
			if ok {
				return constant.UnaryOp(token.SUB, c, 0), true
			}
		}
		if w.Hook != nil {
			return w.Hook(w, st, v)
		}
		return nil, false
	case *ssa.BinOp:
		a, oka := w.eval(st, x.X)
		b, okb := w.eval(st, x.Y)
		if oka && okb {
			return foldBin(x.Op, a, b)
		}
		// nil tests on values that an inlined callee returned (or that were already tested on this path)
		if tv, trueWhenNonNil, ok := nilCheck(x); ok {
			if nn, known := w.nilness(st, tv, 0); known {
				return constant.MakeBool(nn == trueWhenNonNil), true
			}
		}
		if w.Hook != nil {
			return w.Hook(w, st, v)
		}
		return nil, false
	case *ssa.Call:
		if w.Hook != nil {
			if c, ok := w.Hook(w, st, v); ok {
				return c, true
			}
		}
		if c, ok := w.evalSliceSearch(st, x); ok {
			return c, true
		}
		return w.evalCall(st, x)
	default:
		if w.Hook != nil {
			return w.Hook(w, st, v)
		}
	}
	return nil, false
}

// evalCall interprets a call to a first-party function with a body when all
// arguments that matter fold to constants and every feasible path returns
// the same single constant.
func (w *feWalker) evalCall(st *feState, c *ssa.Call) (constant.Value, bool) {
	if w.Depth >= 4 {
		return nil, false
	}
	var callee *ssa.Function
	var args []ssa.Value
	cc := c.Common()
	if cc.IsInvoke() {
		return nil, false
	}
	if fn := cc.StaticCallee(); fn != nil {
		callee = fn
		args = cc.Args
	}
	if callee == nil || callee.Blocks == nil || callee.Signature.Results().Len() != 1 {
		return nil, false
	}
	assume := map[ssa.Value]constant.Value{}
	for i, p := range callee.Params {
		if i >= len(args) {
			break
		}
		if a, ok := w.eval(st, args[i]); ok {
			assume[p] = a
		}
	}
	// free variables of closures: bindings
	if mc, ok := cc.Value.(*ssa.MakeClosure); ok {
		for i, fv := range callee.FreeVars {
			if i < len(mc.Bindings) {
				if a, ok := w.eval(st, mc.Bindings[i]); ok {
					assume[fv] = a
				}
			}
		}
	}
	sub := &feWalker{Fn: callee, Assume: assume, Hook: w.Hook, Depth: w.Depth + 1, MaxPath: 256, P: w.P}
	ends := sub.Run()
	if sub.Aborted || len(ends) == 0 {
		return nil, false
	}
	var res constant.Value
	for _, e := range ends {
		if e.Cut || e.Term == nil {
			return nil, false
		}
		if _, ok := e.Term.(*ssa.Return); !ok {
			return nil, false
		}
		if len(e.Results) != 1 || !e.Results[0].Known {
			return nil, false
		}
		if res == nil {
			res = e.Results[0].C
		} else if !constant.Compare(res, token.EQL, e.Results[0].C) {
			return nil, false
		}
	}
	return res, res != nil
}

func foldBin(op token.Token, a, b constant.Value) (constant.Value, bool) {
	defer func() { recover() }()
	switch op {
	case token.EQL, token.NEQ, token.LSS, token.LEQ, token.GTR, token.GEQ:
		if a.Kind() == constant.Bool && b.Kind() == constant.Bool {
			eq := constant.BoolVal(a) == constant.BoolVal(b)
			switch op {
			case token.EQL:
				return constant.MakeBool(eq), true
			case token.NEQ:
				return constant.MakeBool(!eq), true
			}
			return nil, false
		}
		return constant.MakeBool(constant.Compare(a, op, b)), true
	case token.ADD, token.SUB, token.MUL, token.AND, token.OR, token.XOR, token.AND_NOT:
		if a.Kind() == constant.Bool {
			return nil, false
		}
		return constant.BinaryOp(a, op, b), true
	case token.QUO, token.REM:
		if constant.Sign(b) == 0 {
			return nil, false
		}
		if a.Kind() == constant.Int && b.Kind() == constant.Int {
			if op == token.QUO {
				return constant.BinaryOp(a, token.QUO_ASSIGN, b), true
			}
			return constant.BinaryOp(a, token.REM, b), true
		}
		return constant.BinaryOp(a, op, b), true
	case token.SHL, token.SHR:
		if s, ok := constant.Uint64Val(b); ok && s < 64 {
			return constant.Shift(a, op, uint(s)), true
		}
	}
	return nil, false
}

func convertConst(c constant.Value, t types.Type) (constant.Value, bool) {
	b, ok := t.Underlying().(*types.Basic)
	if !ok {
		return c, true
	}
	switch {
	case b.Info()&types.IsInteger != 0:
		if c.Kind() == constant.Int {
			return c, true
		}
		if c.Kind() == constant.Float {
			f, _ := constant.Float64Val(c)
			return constant.MakeInt64(int64(f)), true
		}
	case b.Info()&types.IsFloat != 0:
		return constant.ToFloat(c), true
	case b.Info()&types.IsString != 0:
		if c.Kind() == constant.String {
			return c, true
		}
		return nil, false
	case b.Info()&types.IsBoolean != 0:
		return c, true
	}
	return nil, false
}

// ---------------------------------------------------------------------------
// helpers built on the walker

// enumConstants lists the declared constants of a named type, in its package.
func enumConstants(t types.Type) map[string]constant.Value {
	n := namedOf(t)
	if n == nil || n.Obj().Pkg() == nil {
		return nil
	}
	out := map[string]constant.Value{}
	scope := n.Obj().Pkg().Scope()
	for _, name := range scope.Names() {
		c, ok := scope.Lookup(name).(*types.Const)
		if !ok {
			continue
		}
		if types.Identical(c.Type(), n) {
			out[name] = c.Val()
		}
	}
	return out
}

// switchTags finds candidate tag values in fn: SSA values of the given named
// type that are compared (==) against constants in If conditions.
func switchTags(fn *ssa.Function, typ types.Type) []ssa.Value {
	seen := map[ssa.Value]bool{}
	var out []ssa.Value
	allInstrs(fn, func(in ssa.Instruction) {
		b, ok := in.(*ssa.BinOp)
		if !ok || (b.Op != token.EQL && b.Op != token.NEQ) {
			return
		}
		var tag ssa.Value
		if _, isC := b.Y.(*ssa.Const); isC {
			tag = b.X
		} else if _, isC := b.X.(*ssa.Const); isC {
			tag = b.Y
		}
		if tag == nil || seen[tag] {
			return
		}
		if typ != nil && !types.Identical(tag.Type(), typ) {
			return
		}
		if _, isC := tag.(*ssa.Const); isC {
			return
		}
		seen[tag] = true
		out = append(out, tag)
	})
	return out
}

// constTableLookup folds a lookup in a package-level map that is initialised by
// a composite literal of constants and never written: m[k] with k known.
func (w *feWalker) constTableLookup(st *feState, lk *ssa.Lookup) (val constant.Value, found bool, ok bool) {
	if w.P == nil {
		w.P = curProg
	}
	if w.P == nil {
		return nil, false, false
	}
	u, isLoad := lk.X.(*ssa.UnOp)
	if !isLoad {
		return nil, false, false
	}
	g, isG := u.X.(*ssa.Global)
	if !isG || g.Pkg == nil {
		return nil, false, false
	}
	k, kok := w.eval(st, lk.Index)
	if !kok {
		return nil, false, false
	}
	tbl, tok := w.P.constTable(g)
	if !tok {
		return nil, false, false
	}
	e, has := tbl[k.ExactString()]
	if !has {
		// zero value of the element type
		mt, _ := g.Type().Underlying().(*types.Pointer)
		if mt != nil {
			if m, ok := mt.Elem().Underlying().(*types.Map); ok {
				if b, ok := m.Elem().Underlying().(*types.Basic); ok {
					switch {
					case b.Info()&types.IsInteger != 0:
						return constant.MakeInt64(0), false, true
					case b.Info()&types.IsString != 0:
						return constant.MakeString(""), false, true
					case b.Info()&types.IsBoolean != 0:
						return constant.MakeBool(false), false, true
					}
				}
			}
		}
		return nil, false, true
	}
	if w.P.presenceOnly[g][k.ExactString()] {
		return nil, true, true // present, value is not a constant
	}
	return e, true, true
}

// evalSliceSearch folds slices.Contains / slices.Index over a slice whose content the path
// determines: a constant package-level table or a local argument list.
func (w *feWalker) evalSliceSearch(st *feState, c *ssa.Call) (constant.Value, bool) {
	callee := c.Common().StaticCallee()
	if callee == nil || len(c.Call.Args) != 2 {
		return nil, false
	}
	o := callee
	if o.Origin() != nil {
		o = o.Origin()
	}
	if o.Pkg == nil || o.Pkg.Pkg.Path() != "slices" || (o.Name() != "Contains" && o.Name() != "Index") {
		return nil, false
	}
	needle, ok := w.eval(st, c.Call.Args[1])
	if !ok {
		return nil, false
	}
	var elems []constant.Value
	if al, n, ok := w.localArray(st, c.Call.Args[0]); ok {
		for i := int64(0); i < n; i++ {
			ev, has := st.arr[feArrKey{al, i}]
			if !has || !ev.Known {
				return nil, false
			}
			elems = append(elems, ev.C)
		}
	} else {
		v := c.Call.Args[0]
		var g *ssa.Global
		for d := 0; d < 5 && v != nil; d++ {
			if u, ok := v.(*ssa.UnOp); ok {
				if gg, ok := u.X.(*ssa.Global); ok {
					g = gg
					break
				}
			}
			nv := w.evalVal(st, v).V
			if nv == nil || nv == v {
				break
			}
			v = nv
		}
		if g == nil {
			return nil, false
		}
		if w.P == nil {
			w.P = curProg
		}
		if w.P == nil {
			return nil, false
		}
		tbl, _, ok := w.P.constArray(g)
		if !ok {
			return nil, false
		}
		for i := int64(0); i < int64(len(tbl)); i++ {
			ev, has := tbl[i]
			if !has {
				return nil, false // sparse literal: not a plain list
			}
			elems = append(elems, ev)
		}
	}
	idx := int64(-1)
	for i, e := range elems {
		if e.Kind() == needle.Kind() && constant.Compare(e, token.EQL, needle) {
			idx = int64(i)
			break
		}
	}
	if o.Name() == "Contains" {
		return constant.MakeBool(idx >= 0), true
	}
	return constant.MakeInt64(idx), true
}

// localArray resolves a slice value to the local array cell it covers entirely (`a[:]` of a
// local [N]T, the form a variadic argument list takes), when the path still knows its content.
func (w *feWalker) localArray(st *feState, v ssa.Value) (*ssa.Alloc, int64, bool) {
	for d := 0; d < 4 && v != nil; d++ {
		if x, ok := v.(*ssa.Slice); ok {
			if x.Low != nil || x.High != nil || x.Max != nil {
				return nil, 0, false
			}
			al, ok := x.X.(*ssa.Alloc)
			if !ok || st.arrDirty[al] {
				return nil, 0, false
			}
			pt, ok := al.Type().Underlying().(*types.Pointer)
			if !ok {
				return nil, 0, false
			}
			at, ok := pt.Elem().Underlying().(*types.Array)
			if !ok {
				return nil, 0, false
			}
			return al, at.Len(), true
		}
		var nv ssa.Value
		if bv, ok := st.bind[v]; ok {
			nv = bv.V
		} else if u, ok := v.(*ssa.UnOp); ok {
			if lv, ok := st.loads[u]; ok {
				nv = lv.V
			}
		}
		if nv == nil || nv == v {
			return nil, 0, false
		}
		v = nv
	}
	return nil, 0, false
}

// assumedField: the assumed value of field #field of the struct value base, when the walker's
// assumptions pin that field of the same value (read directly, or through the cell it lives in).
func (w *feWalker) assumedField(st *feState, base ssa.Value, field int) (constant.Value, bool) {
	var cell ssa.Value
	if u, ok := base.(*ssa.UnOp); ok && u.Op == token.MUL {
		cell = u.X
	}
	for k, c := range w.Assume {
		switch x := k.(type) {
		case *ssa.Field:
			if x.Field == field && x.X == base {
				return c, true
			}
		case *ssa.UnOp:
			if x.Op != token.MUL {
				continue
			}
			fa, ok := x.X.(*ssa.FieldAddr)
			if !ok || fa.Field != field {
				continue
			}
			if cell != nil && fa.X == cell {
				return c, true
			}
			// base is the value the path last stored into the cell the assumption reads from
			if al, ok := fa.X.(*ssa.Alloc); ok {
				if mv, ok := st.mem[al]; ok && mv.V == base {
					return c, true
				}
			}
		}
	}
	return nil, false
}

// resolveCallee: the function a dynamic call invokes, when the called value is a
// function value the path determines: an element of a constant function table looked
// up with a known key, a function or closure value bound on the path.
func (w *feWalker) resolveCallee(st *feState, v ssa.Value, depth int) (*ssa.Function, *ssa.MakeClosure) {
	if v == nil || depth > 4 {
		return nil, nil
	}
	switch x := v.(type) {
	case *ssa.Function:
		return x, nil
	case *ssa.MakeClosure:
		if f, ok := x.Fn.(*ssa.Function); ok {
			return f, x
		}
	case *ssa.Extract:
		if lk, ok := x.Tuple.(*ssa.Lookup); ok && x.Index == 0 {
			return w.funcTableLookup(st, lk), nil
		}
	case *ssa.Lookup:
		if !x.CommaOk {
			return w.funcTableLookup(st, x), nil
		}
	}
	if rv := w.evalVal(st, v).V; rv != nil && rv != v {
		return w.resolveCallee(st, rv, depth+1)
	}
	// a local function variable assigned once with a function literal (possibly captured by the
	// closure being walked)
	if lu, ok := v.(*ssa.UnOp); ok && lu.Op == token.MUL {
		var cell ssa.Value = lu.X
		if fv, ok := cell.(*ssa.FreeVar); ok {
			if b := freeVarBinding(fv); b != nil {
				cell = b
			}
		}
		if al, ok := cell.(*ssa.Alloc); ok {
			if sts := storesTo(al); len(sts) == 1 {
				switch f := sts[0].Val.(type) {
				case *ssa.MakeClosure:
					if fn, ok := f.Fn.(*ssa.Function); ok {
						return fn, f
					}
				case *ssa.Function:
					return f, nil
				}
			}
		}
	}
	return nil, nil
}

func (w *feWalker) funcTableLookup(st *feState, lk *ssa.Lookup) *ssa.Function {
	if w.P == nil {
		w.P = curProg
	}
	u, isLoad := lk.X.(*ssa.UnOp)
	if !isLoad || w.P == nil {
		return nil
	}
	g, isG := u.X.(*ssa.Global)
	if !isG || g.Pkg == nil {
		return nil
	}
	k, kok := w.eval(st, lk.Index)
	if !kok {
		return nil
	}
	if ft := w.P.funcTable(g); ft != nil {
		return ft[k.ExactString()]
	}
	return nil
}

// curProg is the program currently analysed (set by runProps); walkers use it for constant tables.
var curProg *Program

// nilness: is v known nil / non-nil on this path? Resolves values returned by
// inlined callees and reuses nil tests already taken on the path.
func (w *feWalker) nilness(st *feState, v ssa.Value, depth int) (nonNil bool, known bool) {
	if depth > 4 {
		return false, false
	}
	rv := w.evalVal(st, v).V
	if rv == nil {
		return false, false
	}
	if isNilConst(rv) {
		return false, true
	}
	switch x := stripTypeOnly(rv).(type) {
	case *ssa.Alloc, *ssa.MakeMap, *ssa.MakeSlice, *ssa.MakeClosure, *ssa.Function:
		return true, true
	case *ssa.Call:
		if isErrorType(x.Type()) && isErrorCtor(x) {
			return true, true
		}
	}
	if _, ok := rv.(*ssa.MakeInterface); ok {
		return true, true
	}
	for i, f := range st.free {
		if st.freeStale[i] {
			continue
		}
		if x, nn, ok := nilCheck(f.Cond); ok && x != nil {
			if x == rv || (x != v && w.evalVal(st, x).V == rv && rv != x) {
				return nn == f.Truth, true
			}
		}
	}
	return false, false
}
