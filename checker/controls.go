package main

// Positive controls (thorough tier): every seeded change kept under
// /verif/seeded/<property>-<x>/ and every own mutant under
// /verif/mutants/<property>/*.patch is applied to a scratch copy of the
// CURRENT /repo tree; the property's rules must report a violation there. A
// patch that no longer applies is "skipped"; a control that applies but does
// not fire is reported as CONTROL-MISSED in the output and in the evidence
// (it does not turn the verdict on the real tree into a violation: the
// verdict speaks about /repo, the controls about the checker).

import (
	"encoding/json"
	"fmt"
	"os"
	"os/exec"
	"path/filepath"
	"sort"
	"strings"
	"sync"
)

type controlSpec struct {
	Name  string
	Patch string
}

func controlsFor(prop string) []controlSpec {
	var out []controlSpec
	seeded, _ := filepath.Glob(filepath.Join(verifDir(), "seeded", prop+"-*", "patch.diff"))
	for _, p := range seeded {
		out = append(out, controlSpec{Name: "seeded/" + filepath.Base(filepath.Dir(p)), Patch: p})
	}
	own, _ := filepath.Glob(filepath.Join(verifDir(), "mutants", prop, "*.patch"))
	for _, p := range own {
		out = append(out, controlSpec{Name: "mutants/" + prop + "/" + strings.TrimSuffix(filepath.Base(p), ".patch"), Patch: p})
	}
	sort.Slice(out, func(i, j int) bool { return out[i].Name < out[j].Name })
	return out
}

func runControls(oc *Outcome) {
	specs := controlsFor(oc.Prop)
	if len(specs) == 0 {
		return
	}
	self, err := os.Executable()
	if err != nil {
		oc.Controls = append(oc.Controls, ControlResult{Name: "-", Result: "skipped", Detail: "cannot locate own executable: " + err.Error()})
		return
	}
	results := make([]ControlResult, len(specs))
	sem := make(chan struct{}, 8)
	var wg sync.WaitGroup
	for i, s := range specs {
		wg.Add(1)
		go func(i int, s controlSpec) {
			defer wg.Done()
			sem <- struct{}{}
			defer func() { <-sem }()
			results[i] = runOneControl(self, oc.Prop, s)
		}(i, s)
	}
	wg.Wait()
	for _, r := range results {
		oc.Controls = append(oc.Controls, r)
		if r.Result == "missed" {
			fmt.Printf("CONTROL-MISSED: property=%s control=%s: the patch applies but no rule fires (%s)\n", oc.Prop, r.Name, r.Detail)
		}
	}
}

func runOneControl(self, prop string, s controlSpec) ControlResult {
	res := ControlResult{Name: s.Name}
	tmp, err := os.MkdirTemp("", "verifctl-")
	if err != nil {
		res.Result, res.Detail = "skipped", err.Error()
		return res
	}
	defer os.RemoveAll(tmp)
	scratch := filepath.Join(tmp, "repo")
	vdir := filepath.Join(tmp, "verif")
	_ = os.MkdirAll(vdir, 0o755)
	cp := exec.Command("rsync", "-a", "--exclude", ".git", repoDir()+"/", scratch+"/")
	if out, err := cp.CombinedOutput(); err != nil {
		res.Result, res.Detail = "skipped", "copy failed: "+strings.TrimSpace(string(out))
		return res
	}
	for _, f := range []string{"known_findings.json", "properties.jsonl"} {
		if b, err := os.ReadFile(filepath.Join(verifDir(), f)); err == nil {
			_ = os.WriteFile(filepath.Join(vdir, f), b, 0o644)
		}
	}
	pf, err := os.Open(s.Patch)
	if err != nil {
		res.Result, res.Detail = "skipped", err.Error()
		return res
	}
	ap := exec.Command("patch", "-p1", "-s", "--no-backup-if-mismatch", "-d", scratch)
	ap.Stdin = pf
	out, err := ap.CombinedOutput()
	pf.Close()
	if err != nil {
		res.Result, res.Detail = "skipped", "patch does not apply to the current tree: "+firstLine(string(out))
		return res
	}
	run := exec.Command(self, prop, "--tier", "quick")
	run.Env = append(os.Environ(), "VERIF_REPO="+scratch, "VERIF_DIR="+vdir, "VERIF_TIER=quick")
	_, _ = run.CombinedOutput()
	code := 0
	if run.ProcessState != nil {
		code = run.ProcessState.ExitCode()
	}
	// read the report
	var rep struct {
		Violations []*Obligation `json:"violations"`
		Fatal      []string      `json:"analysis_failures"`
	}
	if b, err := os.ReadFile(filepath.Join(vdir, "reports", prop+".json")); err == nil {
		_ = json.Unmarshal(b, &rep)
	}
	var rules []string
	seen := map[string]bool{}
	for _, v := range rep.Violations {
		k := v.Rule + " [" + v.Construct + "]"
		if !seen[k] {
			seen[k] = true
			rules = append(rules, k)
		}
	}
	sort.Strings(rules)
	if len(rules) > 3 {
		rules = append(rules[:3], fmt.Sprintf("(+%d more)", len(rules)-3))
	}
	switch {
	case code == 1 && len(rep.Violations) > 0:
		res.Result = "fired"
		res.Rule = strings.Join(rules, "; ")
	case code == 1 && len(rep.Fatal) > 0:
		res.Result = "fired"
		res.Rule = "analysis failure (e.g. the change does not type-check): " + firstLine(rep.Fatal[0])
	default:
		res.Result = "missed"
		res.Detail = fmt.Sprintf("exit code %d, %d violations", code, len(rep.Violations))
	}
	return res
}

func firstLine(s string) string {
	s = strings.TrimSpace(s)
	if i := strings.IndexByte(s, '\n'); i >= 0 {
		s = s[:i]
	}
	if len(s) > 200 {
		s = s[:200]
	}
	return s
}

// crossReferences runs the generic linters as evidence only (never a verdict).
func crossReferences() []string {
	var out []string
	env := append(os.Environ(), "GOFLAGS=-mod=mod", "GOPROXY=off", "GOSUMDB=off", "GOTOOLCHAIN=local", "GOWORK=off")
	vet := exec.Command("go", "vet", "./...")
	vet.Dir = repoDir()
	vet.Env = env
	b, err := vet.CombinedOutput()
	lines := 0
	for _, l := range strings.Split(string(b), "\n") {
		if strings.Contains(l, ".go:") {
			lines++
		}
	}
	if err != nil {
		out = append(out, fmt.Sprintf("go vet ./...: %d diagnostic line(s) (evidence only, not a verdict)", lines))
	} else {
		out = append(out, "go vet ./...: clean (evidence only; says nothing about the property)")
	}
	return out
}
