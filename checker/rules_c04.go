package main

import (
	"go/constant"
	"go/token"
	"go/types"

	"golang.org/x/tools/go/ssa"
)

// goSites lists every place first-party code starts a goroutine: `go`
// statements and (*errgroup.Group).Go calls, with the function they run.
type goSite struct {
	In      *ssa.Function
	Instr   ssa.CallInstruction
	Closure *ssa.MakeClosure
	Body    *ssa.Function
	Group   ssa.Value // errgroup receiver, nil for go statements
}

func goSites(p *Program) []goSite {
	var out []goSite
	for _, fn := range p.SrcFuncs() {
		for _, c := range callsIn(fn) {
			var fv ssa.Value
			var grp ssa.Value
			switch x := c.(type) {
			case *ssa.Go:
				fv = x.Call.Value
				if x.Call.IsInvoke() {
					fv = nil
				}
			default:
				if callIs(c, "golang.org/x/sync/errgroup", "(*Group).Go") || callIs(c, "golang.org/x/sync/errgroup", "(*Group).TryGo") {
					fv = c.Common().Args[1]
					grp = c.Common().Args[0]
				} else {
					continue
				}
			}
			gs := goSite{In: fn, Instr: c, Group: grp}
			if mc, ok := fv.(*ssa.MakeClosure); ok {
				gs.Closure = mc
				gs.Body, _ = mc.Fn.(*ssa.Function)
			} else if f, ok := fv.(*ssa.Function); ok {
				gs.Body = f
			}
			out = append(out, gs)
		}
	}
	return out
}

// rulePVGo: goroutine write discipline and join-before-read.
func rulePVGo(r *Run) {
	p := r.P
	sites := goSites(p)
	r.count("goroutine_sites", len(sites))
	inv := r.Ob("PV-GO", "inventory", "every place that starts a goroutine is analysed")
	if len(sites) < 1 {
		inv.Fail("-", "no goroutine start found; the confirmed floor is 1 (Querier.SelectLogs)")
		return
	}
	inv.OK("%d goroutine start site(s)", len(sites))
	inv.Trivial = true
	for _, gs := range sites {
		name := shortFuncName(gs.In)
		o := r.Ob("PV-GO", name+" goroutine", "a goroutine writes only to a slice slot addressed by its own per-iteration index; the parent reads shared state only after the join")
		o.At(r.pos(gs.Instr.Pos()))
		if gs.Body == nil || gs.Closure == nil && len(gs.Body.FreeVars) > 0 {
			o.Undecide(r.pos(gs.Instr.Pos()), "goroutine body is not a function literal")
			continue
		}
		good := true
		// enclosing loop of the start site (if any)
		var loop *rangeLoop
		for _, l := range rangeIndexLoops(gs.In) {
			if l.Blocks[gs.Instr.Block()] {
				loop = l
			}
		}
		perIter := func(cell ssa.Value) bool {
			al, ok := cell.(*ssa.Alloc)
			return ok && loop != nil && loop.Blocks[al.Block()] && al.Block() != loop.Header
		}
		var sharedSlices []ssa.Value // captured cells holding slices written by index
		if gs.Closure != nil {
			for i, fv := range gs.Body.FreeVars {
				cell := gs.Closure.Bindings[i]
				for _, ref := range *fv.Referrers() {
					switch x := ref.(type) {
					case *ssa.Store:
						if x.Addr == ssa.Value(fv) && !perIter(cell) {
							good = false
							o.Fail(r.pos(x.Pos()), "the goroutine assigns the captured variable %s, which is shared with the parent and the other goroutines (append/reassignment makes the result depend on completion order)", fv.Name())
						}
					case *ssa.UnOp:
						// loaded value: look for element stores
						for _, use := range *x.Referrers() {
							ia, ok := use.(*ssa.IndexAddr)
							if !ok {
								continue
							}
							written := false
							for _, u2 := range *ia.Referrers() {
								if st, ok := u2.(*ssa.Store); ok && st.Addr == ssa.Value(ia) {
									written = true
								}
							}
							if !written {
								continue
							}
							sharedSlices = append(sharedSlices, cell)
							// index must be a load of a per-iteration captured cell holding the range index
							idxOK := false
							if lu, ok := ia.Index.(*ssa.UnOp); ok && lu.Op == token.MUL {
								if ifv, ok := lu.X.(*ssa.FreeVar); ok {
									for j, fv2 := range gs.Body.FreeVars {
										if fv2 == ifv {
											icell := gs.Closure.Bindings[j]
											if perIter(icell) {
												sts := storesTo(icell)
												if len(sts) == 1 && loop != nil && sts[0].Val == loop.Index {
													idxOK = true
												}
											}
										}
									}
								}
							}
							if !idxOK {
								good = false
								o.Fail(r.pos(ia.Pos()), "the goroutine writes slot [%s] of the shared slice %s; the index is not this iteration's own range index", describe(ia.Index, 0), fv.Name())
							}
						}
					case *ssa.DebugRef:
					default:
						if _, isCall := ref.(ssa.CallInstruction); isCall {
							good = false
							o.Undecide(r.pos(ref.Pos()), "the address of captured variable %s is passed to a call inside the goroutine", fv.Name())
						}
					}
				}
			}
		}
		// functions called from the goroutine must not write package-level variables
		seenFn := map[*ssa.Function]bool{}
		var scan func(f *ssa.Function, depth int)
		scan = func(f *ssa.Function, depth int) {
			if f == nil || seenFn[f] || f.Blocks == nil || depth > 4 {
				return
			}
			seenFn[f] = true
			allInstrs(f, func(in ssa.Instruction) {
				switch x := in.(type) {
				case *ssa.Store:
					if g, ok := addrRoot(x.Addr).(*ssa.Global); ok {
						good = false
						o.Fail(r.pos(x.Pos()), "%s, running in concurrently started goroutines, writes the package-level variable %s (data race)", shortFuncName(f), g.Name())
					}
				case *ssa.MapUpdate:
					if g, ok := addrRoot(x.Map).(*ssa.Global); ok {
						good = false
						o.Fail(r.pos(x.Pos()), "%s, running in concurrently started goroutines, updates the package-level map %s (data race)", shortFuncName(f), g.Name())
					}
				case ssa.CallInstruction:
					if callee := staticCallee(x); callee != nil {
						pk := callee.Pkg
						if pk == nil && callee.Origin() != nil {
							pk = callee.Origin().Pkg
						}
						if pk != nil && isFirstParty(pk.Pkg.Path()) {
							scan(callee, depth+1)
						}
					}
				}
			})
		}
		scan(gs.Body, 0)
		// join: every return of the parent reachable from the start site is dominated by Wait on the same group
		if gs.Group != nil {
			var wait ssa.CallInstruction
			for _, c := range callsIn(gs.In) {
				if callIs(c, "golang.org/x/sync/errgroup", "(*Group).Wait") && c.Common().Args[0] == gs.Group {
					wait = c
				}
			}
			if wait == nil {
				good = false
				o.Fail(r.pos(gs.Instr.Pos()), "the goroutines are never joined (no Wait on the group)")
			} else {
				for _, ret := range returnsOf(gs.In) {
					if blockReaches(gs.Instr.Block(), ret.Block()) && !wait.Block().Dominates(ret.Block()) {
						good = false
						o.Fail(r.pos(ret.Pos()), "the function can return (running its deferred cleanup) without waiting for the goroutines")
					}
				}
				// parent loads of the shared slice cells after the start are dominated by Wait
				for _, cell := range sharedSlices {
					for _, ref := range *cell.Referrers() {
						lu, ok := ref.(*ssa.UnOp)
						if !ok || lu.Parent() != gs.In {
							continue
						}
						if blockReaches(gs.Instr.Block(), lu.Block()) && !instrDominates(wait, lu) && lu.Block() != gs.Instr.Block() {
							good = false
							o.Fail(r.pos(lu.Pos()), "the parent reads the slice the goroutines fill before Wait returns")
						}
					}
				}
				// the Wait error reaches a failure exit
				if wc, ok := wait.(*ssa.Call); ok {
					used := false
					for _, ref := range *wc.Referrers() {
						if _, ok := ref.(*ssa.DebugRef); !ok {
							used = true
						}
					}
					if !used {
						good = false
						o.Fail(r.pos(wait.Pos()), "the error returned by Wait is dropped")
					}
				}
			}
		} else {
			good = false
			o.Undecide(r.pos(gs.Instr.Pos()), "bare go statement: no join discipline recognised")
		}
		if good {
			o.OK("writes only iters[idx] with idx the per-iteration range index; Wait dominates every later return and read")
		}
	}
}

// ---------------------------------------------------------------------------
// merge iterator (heap protocol)

// mergeIdxField: the name of the heap element's source-index field, set by the Next rule for the init rule.
var mergeIdxField = "iterIdx"

func ruleMergeIter(r *Run) {
	p := r.P
	dl := modPath + "/" + dockerlogPkg
	next := p.Method(dockerlogPkg, "mergeIter", "Next")
	initM := p.Method(dockerlogPkg, "mergeIter", "init")
	anchor := r.Ob("ANCHOR", "dockerlog.mergeIter", "anchor methods resolve")
	anchor.Trivial = true
	if next == nil || initM == nil {
		anchor.Fail("-", "mergeIter.Next/init not found")
		return
	}
	anchor.OK("resolved").At(r.pos(next.Pos()))

	// container/heap adapter: Less(i, j) orders h[i] before h[j] iff h[i]'s record timestamp is smaller
	// (directly, or through an element method); Push appends; Pop removes last
	hl := p.Method(dockerlogPkg, "iterHeap", "Less")
	ol := r.Ob("PV-ROLE", "dockerlog.iterHeapElem.Less", "the heap orders elements by record timestamp, smallest first")
	oh := r.Ob("PV-ROLE", "dockerlog.iterHeap adapter", "the container/heap adapter compares h[i] with h[j] in this order, Push appends, Pop removes the last element")
	if hl == nil || len(hl.Params) != 3 {
		ol.Fail("-", "iterHeap.Less not found")
		oh.Fail("-", "iterHeap.Less not found")
	} else {
		// which heap index (parameter 1 = i, 2 = j) an operand's element is
		side := func(l leaf, v ssa.Value) (int, bool) {
			f, base, ok := loadOfField(v)
			if !ok || f != "Timestamp" {
				return 0, false
			}
			f2, base2, ok := fieldNameOf(base)
			if !ok || f2 != "record" {
				return 0, false
			}
			el := l.resolve(spillParam(base2))
			if ia, ok := el.(*ssa.IndexAddr); ok {
				for i, prm := range hl.Params {
					if ia.Index == ssa.Value(prm) && ia.X == ssa.Value(hl.Params[0]) {
						return i, true
					}
				}
				return 0, false
			}
			if lu, ok := el.(*ssa.UnOp); ok {
				if ia, ok := lu.X.(*ssa.IndexAddr); ok && ia.X != ssa.Value(hl.Params[0]) {
					return 0, false
				}
			}
			return indexParam(el, hl)
		}
		lgood, n := true, 0
		for _, ret := range returnsOf(hl) {
			for _, l := range expandLeaves(ret.Results[0], nil, 0) {
				n++
				b, ok := l.V.(*ssa.BinOp)
				if !ok {
					lgood = false
					continue
				}
				x, okx := side(l, b.X)
				y, oky := side(l, b.Y)
				if !(okx && oky && ((b.Op == token.LSS && x == 1 && y == 2) || (b.Op == token.GTR && x == 2 && y == 1))) {
					lgood = false
				}
			}
		}
		pop := p.Method(dockerlogPkg, "iterHeap", "Pop")
		push := p.Method(dockerlogPkg, "iterHeap", "Push")
		if lgood && n > 0 {
			ol.OK("h[i].record.Timestamp < h[j].record.Timestamp").At(r.pos(hl.Pos()))
		} else {
			ol.Fail(r.pos(hl.Pos()), "Less(i, j) is not `h[i].record.Timestamp < h[j].record.Timestamp`")
		}
		if pop == nil || push == nil {
			oh.Fail(r.pos(hl.Pos()), "iterHeap.Push / Pop not found")
		} else if lgood && n > 0 {
			oh.OK("Less(i, j) compares h[i] with h[j]").At(r.pos(hl.Pos()))
		} else {
			oh.Fail(r.pos(hl.Pos()), "Less does not compare h[i] with h[j]")
		}
	}

	recv := next.Params[0]
	isRecvF := func(v ssa.Value, name string) bool {
		f, base, ok := fieldNameOf(v)
		return ok && f == name && base == ssa.Value(recv)
	}
	// ---- Next ---------------------------------------------------------------
	on := r.Ob("PV-PAIR", "dockerlog.(*mergeIter).Next", "Next emits the popped record, refills from the source the popped element came from and pushes the refill tagged with that same source; true when a record was emitted")
	var pop, push *ssa.Call
	var initCall ssa.CallInstruction
	var srcNext, srcErr *ssa.Call
	for _, c := range callsIn(next) {
		call, isCall := c.(*ssa.Call)
		switch {
		case callIs(c, "container/heap", "Pop") && isCall:
			pop = call
		case callIs(c, "container/heap", "Push") && isCall:
			push = call
		case callIs(c, dl, "(*mergeIter).init"):
			initCall = c
		case isCall && invokeIs(call, "Next"):
			srcNext = call
		case isCall && invokeIs(call, "Err"):
			srcErr = call
		}
	}
	// the refill may live in a helper that Next hands the popped element to (by value): the helper's
	// copy of the element then plays the part of the popped element
	body := next
	var contCall *ssa.Call
	if pop != nil && initCall != nil && (push == nil || srcNext == nil) {
		for _, c := range callsIn(next) {
			call, ok := c.(*ssa.Call)
			if !ok {
				continue
			}
			h := staticCallee(call)
			if h == nil || h.Blocks == nil || pkgOfFunc(h) != pkgOfFunc(next) || c == initCall {
				continue
			}
			var hPush, hNext, hErr *ssa.Call
			for _, c2 := range callsIn(h) {
				c2c, ok := c2.(*ssa.Call)
				if !ok {
					continue
				}
				switch {
				case callIs(c2, "container/heap", "Push"):
					hPush = c2c
				case invokeIs(c2c, "Next"):
					hNext = c2c
				case invokeIs(c2c, "Err"):
					hErr = c2c
				}
			}
			if hPush != nil && hNext != nil {
				body, contCall, push, srcNext, srcErr = h, call, hPush, hNext, hErr
			}
		}
	}
	if pop == nil || push == nil || initCall == nil || srcNext == nil {
		on.Fail(r.pos(next.Pos()), "heap.Pop=%v heap.Push=%v init=%v source.Next=%v", pop != nil, push != nil, initCall != nil, srcNext != nil)
		return
	}
	good := true
	if !instrDominates(initCall, pop) {
		// init may be skipped only where a boolean field of the iterator says it already ran: the pop
		// must be unreachable from the entry without passing init or such a "flag is set" edge
		reach := map[*ssa.BasicBlock]bool{}
		work := []*ssa.BasicBlock{next.Blocks[0]}
		for len(work) > 0 {
			b := work[len(work)-1]
			work = work[:len(work)-1]
			if reach[b] || b == initCall.Block() {
				continue
			}
			reach[b] = true
			for _, sc := range b.Succs {
				if f, ok := edgeFact(b, sc); ok {
					f = normFact(f)
					if _, base, ok := loadOfField(f.Cond); ok && base == ssa.Value(next.Params[0]) && f.Truth {
						if bt, ok := f.Cond.Type().Underlying().(*types.Basic); ok && bt.Kind() == types.Bool {
							continue // "already initialised" edge
						}
					}
				}
				work = append(work, sc)
			}
		}
		if reach[pop.Block()] {
			good = false
			on.Fail(r.pos(pop.Pos()), "init does not run before the first Pop")
		}
	}
	// popped element cell
	var elemCell *ssa.Alloc
	for _, ref := range *pop.Referrers() {
		if ta, ok := ref.(*ssa.TypeAssert); ok {
			for _, r2 := range *ta.Referrers() {
				if st, ok := r2.(*ssa.Store); ok {
					elemCell, _ = st.Addr.(*ssa.Alloc)
				}
			}
		}
	}
	if elemCell == nil {
		on.Undecide(r.pos(pop.Pos()), "popped element is not kept in a local")
		return
	}
	popCell := elemCell // the popped element in Next (the record the caller receives is copied from it)
	if contCall != nil {
		// the helper's parameter that receives the popped element, spilled into a local of the helper
		pi := -1
		for i, a := range contCall.Call.Args {
			if lu, ok := a.(*ssa.UnOp); ok && lu.X == ssa.Value(popCell) {
				pi = i
			}
		}
		var hc *ssa.Alloc
		if pi >= 0 && pi < len(body.Params) && body.Params[pi].Referrers() != nil {
			for _, ref := range *body.Params[pi].Referrers() {
				if st, ok := ref.(*ssa.Store); ok {
					if al, ok := st.Addr.(*ssa.Alloc); ok {
						hc = al
					}
				}
			}
		}
		if hc == nil {
			on.Undecide(r.pos(contCall.Pos()), "the popped element is not handed whole to the refill helper")
			return
		}
		elemCell = hc
		recv = body.Params[0]
		// the helper is called on the same iterator
		if contCall.Call.Args[0] != ssa.Value(next.Params[0]) {
			good = false
			on.Fail(r.pos(contCall.Pos()), "the refill helper is called on %s, not on this iterator", describe(contCall.Call.Args[0], 0))
		}
	}
	// the source index of a heap element: the integer field of the element struct (whatever it is called)
	idxField := "iterIdx"
	if st, ok := derefType(elemCell.Type()).Underlying().(*types.Struct); ok {
		hasBaseline := false
		for i := 0; i < st.NumFields(); i++ {
			if canonName(st.Field(i)) == "iterIdx" {
				hasBaseline = true
			}
		}
		if !hasBaseline {
			for i := 0; i < st.NumFields(); i++ {
				if bt, ok := st.Field(i).Type().Underlying().(*types.Basic); ok && bt.Info()&types.IsInteger != 0 {
					idxField = canonName(st.Field(i))
				}
			}
		}
	}
	mergeIdxField = idxField
	isElemF := func(v ssa.Value, name string) bool {
		f, base, ok := fieldNameOf(v)
		return ok && f == name && base == ssa.Value(elemCell)
	}
	isPopF := func(v ssa.Value, name string) bool {
		f, base, ok := fieldNameOf(v)
		return ok && f == name && base == ssa.Value(popCell)
	}
	// *r = e.record before refill
	emitted := false
	allInstrs(next, func(in ssa.Instruction) {
		if st, ok := in.(*ssa.Store); ok && st.Addr == ssa.Value(next.Params[1]) {
			before := ssa.Instruction(srcNext)
			if contCall != nil {
				before = contCall
			}
			if lu, ok := st.Val.(*ssa.UnOp); ok && isPopF(lu.X, "record") && instrDominates(pop, st) && instrDominates(st, before) {
				emitted = true
			}
		}
	})
	if !emitted {
		good = false
		on.Fail(r.pos(pop.Pos()), "the popped record is not copied to the caller (*r = e.record) before the refill overwrites it")
	}
	// source = i.iters[e.iterIdx]
	srcOK := false
	if lu, ok := srcNext.Call.Value.(*ssa.UnOp); ok {
		if ia, ok := lu.X.(*ssa.IndexAddr); ok {
			if il, ok := ia.X.(*ssa.UnOp); ok && isRecvF(il.X, "iters") {
				if xl, ok := ia.Index.(*ssa.UnOp); ok && isElemF(xl.X, idxField) {
					srcOK = true
				}
			}
		}
	}
	if !srcOK {
		good = false
		on.Fail(r.pos(srcNext.Pos()), "the refill is read from %s, not from i.iters[e.iterIdx]", describe(srcNext.Call.Value, 0))
	}
	// refill target is &e.record
	if !isElemF(srcNext.Call.Args[0], "record") {
		good = false
		on.Fail(r.pos(srcNext.Pos()), "the refill is read into %s, not into the popped element's record", describe(srcNext.Call.Args[0], 0))
	}
	// push(e) under Next==true, exactly once; e.iterIdx not modified
	if mi, ok := push.Call.Args[1].(*ssa.MakeInterface); !ok || func() bool { lu, ok := mi.X.(*ssa.UnOp); return !ok || lu.X != ssa.Value(elemCell) }() {
		good = false
		on.Fail(r.pos(push.Pos()), "the pushed element is %s, not the popped element with its refilled record", describe(push.Call.Args[1], 0))
	}
	if b, known := knownBoolAt(push.Block(), srcNext); !known || !b {
		good = false
		on.Fail(r.pos(push.Pos()), "the element is pushed back on a path where the source was not known to have produced a record")
	}
	for _, ref := range *elemCell.Referrers() {
		if fa, ok := ref.(*ssa.FieldAddr); ok {
			if n, _, _ := fieldNameOf(fa); n == idxField && len(storesTo(fa)) > 0 {
				good = false
				on.Fail(r.pos(fa.Pos()), "the popped element's source index is modified")
			}
		}
	}
	// return values: truth table over (refill ok, source error), evaluated on the feasible paths
	for _, refill := range []bool{false, true} {
		for _, errNil := range []bool{false, true} {
			hook := func(w *feWalker, st *feState, v ssa.Value) (constant.Value, bool) {
				if b, ok := v.(*ssa.BinOp); ok && srcErr != nil {
					if x, nn, ok := nilCheck(b); ok && x == ssa.Value(srcErr) {
						return constant.MakeBool(nn != errNil), true
					}
				}
				return nil, false
			}
			w := &feWalker{Fn: next, Assume: map[ssa.Value]constant.Value{srcNext: constant.MakeBool(refill)}, Hook: hook}
			if contCall != nil {
				w.Inline = func(c *ssa.Function, d int) bool { return c == body && d <= 1 }
			}
			for _, e := range w.Run() {
				if e.Cut || len(e.Results) != 1 {
					continue
				}
				popped := false
				for _, c := range e.State.calls {
					if c.Call == ssa.CallInstruction(pop) {
						popped = true
					}
				}
				if !e.Results[0].Known {
					good = false
					on.Fail(r.pos(e.Term.Pos()), "returns %s, which is not decided by (record popped, refill succeeded, source error)", describe(e.Results[0].V, 0))
					continue
				}
				got := constant.BoolVal(e.Results[0].C)
				want := popped && (refill || errNil)
				if srcErr == nil {
					want = popped
				}
				if got != want {
					good = false
					on.Fail(r.pos(e.Term.Pos()), "with record popped=%v, refill ok=%v, source error nil=%v Next returns %v, expected %v", popped, refill, errNil, got, want)
				}
			}
		}
	}
	if good {
		on.OK("init; pop e; *r = e.record; i.iters[e.iterIdx].Next(&e.record) -> push(e); true unless empty or source error").At(r.pos(next.Pos()))
	}

	// ---- init ---------------------------------------------------------------
	oi := r.Ob("PV-WHOLE", "dockerlog.(*mergeIter).init", "init runs once, visits every source and pushes at most one element per source, tagged with the source's index; nothing else puts elements into the heap")
	igood := true
	irecv := initM.Params[0]
	var loop *rangeLoop
	for _, l := range rangeIndexLoops(initM) {
		if f, base, ok := loadOfField(l.X); ok && f == "iters" && base == ssa.Value(irecv) {
			loop = l
		}
	}
	if loop == nil {
		oi.Fail(r.pos(initM.Pos()), "no range loop over the whole i.iters")
	} else {
		if len(loop.earlyExits()) > 0 {
			igood = false
			oi.Fail(r.pos(initM.Pos()), "the source loop can be left early")
		}
		var ipush, inext *ssa.Call
		nPush := 0
		for b := range loop.Blocks {
			for _, in := range b.Instrs {
				if c, ok := in.(*ssa.Call); ok {
					if callIs(c, "container/heap", "Push") {
						ipush = c
						nPush++
					}
					if invokeIs(c, "Next") {
						inext = c
					}
				}
			}
		}
		if ipush == nil || inext == nil || nPush != 1 {
			igood = false
			oi.Fail(r.pos(initM.Pos()), "loop body: heap.Push calls=%d source.Next call=%v", nPush, inext != nil)
		} else {
			if lu, ok := inext.Call.Value.(*ssa.UnOp); !ok || !isIndexOf(lu.X, loop) {
				igood = false
				oi.Fail(r.pos(inext.Pos()), "Next is not called on the ranged source")
			}
			if b, known := knownBoolAt(ipush.Block(), inext); !known || !b {
				igood = false
				oi.Fail(r.pos(ipush.Pos()), "an element is pushed for a source that produced no record")
			}
			// pushed element literal: iterIdx = range index, record = the record just read
			if mi, ok := ipush.Call.Args[1].(*ssa.MakeInterface); ok {
				if lu, ok := mi.X.(*ssa.UnOp); ok {
					if lit, ok := lu.X.(*ssa.Alloc); ok {
						fs := allocFieldStores(lit)
						if fs[mergeIdxField] != loop.Index {
							igood = false
							oi.Fail(r.pos(ipush.Pos()), "pushed element's iterIdx is %s, not the range index of its source", describe(fs[mergeIdxField], 0))
						}
						recOK := false
						if rl, ok := fs["record"].(*ssa.UnOp); ok && rl.X == inext.Call.Args[0] {
							recOK = true
						}
						if !recOK {
							igood = false
							oi.Fail(r.pos(ipush.Pos()), "pushed element's record is %s, not the record just read", describe(fs["record"], 0))
						}
					} else {
						igood = false
						oi.Undecide(r.pos(ipush.Pos()), "pushed element is not a literal")
					}
				}
			}
		}
	}
	// once: guarded by a run-once flag, inside init (return if set; set it otherwise) or around its
	// only call (if !flag { flag = true; init() })
	flagOK := false
	if len(initM.Blocks) > 0 {
		if ifi, ok := initM.Blocks[0].Instrs[len(initM.Blocks[0].Instrs)-1].(*ssa.If); ok {
			if f, base, ok := loadOfField(ifi.Cond); ok && base == ssa.Value(irecv) {
				// true edge returns, false edge sets the flag
				tb, fb := initM.Blocks[0].Succs[0], initM.Blocks[0].Succs[1]
				_, retOK := tb.Instrs[len(tb.Instrs)-1].(*ssa.Return)
				setOK := false
				for _, in := range fb.Instrs {
					if st, ok := in.(*ssa.Store); ok {
						if n, b2, ok := fieldNameOf(st.Addr); ok && n == f && b2 == ssa.Value(irecv) && isConstBool(st.Val, true) {
							setOK = true
						}
					}
				}
				flagOK = retOK && setOK
			}
		}
	}
	if !flagOK {
		nSites, nGuarded := 0, 0
		for _, cf := range p.SrcFuncs() {
			if cf.Pkg == nil || cf.Pkg.Pkg.Path() != dl {
				continue
			}
			for _, c := range callsIn(cf) {
				if staticCallee(c) != initM {
					continue
				}
				nSites++
				recvArg := c.Common().Args[0]
				for _, f := range factsAt(c.Block()) {
					fld, base, ok := loadOfField(f.Cond)
					if !ok || f.Truth || base != recvArg {
						continue
					}
					// the flag is set in the same branch
					for _, b := range cf.Blocks {
						if !(b == c.Block() || b.Dominates(c.Block()) || c.Block().Dominates(b)) {
							continue
						}
						same := false
						for _, f2 := range factsAt(b) {
							if f2.Cond == f.Cond && !f2.Truth {
								same = true
							}
						}
						if !same {
							continue
						}
						for _, in := range b.Instrs {
							if st, ok := in.(*ssa.Store); ok {
								if n, b2, ok := fieldNameOf(st.Addr); ok && n == fld && b2 == recvArg && isConstBool(st.Val, true) {
									nGuarded++
								}
							}
						}
					}
				}
			}
		}
		flagOK = nSites == 1 && nGuarded >= 1
	}
	if !flagOK {
		igood = false
		oi.Fail(r.pos(initM.Pos()), "init is not guarded by a run-once flag (return if set; set it otherwise)")
	}
	// who writes the heap field: only container/heap through Push/Pop methods
	for _, fn := range p.SrcFuncs() {
		if fn.Pkg == nil || fn.Pkg.Pkg.Path() != dl {
			continue
		}
		allInstrs(fn, func(in ssa.Instruction) {
			fa, ok := in.(*ssa.FieldAddr)
			if !ok {
				return
			}
			n, base, ok := fieldNameOf(fa)
			if !ok || n != "heap" || typeKey(base.Type()) != "mergeIter" {
				return
			}
			for _, ref := range *fa.Referrers() {
				switch x := ref.(type) {
				case *ssa.Store:
					igood = false
					oi.Fail(r.pos(x.Pos()), "%s assigns i.heap directly (%s): elements that no source produced may enter the heap", shortFuncName(fn), describe(x.Val, 0))
				case *ssa.UnOp:
					for _, u2 := range *x.Referrers() {
						if ia, ok := u2.(*ssa.IndexAddr); ok && len(storesTo(ia)) > 0 {
							igood = false
							oi.Fail(r.pos(ia.Pos()), "%s writes a heap slot directly", shortFuncName(fn))
						}
					}
				}
			}
		})
	}
	// source.Next call sites inside mergeIter: only init's loop and Next's refill
	nNext := 0
	seenM := map[*ssa.Function]bool{}
	for _, m := range []string{"Next", "init", "Err", "Close"} {
		if fn := p.Method(dockerlogPkg, "mergeIter", m); fn != nil {
			// the method and the helpers of the iterator it calls
			for _, g := range funcGroup(fn) {
				if seenM[g] {
					continue
				}
				seenM[g] = true
				for _, c := range callsIn(g) {
					if call, ok := c.(*ssa.Call); ok && invokeIs(call, "Next") {
						nNext++
					}
				}
			}
		}
	}
	if nNext != 2 {
		igood = false
		oi.Fail(r.pos(initM.Pos()), "sources are advanced at %d call sites, expected exactly 2 (init and the refill)", nNext)
	}
	if igood {
		oi.OK("run-once; range i.iters; one Push{iterIdx: idx, record} per source that has a record; heap touched only through container/heap").At(r.pos(initM.Pos()))
	}

	// ---- Err / Close visit every source --------------------------------------
	for _, m := range []string{"Err", "Close"} {
		fn := p.Method(dockerlogPkg, "mergeIter", m)
		o := r.Ob("PV-WHOLE", "dockerlog.(*mergeIter)."+m, m+" visits every source and aggregates every result")
		if fn == nil {
			o.Fail("-", "method not found")
			continue
		}
		// the loop over the sources: in the method, or in a helper it delegates to (possibly handing
		// the method to apply as a function value: i.collect(logiter.Close))
		var loop *rangeLoop
		var call *ssa.Call
		lfn := fn
		for _, site := range findFieldMethodSites(fn, m) {
			cl, ok := site.Call.(*ssa.Call)
			if !ok {
				continue
			}
			for _, l := range rangeIndexLoops(site.Fn) {
				if f, base, ok := loadOfField(l.X); ok && f == "iters" && base == site.Recv && l.Blocks[cl.Block()] {
					if lu, ok := unspill(site.On).(*ssa.UnOp); ok && isIndexOf(lu.X, l) {
						loop, call, lfn = l, cl, site.Fn
					} else if lu, ok := site.On.(*ssa.UnOp); ok && isIndexOf(lu.X, l) {
						loop, call, lfn = l, cl, site.Fn
					}
				}
			}
			if site.Via != nil && loop != nil && lfn == site.Fn {
				for _, ret := range returnsOf(fn) {
					if !site.Via.Block().Dominates(ret.Block()) {
						loop = nil
					}
				}
			}
		}
		if loop == nil || call == nil {
			o.Fail(r.pos(fn.Pos()), "no range loop over the whole i.iters that applies %s to the ranged source", m)
			continue
		}
		if len(loop.earlyExits()) > 0 {
			o.Fail(r.pos(lfn.Pos()), "the loop can be left before every source is visited")
			continue
		}
		if !mustPassThrough(loop.Body, loop.Header, call.Block()) {
			o.Fail(r.pos(call.Pos()), "%s is skipped for some sources", m)
			continue
		}
		// the result is aggregated: passed to multierr.AppendInto / Append or stored
		used := false
		for _, ref := range *call.Referrers() {
			if c, ok := ref.(ssa.CallInstruction); ok {
				if callee := staticCallee(c); callee != nil && callee.Pkg != nil && callee.Pkg.Pkg.Path() == "go.uber.org/multierr" {
					used = true
				}
			}
		}
		if !used {
			o.Fail(r.pos(call.Pos()), "the result of %s is not aggregated into the returned error", m)
			continue
		}
		o.OK("range i.iters: multierr-aggregated %s of every source", m).At(r.pos(fn.Pos()))
	}
	_ = types.Identical
}

// indexParam: v is a load of h[param k] – returns k.
func indexParam(v ssa.Value, fn *ssa.Function) (int, bool) {
	lu, ok := v.(*ssa.UnOp)
	if !ok {
		return 0, false
	}
	ia, ok := lu.X.(*ssa.IndexAddr)
	if !ok {
		return 0, false
	}
	for i, prm := range fn.Params {
		if ia.Index == ssa.Value(prm) {
			return i, true
		}
	}
	return 0, false
}
