package main

import (
	"fmt"
	"go/constant"
	"go/token"
	"go/types"
	"sort"
	"strings"

	"golang.org/x/tools/go/ssa"
)

// Rules added after seed round n/o.

// ruleSetFromRecordOrder (PV-ORDER): the labels of a record are applied in a fixed order - the
// record's well-known fields first, its attribute maps (record, scope, resource: where the
// container's labels live) last - so that a same-named attribute decides the label's value.
func ruleSetFromRecordOrder(r *Run) {
	p := r.P
	eng := modPath + "/" + enginePkg
	sf := p.Method(enginePkg, "LabelSet", "SetFromRecord")
	o := r.Ob("PV-ORDER", "logqlengine.(*LabelSet).SetFromRecord attributes last", "on every path the record's attribute maps are applied after its well-known fields (trace id, span id, severity, body): a container label is never overwritten by a field of the line")
	if sf == nil {
		o.Fail("-", "method not found")
		return
	}
	grp := funcGroup(sf)
	inGrp := map[*ssa.Function]bool{}
	for _, g := range grp {
		inGrp[g] = true
	}
	set := p.Method(enginePkg, "LabelSet", "Set")
	setAttrs := p.Method(enginePkg, "LabelSet", "SetAttrs")
	w := &feWalker{Fn: sf, MaxPath: 20000, P: p, Inline: func(c *ssa.Function, d int) bool {
		return inGrp[c] && c != set && c != setAttrs && c.Parent() == nil && d <= 2
	}}
	ends := w.Run()
	if w.Aborted || len(ends) == 0 {
		o.Undecide(r.pos(sf.Pos()), "path enumeration aborted")
		return
	}
	nAttr, good := 0, true
	for _, e := range ends {
		if e.Cut {
			continue
		}
		attrSeq := -1
		for _, c := range e.State.calls {
			isAttr := callIs(c.Call, eng, "(*LabelSet).SetAttrs")
			if !isAttr {
				if pk, nm := calleePkgName(c.Call); strings.HasSuffix(pk, "pdata/pcommon") && nm == "Range" {
					isAttr = true
				}
			}
			if isAttr && attrSeq < 0 {
				attrSeq = c.Seq
			}
		}
		if attrSeq < 0 {
			continue
		}
		nAttr++
		for _, c := range e.State.calls {
			if c.Seq > attrSeq && callIs(c.Call, eng, "(*LabelSet).Set") {
				good = false
				o.Fail(r.pos(c.Call.Pos()), "a well-known field of the record is set after the attribute maps were applied: it overwrites a container/attribute label of the same name")
			}
		}
	}
	if nAttr == 0 {
		o.Fail(r.pos(sf.Pos()), "no path through SetFromRecord applies the record's attribute maps")
		return
	}
	if good {
		o.OK("%d path(s): every Set of a well-known field precedes the attribute maps", nAttr).At(r.pos(sf.Pos()))
	}
}

// ruleFrameSizeNotJudged (ERR-PROP): the frame size read from the stream header only says how many
// bytes to read; no frame is rejected because of its size (the daemon's frames carry a timestamp
// prefix and may exceed any "chunk size").
func ruleFrameSizeNotJudged(r *Run) {
	p := r.P
	o := r.Ob("ERR-PROP", "dockerlog.(*streamIter) frame size", "no failure exit of the frame decoder is decided by the frame's size: a frame of any length is read whole")
	nx := p.Method(dockerlogPkg, "streamIter", "Next")
	if nx == nil {
		o.Fail("-", "streamIter.Next not found")
		return
	}
	nSize := 0
	good := true
	// the decoder: everything of the package reachable from Next
	var grp []*ssa.Function
	seenFn := map[*ssa.Function]bool{}
	var addFn func(f *ssa.Function)
	addFn = func(f *ssa.Function) {
		if f == nil || seenFn[f] || f.Blocks == nil || pkgOfFunc(f) != pkgOfFunc(nx) {
			return
		}
		seenFn[f] = true
		grp = append(grp, f)
		for _, a := range f.AnonFuncs {
			addFn(a)
		}
		for _, c := range callsIn(f) {
			addFn(staticCallee(c))
		}
	}
	addFn(nx)
	derived := map[ssa.Value]bool{}
	var mark func(v ssa.Value, d int)
	mark = func(v ssa.Value, d int) {
		if derived[v] || d > 8 {
			return
		}
		derived[v] = true
		if v.Referrers() == nil {
			return
		}
		for _, ref := range *v.Referrers() {
			switch x := ref.(type) {
			case *ssa.Convert:
				mark(x, d+1)
			case *ssa.ChangeType:
				mark(x, d+1)
			case *ssa.BinOp:
				mark(x, d+1)
			case *ssa.UnOp:
				if x.Op == token.NOT {
					mark(x, d+1)
				}
			case *ssa.Phi:
				mark(x, d+1)
			case *ssa.Store:
				if al, ok := x.Addr.(*ssa.Alloc); ok && x.Val == v {
					for _, r2 := range *al.Referrers() {
						if u, ok := r2.(*ssa.UnOp); ok && u.Op == token.MUL {
							mark(u, d+1)
						}
					}
				}
			}
		}
	}
	for _, fn := range grp {
		for _, c := range callsIn(fn) {
			if pk, nm := calleePkgName(c); pk == "encoding/binary" && (nm == "Uint32" || nm == "Uint64" || nm == "Uint16") {
				if v, ok := c.(*ssa.Call); ok {
					nSize++
					mark(v, 0)
				}
			}
		}
	}
	// a helper that returns the size: its call sites carry it, and so do the parameters it is passed to
	for round := 0; round < 4; round++ {
		for _, fn := range grp {
			returnsSize := false
			for _, ret := range returnsOf(fn) {
				for _, rv := range ret.Results {
					if derived[rv] {
						returnsSize = true
					}
				}
			}
			for _, g := range grp {
				for _, c := range callsIn(g) {
					if staticCallee(c) != fn {
						continue
					}
					if v, ok := c.(*ssa.Call); ok && returnsSize && fn.Signature.Results().Len() == 1 {
						mark(v, 0)
					}
					for i, a := range c.Common().Args {
						if derived[a] && i < len(fn.Params) {
							mark(fn.Params[i], 0)
						}
					}
				}
			}
		}
	}
	for _, fn := range grp {
		for _, b := range fn.Blocks {
			ifi, ok := b.Instrs[len(b.Instrs)-1].(*ssa.If)
			if !ok || !derived[ifi.Cond] {
				continue
			}
			for _, sc := range b.Succs {
				cur := sc
				for n := 0; n < 6; n++ {
					if _, isJ := cur.Instrs[len(cur.Instrs)-1].(*ssa.Jump); !isJ {
						break
					}
					cur = cur.Succs[0]
				}
				ret, isRet := cur.Instrs[len(cur.Instrs)-1].(*ssa.Return)
				if !isRet || len(ret.Results) == 0 {
					continue
				}
				last := ret.Results[len(ret.Results)-1]
				if !isErrorType(last.Type()) || isNilConst(last) {
					continue
				}
				good = false
				o.Fail(r.pos(ifi.Cond.Pos()), "a frame is rejected with an error depending on its size (%s)", describe(ifi.Cond, 0))
			}
		}
	}
	if nSize == 0 {
		o.Fail(r.pos(nx.Pos()), "the frame size read from the header was not found in the decoder")
		return
	}
	if good {
		o.OK("%d size read(s): the size feeds the read length only, no size-dependent failure exit", nSize).At(r.pos(nx.Pos()))
	}
}

// ruleCommaListElement (PV-ORDER): in the parser's comma-separated lists, a consumed comma is
// followed by an element: from the point where the separator was recognised and the loop goes
// round, no successful return is reachable before an element was parsed.
func ruleCommaListElement(r *Run) {
	p := r.P
	lexT := p.NamedType(lexerPkg, "TokenType")
	consts := enumConstants(lexT)
	comma, okc := consts["Comma"]
	inv := r.Ob("PV-ORDER", "logql parser comma lists inventory", "the comma-separated list loops of the parser are found")
	inv.Trivial = true
	if lexT == nil || !okc {
		inv.Fail("-", "lexer.TokenType / Comma not found")
		return
	}
	peek := p.Method(logqlPkg, "parser", "peek")
	next := p.Method(logqlPkg, "parser", "next")
	unread := p.Method(logqlPkg, "parser", "unread")
	if peek == nil || next == nil {
		inv.Fail("-", "parser.peek / parser.next not found")
		return
	}
	parserT := p.NamedType(logqlPkg, "parser")
	isParserFn := func(f *ssa.Function) bool {
		if f == nil {
			return false
		}
		for g := f; g != nil; g = g.Parent() {
			if g.Signature.Recv() != nil && parserT != nil && types.Identical(derefType(g.Signature.Recv().Type()), parserT) {
				return true
			}
		}
		return false
	}
	// an element call: a parser function that can fail and is not told which token to expect
	isElement := func(c ssa.CallInstruction) bool {
		callee := staticCallee(c)
		if callee == nil {
			// a closure of a parser function called through a local
			if mc, ok := c.Common().Value.(*ssa.MakeClosure); ok {
				callee, _ = mc.Fn.(*ssa.Function)
			}
		}
		if callee == nil || !isParserFn(callee) || callee == peek || callee == next || callee == unread {
			return false
		}
		res := callee.Signature.Results()
		if res.Len() == 0 || !isErrorType(res.At(res.Len()-1).Type()) {
			return false
		}
		if res.Len() == 1 {
			return false // consume-like: checks a fixed token
		}
		for i := 0; i < callee.Signature.Params().Len(); i++ {
			if types.Identical(callee.Signature.Params().At(i).Type(), lexT) {
				return false
			}
		}
		return true
	}
	// tokOf: the token type compared by an If condition: (value compared, constant, EQL?)
	typeCompare := func(cond ssa.Value) (tok ssa.Value, k constant.Value, eq bool, ok bool) {
		b, isB := cond.(*ssa.BinOp)
		if !isB || (b.Op != token.EQL && b.Op != token.NEQ) {
			return nil, nil, false, false
		}
		x, y := b.X, b.Y
		if _, isC := x.(*ssa.Const); isC {
			x, y = y, x
		}
		c, isC := y.(*ssa.Const)
		if !isC || c.Value == nil || !types.Identical(x.Type(), lexT) {
			return nil, nil, false, false
		}
		return x, c.Value, b.Op == token.EQL, true
	}
	// fromPeek: the compared type belongs to a token returned by peek() (the upcoming token)
	fromPeek := func(v ssa.Value) bool {
		f, base, ok := loadOfField(v)
		if !ok {
			if fl, isF := v.(*ssa.Field); isF {
				base, ok = fl.X, true
				_ = f
			}
		}
		if !ok {
			return false
		}
		base = unspill(base)
		if al, isA := base.(*ssa.Alloc); isA {
			sts := storesTo(al)
			if len(sts) == 1 {
				base = sts[0].Val
			}
		}
		c, isC := base.(*ssa.Call)
		return isC && staticCallee(c) == peek
	}
	type st struct {
		b     *ssa.BasicBlock
		known string // exact representation of the upcoming token's type, "" unknown
	}
	nSites := 0
	var fns []*ssa.Function
	for _, fn := range p.SrcFuncs() {
		if pk := pkgOfFunc(fn); pk == nil || pk.Pkg.Path() != modPath+"/"+logqlPkg || !isParserFn(fn) {
			continue
		}
		fns = append(fns, fn)
	}
	sort.Slice(fns, func(i, j int) bool { return fns[i].Pos() < fns[j].Pos() })
	for _, fn := range fns {
		nInFn := 0
		for _, b := range fn.Blocks {
			ifi, ok := b.Instrs[len(b.Instrs)-1].(*ssa.If)
			if !ok {
				continue
			}
			_, k, eq, ok := typeCompare(ifi.Cond)
			if !ok || !constant.Compare(k, token.EQL, comma) {
				continue
			}
			start := b.Succs[0]
			if !eq {
				start = b.Succs[1]
			}
			// only list loops: the comma edge lies in a loop
			if !blockReaches(start, b) {
				continue
			}
			nSites++
			nInFn++
			at := ifi.Cond.Pos()
			if bo, ok := ifi.Cond.(*ssa.BinOp); ok && !at.IsValid() {
				at = bo.X.Pos()
			}
			o := r.Ob("PV-ORDER", fmt.Sprintf("%s comma#%d", shortFuncName(fn), nInFn), "after a separating comma the list continues with an element: no successful return is reachable from the comma before an element was parsed (a dangling comma is an error)")
			seen := map[st]bool{}
			work := []st{{start, ""}}
			bad := false
			for len(work) > 0 && !bad {
				cur := work[len(work)-1]
				work = work[:len(work)-1]
				if seen[cur] {
					continue
				}
				seen[cur] = true
				known := cur.known
				stopped := false
				for _, in := range cur.b.Instrs {
					if c, ok := in.(ssa.CallInstruction); ok {
						if isElement(c) {
							stopped = true
							break
						}
						if callee := staticCallee(c); callee == next || (unread != nil && callee == unread) {
							known = ""
						}
					}
					if ret, ok := in.(*ssa.Return); ok {
						if len(ret.Results) == 0 {
							continue
						}
						last := ret.Results[len(ret.Results)-1]
						if !isErrorType(last.Type()) {
							continue
						}
						succ := false
						for _, lv := range phiLeaves(unspill(last)) {
							if isNilConst(lv) {
								succ = true
							}
						}
						if succ {
							bad = true
							o.Fail(r.pos(ret.Pos()), "a successful return is reachable after the comma at %s without parsing another element: a dangling comma is accepted", r.pos(at))
						}
					}
				}
				if stopped || bad {
					continue
				}
				if ifi2, ok := cur.b.Instrs[len(cur.b.Instrs)-1].(*ssa.If); ok {
					if tv, k2, eq2, ok := typeCompare(ifi2.Cond); ok && fromPeek(tv) {
						ks := k2.ExactString()
						if known != "" {
							// the upcoming token's type is known: the comparison is decided
							holds := (known == ks) == eq2
							if holds {
								work = append(work, st{cur.b.Succs[0], known})
							} else {
								work = append(work, st{cur.b.Succs[1], known})
							}
							continue
						}
						if eq2 {
							work = append(work, st{cur.b.Succs[0], ks}, st{cur.b.Succs[1], ""})
						} else {
							work = append(work, st{cur.b.Succs[0], ""}, st{cur.b.Succs[1], ks})
						}
						continue
					}
				}
				for _, sc := range cur.b.Succs {
					work = append(work, st{sc, known})
				}
			}
			if !bad {
				o.OK("every path from the comma reaches an element parse (or an error) before a successful return").At(r.pos(at))
			}
		}
	}
	r.count("comma_list_sites", nSites)
	inv.Check(nSites >= 4, "-", fmt.Sprintf("%d comma edges in list loops", nSites), fmt.Sprintf("only %d comma edges in list loops found, floor 4", nSites))
}

// pkgClosure: fn and everything of its package it reaches through static calls and function
// literals (no depth bound).
func pkgClosure(fn *ssa.Function) []*ssa.Function {
	var out []*ssa.Function
	seen := map[*ssa.Function]bool{}
	var add func(f *ssa.Function)
	add = func(f *ssa.Function) {
		if f == nil || seen[f] || f.Blocks == nil || pkgOfFunc(f) != pkgOfFunc(fn) {
			return
		}
		seen[f] = true
		out = append(out, f)
		for _, a := range f.AnonFuncs {
			add(a)
		}
		for _, c := range callsIn(f) {
			add(staticCallee(c))
		}
	}
	add(fn)
	return out
}

// ruleStepTimestampMillis (AF): the time stamped on a reported point keeps the grid's
// sub-second part: an integer Unix time is converted to floating point before it is scaled to
// seconds, by the unit's own factor.
func ruleStepTimestampMillis(r *Run) {
	p := r.P
	o := r.Ob("AF", "logqlmetric.ReadStepResponse point time", "a point's time is the step's timestamp in seconds with its millisecond fraction: integer Unix times are converted to float before being divided by their unit's factor")
	rs := p.Func(metricPkg, "ReadStepResponse")
	if rs == nil {
		o.Fail("-", "ReadStepResponse not found")
		return
	}
	scale := map[string]float64{"UnixMilli": 1e3, "UnixMicro": 1e6, "UnixNano": 1e9}
	n, good := 0, true
	for _, fn := range pkgClosure(rs) {
		for _, c := range callsIn(fn) {
			pk, nm := calleePkgName(c)
			if pk != "time" || !strings.HasPrefix(nm, "Unix") || c.Common().Signature().Recv() == nil {
				continue
			}
			call, ok := c.(*ssa.Call)
			if !ok {
				continue
			}
			unit := nm
			n++
			if unit == "Unix" {
				good = false
				o.Fail(r.pos(call.Pos()), "the point time is taken from Time.Unix(): whole seconds, the grid's millisecond part is lost")
				continue
			}
			want := scale[unit]
			var follow func(v ssa.Value, isFloat bool, d int)
			follow = func(v ssa.Value, isFloat bool, d int) {
				if v.Referrers() == nil || d > 6 {
					return
				}
				for _, ref := range *v.Referrers() {
					switch x := ref.(type) {
					case *ssa.Convert:
						if bt, ok := x.Type().Underlying().(*types.Basic); ok && bt.Info()&types.IsFloat != 0 {
							follow(x, true, d+1)
						} else {
							follow(x, isFloat, d+1)
						}
					case *ssa.BinOp:
						other := x.Y
						if other == v {
							other = x.X
						}
						cv, isConst := constOf(other)
						if !isFloat {
							if x.Op == token.QUO || x.Op == token.REM || x.Op == token.SHR {
								good = false
								o.Fail(r.pos(x.Pos()), "the integer %s() value is divided before it is converted to floating point: the sub-second part of the step's time is truncated", unit)
							}
							continue
						}
						if x.Op == token.QUO && x.X == v && isConst {
							if f, _ := constant.Float64Val(constant.ToFloat(cv)); f != want {
								good = false
								o.Fail(r.pos(x.Pos()), "%s() is divided by %v, expected %v to give seconds", unit, f, want)
							}
						}
					}
				}
			}
			follow(call, false, 0)
		}
	}
	if n == 0 {
		o.Fail(r.pos(rs.Pos()), "no Unix time conversion found in ReadStepResponse and its helpers")
		return
	}
	if good {
		o.OK("%d conversion(s): float64(UnixMilli())/1000 (conversion before division, unit's own factor)", n).At(r.pos(rs.Pos()))
	}
}

// ruleSumAggregatorPlain (PV-NUM): the sum of a group is the plain running sum of its values: the
// state is only ever `state + v` and the result is the state. (A compensated sum subtracts the
// running sum from itself and turns an infinite sum into NaN.)
func ruleSumAggregatorPlain(r *Run) {
	p := r.P
	o := r.Ob("PV-NUM", "logqlmetric.(*SumAggregator)", "sum: Apply adds the value to the one state field, Result returns that field; no term subtracts the running sum (Inf - Inf)")
	ap := p.Method(metricPkg, "SumAggregator", "Apply")
	rs := p.Method(metricPkg, "SumAggregator", "Result")
	if ap == nil || rs == nil || len(ap.Params) != 2 {
		o.Fail("-", "SumAggregator.Apply/Result not found")
		return
	}
	good := true
	field := ""
	nStores := 0
	allInstrs(ap, func(in ssa.Instruction) {
		switch x := in.(type) {
		case *ssa.Store:
			f, base, ok := fieldNameOf(x.Addr)
			if !ok || (base != ssa.Value(ap.Params[0]) && originValue(base) != ssa.Value(ap.Params[0])) {
				return
			}
			nStores++
			add, ok := x.Val.(*ssa.BinOp)
			isPlain := false
			if ok && add.Op == token.ADD {
				for _, pr := range [][2]ssa.Value{{add.X, add.Y}, {add.Y, add.X}} {
					lf, lb, lok := loadOfField(pr[0])
					if lok && lf == f && (lb == ssa.Value(ap.Params[0]) || originValue(lb) == ssa.Value(ap.Params[0])) && stripConv(unspill(pr[1])) == ssa.Value(ap.Params[1]) {
						isPlain = true
					}
				}
			}
			if !isPlain {
				good = false
				o.Fail(r.pos(x.Pos()), "Apply stores %s into .%s, not .%s + v", describe(x.Val, 0), f, f)
			}
			field = f
		case *ssa.BinOp:
			if x.Op == token.SUB {
				if bt, ok := x.Type().Underlying().(*types.Basic); ok && bt.Info()&types.IsFloat != 0 {
					good = false
					o.Fail(r.pos(x.Pos()), "Apply subtracts floating-point terms (%s): with an infinite value or sum this yields NaN instead of the infinite sum", describe(x, 0))
				}
			}
		}
	})
	if nStores != 1 {
		good = false
		o.Fail(r.pos(ap.Pos()), "Apply writes the state %d time(s), expected one `state += v`", nStores)
	}
	for _, ret := range returnsOf(rs) {
		if len(ret.Results) != 1 {
			continue
		}
		f, base, ok := loadOfField(unspill(ret.Results[0]))
		if !ok || f != field || (base != ssa.Value(rs.Params[0]) && originValue(base) != ssa.Value(rs.Params[0])) {
			good = false
			o.Fail(r.pos(ret.Pos()), "Result returns %s, not the summed state .%s", describe(ret.Results[0], 0), field)
		}
	}
	if good {
		o.OK("Apply: .%s += v; Result: .%s", field, field).At(r.pos(ap.Pos()))
	}
}

// paramRoots: the parameters of fn a value is computed from (through calls, conversions,
// extracts, loads of spilled parameters).
func paramRoots(v ssa.Value, seen map[ssa.Value]bool, out map[*ssa.Parameter]bool, d int) {
	if v == nil || seen[v] || d > 10 {
		return
	}
	seen[v] = true
	switch x := v.(type) {
	case *ssa.Parameter:
		out[x] = true
	case *ssa.Alloc:
		for _, st := range storesTo(x) {
			paramRoots(st.Val, seen, out, d+1)
		}
	case ssa.Instruction:
		for _, op := range x.Operands(nil) {
			if op != nil && *op != nil {
				paramRoots(*op, seen, out, d+1)
			}
		}
	}
}

// ruleTimeRangeIndependentFlags (PV-GUARD): each of --since, --start and --end is parsed (and so
// validated) whenever it is given, whatever the other flags say: the parse of one flag's value
// runs under no condition computed from another flag.
func ruleTimeRangeIndependentFlags(r *Run) {
	p := r.P
	o := r.Ob("PV-GUARD", "main.parseTimeRange flags parsed independently", "a flag's value is parsed under conditions on that flag only (and on earlier parse errors): a malformed --since/--start/--end is rejected whatever the other flags are")
	fn := p.Func(cmdPkg, "parseTimeRange")
	if fn == nil {
		o.Fail("-", "parseTimeRange not found")
		return
	}
	n, good := 0, true
	for _, c := range callsIn(fn) {
		call, ok := c.(*ssa.Call)
		if !ok {
			continue
		}
		callee := staticCallee(call)
		if callee == nil {
			continue
		}
		isParse := false
		if pk, nm := calleePkgName(call); strings.HasSuffix(pk, "prometheus/common/model") && nm == "ParseDuration" {
			isParse = true
		}
		if pkgOfFunc(callee) == pkgOfFunc(fn) && callee.Signature.Results().Len() == 2 && isErrorType(callee.Signature.Results().At(1).Type()) {
			isParse = true
		}
		if !isParse {
			continue
		}
		// the flag this call parses: the flag-typed parameters its arguments are computed from
		own := map[*ssa.Parameter]bool{}
		for _, a := range call.Call.Args {
			paramRoots(a, map[ssa.Value]bool{}, own, 0)
		}
		isFlag := func(q *ssa.Parameter) bool {
			return strings.HasPrefix(typeKey(q.Type()), "Opt")
		}
		var ownFlags []*ssa.Parameter
		for q := range own {
			if isFlag(q) {
				ownFlags = append(ownFlags, q)
			}
		}
		if len(ownFlags) == 0 {
			continue
		}
		n++
		for _, f := range factsAt(call.Block()) {
			if x, _, ok := nilCheck(f.Cond); ok && isErrorType(x.Type()) {
				continue
			}
			roots := map[*ssa.Parameter]bool{}
			paramRoots(f.Cond, map[ssa.Value]bool{}, roots, 0)
			for q := range roots {
				if isFlag(q) && !own[q] {
					good = false
					o.Fail(r.pos(call.Pos()), "the value of %s is parsed only under a condition on %s: given together, a malformed value is silently ignored", ownFlags[0].Name(), q.Name())
				}
			}
		}
	}
	if n < 3 {
		o.Fail(r.pos(fn.Pos()), "only %d flag parse call(s) found in parseTimeRange, expected since/end/start", n)
		return
	}
	if good {
		o.OK("%d parse calls, each conditioned on its own flag only", n).At(r.pos(fn.Pos()))
	}
}

// ruleAPIFlagVerbatim (PV-ROLE): a flag's text reaches the parser as typed: APIFlag.Set stores
// its argument, converted to the flag's string type and nothing else.
func ruleAPIFlagVerbatim(r *Run) {
	p := r.P
	o := r.Ob("PV-ROLE", "main.(*APIFlag).Set", "the flag value is stored verbatim (type conversion only): the documented spellings - RFC3339 with its upper-case T/Z included - reach the parser unchanged")
	n, good := 0, true
	for _, fn := range p.SrcFuncs() {
		if pkgPathOf(fn) != modPath+"/"+cmdPkg || fn.Signature.Recv() == nil || len(fn.Params) != 2 {
			continue
		}
		if typeKey(derefType(fn.Signature.Recv().Type())) != "APIFlag" && !strings.HasPrefix(typeKey(derefType(fn.Signature.Recv().Type())), "APIFlag[") {
			continue
		}
		if !isStringType(fn.Params[1].Type()) || fn.Signature.Results().Len() != 1 || !isErrorType(fn.Signature.Results().At(0).Type()) {
			continue
		}
		n++
		stored := 0
		for _, c := range callsIn(fn) {
			cc := c.Common()
			isSet := false
			if cc.IsInvoke() && cc.Method.Name() == "SetTo" {
				isSet = true
			} else if callee := staticCallee(c); callee != nil && callee.Name() == "SetTo" {
				isSet = true
			}
			if !isSet {
				continue
			}
			stored++
			arg := cc.Args[len(cc.Args)-1]
			if stripTypeOnly(stripConv(unspill(arg))) != ssa.Value(fn.Params[1]) {
				good = false
				o.Fail(r.pos(c.Pos()), "%s stores %s, not its argument as given", shortFuncName(fn), describe(arg, 0))
			}
		}
		if stored == 0 {
			good = false
			o.Fail(r.pos(fn.Pos()), "%s does not store its argument with SetTo", shortFuncName(fn))
		}
	}
	if n == 0 {
		o.Fail("-", "APIFlag.Set not found")
		return
	}
	if good {
		o.OK("%d Set method(s): Val.SetTo(S(val))", n)
	}
}

// ruleRenderOptionsOnlyFlags (PV-CONST): what the user asked for on the command line is what
// the renderer gets: the fields of renderOptions are written by flag parsing only (their
// addresses are registered with the flag set), no code assigns them.
func ruleRenderOptionsOnlyFlags(r *Run) {
	p := r.P
	o := r.Ob("PV-CONST", "main.renderOptions", "the rendering options are written by flag parsing only: an explicit --color/--timestamp/--container is never overridden at run time")
	nReg, good := 0, true
	for _, fn := range p.SrcFuncs() {
		if pkgPathOf(fn) != modPath+"/"+cmdPkg {
			continue
		}
		allInstrs(fn, func(in ssa.Instruction) {
			switch x := in.(type) {
			case *ssa.Store:
				if f, base, ok := fieldNameOf(x.Addr); ok && typeKey(derefType(base.Type())) == "renderOptions" {
					// a default assigned before the same function registers the field as a flag is overwritten by parsing
					isDefault := false
					for _, c := range callsIn(fn) {
						if pk, _ := calleePkgName(c); !strings.HasSuffix(pk, "spf13/pflag") {
							continue
						}
						for _, a := range c.Common().Args {
							if f2, b2, ok := fieldNameOf(a); ok && f2 == f && typeKey(derefType(b2.Type())) == "renderOptions" && instrDominates(x, c) {
								isDefault = true
							}
						}
					}
					if isDefault {
						return
					}
					good = false
					o.Fail(r.pos(x.Pos()), "%s assigns renderOptions.%s: the value of the flag the user gave is overridden", shortFuncName(fn), f)
				}
			case ssa.CallInstruction:
				for _, a := range x.Common().Args {
					if _, base, ok := fieldNameOf(a); ok && typeKey(derefType(base.Type())) == "renderOptions" {
						if pk, _ := calleePkgName(x); strings.HasSuffix(pk, "spf13/pflag") {
							nReg++
						} else {
							good = false
							o.Fail(r.pos(x.Pos()), "%s hands the address of a renderOptions field to %s", shortFuncName(fn), calleeName(x))
						}
					}
				}
			}
		})
	}
	if nReg < 3 {
		o.Fail("-", "only %d renderOptions field(s) registered as flags, expected timestamp/container/color", nReg)
		return
	}
	if good {
		o.OK("%d fields registered with the flag set, no other write", nReg)
	}
}

// ruleAttrMapZeroGuard (PF-NIL): an attribute map of a record may be unset (the zero pcommon.Map,
// whose methods dereference a nil state): in the engine every method call on a map obtained
// from Attrs.AsMap() runs only where the map was compared unequal to the zero Map.
func ruleAttrMapZeroGuard(r *Run) {
	p := r.P
	o := r.Ob("PF-NIL", "logqlengine attribute maps", "no pcommon.Map method is called on a record's attribute map that may be the zero Map (records of the Docker backend carry no scope attributes): the call is guarded by m != pcommon.Map{}")
	n, good := 0, true
	for _, fn := range p.SrcFuncs() {
		if pkgPathOf(fn) != modPath+"/"+enginePkg {
			continue
		}
		for _, c := range callsIn(fn) {
			call, ok := c.(*ssa.Call)
			if !ok || !callIs(call, modPath+"/internal/otelstorage", "(Attrs).AsMap") {
				continue
			}
			for _, ref := range *call.Referrers() {
				mc, ok := ref.(*ssa.Call)
				if !ok || mc.Common().IsInvoke() || len(mc.Call.Args) == 0 || mc.Call.Args[0] != ssa.Value(call) {
					continue
				}
				if pk, _ := calleePkgName(mc); !strings.HasSuffix(pk, "pdata/pcommon") {
					continue
				}
				n++
				guarded := false
				for _, f := range factsAt(mc.Block()) {
					b, ok := f.Cond.(*ssa.BinOp)
					if !ok || (b.Op != token.EQL && b.Op != token.NEQ) {
						continue
					}
					other := b.Y
					if b.Y == ssa.Value(call) {
						other = b.X
					} else if b.X != ssa.Value(call) {
						continue
					}
					if k, ok := other.(*ssa.Const); ok && k.Value == nil && (b.Op == token.EQL) != f.Truth {
						guarded = true
					}
				}
				if !guarded {
					good = false
					o.Fail(r.pos(mc.Pos()), "%s calls %s on an attribute map that may be the zero Map: nil dereference for a record without these attributes", shortFuncName(fn), calleeName(mc))
				}
			}
		}
	}
	if n == 0 {
		o.Fail("-", "no method call on an Attrs.AsMap() result found in the engine")
		return
	}
	if good {
		o.OK("%d call(s), all under m != pcommon.Map{}", n)
	}
}

// ruleLabelSetReadersPure (PV-PURE): reading a label never changes the label set: the read
// accessors of LabelSet do not store into the label map (a filter that rewrote the value it
// read would change what the next filter sees, so filters would not commute).
func ruleLabelSetReadersPure(r *Run) {
	p := r.P
	o := r.Ob("PV-PURE", "logqlengine.(*LabelSet) read accessors", "Get, GetString, GetFloat, GetError, AsMap, AsLokiAPI, String and Range do not modify the label set")
	n, good := 0, true
	writers := map[*ssa.Function]bool{}
	for _, nm := range []string{"Set", "Delete", "SetError", "SetAttrs", "SetFromRecord", "reset"} {
		if m := p.Method(enginePkg, "LabelSet", nm); m != nil {
			writers[m] = true
		}
	}
	for _, nm := range []string{"Get", "GetString", "GetFloat", "GetError", "AsMap", "AsLokiAPI", "String", "Range"} {
		m := p.Method(enginePkg, "LabelSet", nm)
		if m == nil {
			continue
		}
		n++
		for _, fn := range funcGroup(m) {
			if writers[fn] {
				good = false
				o.Fail(r.pos(m.Pos()), "%s reaches %s", shortFuncName(m), shortFuncName(fn))
				continue
			}
			allInstrs(fn, func(in ssa.Instruction) {
				switch x := in.(type) {
				case *ssa.MapUpdate:
					if f, _, ok := loadOfField(x.Map); ok && f == "labels" {
						good = false
						o.Fail(r.pos(x.Pos()), "%s stores into the label map while reading a label", shortFuncName(m))
					}
				case *ssa.Call:
					if bi, ok := x.Call.Value.(*ssa.Builtin); ok && (bi.Name() == "delete" || bi.Name() == "clear") && len(x.Call.Args) > 0 {
						if f, _, ok := loadOfField(x.Call.Args[0]); ok && f == "labels" {
							good = false
							o.Fail(r.pos(x.Pos()), "%s deletes from the label map while reading a label", shortFuncName(m))
						}
					}
				}
			})
		}
	}
	if n < 6 {
		o.Fail("-", "only %d read accessors of LabelSet found", n)
		return
	}
	if good {
		o.OK("%d accessors, none writes the label map", n)
	}
}

// ruleSampleValueFormat (PV-ROLE): the value of a reported point is the sample's float64 printed
// by strconv.FormatFloat(v, 'f', -1, 64) on every path (a shortcut through an integer
// conversion wraps for |v| >= 2^63 and for infinities).
func ruleSampleValueFormat(r *Run) {
	p := r.P
	o := r.Ob("PV-ROLE", "logqlmetric.ReadStepResponse point value", "every reported value is strconv.FormatFloat(sample, 'f', -1, 64) of the sample's data, on every path")
	rs := p.Func(metricPkg, "ReadStepResponse")
	if rs == nil {
		o.Fail("-", "ReadStepResponse not found")
		return
	}
	grp := pkgClosure(rs)
	var isFmt func(v ssa.Value, d int) (bool, string)
	isFmt = func(v ssa.Value, d int) (bool, string) {
		if d > 4 {
			return false, "formatting helper chain too deep"
		}
		v = unspill(v)
		switch x := v.(type) {
		case *ssa.Phi:
			for _, e := range x.Edges {
				if ok, why := isFmt(e, d+1); !ok {
					return false, why
				}
			}
			return true, ""
		case *ssa.Call:
			if pk, nm := calleePkgName(x); pk == "strconv" {
				if nm != "FormatFloat" || len(x.Call.Args) != 4 {
					return false, "formatted by strconv." + nm
				}
				f, ok1 := constInt(x.Call.Args[1])
				pr, ok2 := constInt(x.Call.Args[2])
				bs, ok3 := constInt(x.Call.Args[3])
				if !ok1 || !ok2 || !ok3 || f != 'f' || pr != -1 || bs != 64 {
					return false, "FormatFloat is called with format/precision/size other than 'f', -1, 64"
				}
				return true, ""
			}
			callee := staticCallee(x)
			if callee == nil || callee.Blocks == nil || pkgOfFunc(callee) != pkgOfFunc(rs) {
				return false, "produced by " + describe(x, 0)
			}
			n := 0
			for _, ret := range returnsOf(callee) {
				if len(ret.Results) != 1 {
					return false, "helper with several results"
				}
				n++
				if ok, why := isFmt(ret.Results[0], d+1); !ok {
					return false, shortFuncName(callee) + ": " + why
				}
			}
			return n > 0, "helper without return"
		}
		return false, "is " + describe(v, 0)
	}
	n, good := 0, true
	for _, fn := range grp {
		allInstrs(fn, func(in ssa.Instruction) {
			st, ok := in.(*ssa.Store)
			if !ok {
				return
			}
			f, base, ok := fieldNameOf(st.Addr)
			if !ok || f != "V" || typeKey(derefType(base.Type())) != "FPoint" {
				return
			}
			n++
			if ok, why := isFmt(st.Val, 0); !ok {
				good = false
				o.Fail(r.pos(st.Pos()), "a point's value %s", why)
			}
		})
	}
	if n < 1 {
		o.Fail(r.pos(rs.Pos()), "no store of FPoint.V found in ReadStepResponse and its helpers")
		return
	}
	if good {
		o.OK("%d point value(s), all strconv.FormatFloat(v, 'f', -1, 64)", n).At(r.pos(rs.Pos()))
	}
}

// ruleBuildKeepsTree (PV-ROLE): the evaluation builder evaluates the tree the parser produced:
// it constructs no expression node of its own (re-associating or folding operands changes the
// grouping the query's parentheses and precedences fixed).
func ruleBuildKeepsTree(r *Run) {
	p := r.P
	o := r.Ob("PV-ROLE", "logqlmetric.build tree", "the step-iterator builder constructs no logql expression node: every operator is evaluated with the operands the parse tree gives it")
	bf := p.Func(metricPkg, "build")
	if bf == nil {
		o.Fail("-", "build not found")
		return
	}
	good := true
	nFn := 0
	for _, fn := range p.SrcFuncs() {
		if pkgPathOf(fn) != modPath+"/"+metricPkg {
			continue
		}
		nFn++
		allInstrs(fn, func(in ssa.Instruction) {
			al, ok := in.(*ssa.Alloc)
			if !ok {
				return
			}
			t := derefType(al.Type())
			nt, ok := types.Unalias(t).(*types.Named)
			if !ok || nt.Obj().Pkg() == nil || nt.Obj().Pkg().Path() != modPath+"/"+logqlPkg || !strings.HasSuffix(nt.Obj().Name(), "Expr") {
				return
			}
			// a local copy of a node (value receiver spill) is not a construction: it is filled by one store of a loaded node
			sts := storesTo(al)
			if len(sts) == 1 {
				if _, isLoad := sts[0].Val.(*ssa.UnOp); isLoad {
					return
				}
				if _, isParam := sts[0].Val.(*ssa.Parameter); isParam {
					return
				}
			}
			good = false
			o.Fail(r.pos(al.Pos()), "%s constructs a logql.%s: the evaluated tree is no longer the parsed one", shortFuncName(fn), nt.Obj().Name())
		})
	}
	if good {
		o.OK("%d function(s) of the metric package, no expression node constructed", nFn).At(r.pos(bf.Pos()))
	}
}

// ---- rules added after seed round p/q ----

// ruleLexerInputVerbatim (PV-ROLE): the scanner reads the query text itself: Tokenize hands its
// string parameter, unmodified, to strings.NewReader for the scanner (comments are skipped by the
// scanner loop, which knows when it is inside a string literal; a textual pre-pass does not).
func ruleLexerInputVerbatim(r *Run) {
	p := r.P
	o := r.Ob("PV-ROLE", "lexer.Tokenize input", "the scanner is initialised with the query text as given (strings.NewReader of Tokenize's own parameter): no pre-processing of the text before tokens and string literals are recognised")
	tk := p.Func(lexerPkg, "Tokenize")
	if tk == nil || len(tk.Params) == 0 {
		o.Fail("-", "Tokenize not found")
		return
	}
	grp := funcGroup(tk)
	n, good := 0, true
	for _, g := range grp {
		for _, c := range callsIn(g) {
			if pk, nm := calleePkgName(c); pk != "text/scanner" || nm != "Init" {
				continue
			}
			n++
			args := c.Common().Args
			src := args[len(args)-1]
			if mi, ok := src.(*ssa.MakeInterface); ok {
				src = mi.X
			}
			rc, ok := src.(*ssa.Call)
			if !ok || func() bool {
				pk, nm := calleePkgName(rc)
				return !(pk == "strings" && nm == "NewReader") && !(pk == "bytes" && (nm == "NewReader" || nm == "NewBufferString" || nm == "NewBuffer"))
			}() {
				good = false
				o.Fail(r.pos(c.Pos()), "the scanner reads from %s, not from a reader over the query text", describe(src, 0))
				continue
			}
			text := stripConv(rc.Call.Args[0])
			if originValueIn(unspill(text), grp) != ssa.Value(tk.Params[0]) && unspill(text) != ssa.Value(tk.Params[0]) {
				good = false
				o.Fail(r.pos(rc.Pos()), "the scanner is given %s, not the query text Tokenize received", describe(text, 0))
			}
		}
	}
	if n == 0 {
		o.Fail(r.pos(tk.Pos()), "no scanner.Init call found in Tokenize and its helpers")
		return
	}
	if good {
		o.OK("scanner.Init(strings.NewReader(s)) with s the parameter").At(r.pos(tk.Pos()))
	}
}

// ruleParserStateOnlyPosition (PV-FRESH): what a parse function returns is built for that call:
// while parsing, the parser's own state is only its position; no parse method stores a slice, map
// or pointer into the parser (a buffer kept there and handed out is shared by every clause of the
// query that used it).
func ruleParserStateOnlyPosition(r *Run) {
	p := r.P
	o := r.Ob("PV-FRESH", "logql.parser state", "parse methods store no slice, map or pointer into the parser (its state is the token position): nothing a parse function returns can alias storage that a later parse call reuses")
	parserT := p.NamedType(logqlPkg, "parser")
	if parserT == nil {
		o.Fail("-", "type parser not found")
		return
	}
	n, nStores, good := 0, 0, true
	for _, fn := range p.SrcFuncs() {
		if pkgPathOf(fn) != modPath+"/"+logqlPkg {
			continue
		}
		isM := false
		for g := fn; g != nil; g = g.Parent() {
			if g.Signature.Recv() != nil && types.Identical(derefType(g.Signature.Recv().Type()), parserT) {
				isM = true
			}
		}
		if !isM {
			continue
		}
		n++
		allInstrs(fn, func(in ssa.Instruction) {
			st, ok := in.(*ssa.Store)
			if !ok {
				return
			}
			f, base, ok := fieldNameOf(st.Addr)
			if !ok || !types.Identical(derefType(base.Type()), parserT) {
				return
			}
			nStores++
			if aliasFreeType(st.Val.Type(), 0) {
				return // a position, a flag, a token (strings and numbers): nothing a later call could overwrite in place
			}
			good = false
			o.Fail(r.pos(st.Pos()), "%s stores %s into parser.%s: state kept between parse calls", shortFuncName(fn), describe(st.Val, 0), f)
		})
	}
	if n < 20 {
		o.Fail("-", "only %d parser methods found", n)
		return
	}
	if good {
		o.OK("%d parser methods/closures, %d store(s) to parser fields, none of a slice, map or pointer", n, nStores)
	}
}

// ruleLiteralBinOpWritesBack (PV-RESET): the samples a vector-scalar operation accepts are what
// the step reports: each accepted result is written into r.Samples, and r.Samples is set to
// exactly the accepted ones before the step is returned.
func ruleLiteralBinOpWritesBack(r *Run) {
	p := r.P
	o := r.Ob("PV-RESET", "logqlmetric.(*literalBinOpIterator).Next samples", "every result the operation accepts is stored into the step's samples and the step's sample list is set to the accepted ones on the path that returns true")
	fn := p.Method(metricPkg, "literalBinOpIterator", "Next")
	if fn == nil || len(fn.Params) != 2 {
		o.Fail("-", "method not found")
		return
	}
	var step ssa.Value = fn.Params[1]
	isStepSamples := func(addr ssa.Value) bool {
		f, base, ok := fieldNameOf(addr)
		return ok && f == "Samples" && (base == step || originValue(base) == step)
	}
	var opCall *ssa.Call
	for _, g := range funcGroup(fn) {
		for _, c := range callsIn(g) {
			call, ok := c.(*ssa.Call)
			if !ok || call.Call.IsInvoke() || staticCallee(call) != nil {
				continue
			}
			if f, _, ok := loadOfField(call.Call.Value); ok && f == "op" {
				opCall = call
			}
		}
	}
	if opCall != nil && opCall.Parent() != fn && len(opCall.Parent().Params) == 2 {
		// the per-sample work lives in a helper with the same (iterator, step) parameters
		fn = opCall.Parent()
		step = fn.Params[1]
	}
	if opCall == nil {
		o.Undecide(r.pos(fn.Pos()), "the call of the sample operation (i.op) was not found")
		return
	}
	var val ssa.Value
	for _, ref := range *opCall.Referrers() {
		if e, ok := ref.(*ssa.Extract); ok && e.Index == 0 {
			val = e
		}
	}
	if val == nil {
		o.Fail(r.pos(opCall.Pos()), "the result of the operation is not used")
		return
	}
	// how the accepted value reaches the step
	byIndex, byAppend := false, (*ssa.Call)(nil)
	var walkUse func(v ssa.Value, d int)
	walkUse = func(v ssa.Value, d int) {
		if d > 4 || v.Referrers() == nil {
			return
		}
		for _, ref := range *v.Referrers() {
			switch x := ref.(type) {
			case *ssa.Store:
				if x.Val != v {
					continue
				}
				if ia, ok := x.Addr.(*ssa.IndexAddr); ok {
					if lu, ok := ia.X.(*ssa.UnOp); ok && isStepSamples(lu.X) {
						byIndex = true
					}
					// the one-element array of a variadic append
					if al, ok := ia.X.(*ssa.Alloc); ok {
						for _, r2 := range *al.Referrers() {
							if sl, ok := r2.(*ssa.Slice); ok {
								for _, r3 := range *sl.Referrers() {
									if c, ok := r3.(*ssa.Call); ok && isAppend(c) {
										byAppend = c
									}
								}
							}
						}
					}
				}
				if al, ok := x.Addr.(*ssa.Alloc); ok {
					for _, r2 := range *al.Referrers() {
						if u, ok := r2.(*ssa.UnOp); ok && u.Op == token.MUL {
							walkUse(u, d+1)
						}
					}
				}
			}
		}
	}
	walkUse(val, 0)
	// stores to r.Samples
	var sampleStores []*ssa.Store
	allInstrs(fn, func(in ssa.Instruction) {
		if st, ok := in.(*ssa.Store); ok && isStepSamples(st.Addr) {
			sampleStores = append(sampleStores, st)
		}
	})
	good := true
	switch {
	case byIndex:
		// truncation after the loop: r.Samples = r.Samples[:n]
		okTrunc := false
		for _, st := range sampleStores {
			if sl, ok := st.Val.(*ssa.Slice); ok {
				if lu, ok := sl.X.(*ssa.UnOp); ok && isStepSamples(lu.X) && sl.High != nil && !blockReaches(st.Block(), opCall.Block()) {
					okTrunc = true
				}
			}
		}
		if !okTrunc {
			good = false
			o.Fail(r.pos(opCall.Pos()), "accepted results are stored by index but the step's sample list is not cut to their number after the loop: dropped samples stay in the step")
		}
	case byAppend != nil:
		okStore := false
		for _, st := range sampleStores {
			for _, lv := range phiLeaves(st.Val) {
				if lv == ssa.Value(byAppend) && !blockReaches(st.Block(), opCall.Block()) {
					okStore = true
				}
			}
		}
		if !okStore {
			good = false
			o.Fail(r.pos(byAppend.Pos()), "accepted results are appended to a slice that is never stored into the step's samples after the loop: the step keeps its unfiltered samples")
		}
	default:
		good = false
		o.Fail(r.pos(opCall.Pos()), "an accepted result is neither stored into r.Samples by index nor appended to the list stored there")
	}
	if good {
		o.OK("accepted results are written into r.Samples and the list is set to the accepted ones").At(r.pos(fn.Pos()))
	}
}

// ruleSinceZeroIsAValue (PV-GUARD): the default of --since applies when the flag is absent, not
// when its value is zero: the parsed duration is never compared with a constant to decide whether a
// default replaces it.
func ruleSinceZeroIsAValue(r *Run) {
	p := r.P
	o := r.Ob("PV-GUARD", "main.parseTimeRange since default", "the --since default replaces an absent flag only: the parsed duration is not tested against a constant (an explicit 0 gives start = min(end, now))")
	fn := p.Func(cmdPkg, "parseTimeRange")
	if fn == nil {
		o.Fail("-", "parseTimeRange not found")
		return
	}
	n, good := 0, true
	for _, g := range pkgClosure(fn) {
		for _, c := range callsIn(g) {
			if pk, nm := calleePkgName(c); !strings.HasSuffix(pk, "prometheus/common/model") || nm != "ParseDuration" {
				continue
			}
			call, ok := c.(*ssa.Call)
			if !ok {
				continue
			}
			n++
			derived := map[ssa.Value]bool{}
			var mark func(v ssa.Value, d int)
			mark = func(v ssa.Value, d int) {
				if derived[v] || d > 8 || v.Referrers() == nil {
					return
				}
				derived[v] = true
				for _, ref := range *v.Referrers() {
					switch x := ref.(type) {
					case *ssa.Extract:
						if x.Index == 0 {
							mark(x, d+1)
						}
					case *ssa.Convert:
						mark(x, d+1)
					case *ssa.ChangeType:
						mark(x, d+1)
					case *ssa.Phi:
						mark(x, d+1)
					case *ssa.Store:
						if al, ok := x.Addr.(*ssa.Alloc); ok && x.Val == v {
							for _, r2 := range *al.Referrers() {
								if u, ok := r2.(*ssa.UnOp); ok && u.Op == token.MUL {
									mark(u, d+1)
								}
							}
						}
					case *ssa.BinOp:
						switch x.Op {
						case token.EQL, token.NEQ, token.LSS, token.LEQ, token.GTR, token.GEQ:
							other := x.Y
							if other == v {
								other = x.X
							}
							if _, isC := other.(*ssa.Const); isC {
								for _, r2 := range *x.Referrers() {
									if _, isIf := r2.(*ssa.If); isIf {
										good = false
										o.Fail(r.pos(x.Pos()), "the parsed --since is compared with %s to choose between it and a default: an explicit value equal to it is treated as if the flag were absent", describe(other, 0))
									}
								}
							}
						}
					}
				}
			}
			mark(call, 0)
		}
	}
	if n == 0 {
		o.Fail(r.pos(fn.Pos()), "no ParseDuration call found for --since")
		return
	}
	if good {
		o.OK("the parsed duration is used as it is").At(r.pos(fn.Pos()))
	}
}

// aliasFreeType: values of the type share no storage with their copies (numbers, strings,
// booleans, and structs/arrays of those).
func aliasFreeType(t types.Type, d int) bool {
	if d > 4 {
		return false
	}
	switch u := t.Underlying().(type) {
	case *types.Basic:
		return u.Kind() != types.UnsafePointer
	case *types.Struct:
		for i := 0; i < u.NumFields(); i++ {
			if !aliasFreeType(u.Field(i).Type(), d+1) {
				return false
			}
		}
		return true
	case *types.Array:
		return aliasFreeType(u.Elem(), d+1)
	}
	return false
}

// ---- rules added after seed round r/s ----

// ruleReadersDecodeRunes (PV-API): the hand-written readers of the pattern and JSON-path
// languages read their input rune by rune: a (rune, size) reader step returns end-of-input or both
// results of utf8.DecodeRuneInString (a byte-wise reader turns every non-ASCII literal into
// mojibake that never matches the line).
func ruleReadersDecodeRunes(r *Run) {
	p := r.P
	o := r.Ob("PV-API", "pattern/jsonexpr reader step", "a reader step that returns (rune, size) returns the decoded rune and its byte length from utf8.DecodeRuneInString, or end of input")
	n, good := 0, true
	for _, fn := range p.SrcFuncs() {
		pk := pkgPathOf(fn)
		if pk != modPath+"/internal/logql/logqlengine/logqlpattern" && pk != modPath+"/internal/logql/logqlengine/jsonexpr" {
			continue
		}
		res := fn.Signature.Results()
		if res.Len() != 2 {
			continue
		}
		b0, ok0 := res.At(0).Type().Underlying().(*types.Basic)
		b1, ok1 := res.At(1).Type().Underlying().(*types.Basic)
		if !ok0 || !ok1 || b0.Kind() != types.Int32 || b1.Kind() != types.Int {
			continue
		}
		n++
		for _, ret := range returnsOf(fn) {
			if len(ret.Results) != 2 {
				continue
			}
			if _, isC := ret.Results[0].(*ssa.Const); isC {
				if k, ok := constInt(ret.Results[1]); ok && k == 0 {
					continue // end of input
				}
			}
			c0, i0, ok0 := extractOf(unspill(ret.Results[0]))
			c1, i1, ok1 := extractOf(unspill(ret.Results[1]))
			if ok0 && ok1 && c0 == c1 && i0 == 0 && i1 == 1 {
				if pk, nm := calleePkgName(c0); pk == "unicode/utf8" && (nm == "DecodeRuneInString" || nm == "DecodeRune") {
					continue
				}
			}
			good = false
			o.Fail(r.pos(ret.Pos()), "%s returns (%s, %s): not a rune decoded from the input with its length", shortFuncName(fn), describe(ret.Results[0], 0), describe(ret.Results[1], 0))
		}
	}
	if n < 2 {
		o.Fail("-", "only %d reader step function(s) found in logqlpattern/jsonexpr", n)
		return
	}
	if good {
		o.OK("%d reader steps decode runes", n)
	}
}

// rulePatternLiteralAnchored (PV-API): a literal part of a pattern must be the next thing in the
// line: Match tests the part it is looking at with a prefix function; searching (Index, Cut,
// Contains) is used only to find where the *following* part begins.
func rulePatternLiteralAnchored(r *Run) {
	p := r.P
	const rel = "internal/logql/logqlengine/logqlpattern"
	o := r.Ob("PV-API", "logqlpattern.Match literal", "a literal part is consumed as a prefix of the remaining input (CutPrefix/HasPrefix/TrimPrefix of the current part's text); substring search is applied only to the next part's text, to delimit a capture")
	fn := p.Func(rel, "Match")
	if fn == nil {
		o.Fail("-", "Match not found")
		return
	}
	nPrefix, good := 0, true
	for _, g := range funcGroup(fn) {
		loops := rangeIndexLoops(g)
		for _, c := range callsIn(g) {
			call, ok := c.(*ssa.Call)
			if !ok {
				continue
			}
			pk, nm := calleePkgName(call)
			if pk != "strings" || len(call.Call.Args) < 2 {
				continue
			}
			isPrefix := nm == "CutPrefix" || nm == "HasPrefix" || nm == "TrimPrefix"
			isSearch := nm == "Index" || nm == "Contains" || nm == "Cut" || nm == "LastIndex" || nm == "SplitN" || nm == "Split" || nm == "IndexByte"
			if !isPrefix && !isSearch {
				continue
			}
			f, base, ok := loadOfField(call.Call.Args[1])
			if !ok || f != "Value" {
				continue
			}
			// is the needle the current ranged part?
			current := false
			base = unspill(base)
			if al, ok := base.(*ssa.Alloc); ok {
				for _, st := range storesTo(al) {
					if u, ok := st.Val.(*ssa.UnOp); ok {
						for _, l := range loops {
							if isIndexOf(u.X, l) {
								current = true
							}
						}
					}
				}
			}
			if u, ok := base.(*ssa.UnOp); ok {
				for _, l := range loops {
					if isIndexOf(u.X, l) {
						current = true
					}
				}
			}
			for _, l := range loops {
				if isIndexOf(base, l) {
					current = true
				}
			}
			if current && isPrefix {
				nPrefix++
			}
			if current && isSearch {
				good = false
				o.Fail(r.pos(call.Pos()), "the current part's text is looked for with strings.%s: a literal matches anywhere in the rest of the line instead of at its start", nm)
			}
		}
	}
	if nPrefix == 0 && good {
		good = false
		o.Fail(r.pos(fn.Pos()), "no prefix test of the current literal part found")
	}
	if good {
		o.OK("%d prefix test(s) on the current part; searches only on the next part", nPrefix).At(r.pos(fn.Pos()))
	}
}

// ruleBuildDescendsOneLevel (PV-ROLE): the step-iterator builder evaluates each node from the
// iterators of its own operands: the expression handed to a recursive build call is a field of
// the node being built, read directly (not a value chosen by looking further down the tree).
func ruleBuildDescendsOneLevel(r *Run) {
	p := r.P
	o := r.Ob("PV-ROLE", "logqlmetric.build recursion", "every recursive build call is given an operand field (Expr, Left, Right) of the node being built: no level of the tree is skipped or replaced")
	bf := p.Func(metricPkg, "build")
	if bf == nil {
		o.Fail("-", "build not found")
		return
	}
	grp := funcGroup(bf)
	n, good := 0, true
	for _, g := range grp {
		for _, c := range callsIn(g) {
			call, ok := c.(*ssa.Call)
			if !ok || staticCallee(call) != bf || len(call.Call.Args) == 0 {
				continue
			}
			if g == bf && false {
				continue
			}
			arg := call.Call.Args[0]
			// a helper that builds the operand it is handed: the operand is what its callers pass
			if q, isParam := spillParam(unspill(arg)).(*ssa.Parameter); isParam && q.Parent() != bf {
				idx := -1
				for i, prm := range q.Parent().Params {
					if prm == q {
						idx = i
					}
				}
				for _, g2 := range grp {
					for _, c2 := range callsIn(g2) {
						if staticCallee(c2) != q.Parent() || idx < 0 || idx >= len(c2.Common().Args) {
							continue
						}
						n++
						av := unspill(c2.Common().Args[idx])
						if mi, ok := av.(*ssa.MakeInterface); ok {
							av = unspill(mi.X)
						}
						if _, _, ok := loadOfField(av); !ok {
							good = false
							o.Fail(r.pos(c2.Pos()), "%s is handed %s to build: not an operand field of the node being built", shortFuncName(q.Parent()), describe(av, 0))
						}
					}
				}
				continue
			}
			// the entry call from Build with the caller's own parameter is not a descent
			if _, isParam := originValueIn(unspill(arg), grp).(*ssa.Parameter); isParam {
				continue
			}
			n++
			v := unspill(arg)
			if mi, ok := v.(*ssa.MakeInterface); ok {
				v = unspill(mi.X)
			}
			if _, isPhi := v.(*ssa.Phi); isPhi {
				good = false
				o.Fail(r.pos(call.Pos()), "build is given %s: the operand is chosen by looking further down the tree, a level can be skipped", describe(v, 0))
				continue
			}
			f, base, ok := loadOfField(v)
			if !ok {
				good = false
				o.Fail(r.pos(call.Pos()), "build is given %s, not an operand field of the node being built", describe(v, 0))
				continue
			}
			// the node: a type assertion (the switch's binding), possibly through a helper's parameter
			root := originValueIn(unspill(base), grp)
			switch root.(type) {
			case *ssa.TypeAssert, *ssa.Parameter, *ssa.Extract:
			default:
				if _, isPhi := unspill(base).(*ssa.Phi); isPhi {
					good = false
					o.Fail(r.pos(call.Pos()), "build is given field %s of %s: the node whose operand is built is chosen in a loop", f, describe(base, 0))
				}
			}
		}
	}
	if n < 4 {
		o.Fail(r.pos(bf.Pos()), "only %d recursive build call(s) found", n)
		return
	}
	if good {
		o.OK("%d recursive calls, each on an operand field of the current node", n).At(r.pos(bf.Pos()))
	}
}

// ruleLiteralOperandPerSample (PV-PAIR): in a vector-scalar operation the scalar operand of each
// sample carries that sample's own label set.
func ruleLiteralOperandPerSample(r *Run) {
	p := r.P
	o := r.Ob("PV-PAIR", "logqlmetric.(*literalBinOpIterator).Next literal operand", "the scalar operand is built for each sample with that sample's label set (the result of an operation takes its labels from its left operand)")
	fn := p.Method(metricPkg, "literalBinOpIterator", "Next")
	if fn == nil {
		o.Fail("-", "method not found")
		return
	}
	var loop *rangeLoop
	for _, l := range rangeIndexLoops(fn) {
		if f, _, ok := loadOfField(l.X); ok && f == "Samples" {
			loop = l
		}
	}
	if loop == nil {
		o.Undecide(r.pos(fn.Pos()), "no loop over the step's samples")
		return
	}
	n, good := 0, true
	isRanged := func(v ssa.Value) bool {
		sb := unspill(v)
		if a2, isA := sb.(*ssa.Alloc); isA {
			for _, s3 := range storesTo(a2) {
				if u, ok := s3.Val.(*ssa.UnOp); ok && isIndexOf(u.X, loop) {
					return true
				}
			}
		}
		if u, isU := sb.(*ssa.UnOp); isU {
			if isIndexOf(u.X, loop) {
				return true
			}
			if a2, isA := u.X.(*ssa.Alloc); isA {
				for _, s3 := range storesTo(a2) {
					if u2, ok := s3.Val.(*ssa.UnOp); ok && isIndexOf(u2.X, loop) {
						return true
					}
				}
			}
		}
		return isIndexOf(sb, loop)
	}
	for _, g := range funcGroup(fn) {
		g := g
		allInstrs(g, func(in ssa.Instruction) {
			st, ok := in.(*ssa.Store)
			if !ok {
				return
			}
			f, base, ok := fieldNameOf(st.Addr)
			if !ok || f != "Set" || typeKey(derefType(base.Type())) != "Sample" {
				return
			}
			// is this the literal operand? its Data is the iterator's value
			al, ok := base.(*ssa.Alloc)
			if !ok {
				return
			}
			isLit := false
			for _, ref := range *al.Referrers() {
				if fa, ok := ref.(*ssa.FieldAddr); ok {
					if nm, _, _ := fieldNameOf(fa); nm == "Data" {
						for _, s2 := range storesTo(fa) {
							if lf, _, ok := loadOfField(s2.Val); ok && lf == "value" {
								isLit = true
							}
						}
					}
				}
			}
			if !isLit {
				return
			}
			n++
			sf, sbase, ok := loadOfField(st.Val)
			elem := false
			if ok && sf == "Set" {
				if g == fn {
					elem = isRanged(sbase) && loop.Blocks[st.Block()]
				} else if q, isP := spillParam(unspill(sbase)).(*ssa.Parameter); isP || func() bool { q, isP = spillParam(sbase).(*ssa.Parameter); return isP }() {
					// built in a helper from its sample parameter: every call in Next hands it the ranged sample, inside the loop
					idx := -1
					for i, prm := range g.Params {
						if prm == q {
							idx = i
						}
					}
					calls := 0
					elem = idx >= 0
					for _, c := range callsIn(fn) {
						if staticCallee(c) != g {
							continue
						}
						calls++
						if idx >= len(c.Common().Args) || !isRanged(c.Common().Args[idx]) || !loop.Blocks[c.Block()] {
							elem = false
						}
					}
					elem = elem && calls > 0
				}
			}
			if !elem {
				good = false
				o.Fail(r.pos(st.Pos()), "the scalar operand's label set is %s, not the label set of the sample it is combined with", describe(st.Val, 0))
			}
		})
	}
	if n == 0 {
		o.Undecide(r.pos(fn.Pos()), "the construction of the scalar operand (Sample{Data: i.value, Set: ...}) was not found")
		return
	}
	if good {
		o.OK("Sample{Data: i.value, Set: sample.Set} per ranged sample").At(r.pos(fn.Pos()))
	}
}

// ruleLimitDefaultUnlimited (PV-CONST): with default flags every entry of the window is
// evaluated and rendered: the --limit flag defaults to a non-positive value (no limit).
func ruleLimitDefaultUnlimited(r *Run) {
	p := r.P
	o := r.Ob("PV-CONST", "main --limit default", "the --limit flag defaults to a non-positive value (unlimited): a result is not cut unless the user asks for it")
	n, good := 0, true
	for _, fn := range p.SrcFuncs() {
		if pkgPathOf(fn) != modPath+"/"+cmdPkg {
			continue
		}
		for _, c := range callsIn(fn) {
			if pk, nm := calleePkgName(c); !strings.HasSuffix(pk, "spf13/pflag") || !strings.HasPrefix(nm, "Int") {
				continue
			}
			args := c.Common().Args
			isLimit := false
			for _, a := range args {
				if s, ok := constStr(a); ok && s == "limit" {
					isLimit = true
				}
			}
			if !isLimit {
				continue
			}
			n++
			found := false
			for _, a := range args {
				if k, ok := constInt(a); ok {
					if bt, isB := a.Type().Underlying().(*types.Basic); isB && bt.Info()&types.IsInteger != 0 {
						found = true
						if k > 0 {
							good = false
							o.Fail(r.pos(c.Pos()), "--limit defaults to %d: with default flags a larger result is silently cut", k)
						}
					}
				}
			}
			if !found {
				good = false
				o.Undecide(r.pos(c.Pos()), "the default of --limit is not a constant")
			}
		}
	}
	if n == 0 {
		o.Fail("-", "no integer flag named limit found")
		return
	}
	if good {
		o.OK("--limit defaults to a non-positive constant")
	}
}

// ruleComparatorsNoSubtraction (PV-CMP): a comparator handed to a sort is a real three-way
// comparison: it never returns a converted difference of its operands (which wraps for unsigned
// keys and overflows for large values, making the order - and what a sort does with it -
// inconsistent).
func ruleComparatorsNoSubtraction(r *Run, rels []string) {
	p := r.P
	o := r.Ob("PV-CMP", "sort comparators", "no comparator given to slices.SortFunc/SortStableFunc/sort.Slice returns a converted difference of its operands")
	n, good := 0, true
	for _, fn := range p.SrcFuncs() {
		in := false
		for _, rel := range rels {
			if pkgPathOf(fn) == modPath+"/"+rel {
				in = true
			}
		}
		if !in {
			continue
		}
		for _, c := range callsIn(fn) {
			pk, nm := calleePkgName(c)
			if !((pk == "slices" || strings.HasSuffix(pk, "exp/slices")) && (nm == "SortFunc" || nm == "SortStableFunc" || nm == "BinarySearchFunc" || nm == "MinFunc" || nm == "MaxFunc")) && !(pk == "sort" && (nm == "Slice" || nm == "SliceStable")) {
				continue
			}
			args := c.Common().Args
			cmpFn := funcOfValue(args[len(args)-1])
			if cmpFn == nil {
				continue
			}
			n++
			for _, ret := range returnsOf(cmpFn) {
				for _, lv := range phiLeaves(ret.Results[0]) {
					v := lv
					if cv, ok := v.(*ssa.Convert); ok {
						v = cv.X
					}
					if b, ok := v.(*ssa.BinOp); ok && b.Op == token.SUB {
						good = false
						o.Fail(r.pos(ret.Pos()), "the comparator %s returns a difference (%s): it wraps or overflows, so the order is not a consistent total order", shortFuncName(cmpFn), describe(lv, 0))
					}
				}
			}
		}
	}
	if n == 0 {
		o.Fail("-", "no sort with a comparator found")
		return
	}
	if good {
		o.OK("%d comparator(s), none returns a difference", n)
	}
}

// ruleTimestampIntegerSpellings (PV-API): the integer spellings of --start/--end (unix seconds,
// unix nanoseconds) are read as integers: the value handed to time.Unix alone (the other
// argument a constant zero) comes from strconv.ParseInt, never through a floating-point number.
func ruleTimestampIntegerSpellings(r *Run) {
	p := r.P
	o := r.Ob("PV-API", "main.parseTimestamp integer spellings", "unix seconds and unix nanoseconds are parsed with strconv.ParseInt and reach time.Unix unchanged: no float64 on the way (a nanosecond count does not fit its mantissa)")
	fn := p.Func(cmdPkg, "parseTimestamp")
	if fn == nil {
		o.Fail("-", "parseTimestamp not found")
		return
	}
	n, good := 0, true
	for _, g := range pkgClosure(fn) {
		for _, c := range callsIn(g) {
			if pk, nm := calleePkgName(c); pk != "time" || nm != "Unix" || len(c.Common().Args) != 2 || c.Common().Signature().Recv() != nil {
				continue
			}
			args := c.Common().Args
			var v ssa.Value
			if k, ok := constInt(args[0]); ok && k == 0 {
				v = args[1]
			} else if k, ok := constInt(args[1]); ok && k == 0 {
				v = args[0]
			} else {
				continue // seconds and fraction: the decimal spelling
			}
			n++
			// backward: conversions only, down to an extract of ParseInt
			cur := unspill(v)
			viaFloat := false
			for d := 0; d < 8; d++ {
				cv, ok := cur.(*ssa.Convert)
				if !ok {
					break
				}
				if bt, isB := cv.X.Type().Underlying().(*types.Basic); isB && bt.Info()&types.IsFloat != 0 {
					viaFloat = true
				}
				cur = unspill(cv.X)
			}
			cur = originValueIn(cur, pkgClosure(fn))
			src, _, isEx := extractOf(cur)
			okSrc := false
			if isEx {
				if pk, nm := calleePkgName(src); pk == "strconv" && (nm == "ParseInt" || nm == "Atoi") {
					okSrc = true
				}
			}
			if viaFloat || !okSrc {
				good = false
				o.Fail(r.pos(c.Pos()), "time.Unix is given %s: the integer spelling does not come straight from strconv.ParseInt", describe(v, 0))
			}
		}
	}
	if n < 2 {
		o.Fail(r.pos(fn.Pos()), "only %d integer-spelling time.Unix call(s) found (seconds and nanoseconds expected)", n)
		return
	}
	if good {
		o.OK("%d call(s): time.Unix(ParseInt(value), 0) / time.Unix(0, ParseInt(value))", n).At(r.pos(fn.Pos()))
	}
}

// ruleSinceOnlyPromDuration (PV-API): the --since duration is what model.ParseDuration returns
// (which admits no sign and no fraction): no other parser can supply it.
func ruleSinceOnlyPromDuration(r *Run) {
	p := r.P
	o := r.Ob("PV-API", "main.parseTimeRange since source", "the --since duration comes from model.ParseDuration of the flag's text or from the constant default: a negative or fractional-seconds spelling cannot produce it")
	fn := p.Func(cmdPkg, "parseTimeRange")
	if fn == nil {
		o.Fail("-", "parseTimeRange not found")
		return
	}
	// since: the operand of the negation handed to Time.Add
	var since ssa.Value
	allInstrs(fn, func(in ssa.Instruction) {
		u, ok := in.(*ssa.UnOp)
		if !ok || u.Op != token.SUB || typeKey(u.Type()) != "Duration" {
			return
		}
		for _, ref := range *u.Referrers() {
			if c, ok := ref.(*ssa.Call); ok {
				if pk, nm := calleePkgName(c); pk == "time" && nm == "Add" {
					since = u.X
				}
			}
		}
	})
	if since == nil {
		o.Undecide(r.pos(fn.Pos()), "the negated duration added to the end time was not found")
		return
	}
	good := true
	nSrc := 0
	seen := map[ssa.Value]bool{}
	var back func(v ssa.Value, d int)
	back = func(v ssa.Value, d int) {
		v = unspill(v)
		if seen[v] || d > 12 {
			return
		}
		seen[v] = true
		switch x := v.(type) {
		case *ssa.Const:
		case *ssa.Phi:
			for _, e := range x.Edges {
				back(e, d+1)
			}
		case *ssa.Convert:
			back(x.X, d+1)
		case *ssa.ChangeType:
			back(x.X, d+1)
		case *ssa.UnOp:
			if al, ok := x.X.(*ssa.Alloc); ok && x.Op == token.MUL {
				for _, st := range storesTo(al) {
					back(st.Val, d+1)
				}
				return
			}
			good = false
			o.Fail(r.pos(x.Pos()), "--since can be %s", describe(x, 0))
		case *ssa.Extract:
			c, ok := x.Tuple.(*ssa.Call)
			if !ok {
				good = false
				return
			}
			if pk, nm := calleePkgName(c); strings.HasSuffix(pk, "prometheus/common/model") && nm == "ParseDuration" {
				nSrc++
				return
			}
			callee := staticCallee(c)
			if callee != nil && callee.Blocks != nil && pkgOfFunc(callee) == pkgOfFunc(fn) {
				for _, ret := range returnsOf(callee) {
					if x.Index < len(ret.Results) {
						back(ret.Results[x.Index], d+1)
					}
				}
				return
			}
			good = false
			o.Fail(r.pos(c.Pos()), "--since can come from %s, which is not model.ParseDuration", calleeName(c))
		case *ssa.Parameter:
			// a helper's parameter: what its callers pass
			h := x.Parent()
			idx := -1
			for i, q := range h.Params {
				if q == x {
					idx = i
				}
			}
			found := false
			if h != fn && idx >= 0 {
				for _, g := range pkgClosure(fn) {
					for _, c := range callsIn(g) {
						if staticCallee(c) == h && idx < len(c.Common().Args) {
							found = true
							back(c.Common().Args[idx], d+1)
						}
					}
				}
			}
			if !found {
				good = false
				o.Fail(r.pos(fn.Pos()), "--since can be %s", describe(v, 0))
			}
		case *ssa.BinOp:
			// constant arithmetic (6 * time.Hour written with a named constant) is a constant
			if _, ok := constOf(x); ok {
				return
			}
			good = false
			o.Fail(r.pos(x.Pos()), "--since can be computed as %s (not the duration model.ParseDuration returned)", describe(x, 0))
		case *ssa.Call:
			good = false
			o.Fail(r.pos(x.Pos()), "--since can come from %s, which is not model.ParseDuration", calleeName(x))
		default:
			good = false
			o.Fail(r.pos(fn.Pos()), "--since can be %s", describe(v, 0))
		}
	}
	back(since, 0)
	if nSrc == 0 && good {
		good = false
		o.Fail(r.pos(fn.Pos()), "model.ParseDuration is not among the sources of --since")
	}
	if good {
		o.OK("sources: the constant default and model.ParseDuration").At(r.pos(fn.Pos()))
	}
}

// ruleOneInnerStepPerStep (PV-ONCE): an iterator that transforms the steps of an inner step
// iterator consumes exactly one inner step per outer step: the inner Next is not called in a
// loop (skipping "empty" steps misaligns the grid of the two sides of a binary operation and
// never ends on the unbounded grid of an instant vector()).
func ruleOneInnerStepPerStep(r *Run) {
	p := r.P
	o := r.Ob("PV-ONCE", "logqlmetric step transformers", "Next of a step iterator that wraps step iterators calls the inner Next outside any loop: one inner step per outer step, whatever the step contains")
	n, good := 0, true
	for _, fn := range p.SrcFuncs() {
		if pkgPathOf(fn) != modPath+"/"+metricPkg || fn.Signature.Recv() == nil || fn.Name() != "Next" || len(fn.Params) != 2 {
			continue
		}
		if typeKey(derefType(fn.Params[1].Type())) != "Step" {
			continue
		}
		for _, g := range funcGroup(fn) {
			for _, c := range callsIn(g) {
				call, ok := c.(*ssa.Call)
				if !ok || !call.Call.IsInvoke() || call.Call.Method.Name() != "Next" || len(call.Call.Args) != 1 {
					continue
				}
				if typeKey(derefType(call.Call.Args[0].Type())) != "Step" {
					continue
				}
				n++
				inLoop := false
				for _, sc := range call.Block().Succs {
					if blockReaches(sc, call.Block()) {
						inLoop = true
					}
				}
				// a helper that holds the call, itself called in a loop of Next
				if g != fn {
					for _, c2 := range callsIn(fn) {
						if staticCallee(c2) == g {
							for _, sc := range c2.Block().Succs {
								if blockReaches(sc, c2.Block()) {
									inLoop = true
								}
							}
						}
					}
				}
				if inLoop {
					good = false
					o.Fail(r.pos(call.Pos()), "%s calls the inner Next in a loop: several inner steps can be consumed for one outer step", shortFuncName(fn))
				}
			}
		}
	}
	if n < 4 {
		o.Fail("-", "only %d inner step reads found", n)
		return
	}
	if good {
		o.OK("%d inner step read(s), none in a loop", n)
	}
}

// ruleConstIndexGuarded (PF-IDX): in the Docker backend a slice the daemon filled is indexed with
// a constant (or sliced from a constant) only where its length is known to be large enough
// (a listed container may have no name; a selector may match no container).
func ruleConstIndexGuarded(r *Run, rels []string, floor int) {
	p := r.P
	o := r.Ob("PF-IDX", "constant indices "+strings.Join(rels, ","), "x[k] / x[k:] with constant k on a slice is dominated by a length test that makes it safe (len(x) > k, len(x) == n with n > k, ...)")
	n, good := 0, true
	for _, fn := range p.SrcFuncs() {
		in := false
		for _, rel := range rels {
			if pkgPathOf(fn) == modPath+"/"+rel {
				in = true
			}
		}
		if !in {
			continue
		}
		var checkAny func(at ssa.Instruction, x ssa.Value, k int64)
		checkStr := func(at ssa.Instruction, x ssa.Value, k int64) {
			if _, isC := x.(*ssa.Const); isC {
				return
			}
			checkAny(at, x, k)
		}
		check := func(at ssa.Instruction, x ssa.Value, k int64) {
			if _, isSlice := x.Type().Underlying().(*types.Slice); !isSlice {
				return
			}
			checkAny(at, x, k)
		}
		checkAny = func(at ssa.Instruction, x ssa.Value, k int64) {
			// literals of known length
			if sl, ok := x.(*ssa.Slice); ok {
				if al, ok := sl.X.(*ssa.Alloc); ok {
					if arr, ok := derefType(al.Type()).Underlying().(*types.Array); ok && arr.Len() > k {
						return
					}
				}
			}
			n++
			safe := false
			for _, f := range factsAt(at.Block()) {
				b, ok := f.Cond.(*ssa.BinOp)
				if !ok {
					continue
				}
				lx, c, op := b.X, b.Y, b.Op
				if _, isC := lx.(*ssa.Const); isC {
					lx, c = c, lx
					switch op {
					case token.LSS:
						op = token.GTR
					case token.LEQ:
						op = token.GEQ
					case token.GTR:
						op = token.LSS
					case token.GEQ:
						op = token.LEQ
					}
				}
				// s != "" on the indexed string itself
				if (lx == x || describe(lx, 0) == describe(x, 0)) && k == 0 {
					if sv, ok := constStr(c); ok && sv == "" && ((op == token.NEQ && f.Truth) || (op == token.EQL && !f.Truth)) {
						safe = true
					}
				}
				lc, ok := lx.(*ssa.Call)
				if !ok {
					// strings.HasPrefix(s, "x") true: s is not empty
					continue
				}
				if bi, ok := lc.Call.Value.(*ssa.Builtin); !ok || bi.Name() != "len" || len(lc.Call.Args) != 1 {
					continue
				}
				if lc.Call.Args[0] != x && describe(lc.Call.Args[0], 0) != describe(x, 0) {
					continue
				}
				cv, ok := constInt(c)
				if !ok {
					continue
				}
				// the fact as a lower bound on len
				if !f.Truth {
					switch op {
					case token.LSS:
						op = token.GEQ
					case token.LEQ:
						op = token.GTR
					case token.EQL:
						op = token.NEQ
					case token.NEQ:
						op = token.EQL
					case token.GTR:
						op = token.LEQ
					case token.GEQ:
						op = token.LSS
					}
				}
				switch op {
				case token.GTR:
					safe = safe || cv >= k
				case token.GEQ:
					safe = safe || cv > k
				case token.EQL:
					safe = safe || cv > k
				case token.NEQ:
					safe = safe || (cv == 0 && k == 0)
				}
			}
			if !safe && k == 0 {
				// a parameter of an unexported helper: non-empty when every call site hands it s[i:] under i < len(s)
				if q, ok := spillParam(unspill(x)).(*ssa.Parameter); ok && q.Parent() == fn && fn.Object() != nil && !fn.Object().Exported() {
					idx := -1
					for i, prm := range fn.Params {
						if prm == q {
							idx = i
						}
					}
					calls, okAll := 0, idx >= 0
					for _, g := range p.SrcFuncs() {
						if pkgOfFunc(g) != pkgOfFunc(fn) {
							continue
						}
						for _, c := range callsIn(g) {
							if staticCallee(c) != fn {
								continue
							}
							calls++
							sl, isSl := unspill(c.Common().Args[idx]).(*ssa.Slice)
							if !isSl || sl.High != nil || sl.Low == nil {
								okAll = false
								continue
							}
							bounded := false
							for _, f := range factsAt(c.Block()) {
								b, ok := f.Cond.(*ssa.BinOp)
								if !ok || !f.Truth || b.Op != token.LSS || b.X != sl.Low {
									continue
								}
								if lc, ok := b.Y.(*ssa.Call); ok {
									if bi, ok := lc.Call.Value.(*ssa.Builtin); ok && bi.Name() == "len" && (lc.Call.Args[0] == sl.X || describe(lc.Call.Args[0], 0) == describe(sl.X, 0)) {
										bounded = true
									}
								}
							}
							if !bounded {
								okAll = false
							}
						}
					}
					if okAll && calls > 0 {
						safe = true
					}
				}
			}
			if !safe {
				good = false
				o.Fail(r.pos(at.Pos()), "%s: %s is indexed/sliced at constant %d without a dominating length test", shortFuncName(fn), describe(x, 0), k)
			}
		}
		allInstrs(fn, func(in ssa.Instruction) {
			switch x := in.(type) {
			case *ssa.Index:
				// s[k] on a string
				if bt, ok := x.X.Type().Underlying().(*types.Basic); ok && bt.Info()&types.IsString != 0 {
					if k, ok := constInt(x.Index); ok {
						checkStr(x, x.X, k)
					}
				}
			case *ssa.IndexAddr:
				if k, ok := constInt(x.Index); ok {
					check(x, x.X, k)
				}
			case *ssa.Slice:
				if x.Low != nil {
					if k, ok := constInt(x.Low); ok && k > 0 {
						check(x, x.X, k-1)
					}
				}
			}
		})
	}
	if n < floor {
		o.Fail("-", "only %d constant-index site(s) found, floor %d", n, floor)
		return
	}
	if good {
		o.OK("%d constant-index site(s), all under a sufficient length test", n)
	}
}

// ---- rules added after seed round t/u ----

// ruleOpenLogAlwaysAsks (PV-WHOLE): every selected container's log is requested from the
// daemon: openLog has no successful exit that did not call ContainerLogs (no shortcut that
// decides from the container's metadata that it has nothing to say).
func ruleOpenLogAlwaysAsks(r *Run) {
	p := r.P
	o := r.Ob("PV-WHOLE", "dockerlog.(*Querier).openLog request", "openLog returns a reader only after asking the daemon for this container's log: every successful return is dominated by the ContainerLogs call")
	fn := p.Method(dockerlogPkg, "Querier", "openLog")
	if fn == nil {
		o.Fail("-", "openLog not found")
		return
	}
	var logs *ssa.Call
	for _, g := range funcGroup(fn) {
		for _, c := range callsIn(g) {
			if call, ok := c.(*ssa.Call); ok && invokeIs(call, "ContainerLogs") && g == fn {
				logs = call
			}
		}
	}
	if logs == nil {
		// the request may sit in a helper: then every success return must be dominated by the helper call
		for _, c := range callsIn(fn) {
			call, ok := c.(*ssa.Call)
			if !ok {
				continue
			}
			if h := staticCallee(call); h != nil && h.Blocks != nil && pkgOfFunc(h) == pkgOfFunc(fn) {
				for _, c2 := range callsIn(h) {
					if cc, ok := c2.(*ssa.Call); ok && invokeIs(cc, "ContainerLogs") {
						logs = call
					}
				}
			}
		}
	}
	if logs == nil {
		o.Fail(r.pos(fn.Pos()), "no ContainerLogs request found in openLog")
		return
	}
	good, n := true, 0
	for _, ret := range returnsOf(fn) {
		if len(ret.Results) != 2 {
			continue
		}
		succ := false
		for _, lv := range phiLeaves(unspill(ret.Results[1])) {
			if isNilConst(lv) {
				succ = true
			}
		}
		if !succ {
			continue
		}
		n++
		if !instrDominates(logs, ret) {
			good = false
			o.Fail(r.pos(ret.Pos()), "openLog can return a reader (%s) without having asked the daemon for the container's log", describe(ret.Results[0], 0))
		}
	}
	if n == 0 {
		o.Fail(r.pos(fn.Pos()), "no successful return found")
		return
	}
	if good {
		o.OK("%d successful return(s), all after ContainerLogs", n).At(r.pos(fn.Pos()))
	}
}

// ruleBinOpModifierFresh (PV-FRESH): the modifier stored in a binary expression is the one
// parsed for that operator: the value comes straight from the parseBinOpModifier call of the
// same loop iteration, never from a variable that survives from an earlier operator.
func ruleBinOpModifierFresh(r *Run) {
	p := r.P
	o := r.Ob("PV-FRESH", "logql.(*parser).parseBinOp modifier", "BinOpExpr.Modifier is the result of the modifier parse made for this operator (no state carried from the previous operator of the chain)")
	fn := p.Method(logqlPkg, "parser", "parseBinOp")
	if fn == nil {
		o.Fail("-", "parseBinOp not found")
		return
	}
	n, good := 0, true
	for _, g := range funcGroup(fn) {
		allInstrs(g, func(in ssa.Instruction) {
			st, ok := in.(*ssa.Store)
			if !ok {
				return
			}
			f, base, ok := fieldNameOf(st.Addr)
			if !ok || f != "Modifier" || typeKey(derefType(base.Type())) != "BinOpExpr" {
				return
			}
			n++
			v := unspill(st.Val)
			if ph, isPhi := v.(*ssa.Phi); isPhi {
				good = false
				o.Fail(r.pos(st.Pos()), "the stored modifier is %s: a value that can come from an earlier operator of the chain", describe(ph, 0))
				return
			}
			c, idx, isEx := extractOf(v)
			if !isEx || idx != 0 {
				if lu, ok := v.(*ssa.UnOp); ok {
					// a local: written once per iteration by the parse
					if al, ok := lu.X.(*ssa.Alloc); ok {
						for _, s2 := range storesTo(al) {
							if c2, i2, ok := extractOf(s2.Val); !ok || i2 != 0 || !strings.Contains(strings.ToLower(calleeName(c2)), "modifier") {
								good = false
								o.Fail(r.pos(st.Pos()), "the stored modifier can be %s", describe(s2.Val, 0))
							}
						}
						if len(storesTo(al)) != 1 {
							good = false
							o.Fail(r.pos(st.Pos()), "the modifier variable is written at %d places: it can keep the value parsed for an earlier operator", len(storesTo(al)))
						}
						return
					}
				}
				good = false
				o.Fail(r.pos(st.Pos()), "the stored modifier is %s, not the result of the modifier parse", describe(v, 0))
				return
			}
			if callee := staticCallee(c); callee == nil || !types.Identical(derefType(callee.Signature.Results().At(0).Type()), derefType(st.Val.Type())) {
				good = false
				o.Fail(r.pos(st.Pos()), "the stored modifier comes from %s", calleeName(c))
			}
		})
	}
	if n == 0 {
		o.Fail(r.pos(fn.Pos()), "no store to BinOpExpr.Modifier found in parseBinOp")
		return
	}
	if good {
		o.OK("%d store(s): Modifier = parseBinOpModifier() of the same iteration", n).At(r.pos(fn.Pos()))
	}
}

// ruleNoUnsafeStrings (PV-ALIAS): no first-party code of the engine or the Docker backend turns
// bytes into a string without copying (unsafe.String): such a string aliases a buffer that the
// decoder, scanner or template stage reuses for the next record.
func ruleNoUnsafeStrings(r *Run, rels []string) {
	p := r.P
	o := r.Ob("PV-ALIAS", "unsafe strings "+strings.Join(rels, ","), "no unsafe.String (zero-copy []byte -> string): every string kept in a label, a line or a record owns its bytes")
	n, good := 0, true
	for _, fn := range p.SrcFuncs() {
		in := false
		for _, rel := range rels {
			if pkgPathOf(fn) == modPath+"/"+rel {
				in = true
			}
		}
		if !in {
			continue
		}
		n++
		for _, c := range callsIn(fn) {
			if bi, ok := c.Common().Value.(*ssa.Builtin); ok && bi.Name() == "String" {
				good = false
				o.Fail(r.pos(c.Pos()), "%s builds a string over a byte buffer without copying (unsafe.String)", shortFuncName(fn))
			}
		}
	}
	if n == 0 {
		o.Fail("-", "no functions analysed")
		return
	}
	if good {
		o.OK("%d function(s), no unsafe.String", n)
	}
}

// ruleLabelSetRangeWhole (PV-WHOLE): LabelSet.Range hands every label to its callback: the
// callback call is the only thing in the loop over the label map, with no condition that skips
// an entry (drop, keep and the metric label set are built on it).
func ruleLabelSetRangeWhole(r *Run) {
	p := r.P
	o := r.Ob("PV-WHOLE", "logqlengine.(*LabelSet).Range", "Range calls the callback for every label of the set, whatever its value")
	fn := p.Method(enginePkg, "LabelSet", "Range")
	if fn == nil || len(fn.Params) != 2 {
		o.Fail("-", "LabelSet.Range not found")
		return
	}
	var nx *ssa.Next
	allInstrs(fn, func(in ssa.Instruction) {
		if n, ok := in.(*ssa.Next); ok {
			if rg, ok := n.Iter.(*ssa.Range); ok {
				if f, _, ok := loadOfField(rg.X); ok && f == "labels" {
					nx = n
				}
			}
		}
	})
	if nx == nil {
		o.Fail(r.pos(fn.Pos()), "no range over l.labels")
		return
	}
	blocks := naturalLoop(nx.Block())
	var cb *ssa.Call
	for b := range blocks {
		for _, in := range b.Instrs {
			if c, ok := in.(*ssa.Call); ok && (c.Call.Value == ssa.Value(fn.Params[1]) || unspill(c.Call.Value) == ssa.Value(fn.Params[1])) {
				cb = c
			}
		}
	}
	if cb == nil {
		o.Fail(r.pos(fn.Pos()), "the callback is not called in the loop over the labels")
		return
	}
	good := true
	for b := range blocks {
		if b == nx.Block() {
			continue
		}
		if _, isIf := b.Instrs[len(b.Instrs)-1].(*ssa.If); isIf {
			good = false
			o.Fail(r.pos(b.Instrs[len(b.Instrs)-1].(*ssa.If).Cond.Pos()), "a condition inside the loop decides whether a label is handed to the callback")
		}
		for _, sc := range b.Succs {
			if !blocks[sc] {
				good = false
				o.Fail(r.pos(fn.Pos()), "the loop over the labels can be left early")
			}
		}
	}
	if good {
		o.OK("for k, v := range l.labels { cb(k, v) }").At(r.pos(fn.Pos()))
	}
}

// ruleTemplateStringsByName (PV-ROLE): a template function that is bound directly to a function
// of package strings carries that function's own name (ToLower, TrimPrefix, ...: LogQL's Go-style
// functions, which share Go's argument order). The lower-case predicates of LogQL (contains,
// hasPrefix, hasSuffix, ...) take the needle first and must not be bound to strings.* directly.
func ruleTemplateStringsByName(r *Run) {
	p := r.P
	o := r.Ob("PV-ROLE", "logqlengine.tmplFunctions strings bindings", "a template function bound directly to strings.F is called F: the lower-case LogQL predicates (needle first) are not aliases of strings.Contains/HasPrefix/HasSuffix (subject first)")
	fn := p.Func(enginePkg, "tmplFunctions")
	if fn == nil {
		o.Fail("-", "tmplFunctions not found")
		return
	}
	n, good := 0, true
	for _, g := range funcGroup(fn) {
		allInstrs(g, func(in ssa.Instruction) {
			mu, ok := in.(*ssa.MapUpdate)
			if !ok {
				return
			}
			key, ok := constStr(mu.Key)
			if !ok {
				return
			}
			v := mu.Value
			if mi, ok := v.(*ssa.MakeInterface); ok {
				v = mi.X
			}
			f, ok := v.(*ssa.Function)
			if !ok || f.Pkg == nil || f.Pkg.Pkg.Path() != "strings" {
				return
			}
			n++
			if f.Name() != key {
				good = false
				o.Fail(r.pos(mu.Pos()), "template function %q is bound to strings.%s: LogQL's %s takes its operands in another order than strings.%s", key, f.Name(), key, f.Name())
			}
		})
	}
	if n < 3 {
		o.Fail(r.pos(fn.Pos()), "only %d direct strings.* bindings found in the template function table", n)
		return
	}
	if good {
		o.OK("%d direct bindings, each under the function's own name", n).At(r.pos(fn.Pos()))
	}
}

// ruleJSONIntegersExact (PV-API): an integer in a JSON document becomes an integer label value
// without passing through a float64 (which rounds above 2^53).
func ruleJSONIntegersExact(r *Run) {
	p := r.P
	o := r.Ob("PV-API", "logqlengine JSON integers", "pcommon.NewValueInt is never given a number converted from a float: integer fields keep all their digits")
	n, good := 0, true
	for _, fn := range p.SrcFuncs() {
		if pkgPathOf(fn) != modPath+"/"+enginePkg {
			continue
		}
		for _, c := range callsIn(fn) {
			if pk, nm := calleePkgName(c); !strings.HasSuffix(pk, "pdata/pcommon") || nm != "NewValueInt" {
				continue
			}
			n++
			v := unspill(c.Common().Args[0])
			for d := 0; d < 6; d++ {
				cv, ok := v.(*ssa.Convert)
				if !ok {
					break
				}
				if bt, isB := cv.X.Type().Underlying().(*types.Basic); isB && bt.Info()&types.IsFloat != 0 {
					good = false
					o.Fail(r.pos(c.Pos()), "%s builds an integer value from a float64 (%s): integers above 2^53 are rounded", shortFuncName(fn), describe(cv.X, 0))
				}
				v = unspill(cv.X)
			}
		}
	}
	if n == 0 {
		o.Fail("-", "no pcommon.NewValueInt call found in the engine")
		return
	}
	if good {
		o.OK("%d integer value(s), none from a float", n)
	}
}

// ruleBatchAggregatorsStateless (PV-PURE): a batch aggregator computes its value from the points
// it is given: Aggregate stores nothing into its receiver (a buffer kept between calls leaks one
// window's points into the next series or step).
func ruleBatchAggregatorsStateless(r *Run) {
	p := r.P
	o := r.Ob("PV-PURE", "logqlmetric batch aggregators", "Aggregate(points) of the range aggregators writes no field of its receiver: the value at a step depends on that step's window only")
	n, good := 0, true
	for _, fn := range p.SrcFuncs() {
		if pkgPathOf(fn) != modPath+"/"+metricPkg || fn.Signature.Recv() == nil || fn.Name() != "Aggregate" || len(fn.Params) != 2 {
			continue
		}
		if _, isSlice := fn.Params[1].Type().Underlying().(*types.Slice); !isSlice {
			continue
		}
		n++
		allInstrs(fn, func(in ssa.Instruction) {
			st, ok := in.(*ssa.Store)
			if !ok {
				return
			}
			if f, base, ok := fieldNameOf(st.Addr); ok && (base == ssa.Value(fn.Params[0]) || originValue(base) == ssa.Value(fn.Params[0])) {
				if _, isPtr := fn.Params[0].Type().Underlying().(*types.Pointer); isPtr {
					good = false
					o.Fail(r.pos(st.Pos()), "%s stores into its receiver's field %s: state survives from one window to the next", shortFuncName(fn), f)
				}
			}
		})
	}
	if n < 4 {
		o.Fail("-", "only %d Aggregate method(s) found", n)
		return
	}
	if good {
		o.OK("%d Aggregate method(s), none writes its receiver", n)
	}
}

// ruleBothSidesAdvance (PV-ONCE): a binary step iterator reads one step from each side for every
// step it reports: on every path of Next that returns true both inner iterators were advanced
// (a side that is skipped when the other is empty falls behind the grid).
func ruleBothSidesAdvance(r *Run) {
	p := r.P
	o := r.Ob("PV-ONCE", "logqlmetric binary iterators advance both sides", "every path of binOpIterator.Next / mergeBinOpIterator.Next that reports a step has called Next on the left and on the right iterator")
	n, good := 0, true
	for _, tn := range []string{"binOpIterator", "mergeBinOpIterator"} {
		fn := p.Method(metricPkg, tn, "Next")
		if fn == nil {
			good = false
			o.Fail("-", "%s.Next not found", tn)
			continue
		}
		inG := map[*ssa.Function]bool{}
		for _, g := range funcGroup(fn) {
			inG[g] = true
		}
		w := &feWalker{Fn: fn, MaxPath: 20000, Inline: func(c *ssa.Function, d int) bool { return inG[c] && c.Parent() == nil && d <= 2 }}
		ends := w.Run()
		if w.Aborted {
			good = false
			o.Undecide(r.pos(fn.Pos()), "path enumeration aborted")
			continue
		}
		for _, e := range ends {
			if e.Cut || len(e.Results) != 1 || !e.Results[0].Known || !constant.BoolVal(e.Results[0].C) {
				continue
			}
			n++
			sides := map[string]bool{}
			for _, c := range e.State.calls {
				call, ok := c.Call.(*ssa.Call)
				if !ok || !call.Call.IsInvoke() || call.Call.Method.Name() != "Next" {
					continue
				}
				if f, _, ok := loadOfField(call.Call.Value); ok {
					sides[f] = true
				}
			}
			if len(sides) < 2 {
				good = false
				var got []string
				for k := range sides {
					got = append(got, k)
				}
				o.Fail(r.pos(e.Term.Pos()), "%s reports a step on a path that advanced only %v: the other side falls one step behind", shortFuncName(fn), got)
				break
			}
		}
	}
	if n == 0 && good {
		good = false
		o.Fail("-", "no reporting path found")
	}
	if good {
		o.OK("%d reporting path(s), each advances both sides", n)
	}
}

// ruleSetAttrsWhole (PV-WHOLE): every attribute of a record becomes a label: the callback that
// SetAttrs hands to pcommon.Map.Range never stops the iteration (it returns true on every path)
// and sets a label on every path.
func ruleSetAttrsWhole(r *Run) {
	p := r.P
	eng := modPath + "/" + enginePkg
	o := r.Ob("PV-WHOLE", "logqlengine.(*LabelSet).SetAttrs", "the attribute callback returns true on every path (Range is never cut short) and stores a label on every path: no attribute is skipped, none hides the ones after it")
	fn := p.Method(enginePkg, "LabelSet", "SetAttrs")
	if fn == nil {
		o.Fail("-", "SetAttrs not found")
		return
	}
	var cb *ssa.Function
	for _, g := range funcGroup(fn) {
		for _, c := range callsIn(g) {
			if pk, nm := calleePkgName(c); strings.HasSuffix(pk, "pdata/pcommon") && nm == "Range" && len(c.Common().Args) == 2 {
				if f, _ := predicateOf(c.Common().Args[1]); f != nil {
					cb = f
				}
			}
		}
	}
	if cb == nil {
		o.Fail(r.pos(fn.Pos()), "no pcommon.Map.Range callback found")
		return
	}
	good := true
	w := &feWalker{Fn: cb, MaxPath: 5000, Inline: inlineHelpers(cb)}
	nEnds := 0
	for _, e := range w.Run() {
		if e.Cut || len(e.Results) != 1 {
			continue
		}
		nEnds++
		if !e.Results[0].Known || !constant.BoolVal(e.Results[0].C) {
			good = false
			o.Fail(r.pos(e.Term.Pos()), "the callback can return %s: returning false stops Range, the attributes after this one are lost", keptWord(e.Results[0]))
		}
		set := false
		for _, c := range e.State.calls {
			if callIs(c.Call, eng, "(*LabelSet).Set") {
				set = true
			}
		}
		if !set {
			good = false
			o.Fail(r.pos(e.Term.Pos()), "a path through the callback stores no label: an attribute is skipped")
		}
	}
	if nEnds == 0 {
		o.Fail(r.pos(cb.Pos()), "no path through the callback")
		return
	}
	if good {
		o.OK("%d path(s): Set(KeyToLabel(k), v); return true", nEnds).At(r.pos(cb.Pos()))
	}
}

// ruleEvalParamsUnmodified (PV-ROLE): the range the caller resolved is the range that is
// evaluated: no function of the engine assigns a field of an EvalParams value (alignment,
// clamping or defaulting of Start/End/Step would move the window the daemon is asked for).
func ruleEvalParamsUnmodified(r *Run) {
	p := r.P
	o := r.Ob("PV-ROLE", "logqlengine EvalParams", "EvalParams reach the evaluators as the caller gave them: no field of an EvalParams value is assigned in the engine")
	n, good := 0, true
	for _, fn := range p.SrcFuncs() {
		if pkgPathOf(fn) != modPath+"/"+enginePkg {
			continue
		}
		n++
		allInstrs(fn, func(in ssa.Instruction) {
			st, ok := in.(*ssa.Store)
			if !ok {
				return
			}
			f, base, ok := fieldNameOf(st.Addr)
			if !ok || typeKey(derefType(base.Type())) != "EvalParams" {
				return
			}
			// a composite literal under construction is not a modification
			if al, ok := base.(*ssa.Alloc); ok {
				whole := false
				for _, s2 := range storesTo(al) {
					_ = s2
					whole = true
				}
				if !whole {
					return
				}
			}
			good = false
			o.Fail(r.pos(st.Pos()), "%s assigns EvalParams.%s: the evaluated range is no longer the one the caller resolved", shortFuncName(fn), f)
		})
	}
	if good {
		o.OK("%d function(s), no assignment to an EvalParams field", n)
	}
}

// ruleModifierGuardComplete (PV-GUARD): vector matching modifiers are parsed but not evaluated:
// the guard of BinOp that reports them as unsupported looks at every component of the modifier
// (operator, its label list, group side, included labels), so none is silently ignored.
func ruleModifierGuardComplete(r *Run) {
	p := r.P
	o := r.Ob("PV-GUARD", "logqlmetric.BinOp modifier guard", "the unsupported-modifier guard of BinOp reads every field of BinOpModifier except ReturnBool: on(), ignoring(), group_left/right with or without labels are all reported")
	fn := p.Func(metricPkg, "BinOp")
	mt := p.NamedType(logqlPkg, "BinOpModifier")
	if fn == nil || mt == nil {
		o.Fail("-", "BinOp / BinOpModifier not found")
		return
	}
	st, ok := mt.Underlying().(*types.Struct)
	if !ok {
		o.Fail("-", "BinOpModifier is not a struct")
		return
	}
	read := map[string]bool{}
	for _, g := range funcGroup(fn) {
		allInstrs(g, func(in ssa.Instruction) {
			switch x := in.(type) {
			case *ssa.FieldAddr:
				if types.Identical(derefType(x.X.Type()), mt) {
					if f, _, ok := fieldNameOf(x); ok {
						read[f] = true
					}
				}
			case *ssa.Field:
				if types.Identical(x.X.Type(), mt) {
					read[canonName(st.Field(x.Field))] = true
				}
			}
		})
	}
	good := true
	for i := 0; i < st.NumFields(); i++ {
		f := canonName(st.Field(i))
		if f == "ReturnBool" {
			continue
		}
		if !read[f] {
			good = false
			o.Fail(r.pos(fn.Pos()), "BinOp never looks at BinOpModifier.%s: a query using it is evaluated as if it were not written", f)
		}
	}
	if good {
		o.OK("all matching fields of the modifier are tested").At(r.pos(fn.Pos()))
	}
}

// ---- rules added after seed round v/w ----

// ruleUnquoteOnly (PV-API): the value of a string literal is what strutil.Unquote makes of its
// text: a helper of the lexer that calls strutil.Unquote returns nothing else (no short cut that
// strips the quotes by hand).
func ruleUnquoteOnly(r *Run) {
	p := r.P
	o := r.Ob("PV-API", "lexer string literal value", "every function of the lexer that unquotes a literal returns the result of strutil.Unquote on each path: there is no hand-written fast path next to it")
	n, good := 0, true
	for _, fn := range p.SrcFuncs() {
		if pkgPathOf(fn) != modPath+"/"+lexerPkg {
			continue
		}
		var uq []*ssa.Call
		for _, c := range callsIn(fn) {
			if pk, nm := calleePkgName(c); strings.HasSuffix(pk, "strutil") && nm == "Unquote" {
				if call, ok := c.(*ssa.Call); ok {
					uq = append(uq, call)
				}
			}
		}
		if len(uq) == 0 {
			continue
		}
		n++
		res := fn.Signature.Results()
		if res.Len() == 0 || !isStringType(res.At(0).Type()) {
			continue // the scanner step itself: the literal's value is stored into the token (checked by the token rules)
		}
		for _, ret := range returnsOf(fn) {
			for _, lv := range phiLeaves(unspill(ret.Results[0])) {
				if c, idx, ok := extractOf(lv); ok && idx == 0 {
					isU := false
					for _, u := range uq {
						if u == c {
							isU = true
						}
					}
					if isU {
						continue
					}
				}
				if s, ok := constStr(lv); ok && s == "" {
					continue
				}
				good = false
				o.Fail(r.pos(ret.Pos()), "%s can return %s as the literal's value, not the result of strutil.Unquote", shortFuncName(fn), describe(lv, 0))
			}
		}
	}
	if n == 0 {
		o.Fail("-", "no strutil.Unquote call found in the lexer")
		return
	}
	if good {
		o.OK("%d function(s) unquote literals, only through strutil.Unquote", n)
	}
}

// ruleParserKeepsStageOrder (PV-ORDER): the parser returns the stages of a pipeline in the
// order they were written: stage lists are only ever appended to (no element store by index, no
// copy within the list).
func ruleParserKeepsStageOrder(r *Run) {
	p := r.P
	o := r.Ob("PV-ORDER", "logql parser stage order", "a []PipelineStage is built by append only in the parser: no stage is moved, swapped or overwritten after it was parsed")
	isStageSlice := func(t types.Type) bool {
		sl, ok := t.Underlying().(*types.Slice)
		return ok && typeKey(sl.Elem()) == "PipelineStage"
	}
	n, good := 0, true
	for _, fn := range p.SrcFuncs() {
		if pkgPathOf(fn) != modPath+"/"+logqlPkg {
			continue
		}
		n++
		allInstrs(fn, func(in ssa.Instruction) {
			switch x := in.(type) {
			case *ssa.Store:
				if ia, ok := x.Addr.(*ssa.IndexAddr); ok && isStageSlice(ia.X.Type()) {
					// the one-element backing array of a variadic append is an array, not a slice
					good = false
					o.Fail(r.pos(x.Pos()), "%s overwrites an element of a stage list", shortFuncName(fn))
				}
			case *ssa.Call:
				if bi, ok := x.Call.Value.(*ssa.Builtin); ok && bi.Name() == "copy" && len(x.Call.Args) == 2 && isStageSlice(x.Call.Args[0].Type()) {
					good = false
					o.Fail(r.pos(x.Pos()), "%s moves stages within a stage list (copy)", shortFuncName(fn))
				}
				if pk, nm := calleePkgName(x); (pk == "slices" || strings.HasSuffix(pk, "exp/slices") || pk == "sort") && len(x.Call.Args) > 0 && isStageSlice(x.Call.Args[0].Type()) {
					switch nm {
					case "SortFunc", "SortStableFunc", "Reverse", "Insert", "Delete", "DeleteFunc", "Slice", "SliceStable":
						good = false
						o.Fail(r.pos(x.Pos()), "%s reorders a stage list (%s)", shortFuncName(fn), nm)
					}
				}
			}
		})
	}
	if good {
		o.OK("%d function(s) of the parser package: stage lists are append-only", n)
	}
}

// ruleTemplateDataIsLabels (PV-ROLE): a template is executed over the labels of the record:
// the data argument of every Execute call in the engine is the result of LabelSet.AsMap(), on
// every path (not a map chosen by a pre-check of the template).
func ruleTemplateDataIsLabels(r *Run) {
	p := r.P
	eng := modPath + "/" + enginePkg
	o := r.Ob("PV-ROLE", "logqlengine template data", "(*template.Template).Execute is given set.AsMap() as its data on every path")
	n, good := 0, true
	for _, fn := range p.SrcFuncs() {
		if pkgPathOf(fn) != eng {
			continue
		}
		for _, c := range callsIn(fn) {
			if !callIs(c, "text/template", "(*Template).Execute") || len(c.Common().Args) != 3 {
				continue
			}
			n++
			var isLabels func(v ssa.Value, d int) bool
			isLabels = func(v ssa.Value, d int) bool {
				if d > 4 {
					return false
				}
				v = unspill(v)
				if mi, isMI := v.(*ssa.MakeInterface); isMI {
					v = unspill(mi.X)
				}
				leaves := phiLeaves(v)
				if len(leaves) == 0 {
					return false
				}
				for _, l2 := range leaves {
					l2 = unspill(l2)
					if mi, isMI := l2.(*ssa.MakeInterface); isMI {
						l2 = unspill(mi.X)
					}
					if call, isCall := l2.(*ssa.Call); isCall && callIs(call, eng, "(*LabelSet).AsMap") {
						continue
					}
					// a shared render helper: the data is what every caller passes
					if q, isP := spillParam(l2).(*ssa.Parameter); isP && q.Parent() != nil {
						h := q.Parent()
						idx := -1
						for i, prm := range h.Params {
							if prm == q {
								idx = i
							}
						}
						calls, okAll := 0, idx >= 0
						for _, g := range p.SrcFuncs() {
							if pkgOfFunc(g) != pkgOfFunc(h) {
								continue
							}
							for _, c2 := range callsIn(g) {
								if staticCallee(c2) == h && idx < len(c2.Common().Args) {
									calls++
									if !isLabels(c2.Common().Args[idx], d+1) {
										okAll = false
									}
								}
							}
						}
						if okAll && calls > 0 {
							continue
						}
					}
					return false
				}
				return true
			}
			ok := isLabels(c.Common().Args[2], 0)
			if !ok {
				good = false
				o.Fail(r.pos(c.Pos()), "%s executes a template over %s, which is not always the record's label map", shortFuncName(fn), describe(c.Common().Args[2], 0))
			}
		}
	}
	if n < 1 {
		o.Fail("-", "no template Execute call found in the engine")
		return
	}
	if good {
		o.OK("%d Execute call(s), all over set.AsMap()", n)
	}
}

// ruleBatchApplierAlwaysAggregates (PV-ROLE): the batch form of a streaming aggregator is the
// aggregator applied to every point: batchApplier.Aggregate returns agg.Result() on every path.
func ruleBatchApplierAlwaysAggregates(r *Run) {
	p := r.P
	o := r.Ob("PV-ROLE", "logqlmetric.batchApplier.Aggregate", "every return of batchApplier.Aggregate is the aggregator's Result() after the points were applied: no short cut for one point (stddev of one point is 0, not the point)")
	fn := p.Method(metricPkg, "batchApplier", "Aggregate")
	if fn == nil {
		o.Fail("-", "batchApplier.Aggregate not found")
		return
	}
	n, good := 0, true
	for _, ret := range returnsOf(fn) {
		if len(ret.Results) != 1 {
			continue
		}
		for _, lv := range phiLeaves(unspill(ret.Results[0])) {
			n++
			c, ok := lv.(*ssa.Call)
			if !ok || !(c.Call.IsInvoke() && c.Call.Method.Name() == "Result") && (staticCallee(c) == nil || staticCallee(c).Name() != "Result") {
				good = false
				o.Fail(r.pos(ret.Pos()), "batchApplier.Aggregate can return %s instead of the aggregator's result", describe(lv, 0))
			}
		}
	}
	if n == 0 {
		o.Fail(r.pos(fn.Pos()), "no return found")
		return
	}
	if good {
		o.OK("%d return value(s), all agg.Result()", n).At(r.pos(fn.Pos()))
	}
}

// ruleIterEndsWithSource (PV-GUARD): an iterator that transforms another ends exactly when its
// source ends (so that its Err(), which is the source's, explains the end): every `return false`
// of Next is taken on an edge where a Next of an inner iterator (or the stepper) said false.
func ruleIterEndsWithSource(r *Run) {
	p := r.P
	o := r.Ob("PV-GUARD", "iterators end with their source", "Next of the listed wrappers returns false only where an inner Next / the stepper returned false: no flag, context or counter ends the iteration silently")
	type tm struct{ rel, typ string }
	n, good := 0, true
	for _, t := range []tm{{enginePkg, "sampleIterator"}, {metricPkg, "rangeAggIterator"}, {metricPkg, "vectorAggIterator"}, {metricPkg, "vectorAggHeapIterator"}, {metricPkg, "literalBinOpIterator"}, {metricPkg, "binOpIterator"}, {metricPkg, "mergeBinOpIterator"}, {metricPkg, "labelReplaceIterator"}} {
		fn := p.Method(t.rel, t.typ, "Next")
		if fn == nil {
			continue
		}
		n++
		isSourceVerdict := func(f condFact) bool {
			f = normFact(f)
			if f.Truth {
				return false
			}
			v := f.Cond
			if ex, ok := v.(*ssa.Extract); ok {
				v = ex.Tuple
			}
			c, ok := v.(*ssa.Call)
			if !ok {
				return false
			}
			if c.Call.IsInvoke() && c.Call.Method.Name() == "Next" {
				return true
			}
			if callee := staticCallee(c); callee != nil && (callee.Name() == "next" || callee.Name() == "Next") {
				return true
			}
			// a helper of the iterator that forwards the source's verdict
			if callee := staticCallee(c); callee != nil && callee.Blocks != nil && pkgOfFunc(callee) == pkgOfFunc(fn) {
				for _, c2 := range callsIn(callee) {
					if cc, ok := c2.(*ssa.Call); ok && cc.Call.IsInvoke() && cc.Call.Method.Name() == "Next" {
						return true
					}
				}
			}
			return false
		}
		for _, ret := range returnsOf(fn) {
			if len(ret.Results) != 1 {
				continue
			}
			for _, lp := range phiLeavesWithPred(ret.Results[0], ret.Block()) {
				if !isConstBool(lp.V, false) {
					continue
				}
				okEdge := false
				for _, f := range factsAt(ret.Block()) {
					if isSourceVerdict(f) {
						okEdge = true
					}
				}
				edgeOK := func(pred *ssa.BasicBlock) bool {
					if f, ok := edgeFact(pred, ret.Block()); ok && isSourceVerdict(f) {
						return true
					}
					for _, f := range factsAt(pred) {
						if isSourceVerdict(f) {
							return true
						}
					}
					return false
				}
				if !okEdge && lp.Pred != nil {
					okEdge = edgeOK(lp.Pred)
				}
				if !okEdge && lp.Pred == nil && len(ret.Block().Preds) > 0 {
					// a shared `return false` block: every way into it is a source's verdict
					okEdge = true
					for _, pb := range ret.Block().Preds {
						if !edgeOK(pb) {
							okEdge = false
						}
					}
				}
				if !okEdge {
					good = false
					o.Fail(r.pos(ret.Pos()), "%s can return false where no inner iterator said it is exhausted: the iteration ends without a reason its Err() reports", shortFuncName(fn))
				}
			}
		}
	}
	if n < 5 {
		o.Fail("-", "only %d wrapper Next method(s) found", n)
		return
	}
	if good {
		o.OK("%d wrapper(s): false only on the source's verdict", n)
	}
}

// ruleVectorAggValuesFromAggregator (PV-ROLE): the value of every series a vector aggregation
// reports is the Result() of the group's aggregator (a lone series is a group too: its stddev
// is 0, its count 1).
func ruleVectorAggValuesFromAggregator(r *Run) {
	p := r.P
	o := r.Ob("PV-ROLE", "logqlmetric.(*vectorAggIterator).Next values", "every Sample.Data written by vectorAggIterator.Next is an aggregator's Result()")
	fn := p.Method(metricPkg, "vectorAggIterator", "Next")
	if fn == nil {
		o.Fail("-", "vectorAggIterator.Next not found")
		return
	}
	n, good := 0, true
	for _, g := range funcGroup(fn) {
		allInstrs(g, func(in ssa.Instruction) {
			st, ok := in.(*ssa.Store)
			if !ok {
				return
			}
			f, base, ok := fieldNameOf(st.Addr)
			if !ok || f != "Data" || typeKey(derefType(base.Type())) != "Sample" {
				return
			}
			n++
			c, isCall := unspill(st.Val).(*ssa.Call)
			if !isCall || !c.Call.IsInvoke() || c.Call.Method.Name() != "Result" {
				good = false
				o.Fail(r.pos(st.Pos()), "a reported sample's value is %s, not an aggregator's Result()", describe(st.Val, 0))
			}
		})
	}
	if n == 0 {
		o.Fail(r.pos(fn.Pos()), "no Sample.Data store found")
		return
	}
	if good {
		o.OK("%d value(s), all Aggregator.Result()", n).At(r.pos(fn.Pos()))
	}
}

// ruleNowAtRunTime (PV-ROLE): "now" is the moment the query runs: the time handed to
// parseTimeRange is a time.Now() call made in the function that calls it (the command's run
// function), not a value captured when the command was built.
func ruleNowAtRunTime(r *Run) {
	p := r.P
	cm := modPath + "/" + cmdPkg
	o := r.Ob("PV-ROLE", "main now", "parseTimeRange is given time.Now() evaluated in the run function itself")
	n, good := 0, true
	for _, fn := range p.SrcFuncs() {
		if pkgPathOf(fn) != cm {
			continue
		}
		for _, c := range callsIn(fn) {
			if !callIs(c, cm, "parseTimeRange") {
				continue
			}
			n++
			var isNow func(v ssa.Value, user *ssa.Function, d int) bool
			isNow = func(v ssa.Value, user *ssa.Function, d int) bool {
				if d > 3 {
					return false
				}
				a := unspill(v)
				if call, ok := a.(*ssa.Call); ok {
					pk, nm := calleePkgName(call)
					return pk == "time" && nm == "Now" && call.Parent() == user
				}
				// a parameter of the run function: what its callers pass, evaluated where they call it
				if q, ok := spillParam(a).(*ssa.Parameter); ok && q.Parent() == user {
					idx := -1
					for i, prm := range user.Params {
						if prm == q {
							idx = i
						}
					}
					calls, okAll := 0, idx >= 0
					for _, g := range p.SrcFuncs() {
						if pkgPathOf(g) != cm {
							continue
						}
						for _, c2 := range callsIn(g) {
							if staticCallee(c2) == user && idx < len(c2.Common().Args) {
								calls++
								if !isNow(c2.Common().Args[idx], g, d+1) {
									okAll = false
								}
							}
						}
					}
					return okAll && calls > 0
				}
				return false
			}
			if !isNow(c.Common().Args[0], fn, 0) {
				good = false
				o.Fail(r.pos(c.Pos()), "parseTimeRange is given %s as now, not time.Now() taken when the query runs", describe(c.Common().Args[0], 0))
			}
		}
	}
	if n == 0 {
		o.Fail("-", "no parseTimeRange call found")
		return
	}
	if good {
		o.OK("%d call(s): parseTimeRange(time.Now(), ...)", n)
	}
}

// ruleErrorsAsTargets (PF-NIL): errors.As panics on a nil target: its second argument is the
// address of a variable (&x), never the value of a pointer variable that may be nil.
func ruleErrorsAsTargets(r *Run, rels []string) {
	p := r.P
	o := r.Ob("PF-NIL", "errors.As targets", "the target handed to errors.As is the address of a local or field (&target), not a pointer value read from a variable")
	n, good := 0, true
	for _, fn := range p.SrcFuncs() {
		in := false
		for _, rel := range rels {
			if pkgPathOf(fn) == modPath+"/"+rel {
				in = true
			}
		}
		if !in {
			continue
		}
		for _, c := range callsIn(fn) {
			pk, nm := calleePkgName(c)
			if nm != "As" || !(pk == "errors" || strings.HasSuffix(pk, "go-faster/errors")) || len(c.Common().Args) != 2 {
				continue
			}
			n++
			t := c.Common().Args[1]
			if mi, ok := t.(*ssa.MakeInterface); ok {
				t = mi.X
			}
			switch t.(type) {
			case *ssa.Alloc, *ssa.FieldAddr, *ssa.IndexAddr, *ssa.Global:
			default:
				good = false
				o.Fail(r.pos(c.Pos()), "%s calls errors.As with target %s: a pointer value (nil unless assigned), errors.As panics on it", shortFuncName(fn), describe(t, 0))
			}
		}
	}
	if good {
		o.OK("%d errors.As call(s), all with an address-of target", n)
	}
}
