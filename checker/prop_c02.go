package main

func init() {
	register(&PropSpec{
		ID:          "C02",
		Technique:   "SSA case-relation extraction (operator polarity), provenance/role dataflow on the container-selection and log-request code",
		Explanation: "Decides structural clauses of container selection for all inventories and selectors: operator meaning and polarity of the container matcher, missing-label-as-empty, full anchoring of label regexps, origin pairing of log request and record labels, since/until roles and truncation, request options, label derivation.",
		Decided: []string{
			"PV-PAIR origin: ParseLog keeps its resource and streamIter.Next stamps every record it fills with i.resource unconditionally",
			"PV-WHOLE matcher loop: every selector matcher is passed to the storage or becomes a prefilter",
			"CH-POL: dockerlog.match implements = != =~ !~ as eq / not eq / re / not re over (label value, matcher value), default false; Capabilities advertises exactly those",
			"PV-OKGATE: containerLabels.Match applies every matcher to labels[matcher.Label] with a plain lookup (missing label = \"\"), false on first reject, true after all",
			"PV-API: compileLabelRegex compiles \"^(?:\"+re+\")$\" on every path and is the only writer of LabelMatcher.Re",
			"PV-PAIR/PV-ROLE/PV-CONST: openLog requests ctr.ID with Since/Until = FormatInt(start|end .AsTime().Unix(), 10), stdout+stderr+timestamps, Tail=all, and labels the records with the same ctr's labels",
			"PV-WHOLE: fetchContainers lists all containers and keeps exactly those whose labels Match(params.Labels); getLabels derives container_* labels from the fields they name",
			"AF: the storage is asked for [Start+lookback, End] (instant) / [Start, End] (range), read off the evaluated paths with loads resolved through preceding stores; LP-OFFLOAD provenance of offloaded matchers",
			"AF build range bounds (the window a metric query asks the daemon for); FE-CLASS KeyToLabel (a container is selectable under the sanitised name of each label)",
			"the CLI range rules of C16 (the resolved window is what the containers are asked for)",
			"PV-ORDER SetFromRecord: attribute maps (the container's labels) are applied after the line's well-known fields on every path",
			"PV-WHOLE openLog: every successful return follows the ContainerLogs request",
			"PV-WHOLE SetAttrs visits every attribute",
			"FE-BOOL IsInstant",
			"PV-VERBATIM the bounds of a log query reach Querier.SelectLogs unadjusted",
		},
		NotDecided: []string{"the Docker daemon's own since/until semantics", "regexp engine semantics", "that strconv/time functions meet their contracts"},
		Rules: func(r *Run) {
			ruleDockerMatch(r)
			ruleLabelRegexAnchoring(r)
			ruleOpenLog(r)
			ruleRecordOrigin(r)
			ruleFetchContainers(r)
			ruleMatcherLoop(r)
			ruleSanitiserSites(r)
			ruleSelectLogsWindow(r)
			ruleOffloadProvenance(r)
			ruleRangeBuild(r) // the window a metric query asks the daemon for: [start-offset-range, end-offset]
			ruleKeyToLabel(r) // a container is selectable under the sanitised name of each of its labels
			ruleTimeParams(r) // the window the CLI resolves is the window the containers are asked for
			ruleSetFromRecordOrder(r)
			ruleOpenLogAlwaysAsks(r)
			ruleSetAttrsWhole(r)
			ruleIsInstant(r) // which window the daemon is asked for
			ruleLogBoundsVerbatim(r)
		},
	})
}
