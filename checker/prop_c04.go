package main

func init() {
	register(&PropSpec{
		ID:          "C04",
		Technique:   "closure free-variable store analysis of goroutine bodies (write discipline, join-before-read by dominance), SSA protocol rules on the container/heap merge iterator",
		Explanation: "Decides structural clauses of the multi-container merge for all schedules and inputs: goroutines write only their own per-iteration slot and the parent reads after Wait (completion-order independence, structural race freedom); the heap protocol emits every popped record, refills from and re-tags with the popped element's source, pushes at most one element per source, and the heap orders by timestamp ascending.",
		Decided: []string{
			"PV-WHOLE: each listed container is selected and read at most once; PV-ORDER (shared with C03): a record body is a copy of the reused frame buffer",
			"PV-ROLE context: every openLog call uses the query context (not a context cancelled when the opening goroutines finish); PV-PAIR origin: each record is stamped with its own stream's resource",
			"PV-GO: goroutine bodies store only to iters[idx] with idx the per-iteration range index; no captured variable is reassigned/appended; Wait dominates every later return and every parent read of the slice",
			"PV-ROLE: iterHeapElem.Less is a.record.Timestamp < b.record.Timestamp; the heap adapter compares h[i] with h[j]",
			"PV-PAIR: mergeIter.Next copies the popped record out before refilling, refills i.iters[e.iterIdx] into e.record, pushes e only when the source produced a record; false only on empty heap or source error",
			"PV-WHOLE: init is run-once, ranges over all sources, pushes one element {iterIdx: range index, record} per non-empty source; the heap field is written only through container/heap; sources advanced at exactly two sites",
			"PV-WHOLE: Err and Close visit every source and aggregate every result",
			"the openLog origin rule (each container is read under its own id)",
			"ERR-PROP frame size: no failure exit of the frame decoder depends on the frame's size",
			"PV-WHOLE openLog: every successful return follows the ContainerLogs request",
		},
		NotDecided: []string{"correctness of container/heap", "global sortedness (follows from the decided protocol + heap correctness + per-source order, argued in DESIGN.md)", "the race detector's dynamic view"},
		Rules: func(r *Run) {
			ruleFetchContainers(r) // every listed container is selected (and read) at most once
			ruleOwnWrapScoped(r, []string{dockerlogPkg}, 2)
			ruleDaemonLog(r) // records are conserved unaltered: the record body is a copy of the reused frame buffer, never an alias
			rulePVGo(r)
			ruleMergeIter(r)
			ruleOpenLogContext(r)
			ruleRecordOrigin(r)
			ruleOpenLog(r)            // each container is read under its own id
			ruleFrameSizeNotJudged(r) // one stream failing on a long line ends the merged stream of all containers
			ruleOpenLogAlwaysAsks(r)
		},
	})
}
