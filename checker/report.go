package main

import (
	"encoding/json"
	"fmt"
	"go/token"
	"os"
	"path/filepath"
	"sort"
	"strings"
	"time"
)

type Status string

const (
	Discharged Status = "discharged"
	Violated   Status = "violated"
	Undecided  Status = "undecided"
)

// Obligation is one rule instance: a rule applied to a named construct.
type Obligation struct {
	Property  string   `json:"property"`
	Rule      string   `json:"rule"`
	Construct string   `json:"construct"` // symbol-level key: function, callee, field, case constant – never a line
	Claim     string   `json:"claim"`     // what must hold
	Status    Status   `json:"status"`
	Detail    string   `json:"detail,omitempty"` // why / what fails
	Pos       string   `json:"pos,omitempty"`    // file:line of the construct or of the offending site
	Path      []string `json:"path,omitempty"`   // program points for path rules
	Config    string   `json:"config,omitempty"`
	Trivial   bool     `json:"-"`
}

func (o *Obligation) Key() string { return o.Rule + "|" + o.Construct }

// Run collects the obligations of one property check on one build config.
type Run struct {
	Prop   string
	P      *Program
	Obls   []*Obligation
	Notes  []string
	Counts map[string]int // things analysed: functions, call sites, ...
	seen   map[string]*Obligation
}

func newRun(prop string, p *Program) *Run {
	return &Run{Prop: prop, P: p, Counts: map[string]int{}, seen: map[string]*Obligation{}}
}

func (r *Run) count(what string, n int) { r.Counts[what] += n }

// Ob opens an obligation; it starts Undecided so that a rule that forgets to
// conclude fails closed.
func (r *Run) Ob(rule, construct, claim string) *Obligation {
	key := rule + "|" + construct
	if o, ok := r.seen[key]; ok {
		// same rule+construct reached twice: keep one obligation, the worst status wins
		return o
	}
	o := &Obligation{Property: r.Prop, Rule: rule, Construct: construct, Claim: claim, Status: Undecided, Detail: "rule did not conclude", Config: r.P.Config.Name}
	r.Obls = append(r.Obls, o)
	r.seen[key] = o
	return o
}

func (o *Obligation) OK(detail string, args ...any) *Obligation {
	if o.Status == Violated {
		return o
	}
	if o.Status == Undecided && o.Detail != "rule did not conclude" {
		return o
	}
	o.Status = Discharged
	o.Detail = fmt.Sprintf(detail, args...)
	return o
}

func (o *Obligation) Fail(pos string, detail string, args ...any) *Obligation {
	msg := fmt.Sprintf(detail, args...)
	if o.Status == Violated {
		o.Detail += "; " + msg
		return o
	}
	o.Status = Violated
	o.Detail = msg
	o.Pos = pos
	return o
}

func (o *Obligation) Undecide(pos string, detail string, args ...any) *Obligation {
	if o.Status == Violated {
		return o
	}
	o.Status = Undecided
	o.Detail = fmt.Sprintf(detail, args...)
	o.Pos = pos
	return o
}

func (o *Obligation) At(pos string) *Obligation {
	if o.Pos == "" {
		o.Pos = pos
	}
	return o
}

func (o *Obligation) WithPath(p ...string) *Obligation { o.Path = append(o.Path, p...); return o }

// Check is a convenience: discharge when cond holds, else fail.
func (o *Obligation) Check(cond bool, pos string, okDetail, failDetail string) *Obligation {
	if cond {
		return o.OK("%s", okDetail).At(pos)
	}
	return o.Fail(pos, "%s", failDetail)
}

func (r *Run) pos(p token.Pos) string { return r.P.Pos(p) }

// ---------------------------------------------------------------------------
// known findings

type KnownFinding struct {
	Property  string `json:"property"`
	Rule      string `json:"rule"`
	Construct string `json:"construct"`
	Status    string `json:"status"` // "known" | "fixed"
	Commit    string `json:"commit,omitempty"`
	What      string `json:"what"`
}

func verifDir() string {
	if d := os.Getenv("VERIF_DIR"); d != "" {
		return d
	}
	return "/verif"
}

func loadKnownFindings() ([]KnownFinding, error) {
	b, err := os.ReadFile(filepath.Join(verifDir(), "known_findings.json"))
	if err != nil {
		if os.IsNotExist(err) {
			return nil, nil
		}
		return nil, err
	}
	var out struct {
		Findings []KnownFinding `json:"findings"`
	}
	if err := json.Unmarshal(b, &out); err != nil {
		return nil, err
	}
	return out.Findings, nil
}

// ---------------------------------------------------------------------------
// evidence + report

type Evidence struct {
	PropertyID  string         `json:"property_id"`
	Tier        string         `json:"tier"`
	Seed        int            `json:"seed"`
	Level       string         `json:"level"`
	Coverage    map[string]any `json:"coverage"`
	Assumptions []string       `json:"assumptions"`
	WallS       float64        `json:"wall_s"`
	Violations  int            `json:"violations"`
}

type Outcome struct {
	Prop       string
	Tier       string
	Runs       []*Run
	Spec       *PropSpec
	Fatal      []string // analysis failures (load errors, panics, unresolved anchors)
	Controls   []ControlResult
	CrossRefs  []string
	Start      time.Time
	violations []*Obligation
	known      []string
}

type ControlResult struct {
	Name   string `json:"name"`
	Rule   string `json:"rule"`
	Result string `json:"result"` // fired | missed | skipped
	Detail string `json:"detail,omitempty"`
}

// finish reconciles obligations with the known-findings file, writes the
// evidence and the report, prints the verdict lines and returns the exit code.
func (oc *Outcome) finish() int {
	kfs, kfErr := loadKnownFindings()
	if kfErr != nil {
		oc.Fatal = append(oc.Fatal, "known_findings.json: "+kfErr.Error())
	}
	known := map[string]KnownFinding{}
	for _, k := range kfs {
		if k.Property == oc.Prop && k.Status == "known" {
			known[k.Rule+"|"+k.Construct] = k
		}
	}

	var all []*Obligation
	for _, r := range oc.Runs {
		all = append(all, r.Obls...)
	}
	printedKnown := map[string]bool{}
	var violations []*Obligation
	var knownObls []*Obligation
	discharged, undecided := 0, 0
	distinct := map[string]bool{}
	for _, o := range all {
		switch o.Status {
		case Discharged:
			discharged++
			if !o.Trivial {
				distinct[o.Key()] = true
			}
		case Violated:
			if k, ok := known[o.Key()]; ok {
				knownObls = append(knownObls, o)
				if !printedKnown[o.Key()] {
					printedKnown[o.Key()] = true
					fmt.Printf("KNOWN-FINDING: property=%s %s %s: %s\n", oc.Prop, o.Rule, o.Construct, k.What)
				}
				distinct[o.Key()] = true
				continue
			}
			violations = append(violations, o)
		case Undecided:
			undecided++
			violations = append(violations, o)
		}
	}
	for _, c := range oc.Controls {
		if c.Result == "missed" {
			oc.Fatal = append(oc.Fatal, fmt.Sprintf("positive control %q did not fire rule %s: %s", c.Name, c.Rule, c.Detail))
		}
	}

	nviol := len(violations) + len(oc.Fatal)
	wall := time.Since(oc.Start).Seconds()

	// samples: a few obligations written out in full
	var samples []any
	seenRule := map[string]int{}
	for _, o := range all {
		if seenRule[o.Rule] >= 2 || len(samples) >= 24 {
			continue
		}
		seenRule[o.Rule]++
		samples = append(samples, o)
	}
	counts := map[string]int{}
	var configs []string
	var notes []string
	for _, r := range oc.Runs {
		configs = append(configs, r.P.Config.Name)
		for k, v := range r.Counts {
			if r.P.Config.Name == defaultConfig.Name {
				counts[k] += v
			}
		}
		notes = append(notes, r.Notes...)
	}
	ruleCounts := map[string]int{}
	for _, o := range all {
		ruleCounts[o.Rule]++
	}
	spec := oc.Spec
	cov := map[string]any{
		"explanation":         spec.Explanation,
		"decided_clauses":     spec.Decided,
		"not_decided":         spec.NotDecided,
		"obligations":         len(all),
		"discharged":          discharged + len(knownObls),
		"undecided":           undecided,
		"known_findings":      len(knownObls),
		"evaluations":         len(all),
		"distinct_nontrivial": len(distinct),
		"rule":                "one obligation per (rule, named construct) instance found in /repo's current source; distinct_nontrivial counts distinct rule+construct keys whose discharge needed an argument over code (not 'no instance')",
		"samples":             samples,
		"rules":               ruleCounts,
		"analysed":            counts,
		"build_configs":       configs,
		"checker_cmd":         fmt.Sprintf("./bin/verifcheck %s --tier %s", oc.Prop, oc.Tier),
		"trusted_base":        trustedBase,
		"exhaustive":          true,
		"notes":               notes,
	}
	if len(oc.Controls) > 0 {
		cov["positive_controls"] = oc.Controls
	}
	if len(oc.CrossRefs) > 0 {
		cov["cross_references"] = oc.CrossRefs
	}
	if len(oc.Fatal) > 0 {
		cov["analysis_failures"] = oc.Fatal
	}
	seed := 0
	fmt.Sscanf(os.Getenv("VERIF_SEED"), "%d", &seed)
	ev := Evidence{
		PropertyID:  oc.Prop,
		Tier:        oc.Tier,
		Seed:        seed,
		Level:       "other",
		Coverage:    cov,
		Assumptions: append(append([]string{}, commonAssumptions...), spec.Assumptions...),
		WallS:       wall,
		Violations:  nviol,
	}
	evDir := filepath.Join(verifDir(), "evidence")
	_ = os.MkdirAll(evDir, 0o755)
	writeJSON(filepath.Join(evDir, oc.Prop+".json"), ev)

	// report (replay path)
	repDir := filepath.Join(verifDir(), "reports")
	_ = os.MkdirAll(repDir, 0o755)
	repPath := filepath.Join(repDir, oc.Prop+".json")
	rep := map[string]any{
		"property":          oc.Prop,
		"tier":              oc.Tier,
		"violations":        violations,
		"known_findings":    knownObls,
		"analysis_failures": oc.Fatal,
		"all_obligations":   all,
	}
	writeJSON(repPath, rep)

	// human summary
	fmt.Printf("%s tier=%s configs=%d obligations=%d discharged=%d known=%d violated/undecided=%d fatal=%d wall=%.1fs\n",
		oc.Prop, oc.Tier, len(oc.Runs), len(all), discharged, len(knownObls), len(violations), len(oc.Fatal), wall)
	if nviol == 0 {
		return 0
	}
	sort.SliceStable(violations, func(i, j int) bool { return violations[i].Key() < violations[j].Key() })
	for _, f := range oc.Fatal {
		fmt.Printf("  ANALYSIS-FAILURE: %s\n", f)
	}
	for _, o := range violations {
		fmt.Printf("  %s %s [%s] at %s: %s (claim: %s)\n", strings.ToUpper(string(o.Status)), o.Rule, o.Construct, o.Pos, o.Detail, o.Claim)
		for _, p := range o.Path {
			fmt.Printf("      %s\n", p)
		}
	}
	fmt.Printf("VIOLATION property=%s replay=%s\n", oc.Prop, repPath)
	return 1
}

func writeJSON(path string, v any) {
	b, err := json.MarshalIndent(v, "", " ")
	if err != nil {
		fmt.Fprintf(os.Stderr, "marshal %s: %v\n", path, err)
		return
	}
	if err := os.WriteFile(path, append(b, '\n'), 0o644); err != nil {
		fmt.Fprintf(os.Stderr, "write %s: %v\n", path, err)
	}
}

var trustedBase = []string{
	"Go type checker (go/types) and go/ssa of golang.org/x/tools v0.29.0",
	"documented contracts of the Go standard library and of third-party packages named under not_decided",
	"the specification tables compiled into the checker (LogQL surface syntax, stage classes, operator meaning, docker stdcopy constants read from the module cache)",
	"hand arguments of DESIGN.md Appendix A (precedence climbing, KeyToLabel induction)",
}

var commonAssumptions = []string{
	"static analysis only: no code under /repo is executed; each rule decides a structural necessary condition of the property for all inputs, not the behaviour as a whole",
	"field-based heap abstraction; dynamic calls resolved by type information (method sets) or the VTA call graph",
	"VERIF_SEED is recorded but unused: nothing is sampled",
}
