package main

func init() {
	register(&PropSpec{
		ID:          "C17",
		Technique:   "panic inventory over first-party evaluation code (explicit panics shown dead by exhaustiveness / constant-table arguments, unchecked assertions justified by the heap protocol, constant regexps, guarded indexes, non-zero divisors) plus error-propagation rules on builders and parser",
		Explanation: "PARTIAL by design: decides that the listed panic sources cannot fire for any input – explicit panics are dead, type switches are exhaustive or erroring, unchecked assertions follow from container/heap usage, MustCompile patterns compile, the palette/first/last/quantile/heap indexes are guarded, integer divisors are non-zero, builders test every callee error and never return (nil, nil), nested JSON elements are used only when present – and that user-input mistakes in the parser and builders reach failure exits. It does NOT decide termination or general index safety.",
		Decided: []string{
			"PF-PROGRESS scanner loops: with the scanner at EOF no loop goes round again; PF-BOUNDS: index/slice bounds derived from search results are used only under a test of the value",
			"PF-PROGRESS: every way round every loop of the evaluation, parsing and rendering code changes a loop-carried variable or has an observable effect (necessary for termination)",
			"PF-PANIC: buildLabelPredicate's default arm unreachable (all implementers have a case); every sprig function name requested by tmplFunctions exists in sprig's genericMap literal",
			"PF-ASSERT: unchecked assertions only in container/heap adapters whose Push sites all push the asserted type",
			"PF-REGEXP / PF-DIV: MustCompile on compiling constants; integer divisors constant non-zero or len of a non-empty literal",
			"FE-MODIDX / FE-NONEMPTY: palette index; first/last; quantile guarded by len != 0, q >= 0, q <= 1; heap.Min under a full heap",
			"CH-EXH: buildStage, buildLabelPredicate, logqlmetric.build, evalExpr cover every implementer or return an error",
			"ERR-CHECKED / ERR-PROP / ERR-NILNIL: every builder tests each callee's own error, propagates it, never returns (nil, nil); parser functions propagate errors; PV-OKUSE: parseValue's nested elements",
			"LP-ERRPATH: stage failures become __error__ labels with the line kept",
			"PF-ALLOC: sizes of make([]T, ..) derive from len/cap of existing data, never from a query parameter",
			"PF-NILCLOSE; ERR-PROP of the open chain (a swallowed failure leaves a nil reader that is dereferenced later)",
			"the distinct rule (the stage works on allocated state)",
			"PF-NIL pcommon.Map methods on Attrs.AsMap() results only under m != pcommon.Map{}",
			"PV-PAIR binOpIterator.Next combines only matched pairs",
			"label_format rename is guarded by the presence of the source; literalBinOpIterator.Next structure",
			"PV-ONCE step transformers read one inner step per outer step (no loop that can spin on an unbounded grid)",
			"PF-IDX constant indices in the Docker backend are guarded",
			"PV-GUARD every matching field of the modifier is tested by BinOp; PF-IDX constant indices in the engine and parser are guarded",
			"labels are cleared (the map stays usable) before each record",
			"PF-NIL errors.As targets are addresses",
			"FE-SIGN/PV-CONST (ruleTimeParams) the default step is floored at one second",
		},
		NotDecided: []string{
			"termination of loops (lexer scanners, IPLineFilter, stepper – the last relies on C16's positivity for CLI callers)",
			"index expressions other than the idioms above (about 140 bounds checks are left unproven by the compiler in first-party code; a relational numeric domain is not built)",
			"panics inside third-party libraries (text/template recovers template-function panics; jx, regexp, logfmt are trusted)",
			"stack depth on deeply nested queries; memory",
		},
		Rules: func(r *Run) {
			ruleCallDerivedBounds(r, []string{enginePkg, metricPkg, dockerlogPkg, "internal/iterators", "internal/logql/logqlengine/jsonexpr", "internal/logql/logqlengine/logqlpattern", logqlPkg, lexerPkg, "internal/lexerql", "internal/otelstorage", cmdPkg})
			ruleScannerLoopsStopAtEOF(r, []string{"internal/lexerql", lexerPkg, "internal/logql/logqlengine/jsonexpr", "internal/logql/logqlengine/logqlpattern"}, 4)
			ruleLoopProgress(r, []string{enginePkg, metricPkg, dockerlogPkg, "internal/iterators", "internal/logql/logqlengine/jsonexpr", "internal/logql/logqlengine/logqlpattern", logqlPkg, lexerPkg, "internal/lexerql", "internal/otelstorage", cmdPkg}, 60)
			rulePanicInventory(r)
			ruleTypeSwitchExhaustive(r, enginePkg, "", "buildStage", logqlPkg, "PipelineStage", 13, false)
			ruleTypeSwitchExhaustive(r, enginePkg, "", "buildLabelPredicate", logqlPkg, "LabelPredicate", 7, false)
			ruleTypeSwitchExhaustive(r, metricPkg, "", "build", logqlPkg, "Expr", 8, false)
			ruleTypeSwitchExhaustive(r, enginePkg, "*Engine", "evalExpr", logqlPkg, "Expr", 8, false)
			ruleBuilderErrors(r)
			ruleNilNil(r, []string{enginePkg, metricPkg, dockerlogPkg}, map[string]string{})
			ruleParserErrProp(r)
			ruleJSONLeaves(r)
			ruleErrorPathKeepsLine(r, []string{"DurationLabelFilter", "BytesLabelFilter", "NumberLabelFilter", "IPLabelFilter", "JSONExtractor", "LogfmtExtractor", "UnpackExtractor", "LineFormat"})
			ruleFirstLastGuards(r)
			ruleRenderIndex(r)
			rulePFAlloc(r, []string{enginePkg, metricPkg, dockerlogPkg, logqlPkg, lexerPkg, itersPkg, "internal/logql/logqlengine/jsonexpr", "internal/logql/logqlengine/logqlpattern", "internal/otelstorage"}, 5)
			ruleErrChainC14(r) // a failure that is swallowed leaves a nil reader behind that the merge dereferences
			rulePFDeferNil(r, []string{enginePkg, metricPkg, dockerlogPkg, cmdPkg})
			ruleDistinct(r) // the stage works on its own, allocated state
			ruleAttrMapZeroGuard(r)
			ruleBinOpPairsMatched(r)    // an unmatched series is never combined with a zero sample (nil label set)
			ruleLabelFormatDirection(r) // a rename never stores a value it did not find
			ruleLiteralBinOpWritesBack(r)
			ruleOneInnerStepPerStep(r)
			ruleConstIndexGuarded(r, []string{dockerlogPkg}, 2)
			ruleModifierGuardComplete(r)
			ruleConstIndexGuarded(r, []string{enginePkg, logqlPkg}, 6)
			ruleSetClearedPerRecord(r)
			ruleErrorsAsTargets(r, []string{enginePkg, metricPkg, dockerlogPkg, cmdPkg, logqlPkg})
			ruleTimeParams(r) // the default step is at least one second: the grid of a step-less query terminates
		},
	})
}

// ruleFirstLastGuards / ruleRenderIndex reuse the C09 / C15 index rules.
func ruleFirstLastGuards(r *Run) {
	sub := newRun(r.Prop, r.P)
	ruleRangeDetails(sub)
	for _, o := range sub.Obls {
		if o.Rule == "FE-NONEMPTY" {
			r.Obls = append(r.Obls, o)
		}
	}
}

func ruleRenderIndex(r *Run) {
	sub := newRun(r.Prop, r.P)
	ruleRender(sub)
	for _, o := range sub.Obls {
		if o.Rule == "FE-MODIDX" || o.Construct == "main.colors table" {
			r.Obls = append(r.Obls, o)
		}
	}
}
