package main

import (
	"go/constant"
	"go/token"
	"go/types"
	"strings"

	"golang.org/x/tools/go/ssa"
)

// stripConv removes value-preserving wrappers.
func stripConv(v ssa.Value) ssa.Value {
	for {
		switch x := v.(type) {
		case *ssa.ChangeType:
			v = x.X
		case *ssa.Convert:
			v = x.X
		case *ssa.MakeInterface:
			v = x.X
		case *ssa.ChangeInterface:
			v = x.X
		default:
			return v
		}
	}
}

// stripTypeOnly removes wrappers that do not change representation (no Convert).
func stripTypeOnly(v ssa.Value) ssa.Value {
	for {
		switch x := v.(type) {
		case *ssa.ChangeType:
			v = x.X
		case *ssa.MakeInterface:
			v = x.X
		case *ssa.ChangeInterface:
			v = x.X
		default:
			return v
		}
	}
}

func constOf(v ssa.Value) (constant.Value, bool) {
	if c, ok := stripTypeOnly(v).(*ssa.Const); ok && c.Value != nil {
		return c.Value, true
	}
	if c, ok := v.(*ssa.Convert); ok {
		if cc, ok := c.X.(*ssa.Const); ok && cc.Value != nil {
			return cc.Value, true
		}
	}
	return nil, false
}

func isConstBool(v ssa.Value, want bool) bool {
	c, ok := constOf(v)
	return ok && c.Kind() == constant.Bool && constant.BoolVal(c) == want
}

func constStr(v ssa.Value) (string, bool) {
	c, ok := constOf(v)
	if !ok || c.Kind() != constant.String {
		return "", false
	}
	return constant.StringVal(c), true
}

func constInt(v ssa.Value) (int64, bool) {
	c, ok := constOf(v)
	if !ok || c.Kind() != constant.Int {
		return 0, false
	}
	i, exact := constant.Int64Val(c)
	return i, exact
}

func isNilConst(v ssa.Value) bool {
	c, ok := stripTypeOnly(v).(*ssa.Const)
	return ok && c.Value == nil
}

// staticCallee returns the statically known callee of a call instruction
// (functions, methods with static receivers, immediately-applied closures).
func staticCallee(c ssa.CallInstruction) *ssa.Function {
	if f := c.Common().StaticCallee(); f != nil {
		return f
	}
	return localFuncCallee(c)
}

// localFuncCallee: a call through a local function variable that is assigned exactly once, with
// a function literal (`helper := func(...) {...}` called directly or from sibling closures that
// capture it): the literal is the callee.
func localFuncCallee(c ssa.CallInstruction) *ssa.Function {
	cc := c.Common()
	if cc.IsInvoke() {
		return nil
	}
	lu, ok := cc.Value.(*ssa.UnOp)
	if !ok || lu.Op != token.MUL {
		return nil
	}
	var cell ssa.Value = lu.X
	if fv, ok := cell.(*ssa.FreeVar); ok {
		b := freeVarBinding(fv)
		if b == nil {
			return nil
		}
		cell = b
	}
	al, ok := cell.(*ssa.Alloc)
	if !ok {
		return nil
	}
	sts := storesTo(al)
	if len(sts) != 1 {
		return nil
	}
	mc, ok := sts[0].Val.(*ssa.MakeClosure)
	if !ok {
		if f, ok := sts[0].Val.(*ssa.Function); ok {
			return f
		}
		return nil
	}
	f, _ := mc.Fn.(*ssa.Function)
	return f
}

// calleeName renders the callee of a call as "pkgpath.Func", "(pkgpath.T).M"
// or "invoke I.M"; used for matching against tables and for reports.
func calleeName(c ssa.CallInstruction) string {
	cc := c.Common()
	if cc.IsInvoke() {
		return "invoke " + strings.ReplaceAll(types.TypeString(cc.Value.Type(), nil), modPath+"/", "") + "." + cc.Method.Name()
	}
	if fn := cc.StaticCallee(); fn != nil {
		return shortFuncName(fn)
	}
	if b, ok := cc.Value.(*ssa.Builtin); ok {
		return "builtin " + b.Name()
	}
	return "dynamic " + cc.Value.Name()
}

// funcName is the fully-qualified name of a function with instantiation
// arguments removed ("pkg.F", "(*pkg.T).M", "pkg.F$1").
func funcName(fn *ssa.Function) string {
	if fn == nil {
		return "<nil>"
	}
	if o := fn.Origin(); o != nil {
		fn = o
	}
	s := fn.String()
	// a function renamed since the baseline keeps its baseline name in keys and reports
	root := fn
	for root.Parent() != nil {
		root = root.Parent()
	}
	if obj := root.Object(); obj != nil {
		if old, ok := renamedObj[obj]; ok {
			if i := strings.LastIndex(s, "."+root.Name()); i >= 0 {
				s = s[:i] + "." + old + s[i+1+len(root.Name()):]
			}
		}
	}
	return s
}

// shortFuncName strips the module path prefix.
func shortFuncName(fn *ssa.Function) string {
	return strings.ReplaceAll(funcName(fn), modPath+"/", "")
}

// isFuncNamed reports whether fn (or its generic origin) is pkgPath.name
// where name is "F" or "(T).M"/"(*T).M" relative to the package.
func isFunc(fn *ssa.Function, pkgPath, name string) bool {
	if fn == nil {
		return false
	}
	if o := fn.Origin(); o != nil {
		fn = o
	}
	obj := fn.Object()
	if obj == nil || obj.Pkg() == nil || obj.Pkg().Path() != pkgPath {
		return false
	}
	sig, _ := obj.Type().(*types.Signature)
	if sig != nil && sig.Recv() != nil {
		rt := sig.Recv().Type()
		ptr := ""
		if p, ok := rt.(*types.Pointer); ok {
			rt = p.Elem()
			ptr = "*"
		}
		tn := ""
		if n, ok := types.Unalias(rt).(*types.Named); ok {
			tn = n.Obj().Name()
		}
		on := canonName(obj)
		full := "(" + ptr + tn + ")." + on
		alt := "(" + tn + ")." + on
		return name == full || name == alt || name == tn+"."+on
	}
	return canonName(obj) == name
}

// callIs reports whether the call statically resolves to pkgPath.name.
func callIs(c ssa.CallInstruction, pkgPath, name string) bool {
	return isFunc(staticCallee(c), pkgPath, name)
}

// invokeIs reports whether c is an interface (or type-parameter) method call
// of the given method name.
func invokeIs(c ssa.CallInstruction, method string) bool {
	cc := c.Common()
	return cc.IsInvoke() && cc.Method.Name() == method
}

// methodCallNamed reports whether c calls a method with the given name,
// either by invoke or statically; returns the receiver value.
func methodCallNamed(c ssa.CallInstruction, method string) (recv ssa.Value, ok bool) {
	cc := c.Common()
	if cc.IsInvoke() {
		if cc.Method.Name() == method {
			return cc.Value, true
		}
		return nil, false
	}
	fn := cc.StaticCallee()
	if fn == nil || fn.Signature.Recv() == nil {
		return nil, false
	}
	n := fn.Name()
	if o := fn.Origin(); o != nil {
		n = o.Name()
		fn = o
	}
	if fn.Object() != nil {
		n = canonName(fn.Object())
	}
	if n == method && len(cc.Args) > 0 {
		return cc.Args[0], true
	}
	return nil, false
}

// callArgs returns the non-receiver arguments of a call.
func callArgs(c ssa.CallInstruction) []ssa.Value {
	cc := c.Common()
	if cc.IsInvoke() {
		return cc.Args
	}
	if fn := cc.StaticCallee(); fn != nil && fn.Signature.Recv() != nil && len(cc.Args) > 0 {
		return cc.Args[1:]
	}
	return cc.Args
}

// allInstrs iterates over every instruction of fn.
func allInstrs(fn *ssa.Function, f func(ssa.Instruction)) {
	for _, b := range fn.Blocks {
		for _, in := range b.Instrs {
			f(in)
		}
	}
}

// callsIn lists the call instructions (call, defer, go) of fn.
func callsIn(fn *ssa.Function) []ssa.CallInstruction {
	var out []ssa.CallInstruction
	allInstrs(fn, func(in ssa.Instruction) {
		if c, ok := in.(ssa.CallInstruction); ok {
			out = append(out, c)
		}
	})
	return out
}

func returnsOf(fn *ssa.Function) []*ssa.Return {
	var out []*ssa.Return
	for _, b := range fn.Blocks {
		if len(b.Instrs) == 0 {
			continue
		}
		if r, ok := b.Instrs[len(b.Instrs)-1].(*ssa.Return); ok {
			out = append(out, r)
		}
	}
	return out
}

// storesTo lists the stores whose address is exactly addr.
func storesTo(addr ssa.Value) []*ssa.Store {
	var out []*ssa.Store
	refs := addr.Referrers()
	if refs == nil {
		return nil
	}
	for _, r := range *refs {
		if s, ok := r.(*ssa.Store); ok && s.Addr == addr {
			out = append(out, s)
		}
	}
	return out
}

// resolveLocalLoad: if v is a load of a local Alloc (e.g. a named result kept
// in memory because the function defers), return the values that may be
// stored in it on the way to `at` (instruction index in block). When a store
// in the same block precedes the load, only the last such store counts;
// otherwise all stores in blocks that can reach the load count, plus the zero
// value if the alloc may be read before any store (reported as nil entry).
func resolveLocalLoad(v ssa.Value) (vals []ssa.Value, isLoad bool) {
	u, ok := v.(*ssa.UnOp)
	if !ok || u.Op != token.MUL {
		return nil, false
	}
	al, ok := u.X.(*ssa.Alloc)
	if !ok {
		return nil, false
	}
	// all referrers must be loads or direct stores, otherwise the alloc escapes.
	for _, r := range *al.Referrers() {
		switch x := r.(type) {
		case *ssa.Store:
			if x.Addr != al {
				return nil, false
			}
		case *ssa.UnOp:
		case *ssa.DebugRef:
		case *ssa.MakeClosure:
			// captured by a closure (deferred func reading named result): stores
			// inside the closure are not tracked here – treat as escaping only
			// if the closure stores to it.
			if closureStoresTo(x, al) {
				return nil, false
			}
		default:
			return nil, false
		}
	}
	blk := u.Block()
	// last store in the same block before the load
	idx := instrIndex(u)
	var last *ssa.Store
	for i := 0; i < idx; i++ {
		if s, ok := blk.Instrs[i].(*ssa.Store); ok && s.Addr == al {
			last = s
		}
	}
	if last != nil {
		return []ssa.Value{last.Val}, true
	}
	// otherwise: reaching stores along all paths (block-level, per path last store)
	vals, _ = reachingStores(al, blk, map[*ssa.BasicBlock]bool{})
	return vals, true
}

func closureStoresTo(mc *ssa.MakeClosure, al *ssa.Alloc) bool {
	fn, ok := mc.Fn.(*ssa.Function)
	if !ok {
		return true
	}
	for i, b := range mc.Bindings {
		if b != al {
			continue
		}
		fv := fn.FreeVars[i]
		for _, r := range *fv.Referrers() {
			switch x := r.(type) {
			case *ssa.Store:
				if x.Addr == fv {
					return true
				}
			case *ssa.UnOp, *ssa.DebugRef:
			default:
				return true
			}
		}
	}
	return false
}

// reachingStores collects, walking predecessors from blk (exclusive), the last
// store to al on each backward path. zero is true if some path reaches the
// entry without a store.
func reachingStores(al *ssa.Alloc, blk *ssa.BasicBlock, seen map[*ssa.BasicBlock]bool) (vals []ssa.Value, zero bool) {
	for _, p := range blk.Preds {
		if seen[p] {
			continue
		}
		seen[p] = true
		var last *ssa.Store
		for _, in := range p.Instrs {
			if s, ok := in.(*ssa.Store); ok && s.Addr == al {
				last = s
			}
		}
		if last != nil {
			vals = append(vals, last.Val)
			continue
		}
		if al.Block() == p {
			zero = true
			continue
		}
		v2, z2 := reachingStores(al, p, seen)
		vals = append(vals, v2...)
		zero = zero || z2
	}
	if len(blk.Preds) == 0 {
		zero = true
	}
	return vals, zero
}

func instrIndex(in ssa.Instruction) int {
	for i, x := range in.Block().Instrs {
		if x == in {
			return i
		}
	}
	return -1
}

// phiLeaves expands phis (and resolvable local loads) into the set of leaf
// values that may flow to v.
func phiLeaves(v ssa.Value) []ssa.Value {
	var out []ssa.Value
	seen := map[ssa.Value]bool{}
	var walk func(v ssa.Value)
	walk = func(v ssa.Value) {
		if seen[v] {
			return
		}
		seen[v] = true
		switch x := v.(type) {
		case *ssa.Phi:
			for _, e := range x.Edges {
				walk(e)
			}
			return
		case *ssa.UnOp:
			if vals, ok := resolveLocalLoad(x); ok && len(vals) > 0 {
				for _, e := range vals {
					walk(e)
				}
				return
			}
		}
		out = append(out, v)
	}
	walk(v)
	return out
}

// ---------------------------------------------------------------------------
// control-flow facts

type condFact struct {
	Cond  ssa.Value
	Truth bool
}

// edgeFact returns the branch fact established on the edge pred->succ.
func edgeFact(pred, succ *ssa.BasicBlock) (condFact, bool) {
	if len(pred.Instrs) == 0 {
		return condFact{}, false
	}
	ifi, ok := pred.Instrs[len(pred.Instrs)-1].(*ssa.If)
	if !ok {
		return condFact{}, false
	}
	if pred.Succs[0] == succ && pred.Succs[1] != succ {
		return condFact{ifi.Cond, true}, true
	}
	if pred.Succs[1] == succ && pred.Succs[0] != succ {
		return condFact{ifi.Cond, false}, true
	}
	return condFact{}, false
}

// dominatingFacts lists branch facts that hold whenever control is in blk:
// for each dominator D ending in If, if exactly one successor S of D
// dominates blk (or is blk) and S's only predecessor is D.
func dominatingFacts(blk *ssa.BasicBlock) []condFact {
	var out []condFact
	for d := blk.Idom(); d != nil; d = d.Idom() {
		out = append(out, factsFromDom(d, blk)...)
	}
	return out
}

func factsFromDom(d, blk *ssa.BasicBlock) []condFact {
	if len(d.Instrs) == 0 {
		return nil
	}
	ifi, ok := d.Instrs[len(d.Instrs)-1].(*ssa.If)
	if !ok {
		return nil
	}
	t, f := d.Succs[0], d.Succs[1]
	if t == f {
		return nil
	}
	td := len(t.Preds) == 1 && (t == blk || t.Dominates(blk))
	fd := len(f.Preds) == 1 && (f == blk || f.Dominates(blk))
	switch {
	case td && !fd:
		return []condFact{{ifi.Cond, true}}
	case fd && !td:
		return []condFact{{ifi.Cond, false}}
	}
	return nil
}

// factsAt returns dominating facts for blk plus, if blk has a single
// predecessor, that edge's fact (already included by dominance) – and expands
// negations and &&/|| short-circuit structure implicitly present in the CFG.
func factsAt(blk *ssa.BasicBlock) []condFact {
	facts := dominatingFacts(blk)
	var out []condFact
	for _, f := range facts {
		out = append(out, normFact(f))
	}
	return out
}

// normFact strips boolean negations: !(x) true == x false.
func normFact(f condFact) condFact {
	for {
		u, ok := f.Cond.(*ssa.UnOp)
		if !ok || u.Op != token.NOT {
			return f
		}
		f = condFact{u.X, !f.Truth}
	}
}

// blockReaches reports whether `to` is reachable from `from` (from==to counts).
func blockReaches(from, to *ssa.BasicBlock) bool {
	seen := map[*ssa.BasicBlock]bool{}
	var dfs func(b *ssa.BasicBlock) bool
	dfs = func(b *ssa.BasicBlock) bool {
		if b == to {
			return true
		}
		if seen[b] {
			return false
		}
		seen[b] = true
		for _, s := range b.Succs {
			if dfs(s) {
				return true
			}
		}
		return false
	}
	return dfs(from)
}

// instrDominates: a executes before b on every path to b.
func instrDominates(a, b ssa.Instruction) bool {
	ab, bb := a.Block(), b.Block()
	if ab == bb {
		return instrIndex(a) < instrIndex(b)
	}
	return ab.Dominates(bb)
}

// isErrorType reports whether t is the predeclared error interface.
func isErrorType(t types.Type) bool {
	return types.Identical(t, types.Universe.Lookup("error").Type())
}

// nilCheck decodes `x == nil` / `x != nil` conditions: returns the tested
// value and whether the condition is true when x is non-nil.
func nilCheck(cond ssa.Value) (x ssa.Value, trueWhenNonNil bool, ok bool) {
	b, isBin := cond.(*ssa.BinOp)
	if !isBin || (b.Op != token.EQL && b.Op != token.NEQ) {
		return nil, false, false
	}
	switch {
	case isNilConst(b.Y):
		x = b.X
	case isNilConst(b.X):
		x = b.Y
	default:
		return nil, false, false
	}
	return x, b.Op == token.NEQ, true
}

// extractOf: if v is Extract #i of a call, return the call and index.
func extractOf(v ssa.Value) (*ssa.Call, int, bool) {
	e, ok := v.(*ssa.Extract)
	if !ok {
		return nil, 0, false
	}
	c, ok := e.Tuple.(*ssa.Call)
	if !ok {
		return nil, 0, false
	}
	return c, e.Index, true
}

// namedOf returns the named type behind pointers/aliases.
func namedOf(t types.Type) *types.Named {
	t = types.Unalias(t)
	if p, ok := t.(*types.Pointer); ok {
		t = types.Unalias(p.Elem())
	}
	n, _ := t.(*types.Named)
	return n
}

func typeNameOf(t types.Type) string {
	if n := namedOf(t); n != nil {
		return n.Obj().Name()
	}
	return types.TypeString(t, nil)
}

// fieldName returns the name of the field selected by a FieldAddr/Field.
func fieldNameOf(v ssa.Value) (string, ssa.Value, bool) {
	switch x := v.(type) {
	case *ssa.FieldAddr:
		st := derefStruct(x.X.Type())
		if st == nil {
			return "", nil, false
		}
		return canonName(st.Field(x.Field)), x.X, true
	case *ssa.Field:
		st, _ := x.X.Type().Underlying().(*types.Struct)
		if st == nil {
			return "", nil, false
		}
		return canonName(st.Field(x.Field)), x.X, true
	}
	return "", nil, false
}

func derefStruct(t types.Type) *types.Struct {
	if p, ok := t.Underlying().(*types.Pointer); ok {
		t = p.Elem()
	}
	st, _ := t.Underlying().(*types.Struct)
	return st
}

// loadOfField: v == *(&x.f) or x.f : returns field name and base.
func loadOfField(v ssa.Value) (string, ssa.Value, bool) {
	v = stripTypeOnly(v)
	if u, ok := v.(*ssa.UnOp); ok && u.Op == token.MUL {
		return fieldNameOf(u.X)
	}
	return fieldNameOf(v)
}

// termPos: a usable source position for the end of a block (terminators
// often carry none): the last instruction in the block that has one.
func termPos(b *ssa.BasicBlock) token.Pos {
	for i := len(b.Instrs) - 1; i >= 0; i-- {
		if p := b.Instrs[i].Pos(); p.IsValid() {
			return p
		}
		if v, ok := b.Instrs[i].(ssa.Value); ok {
			_ = v
		}
	}
	for _, p := range b.Preds {
		for i := len(p.Instrs) - 1; i >= 0; i-- {
			if pp := p.Instrs[i].Pos(); pp.IsValid() {
				return pp
			}
		}
	}
	return token.NoPos
}

func (t token_) tok() token.Token {
	if t == tokLSS {
		return token.LSS
	}
	return token.GTR
}

func tokADD() token.Token { return token.ADD }

// funcGroup: fn, its function literals, and the same-package functions it
// statically calls (two levels), with their literals – the code a maintainer
// may have split one function into.
func funcGroup(fn *ssa.Function) []*ssa.Function {
	seen := map[*ssa.Function]bool{}
	var out []*ssa.Function
	var add func(f *ssa.Function, depth int)
	add = func(f *ssa.Function, depth int) {
		if f == nil || seen[f] || f.Blocks == nil {
			return
		}
		seen[f] = true
		out = append(out, f)
		for _, a := range f.AnonFuncs {
			add(a, depth)
		}
		if depth >= 2 {
			return
		}
		for _, c := range callsIn(f) {
			callee := staticCallee(c)
			if callee == nil {
				continue
			}
			pk, rp := pkgOfFunc(callee), pkgOfFunc(fn)
			if pk != nil && pk == rp {
				add(callee, depth+1)
			}
		}
	}
	add(fn, 0)
	return out
}

// pkgOfFunc: the package a function belongs to; for a function literal its enclosing
// function's, for an instantiation its origin's, for a synthetic wrapper (bound method
// closure, thunk) that of the function it wraps.
func pkgOfFunc(fn *ssa.Function) *ssa.Package {
	for d := 0; d < 6 && fn != nil; d++ {
		if fn.Pkg != nil {
			return fn.Pkg
		}
		if fn.Parent() != nil {
			fn = fn.Parent()
			continue
		}
		if fn.Origin() != nil {
			fn = fn.Origin()
			continue
		}
		if fn.Synthetic != "" && fn.Blocks != nil {
			var next *ssa.Function
			for _, c := range callsIn(fn) {
				if callee := staticCallee(c); callee != nil && next == nil {
					next = callee
				}
			}
			fn = next
			continue
		}
		return nil
	}
	return nil
}

// originValue resolves a value to where it was introduced, independent of local
// names: loads of single-store local cells are looked through (spilled
// parameters, `x := y`), and a free variable of a closure is resolved to the
// value (or the content of the cell) it was bound to in the enclosing function.
// The result is typically a *ssa.Parameter of an enclosing function, a call, or
// an Alloc that is written more than once.
func originValue(v ssa.Value) ssa.Value {
	for d := 0; d < 16 && v != nil; d++ {
		switch x := v.(type) {
		case *ssa.UnOp:
			if x.Op != token.MUL {
				return v
			}
			switch x.X.(type) {
			case *ssa.Alloc, *ssa.FreeVar:
				return originCell(x.X, 0)
			}
			return v
		case *ssa.ChangeType:
			v = x.X
		default:
			return v
		}
	}
	return v
}

// originCell: the origin of the content of a local variable given by its address.
func originCell(addr ssa.Value, depth int) ssa.Value {
	if depth > 8 {
		return addr
	}
	switch a := addr.(type) {
	case *ssa.Alloc:
		st := storesTo(a)
		if len(st) != 1 {
			return a
		}
		return originValue(st[0].Val)
	case *ssa.FreeVar:
		if b := freeVarBinding(a); b != nil {
			return originCell(b, depth+1)
		}
	}
	return addr
}

// freeVarBinding: the value a closure's free variable is bound to at the (single) MakeClosure site.
func freeVarBinding(fv *ssa.FreeVar) ssa.Value {
	fn := fv.Parent()
	if fn == nil || fn.Parent() == nil {
		return nil
	}
	idx := -1
	for i, f := range fn.FreeVars {
		if f == fv {
			idx = i
		}
	}
	if idx < 0 {
		return nil
	}
	var bound ssa.Value
	n := 0
	allInstrs(fn.Parent(), func(in ssa.Instruction) {
		if mc, ok := in.(*ssa.MakeClosure); ok && mc.Fn == ssa.Value(fn) && idx < len(mc.Bindings) {
			bound = mc.Bindings[idx]
			n++
		}
	})
	if n != 1 {
		return nil
	}
	return bound
}

// originValueIn is originValue that also looks through parameters of helper
// functions of a function group: a helper's parameter is resolved to the
// argument all its call sites within the group agree on.
func originValueIn(v ssa.Value, group []*ssa.Function) ssa.Value {
	for d := 0; d < 6; d++ {
		v = originValue(v)
		prm, ok := v.(*ssa.Parameter)
		if !ok || prm.Parent() == nil {
			return v
		}
		f := prm.Parent()
		idx := -1
		for i, q := range f.Params {
			if q == prm {
				idx = i
			}
		}
		var arg ssa.Value
		n := 0
		for _, g := range group {
			for _, c := range callsIn(g) {
				if c.Common().StaticCallee() != f || c.Common().IsInvoke() || idx >= len(c.Common().Args) {
					continue
				}
				a := originValue(c.Common().Args[idx])
				if n > 0 && a != arg {
					return v
				}
				arg = a
				n++
			}
		}
		if n == 0 {
			return v
		}
		v = arg
	}
	return v
}

// liftInstr: the instruction of root that stands for `in` when `in` sits in a helper of the
// group: the (single) call site of that helper, transitively. With mustRun, `in` has to
// dominate every return of its helper (it ran whenever the helper completed); without it the
// lifted position only says "in runs no earlier than this call".
func liftInstr(in ssa.Instruction, root *ssa.Function, grp []*ssa.Function, mustRun bool) ssa.Instruction {
	for d := 0; d < 3 && in != nil && in.Parent() != root; d++ {
		h := in.Parent()
		if mustRun {
			for _, ret := range returnsOf(h) {
				if !instrDominates(in, ret) {
					return nil
				}
			}
		}
		var site ssa.Instruction
		n := 0
		for _, g := range grp {
			for _, c := range callsIn(g) {
				if staticCallee(c) == h {
					site = c
					n++
				}
			}
		}
		if n != 1 {
			return nil
		}
		in = site
	}
	return in
}

// liftChain: in, the call site of its function within the group, the call site of that one, ...
// up to root (see liftInstr for mustRun). The chain stops where a step cannot be taken.
func liftChain(in ssa.Instruction, root *ssa.Function, grp []*ssa.Function, mustRun bool) []ssa.Instruction {
	chain := []ssa.Instruction{in}
	for d := 0; d < 4 && in != nil && in.Parent() != root; d++ {
		h := in.Parent()
		if mustRun {
			ok := true
			for _, ret := range returnsOf(h) {
				if !instrDominates(in, ret) {
					ok = false
				}
			}
			if !ok {
				break
			}
		}
		var site ssa.Instruction
		n := 0
		for _, g := range grp {
			for _, c := range callsIn(g) {
				if staticCallee(c) == h {
					site = c
					n++
				}
			}
		}
		if n != 1 {
			break
		}
		in = site
		chain = append(chain, in)
	}
	return chain
}

// runsBefore: a is executed before b on every path that reaches b (a, b possibly in helpers of
// root, at different depths): at the first level where both have a representative in the same
// function, a's dominates b's.
func runsBefore(a, b ssa.Instruction, root *ssa.Function, grp []*ssa.Function) bool {
	if a == nil || b == nil {
		return false
	}
	if a.Parent() == b.Parent() {
		return instrDominates(a, b)
	}
	ca, cb := liftChain(a, root, grp, true), liftChain(b, root, grp, false)
	for _, x := range ca {
		for _, y := range cb {
			if x.Parent() == y.Parent() {
				return x != y && instrDominates(x, y)
			}
		}
	}
	return false
}

// cname: the baseline (rename-independent) base name of a function or method; for an
// instantiation of a generic function the name of its origin.
func cname(fn *ssa.Function) string {
	if fn == nil {
		return ""
	}
	if o := fn.Origin(); o != nil {
		fn = o
	}
	if obj := fn.Object(); obj != nil {
		return canonName(obj)
	}
	return fn.Name()
}
