package main

func init() {
	register(&PropSpec{
		ID:          "C05",
		Technique:   "enum/table chain extraction over SSA feasible paths (token table, token->operator switches, validate truth tables), error-propagation rules in the parser",
		Explanation: "Decides the table-shaped part of parsing for all inputs: every spelling maps to the token that names it, every token->operator/stage/production switch maps as the grammar says, IsFunction is the function-name set, the static rules (validate) accept exactly the documented combinations and gate every successful parse, regex/duplicate/unwrap errors reach failure exits, whitespace look-ahead skips all scanner whitespace.",
		Decided: []string{
			"CH-SIB: parser.parseDuration / parseBytes evaluate a token with a function lexerql.ScanUnit validates with; PV-ONCE: no successful parse of an aggregation consumes two grouping clauses; PF-PROGRESS: scanner loops leave at EOF",
			"PV-SIB: both layouts of a log range reach range -> offset? and pipeline -> unwrap? on every successful path",
			"CH-MAP: lexer.tokens (spelling -> token), TokenType.IsFunction",
			"CH-MAP: parseLabelMatcher, parseLineFilter, parseLabelPredicate (operators and literal-kind admissibility), peekBinOp, parseRangeAggregationExpr, parseVectorAggregationExpr, parseMetricExpr1 routing, parsePipeline stage selection incl. | unwrap, parseLabelsAndMatchers, parseGrouping",
			"CH-MAP: RangeAggregationExpr.validate and VectorAggregationExpr.validate truth tables; PV-ORDER: validate gates every successful parse",
			"ERR-PROP: tokenizer/regex/number/duration errors in the parser reach failure exits; Parse rejects trailing tokens",
			"FE-CLASS: scanSpace skips space, tab, CR, LF",
			"CH-MAP: BinOp.Precedence level order (shared with C13)",
			"CH-MAP: ScanUnit suffix table (bytes vs duration, m is minutes); PV-FIRST: duplicate label_format target / regexp capture rejected; PV-API: strings unquoted once",
			"PV-API: no strconv.Unquote on LogQL source text (backquoted literals keep their carriage returns)",
			"the identifier predicates of C20 (which names are labels); PV-API: the keyword table is consulted with the scanned text itself",
			"PV-ROLE: lexer and parser are configured from the caller's ParseOptions.AllowDots; FE-CLASS: the scanner's identifier-character table; PV-API label regexps are compiled anchored whatever else uses the same text",
			"PV-PAIR regexp stage: a named group is stored under its own submatch index; PV-ORDER comma lists: after a separating comma no successful return is reachable before another element was parsed",
			"PV-ROLE the scanner reads Tokenize's own parameter; PV-FRESH parse methods write no parser field but the integer position",
			"PV-FRESH BinOpExpr.Modifier comes from the modifier parse of the same operator",
			"PV-API string literal values come from strutil.Unquote only; PV-ORDER stage lists are append-only in the parser",
			"PV-WHOLE no parser helper result is dropped by its caller (a consumed token sequence ends up in the tree or is an error)",
		},
		NotDecided: []string{"acceptance of the whole grammar / independence from layout, comments and redundant parentheses beyond the look-ahead rule", "and/or precedence inside label predicates", "numeric literal values, string unquoting (strutil.Unquote), duration/bytes literal values"},
		Rules: func(r *Run) {
			ruleScannerLoopsStopAtEOF(r, []string{"internal/lexerql", lexerPkg, "internal/logql/logqlengine/jsonexpr", "internal/logql/logqlengine/logqlpattern"}, 4)
			ruleTokenTable(r)
			ruleCHParseOps(r)
			ruleCHParseSites2(r)
			ruleCHParseSites3(r)
			ruleValidateTables(r)
			ruleParserErrProp(r)
			rulePrecedenceTable(r)
			ruleScanUnit(r)
			ruleParserUniqueness(r)
			ruleRangeLayouts(r)
			ruleUnitEvaluators(r)
			ruleSingleGrouping(r)
			ruleNoStdUnquote(r)
			ruleIdentPredicates(r) // which names the parser accepts as labels (regexp capture names, label_format targets)
			ruleKeywordLookupExact(r)
			ruleLabelRegexAnchoring(r) // a label regexp is compiled anchored, a line regexp unanchored, whatever else uses the same text
			ruleParserOptionsReachLexer(r)
			ruleScannerIdentRune(r)
			ruleRegexpGroupNumbering(r)
			ruleCommaListElement(r)
			ruleLexerInputVerbatim(r)
			ruleParserStateOnlyPosition(r)
			ruleBinOpModifierFresh(r)
			ruleUnquoteOnly(r)
			ruleParserKeepsStageOrder(r)
			ruleParserResultsUsed(r)
		},
	})
}
