package main

func init() {
	register(&PropSpec{
		ID:          "C09",
		Technique:   "finite-case evaluation of the window/stepper time guards over all orderings, affine symbolic evaluation of window and query bounds (offset/range coefficients), enum-chain extraction of range operations",
		Explanation: "Decides the structural clauses of range aggregation for all sample sets and grids: window admission/eviction tables closed at both ends and agreeing with each other, look-ahead ordering, window = [T-o-r, T-o] stamped T, fetch bounds [start-o-r, end-o] with the grid unshifted, stepper bound, operation -> (sample extractor, aggregator) table, rate divisor, emptiness guards, unlimited sampling.",
		Decided: []string{
			"PV-ONCE: rangeAggIterator.Next advances the grid by exactly one point per call; PV-RESET: a reported step has its samples written",
			"FE-ORD: fillWindow admits iff ws <= ts <= we, buffers iff ts > we; clearWindow retains iff t >= ws; the two agree at the lower edge; stepper stops iff current > end; literal matrix bound",
			"PV-ORDER: eviction before admission; buffered sample re-examined before a new read",
			"AF: window [T-offset-range, T-offset], stamp T; fetch [start-offset-range, end-offset]; grid (start, end, step)",
			"CH-MAP: RangeOp -> extractor and batch aggregator; unwrap conversions agree with the lexer spellings; Rate divides by Range.Seconds()",
			"FE-NONEMPTY: first/last guard emptiness; PV-CONST: metric sampling passes a non-positive limit and the evaluator's bounds",
			"PV-PAIR: each window series is reported as Aggregate(its points) with its label set; empty series deleted",
			"AF selectLogs window; the merge iterator rules of C04 (windows are filled from a time-ordered stream); PV-WRITEBACK: a modified copy of a window series is stored back or deleted on every path",
			"the key list the output loop walks is computed from the window in this step; since/until of openLog (C02); PV-RESET step stamped",
			"FE-BOOL IsInstant; PV-PAIR: a sample carries the label set built for its own entry",
			"FE-CLASS avg: an infinite running average is kept for finite/same-sign values; AF point time: float64(UnixMilli())/1000, conversion before division",
			"PV-NUM sum: Apply is state += v, Result the state",
			"ERR-LOOP ReadStepResponse checks Err() after draining, on the instant path too; PV-NUM no raw sum of squares",
			"LP-PIPE entryIterator.Next: a record that was read reaches the prefilter before the next is read; the record body is a copy of the frame buffer",
			"PV-PURE Aggregate(points) writes nothing into its receiver; eviction runs on every path that reports a step",
			"PV-ROLE batchApplier returns agg.Result(); PV-GUARD range/vector iterators end only on the stepper's / source's verdict",
			"PV-ROLE first/last_over_time report points[0] / points[len-1] (arrival order)",
		},
		NotDecided: []string{"numeric results of the aggregators (Welford, quantile interpolation)", "that the storage delivers samples in time order", "equality instant = range at T beyond the shared code path"},
		Rules: func(r *Run) {
			ruleOneStepPerNext(r)
			ruleStepBuffers(r)
			ruleRangeWindow(r)
			ruleRangeBuild(r)
			ruleStepper(r)
			ruleRangeOps(r)
			ruleRangeDetails(r)
			ruleAggregatorReset(r)
			ruleSelectLogsWindow(r)
			ruleMergeIter(r) // windows are filled from a time-ordered sample stream (fillWindow stops at the first sample after the window)
			ruleMapCopyWriteBack(r, []string{metricPkg, enginePkg}, 2)
			ruleOpenLog(r)        // the lower edge of the first window: since/until as the daemon reads them
			ruleSampleLabelSet(r) // a series in the window keeps the labels of its own samples
			ruleIsInstant(r)
			ruleAvgInfinityGuard(r)
			ruleStepTimestampMillis(r)
			ruleSumAggregatorPlain(r)
			ruleErrLoop(r, []string{enginePkg, metricPkg, itersPkg}) // an instant and a range query over the same broken stream both fail
			ruleNoSumOfSquares(r)
			ruleLPPipe(r) // every record the storage returns for the window reaches the sampler unless a filter rejects it
			ruleDaemonLog(r)
			ruleBatchAggregatorsStateless(r)
			ruleBatchApplierAlwaysAggregates(r)
			ruleIterEndsWithSource(r)
			ruleFirstLastPositional(r)
		},
	})
}
