package main

import (
	"go/constant"
	"go/token"
	"go/types"
	"sort"
	"strings"

	"golang.org/x/tools/go/ssa"
)

// opTracer follows the two operands of a sample operation (left, right) through
// closures, constructor helpers and function-typed parameters, and records the
// Go operators / math calls that are applied to them.
type opTracer struct {
	out   map[string]bool
	seen  map[*ssa.Function]bool
	dyn   func(ssa.Value) *ssa.Function // optional: function values determined by an evaluated path
	inPhi map[*ssa.Phi]bool
}

type opEnv struct {
	side map[ssa.Value]string     // Sample or float64 values -> "L" / "R"
	fns  map[ssa.Value]*opClosure // func-typed params / free vars -> resolved function values
}

type opClosure struct {
	fn  *ssa.Function
	env *opEnv // environment of its free variables
}

func (t *opTracer) sideOf(fn *ssa.Function, v ssa.Value, env *opEnv, depth int) string {
	if depth > 6 || v == nil {
		return ""
	}
	if s, ok := env.side[v]; ok {
		return s
	}
	switch x := v.(type) {
	case *ssa.UnOp:
		if x.Op != token.MUL {
			return ""
		}
		// load of x.Data, or of a local cell holding a Sample/float
		if f, base, ok := fieldNameOf(x.X); ok && f == "Data" {
			return t.sideOfCell(fn, base, env, depth+1)
		}
		return t.sideOfCell(fn, x.X, env, depth+1)
	case *ssa.Field:
		if f, base, ok := fieldNameOf(x); ok && f == "Data" {
			return t.sideOf(fn, base, env, depth+1)
		}
	case *ssa.ChangeType:
		return t.sideOf(fn, x.X, env, depth+1)
	case *ssa.Convert:
		// a numeric conversion of an operand is still that operand (int64(y), float64(n))
		return t.sideOf(fn, x.X, env, depth+1)
	case *ssa.BinOp:
		// a value computed from one operand alone (x*x, n>>1, x*2) belongs to that operand
		a, b := t.sideOf(fn, x.X, env, depth+1), t.sideOf(fn, x.Y, env, depth+1)
		_, ca := x.X.(*ssa.Const)
		_, cb := x.Y.(*ssa.Const)
		switch {
		case a != "" && (a == b || cb):
			return a
		case b != "" && ca:
			return b
		}
	case *ssa.Phi:
		// a loop-carried operand: the side its entries agree on (edges that lead back to the phi
		// itself do not count)
		if t.inPhi == nil {
			t.inPhi = map[*ssa.Phi]bool{}
		}
		if t.inPhi[x] {
			return ""
		}
		t.inPhi[x] = true
		defer delete(t.inPhi, x)
		side := ""
		for _, e := range x.Edges {
			s := t.sideOf(fn, e, env, depth+1)
			if s == "" {
				continue
			}
			if side != "" && side != s {
				return ""
			}
			side = s
		}
		return side
	}
	return ""
}

// sideOfCell: the side of the value first stored into a local cell (result := left).
func (t *opTracer) sideOfCell(fn *ssa.Function, cell ssa.Value, env *opEnv, depth int) string {
	if s, ok := env.side[cell]; ok {
		return s
	}
	if al, ok := cell.(*ssa.Alloc); ok {
		st := storesTo(al)
		if len(st) >= 1 {
			return t.sideOf(fn, st[0].Val, env, depth+1)
		}
	}
	if fa, ok := cell.(*ssa.FieldAddr); ok {
		return t.sideOfCell(fn, fa.X, env, depth+1)
	}
	return ""
}

func (t *opTracer) resolveFn(v ssa.Value, env *opEnv) *opClosure {
	switch x := v.(type) {
	case *ssa.Function:
		return &opClosure{fn: x, env: &opEnv{side: map[ssa.Value]string{}, fns: map[ssa.Value]*opClosure{}}}
	case *ssa.MakeClosure:
		f, _ := x.Fn.(*ssa.Function)
		if f == nil {
			return nil
		}
		ne := &opEnv{side: map[ssa.Value]string{}, fns: map[ssa.Value]*opClosure{}}
		for i, fv := range f.FreeVars {
			if i >= len(x.Bindings) {
				break
			}
			b := x.Bindings[i]
			// captured cells: look through to what was stored
			if al, ok := b.(*ssa.Alloc); ok {
				if st := storesTo(al); len(st) == 1 {
					b = st[0].Val
				}
			}
			if c := t.resolveFn(b, env); c != nil {
				ne.fns[fv] = c
			} else if c, ok := env.fns[b]; ok {
				ne.fns[fv] = c
			}
			if s, ok := env.side[b]; ok {
				ne.side[fv] = s
			}
		}
		return &opClosure{fn: f, env: ne}
	}
	if c, ok := env.fns[v]; ok {
		return c
	}
	if u, ok := v.(*ssa.UnOp); ok && u.Op == token.MUL {
		if c, ok := env.fns[u.X]; ok {
			return c
		}
	}
	// a function value the evaluated path determines (element of a constant function table)
	if t.dyn != nil {
		if f := t.dyn(v); f != nil {
			return &opClosure{fn: f, env: &opEnv{side: map[ssa.Value]string{}, fns: map[ssa.Value]*opClosure{}}}
		}
	}
	return nil
}

func (t *opTracer) trace(fn *ssa.Function, env *opEnv, depth int) {
	if fn == nil || fn.Blocks == nil || depth > 4 || t.seen[fn] {
		return
	}
	t.seen[fn] = true
	defer func() { t.seen[fn] = false }()
	allInstrs(fn, func(in ssa.Instruction) {
		switch x := in.(type) {
		case *ssa.BinOp:
			a, b := t.sideOf(fn, x.X, env, 0), t.sideOf(fn, x.Y, env, 0)
			if a != "" && b != "" {
				t.out[x.Op.String()+"("+a+","+b+")"] = true
			}
			if (a == "R" && isZeroConst(x.Y) || b == "R" && isZeroConst(x.X)) && (x.Op == token.NEQ || x.Op == token.EQL) {
				t.out["guard:R!=0"] = true
			}
		case *ssa.Call:
			pkg, name := calleePkgName(x)
			if pkg == "math" {
				if len(x.Call.Args) == 2 {
					a, b := t.sideOf(fn, x.Call.Args[0], env, 0), t.sideOf(fn, x.Call.Args[1], env, 0)
					if a != "" && b != "" {
						t.out["math."+name+"("+a+","+b+")"] = true
					}
				}
				if name == "NaN" {
					t.out["NaN"] = true
				}
				return
			}
			// calls that carry the operands on
			var callee *opClosure
			if sc := x.Common().StaticCallee(); sc != nil {
				if sc.Blocks == nil || sc.Pkg == nil || !isFirstParty(sc.Pkg.Pkg.Path()) {
					return
				}
				callee = &opClosure{fn: sc, env: &opEnv{side: map[ssa.Value]string{}, fns: map[ssa.Value]*opClosure{}}}
				if mc, ok := x.Call.Value.(*ssa.MakeClosure); ok {
					callee = t.resolveFn(mc, env)
				}
			} else if !x.Call.IsInvoke() {
				callee = t.resolveFn(x.Call.Value, env)
			}
			if callee == nil || callee.fn == nil {
				return
			}
			if callee.fn.Blocks == nil {
				// a library function taken from a table: math.Pow and the like
				if callee.fn.Pkg != nil && callee.fn.Pkg.Pkg.Path() == "math" && len(x.Call.Args) == 2 {
					a, b := t.sideOf(fn, x.Call.Args[0], env, 0), t.sideOf(fn, x.Call.Args[1], env, 0)
					if a != "" && b != "" {
						t.out["math."+callee.fn.Name()+"("+a+","+b+")"] = true
					}
				}
				return
			}
			ne := &opEnv{side: map[ssa.Value]string{}, fns: map[ssa.Value]*opClosure{}}
			for k, v := range callee.env.side {
				ne.side[k] = v
			}
			for k, v := range callee.env.fns {
				ne.fns[k] = v
			}
			carries := false
			for i, prm := range callee.fn.Params {
				if i >= len(x.Call.Args) {
					break
				}
				if sd := t.sideOf(fn, x.Call.Args[i], env, 0); sd != "" {
					ne.side[prm] = sd
					carries = true
				}
				if c := t.resolveFn(x.Call.Args[i], env); c != nil {
					ne.fns[prm] = c
				}
			}
			if carries || len(ne.fns) > 0 {
				t.trace(callee.fn, ne, depth+1)
			}
		}
	})
}

// sampleOpSummaryOf describes the operation a SampleOp value performs on (left.Data, right.Data).
// v is the value returned by buildSampleBinOp for one operator: a closure, or the
// result of a constructor helper that returns one.
func sampleOpSummaryOf(v ssa.Value) (summary []string, cl *ssa.Function, ok bool) {
	return sampleOpSummaryOfDyn(v, nil)
}

// sampleOpSummaryOfDyn: dyn resolves function values that only the evaluated path determines.
func sampleOpSummaryOfDyn(v ssa.Value, dyn func(ssa.Value) *ssa.Function) (summary []string, cl *ssa.Function, ok bool) {
	t := &opTracer{out: map[string]bool{}, seen: map[*ssa.Function]bool{}, dyn: dyn}
	root := &opEnv{side: map[ssa.Value]string{}, fns: map[ssa.Value]*opClosure{}}
	var oc *opClosure
	switch x := v.(type) {
	case *ssa.MakeClosure, *ssa.Function:
		oc = t.resolveFn(x, root)
	case *ssa.Call:
		// constructor helper: K(args) returns a closure over its parameters
		k := x.Common().StaticCallee()
		if k == nil || k.Blocks == nil {
			return nil, nil, false
		}
		kenv := &opEnv{side: map[ssa.Value]string{}, fns: map[ssa.Value]*opClosure{}}
		for i, prm := range k.Params {
			if i < len(x.Call.Args) {
				if c := t.resolveFn(x.Call.Args[i], root); c != nil {
					kenv.fns[prm] = c
				}
			}
		}
		for _, ret := range returnsOf(k) {
			for _, lv := range phiLeaves(ret.Results[0]) {
				if c := t.resolveFn(lv, kenv); c != nil {
					oc = c
				}
			}
		}
	}
	if oc == nil || oc.fn == nil || len(oc.fn.Params) != 2 {
		return nil, nil, false
	}
	oc.env.side[oc.fn.Params[0]] = "L"
	oc.env.side[oc.fn.Params[1]] = "R"
	t.trace(oc.fn, oc.env, 0)
	for k := range t.out {
		summary = append(summary, k)
	}
	sort.Strings(summary)
	return summary, oc.fn, true
}

func isZeroConst(v ssa.Value) bool {
	c, ok := constOf(v)
	return ok && (c.Kind() == constant.Int || c.Kind() == constant.Float) && constant.Sign(c) == 0
}

var sampleOpSpec = map[string]string{
	"OpAdd": "+(L,R)", "OpSub": "-(L,R)", "OpMul": "*(L,R)",
	"OpDiv": "/(L,R)|NaN|guard:R!=0", "OpMod": "NaN|guard:R!=0|math.Mod(L,R)", "OpPow": "math.Pow(L,R)",
	"OpEq": "==(L,R)", "OpNotEq": "!=(L,R)", "OpGt": ">(L,R)", "OpGte": ">=(L,R)", "OpLt": "<(L,R)", "OpLte": "<=(L,R)",
}

func normOpSummary(xs []string) string {
	// accept the mirrored spelling of a comparison (R < L for L > R) and either zero-guard polarity
	var out []string
	for _, x := range xs {
		switch {
		case strings.HasSuffix(x, "(R,L)"):
			op := strings.TrimSuffix(x, "(R,L)")
			m := map[string]string{"<": ">", ">": "<", "<=": ">=", ">=": "<=", "==": "==", "!=": "!=", "+": "+", "*": "*"}
			if mo, ok := m[op]; ok {
				x = mo + "(L,R)"
			}
		case x == "guard:R==0":
			x = "guard:R!=0"
		}
		out = append(out, x)
	}
	sort.Strings(out)
	return strings.Join(dedup(out), "|")
}

func ruleSampleBinOp(r *Run) {
	p := r.P
	fn := p.Func(metricPkg, "buildSampleBinOp")
	anchor := r.Ob("ANCHOR", "logqlmetric.buildSampleBinOp", "anchor resolves")
	anchor.Trivial = true
	if fn == nil {
		anchor.Fail("-", "function not found")
		return
	}
	anchor.OK("resolved").At(r.pos(fn.Pos()))
	T := p.NamedType(logqlPkg, "BinOp")
	consts := enumConstants(T)
	tag := pickTag(fn, T, consts["OpAdd"])
	if tag == nil {
		r.Ob("CH-MAP", "logqlmetric.buildSampleBinOp", "dispatch").Undecide(r.pos(fn.Pos()), "no dispatch on expr.Op")
		return
	}
	for _, cr := range casesOf(fn, tag, consts, nil, nil) {
		if strings.HasPrefix(cr.Const, "_") {
			continue
		}
		want, listed := sampleOpSpec[cr.Const]
		o := r.Ob("CH-MAP", "logqlmetric.buildSampleBinOp["+cr.Const+"]", "the sample operation applies the operator it is built for to (left value, right value), keeps the left side's labels, and maps x/0 and x%0 to NaN")
		o.Trivial = !listed
		var vals []ssa.Value
		var valEnd *feEnd
		allErr := true
		for _, e := range cr.Ends {
			if isErr, known := endReturnsError(e); known && isErr {
				continue
			}
			allErr = false
			if len(e.Results) > 0 {
				vals = append(vals, e.Results[0].V)
				valEnd = e
			}
		}
		if !listed {
			if allErr {
				o.OK("rejected with an error")
			} else {
				o.Fail(r.pos(fn.Pos()), "operator %s is accepted although it is not an arithmetic/comparison operator", cr.Const)
			}
			continue
		}
		if len(vals) != 1 {
			o.Fail(r.pos(fn.Pos()), "expected exactly one operation per operator, found %d", len(vals))
			continue
		}
		crW := cr.W
		sum, c, okc := sampleOpSummaryOfDyn(vals[0], func(v ssa.Value) *ssa.Function {
			if crW == nil || valEnd == nil {
				return nil
			}
			if in, isIn := v.(ssa.Instruction); isIn && in.Parent() != fn {
				return nil
			}
			f, _ := crW.resolveCallee(valEnd.State, v, 0)
			return f
		})
		if !okc {
			o.Undecide(r.pos(fn.Pos()), "the operation %s is not a closure over (left, right) the rule can follow", describe(vals[0], 0))
			continue
		}
		got := normOpSummary(sum)
		if got != want {
			o.Fail(r.pos(c.Pos()), "the operation computes %q, expected %q", got, want)
			continue
		}
		// result sample starts from the left parameter (labels of the left side)
		resOK := true
		for _, ret := range returnsOf(c) {
			for _, lv := range phiLeaves(ret.Results[0]) {
				root := lv
				if u, ok := lv.(*ssa.UnOp); ok {
					if al, ok := u.X.(*ssa.Alloc); ok {
						st := storesTo(al)
						if len(st) == 0 || unspill(st[0].Val) != ssa.Value(c.Params[0]) {
							resOK = false
						}
						// the Set field must not be overwritten
						for _, ref := range *al.Referrers() {
							if fa, ok := ref.(*ssa.FieldAddr); ok {
								if n, _, _ := fieldNameOf(fa); n == "Set" && len(storesTo(fa)) > 0 {
									resOK = false
								}
							}
						}
						continue
					}
				}
				if root != ssa.Value(c.Params[0]) {
					resOK = false
				}
			}
		}
		if !resOK {
			o.Fail(r.pos(c.Pos()), "the result sample is not derived from the left operand (labels of the left side)")
			continue
		}
		// comparisons: keep/1 semantics through boolOp
		o.OK("computes %s on (left, right); result := left", got).At(r.pos(c.Pos()))
	}
	// boolOp: (1, true) when the comparison holds; (0, !filter) otherwise
	var boolOp *ssa.Function
	isBoolOp := func(a *ssa.Function) bool {
		sg := a.Signature
		if sg.Recv() != nil || sg.Params().Len() != 2 || sg.Results().Len() != 2 {
			return false
		}
		b0, ok0 := sg.Params().At(0).Type().Underlying().(*types.Basic)
		b1, ok1 := sg.Params().At(1).Type().Underlying().(*types.Basic)
		r0, ok2 := sg.Results().At(0).Type().Underlying().(*types.Basic)
		r1, ok3 := sg.Results().At(1).Type().Underlying().(*types.Basic)
		return ok0 && ok1 && ok2 && ok3 && b0.Kind() == types.Bool && b1.Kind() == types.Bool && r0.Kind() == types.Float64 && r1.Kind() == types.Bool
	}
	for _, a := range p.SrcFuncs() {
		pk := a.Pkg
		if pk == nil && a.Parent() != nil {
			pk = a.Parent().Pkg
		}
		if pk != nil && pk == fn.Pkg && isBoolOp(a) {
			boolOp = a
		}
	}
	ob := r.Ob("FE-BOOL", "logqlmetric.buildSampleBinOp boolOp", "a comparison yields 1 and is kept exactly where it holds; where it does not hold it yields 0 and is kept only with the bool modifier")
	if boolOp == nil {
		ob.Undecide(r.pos(fn.Pos()), "helper closure (v, filter bool) (float64, bool) not found")
	} else {
		bad := false
		for _, v := range []bool{false, true} {
			for _, f := range []bool{false, true} {
				w := &feWalker{Fn: boolOp, Assume: map[ssa.Value]constant.Value{boolOp.Params[0]: constant.MakeBool(v), boolOp.Params[1]: constant.MakeBool(f)}}
				for _, e := range w.Run() {
					if len(e.Results) != 2 || !e.Results[0].Known || !e.Results[1].Known {
						bad = true
						ob.Undecide(r.pos(boolOp.Pos()), "result not constant under v=%v filter=%v", v, f)
						continue
					}
					val, _ := constant.Float64Val(e.Results[0].C)
					keep := constant.BoolVal(e.Results[1].C)
					wantVal, wantKeep := 0.0, !f
					if v {
						wantVal, wantKeep = 1.0, true
					}
					if val != wantVal || keep != wantKeep {
						bad = true
						ob.Fail(r.pos(boolOp.Pos()), "holds=%v filter=%v gives (%v, %v), expected (%v, %v)", v, f, val, keep, wantVal, wantKeep)
					}
				}
			}
		}
		// filter is the *negation* of ReturnBool? (filter := expr.Modifier.ReturnBool is passed as is: keep = !filter when false)
		if !bad {
			ob.OK("(1,true) when it holds; (0,!filter) otherwise").At(r.pos(boolOp.Pos()))
		}
	}
	// ReduceBinOp agrees (sibling)
	rb := p.Func(logqlPkg, "ReduceBinOp")
	os := r.Ob("CH-SIB", "logql.ReduceBinOp", "constant folding applies the same operator to (left, right) as evaluation does")
	if rb == nil {
		os.Fail("-", "function not found")
		return
	}
	// the dispatch may live in ReduceBinOp or in a helper of it
	var tag2 ssa.Value
	var df *ssa.Function
	for _, gf := range funcGroup(rb) {
		if t := pickTag(gf, T, consts["OpAdd"]); t != nil && tag2 == nil {
			tag2, df = t, gf
		}
	}
	if tag2 == nil {
		os.Undecide(r.pos(rb.Pos()), "no dispatch on b.Op")
		return
	}
	os.OK("dispatch on the same operator enum in %s", df.Name()).At(r.pos(df.Pos()))
	os.Trivial = true
	// operand sides: in ReduceBinOp a float is L/R when it is the Value of the literal
	// that b.Left / b.Right reduces to; in a helper, the parameters carry the call site's sides.
	rbSide := func(v ssa.Value) string {
		f, base, ok := loadOfField(v)
		if !ok || f != "Value" {
			return ""
		}
		return reduceOperandSide(rb, base, 0, map[ssa.Value]bool{})
	}
	env := &opEnv{side: map[ssa.Value]string{}, fns: map[ssa.Value]*opClosure{}}
	if df != rb {
		for _, gf := range funcGroup(rb) {
			for _, c := range callsIn(gf) {
				if c.Common().StaticCallee() != df || gf != rb {
					continue
				}
				for i, a := range c.Common().Args {
					if i < len(df.Params) {
						if sd := rbSide(a); sd != "" {
							env.side[df.Params[i]] = sd
						}
					}
				}
			}
		}
	}
	for _, name := range sortedKeysOf(sampleOpSpec) {
		want := sampleOpSpec[name]
		o := r.Ob("CH-SIB", "logql.ReduceBinOp["+name+"]", "constant folding computes the same function of (left literal, right literal) as evaluation does for this operator")
		cv, okc := consts[name]
		if !okc {
			o.Fail(r.pos(df.Pos()), "operator constant %s not found", name)
			continue
		}
		assume := map[ssa.Value]constant.Value{}
		for _, t := range equivLoads(df, tag2) {
			assume[t] = cv
		}
		w := &feWalker{Fn: df, Assume: assume, MaxPath: 20000}
		out := map[string]bool{}
		nOK := 0
		for _, e := range w.Run() {
			if isErr, known := endReturnsError(e); known && isErr {
				continue
			}
			if df == rb && len(e.Results) > 0 && e.Results[0].Known && e.Results[0].C == nil {
				continue // (nil, nil): not reducible
			}
			if df == rb && len(e.Results) > 0 && isNilConst(e.Results[0].V) {
				continue
			}
			nOK++
			side := func(v ssa.Value) string {
				if df == rb {
					return rbSide(v)
				}
				return (&opTracer{}).sideOf(df, v, env, 0)
			}
			for _, b := range e.State.trail {
				if b.Parent() != df {
					continue
				}
				for _, in := range b.Instrs {
					switch x := in.(type) {
					case *ssa.BinOp:
						a, bb := side(x.X), side(x.Y)
						if a != "" && bb != "" {
							out[x.Op.String()+"("+a+","+bb+")"] = true
						}
						if (a == "R" && isZeroConst(x.Y) || bb == "R" && isZeroConst(x.X)) && (x.Op == token.NEQ || x.Op == token.EQL) {
							out["guard:R!=0"] = true
						}
					case *ssa.Call:
						pkg, nm := calleePkgName(x)
						if pkg != "math" {
							continue
						}
						if len(x.Call.Args) == 2 {
							a, bb := side(x.Call.Args[0]), side(x.Call.Args[1])
							if a != "" && bb != "" {
								out["math."+nm+"("+a+","+bb+")"] = true
							}
						}
						if nm == "NaN" {
							out["NaN"] = true
						}
					}
				}
			}
		}
		if nOK == 0 {
			o.Fail(r.pos(df.Pos()), "operator %s is never folded (all paths fail)", name)
			continue
		}
		var xs []string
		for k := range out {
			xs = append(xs, k)
		}
		if got := normOpSummary(xs); got != want {
			o.Fail(r.pos(df.Pos()), "constant folding computes %q for %s, evaluation computes %q", got, name, want)
			continue
		}
		o.OK("%s", want).At(r.pos(df.Pos()))
	}
}

// reduceOperandSide: which field of the BinOpExpr parameter (Left / Right) an operand value derives from.
func reduceOperandSide(fn *ssa.Function, v ssa.Value, depth int, seen map[ssa.Value]bool) string {
	if v == nil || depth > 14 || seen[v] {
		return ""
	}
	seen[v] = true
	merge := func(vs ...ssa.Value) string {
		set := map[string]bool{}
		for _, x := range vs {
			if s := reduceOperandSide(fn, x, depth+1, seen); s != "" {
				set[s] = true
			}
		}
		if len(set) == 1 {
			for s := range set {
				return s
			}
		}
		return ""
	}
	switch x := v.(type) {
	case *ssa.TypeAssert:
		return merge(x.X)
	case *ssa.Extract:
		return merge(x.Tuple)
	case *ssa.MakeInterface:
		return merge(x.X)
	case *ssa.ChangeInterface:
		return merge(x.X)
	case *ssa.ChangeType:
		return merge(x.X)
	case *ssa.Phi:
		return merge(x.Edges...)
	case *ssa.Call:
		if x.Call.IsInvoke() {
			return ""
		}
		return merge(x.Call.Args...)
	case *ssa.UnOp:
		if x.Op != token.MUL {
			return ""
		}
		if f, base, ok := fieldNameOf(x.X); ok && len(fn.Params) > 0 && base == ssa.Value(fn.Params[0]) {
			switch f {
			case "Left":
				return "L"
			case "Right":
				return "R"
			}
			return ""
		}
		if al, ok := x.X.(*ssa.Alloc); ok {
			var vs []ssa.Value
			for _, st := range storesTo(al) {
				vs = append(vs, st.Val)
			}
			return merge(vs...)
		}
	}
	return ""
}

func sortedKeysOf(m map[string]string) []string {
	var ks []string
	for k := range m {
		ks = append(ks, k)
	}
	sort.Strings(ks)
	return ks
}

// stepSide: does v (a Sample value or field of it) come from the left or the right input step?
func stepSides(fn *ssa.Function) (map[ssa.Value]string, map[*ssa.Alloc]string) {
	// locals passed to i.left.Next(&x) / i.right.Next(&x), directly or through a helper of the
	// iterator that forwards its step parameters to the two inputs (i.next(&l, &r))
	cells := map[*ssa.Alloc]string{}
	sideOfNext := func(f *ssa.Function, call *ssa.Call) (string, ssa.Value) {
		if !invokeIs(call, "Next") || len(f.Params) == 0 {
			return "", nil
		}
		fld, base, ok := loadOfField(call.Call.Value)
		if !ok || (fld != "left" && fld != "right") {
			return "", nil
		}
		// the field of the receiver, or of a struct embedded in the receiver
		for d := 0; d < 2; d++ {
			if sameRecvCopy(base, f.Params[0]) {
				return fld, call.Call.Args[0]
			}
			if _, b2, ok := fieldNameOf(base); ok {
				base = b2
			} else {
				break
			}
		}
		return "", nil
	}
	for _, c := range callsIn(fn) {
		call, ok := c.(*ssa.Call)
		if !ok {
			continue
		}
		if sd, arg := sideOfNext(fn, call); sd != "" {
			if al, ok := arg.(*ssa.Alloc); ok {
				cells[al] = sd
			}
			continue
		}
		h := staticCallee(call)
		if h == nil || h.Blocks == nil || h.Pkg != fn.Pkg || len(call.Call.Args) == 0 {
			continue
		}
		// the helper must be called on the iterator (or a struct embedded in it)
		recv := call.Call.Args[0]
		if u, ok := recv.(*ssa.UnOp); ok && u.Op == token.MUL {
			recv = u.X // an embedded struct handed over by value
		}
		if _, b2, ok := fieldNameOf(recv); ok {
			recv = b2
		}
		if recv != ssa.Value(fn.Params[0]) {
			continue
		}
		for _, hc := range callsIn(h) {
			hcall, ok := hc.(*ssa.Call)
			if !ok {
				continue
			}
			sd, arg := sideOfNext(h, hcall)
			if sd == "" {
				continue
			}
			for k, prm := range h.Params {
				if arg == ssa.Value(prm) && k < len(call.Call.Args) {
					if al, ok := call.Call.Args[k].(*ssa.Alloc); ok {
						cells[al] = sd
					}
				}
			}
		}
	}
	return nil, cells
}

// originSide traces a Sample value back to the step it was taken from.
func originSide(v ssa.Value, cells map[*ssa.Alloc]string, depth int) string {
	return originSideEnv(v, cells, depth, nil)
}

// mapBuiltByHelper: the map a lookup reads is the result of a small first-party helper that
// fills it from one of its parameters (indexSamples(left.Samples)): the side of what is stored.
func mapBuiltByHelper(m ssa.Value, cells map[*ssa.Alloc]string, depth int, env map[*ssa.Parameter]ssa.Value) string {
	call, ok := unspill(m).(*ssa.Call)
	if !ok {
		return ""
	}
	callee := staticCallee(call)
	if callee == nil || callee.Blocks == nil || len(callee.Blocks) > 12 || !isFirstParty(pkgPathOf(callee)) {
		return ""
	}
	sub := map[*ssa.Parameter]ssa.Value{}
	for i, q := range callee.Params {
		if i < len(call.Call.Args) {
			sub[q] = call.Call.Args[i]
		}
	}
	res := ""
	allInstrs(callee, func(in ssa.Instruction) {
		if mu, ok := in.(*ssa.MapUpdate); ok {
			if s := originSideEnv(mu.Value, cells, depth+1, sub); s != "" {
				res = s
			}
		}
	})
	return res
}

func originSideEnv(v ssa.Value, cells map[*ssa.Alloc]string, depth int, env map[*ssa.Parameter]ssa.Value) string {
	if depth > 12 || v == nil {
		return ""
	}
	if q, ok := v.(*ssa.Parameter); ok && env != nil {
		if a, ok := env[q]; ok {
			return originSideEnv(a, cells, depth+1, nil)
		}
	}
	switch x := v.(type) {
	case *ssa.UnOp:
		if x.Op != token.MUL {
			return ""
		}
		switch a := x.X.(type) {
		case *ssa.IndexAddr:
			return originSideEnv(a.X, cells, depth+1, env)
		case *ssa.FieldAddr:
			if al, ok := a.X.(*ssa.Alloc); ok {
				if s, ok := cells[al]; ok {
					return s
				}
			}
			return originSideEnv(a.X, cells, depth+1, env)
		case *ssa.Alloc:
			for _, st := range storesTo(a) {
				if s := originSideEnv(st.Val, cells, depth+1, env); s != "" {
					return s
				}
			}
		}
	case *ssa.Extract:
		if lk, ok := x.Tuple.(*ssa.Lookup); ok {
			if s := mapBuiltByHelper(lk.X, cells, depth, env); s != "" {
				return s
			}
			// values stored into that map
			for _, ref := range *lk.X.Referrers() {
				if mu, ok := ref.(*ssa.MapUpdate); ok {
					if s := originSideEnv(mu.Value, cells, depth+1, env); s != "" {
						return s
					}
				}
			}
		}
	case *ssa.Lookup:
		if s := mapBuiltByHelper(x.X, cells, depth, env); s != "" {
			return s
		}
		for _, ref := range *x.X.Referrers() {
			if mu, ok := ref.(*ssa.MapUpdate); ok {
				if s := originSideEnv(mu.Value, cells, depth+1, env); s != "" {
					return s
				}
			}
		}
	case *ssa.Phi:
		set := map[string]bool{}
		for _, e := range x.Edges {
			if s := originSideEnv(e, cells, depth+1, env); s != "" {
				set[s] = true
			}
		}
		if len(set) == 1 {
			for s := range set {
				return s
			}
		}
		if len(set) > 1 {
			return "mixed"
		}
	}
	return ""
}

func ruleBinOpIterators(r *Run) {
	p := r.P
	// binOpIterator.Next: op(sample of the left step, sample of the right step)
	fn := p.Method(metricPkg, "binOpIterator", "Next")
	o := r.Ob("PV-ROLE", "logqlmetric.(*binOpIterator).Next", "the operator is applied as op(sample from the left side, sample from the right side) for series present on both sides, whatever their number; the result is stamped with the step's timestamp")
	if fn == nil {
		o.Fail("-", "method not found")
	} else {
		_, cells := stepSides(fn)
		var opCall *ssa.Call
		for _, c := range callsIn(fn) {
			if call, ok := c.(*ssa.Call); ok {
				if f, base, ok := loadOfField(call.Call.Value); ok && f == "op" && base == ssa.Value(fn.Params[0]) {
					opCall = call
				}
			}
		}
		if opCall == nil || len(cells) != 2 {
			o.Fail(r.pos(fn.Pos()), "op call=%v, input steps identified=%d", opCall != nil, len(cells))
		} else {
			a, b := originSide(opCall.Call.Args[0], cells, 0), originSide(opCall.Call.Args[1], cells, 0)
			if a == "left" && b == "right" {
				o.OK("op(left sample, right sample)").At(r.pos(opCall.Pos()))
			} else {
				o.Fail(r.pos(opCall.Pos()), "op is called with (sample from %q, sample from %q): for non-commutative operators the operands are swapped on some inputs", a, b)
			}
		}
	}
	// literalBinOpIterator.Next: literal on the written side
	lf := p.Method(metricPkg, "literalBinOpIterator", "Next")
	ol := r.Ob("PV-ROLE", "logqlmetric.(*literalBinOpIterator).Next", "the scalar takes the left operand position iff it was written on the left; it carries the series' labels and the literal value")
	if lf == nil {
		ol.Fail("-", "method not found")
	} else {
		var leftLoad ssa.Value
		var opCall *ssa.Call
		lgrp := funcGroup(lf)
		isRecv := func(base ssa.Value) bool {
			return base == ssa.Value(lf.Params[0]) || originValueIn(base, lgrp) == ssa.Value(lf.Params[0])
		}
		for _, gf := range lgrp {
			allInstrs(gf, func(in ssa.Instruction) {
				switch x := in.(type) {
				case *ssa.UnOp:
					if f, base, ok := loadOfField(x); ok && f == "left" && isRecv(base) {
						leftLoad = x
					}
				case *ssa.Call:
					if f, base, ok := loadOfField(x.Call.Value); ok && f == "op" && isRecv(base) {
						opCall = x
					}
				}
			})
		}
		if leftLoad == nil || opCall == nil {
			ol.Fail(r.pos(lf.Pos()), "i.left test=%v op call=%v", leftLoad != nil, opCall != nil)
		} else {
			isLiteral := func(v ssa.Value) (bool, bool) {
				// a load of a Sample literal whose Data is i.value
				u, ok := v.(*ssa.UnOp)
				if !ok {
					_, isPrm := v.(*ssa.Parameter)
					return false, isPrm
				}
				al, ok := u.X.(*ssa.Alloc)
				if !ok {
					// an element of the step's samples (or another loaded sample): not the literal
					_, isElem := u.X.(*ssa.IndexAddr)
					return false, isElem
				}
				fs := allocFieldStores(al)
				d, ok := fs["Data"]
				if !ok {
					return false, true
				}
				f, base, ok := loadOfField(d)
				return ok && f == "value" && isRecv(base), true
			}
			bad := false
			for _, left := range []bool{false, true} {
				w := &feWalker{Fn: lf, Assume: map[ssa.Value]constant.Value{leftLoad: constant.MakeBool(left)}, Inline: inlineHelpers(lf)}
				seen := false
				for _, e := range w.Run() {
					for _, c := range e.State.calls {
						if c.Call != ssa.CallInstruction(opCall) {
							continue
						}
						seen = true
						l0, k0 := isLiteral(c.Args[0].V)
						l1, k1 := isLiteral(c.Args[1].V)
						if !k0 || !k1 {
							bad = true
							ol.Undecide(r.pos(opCall.Pos()), "operands not recognised (%s, %s)", describe(c.Args[0].V, 0), describe(c.Args[1].V, 0))
							continue
						}
						if l0 != left || l1 == left {
							bad = true
							ol.Fail(r.pos(opCall.Pos()), "with literal-on-the-left=%v the operator receives the literal as left operand=%v, right operand=%v", left, l0, l1)
						}
					}
				}
				if !seen {
					bad = true
					ol.Fail(r.pos(lf.Pos()), "the operator is never applied when left=%v", left)
				}
			}
			if !bad {
				ol.OK("i.left -> op(literal, sample); otherwise op(sample, literal)").At(r.pos(opCall.Pos()))
			}
		}
	}
	// build(): which side carries the literal flag
	bf := p.Func(metricPkg, "build")
	ob := r.Ob("PV-ROLE", "logqlmetric.build binary operation", "a scalar written on the left is evaluated with the vector built from the right operand and left=true, and conversely; two vectors are combined as BinOp(build(Left), build(Right))")
	if bf == nil {
		ob.Fail("-", "function not found")
		return
	}
	bad := false
	nLit := 0
	litDeferred := false // a LiteralBinOp site whose arguments are a helper's parameters: decided on paths below
	var groupCalls []ssa.CallInstruction
	for _, gf := range funcGroup(bf) {
		groupCalls = append(groupCalls, callsIn(gf)...)
	}
	for _, c := range groupCalls {
		call, ok := c.(*ssa.Call)
		if !ok {
			continue
		}
		switch {
		case callIs(call, modPath+"/"+metricPkg, "LiteralBinOp"):
			nLit++
			flag, okf := constOf(call.Call.Args[3])
			if !okf {
				litDeferred = true
				continue
			}
			left := constant.BoolVal(flag)
			// value: lit.Value where lit = expr.Left.(*LiteralExpr) or expr.Right
			litSide := literalAssertSide(call.Call.Args[2])
			// iterator: build(expr.Right) / build(expr.Left)
			iterSide := ""
			if bc, _, ok := extractOf(call.Call.Args[0]); ok && callIs(bc, modPath+"/"+metricPkg, "build") {
				if f, _, ok := loadOfField(bc.Call.Args[0]); ok {
					iterSide = f
				}
			}
			wantLit, wantIter := "Right", "Left"
			if left {
				wantLit, wantIter = "Left", "Right"
			}
			if litSide != wantLit || iterSide != wantIter {
				bad = true
				ob.Fail(r.pos(call.Pos()), "LiteralBinOp(.., left=%v) takes the scalar from expr.%s and the vector from expr.%s; expected %s and %s", left, litSide, iterSide, wantLit, wantIter)
			}
			// the literal assertion must be known true here
		case callIs(call, modPath+"/"+metricPkg, "BinOp"):
			s0, s1 := "", ""
			if bc, _, ok := extractOf(call.Call.Args[0]); ok {
				if f, _, ok := loadOfField(bc.Call.Args[0]); ok {
					s0 = f
				}
			}
			if bc, _, ok := extractOf(call.Call.Args[1]); ok {
				if f, _, ok := loadOfField(bc.Call.Args[0]); ok {
					s1 = f
				}
			}
			if s0 != "Left" || s1 != "Right" {
				bad = true
				ob.Fail(r.pos(call.Pos()), "BinOp(build(expr.%s), build(expr.%s), ..): expected (Left, Right)", s0, s1)
			}
		}
	}
	if (nLit != 2 || litDeferred) && !bad {
		// the two scalar forms may share a helper: walk build with its helpers inlined and read, at each
		// LiteralBinOp event, where the scalar, the vector and the flag come from on that path
		grp := map[*ssa.Function]bool{}
		for _, gf := range funcGroup(bf) {
			grp[gf] = true
		}
		isB := func(f *ssa.Function) bool { return f == bf }
		w := &feWalker{Fn: bf, MaxPath: 20000, P: p, Inline: func(c *ssa.Function, d int) bool {
			return grp[c] && !isB(c) && c.Parent() == nil && !isFunc(c, modPath+"/"+metricPkg, "LiteralBinOp") && !isFunc(c, modPath+"/"+metricPkg, "BinOp") && d <= 2
		}}
		ends := w.Run()
		seen := map[bool]bool{}
		if w.Aborted {
			bad = true
			ob.Undecide(r.pos(bf.Pos()), "path enumeration aborted")
		}
		for _, e := range ends {
			if e.Cut {
				continue
			}
			for _, ev := range e.State.calls {
				call, ok := ev.Call.(*ssa.Call)
				if !ok || !callIs(call, modPath+"/"+metricPkg, "LiteralBinOp") || len(ev.Args) < 4 {
					continue
				}
				if !ev.Args[3].Known {
					bad = true
					ob.Undecide(r.pos(call.Pos()), "left flag is not constant on a path")
					continue
				}
				left := constant.BoolVal(ev.Args[3].C)
				seen[left] = true
				litSide := literalAssertSide(ev.Args[2].V)
				iterSide := ""
				if bc, _, ok := extractOf(ev.Args[0].V); ok && callIs(bc, modPath+"/"+metricPkg, "build") {
					for _, ev2 := range e.State.calls {
						if ev2.Call == ssa.CallInstruction(bc) && len(ev2.Args) > 0 {
							if f, _, ok := loadOfField(ev2.Args[0].V); ok {
								iterSide = f
							}
						}
					}
				}
				wantLit, wantIter := "Right", "Left"
				if left {
					wantLit, wantIter = "Left", "Right"
				}
				if litSide != wantLit || iterSide != wantIter {
					bad = true
					ob.Fail(r.pos(call.Pos()), "LiteralBinOp(.., left=%v) takes the scalar from expr.%s and the vector from expr.%s on a path; expected %s and %s", left, litSide, iterSide, wantLit, wantIter)
				}
			}
		}
		if !bad && !(seen[true] && seen[false]) {
			bad = true
			ob.Fail(r.pos(bf.Pos()), "expected a scalar-left and a scalar-right LiteralBinOp path, found left=true:%v left=false:%v", seen[true], seen[false])
		}
	} else if nLit != 2 || litDeferred {
		bad = true
		ob.Fail(r.pos(bf.Pos()), "expected two LiteralBinOp call sites (scalar left / scalar right), found %d", nLit)
	}
	// both sides are built with the same parameters
	var params []string
	for _, c := range groupCalls {
		if call, ok := c.(*ssa.Call); ok && callIs(call, modPath+"/"+metricPkg, "build") {
			params = append(params, strings.TrimLeft(describe(call.Call.Args[1], 0), "*&")+"/"+strings.TrimLeft(describe(call.Call.Args[2], 0), "*&"))
		}
	}
	for _, ps := range params {
		if ps != params[0] {
			bad = true
			ob.Fail(r.pos(bf.Pos()), "sub-expressions are built with different selector/parameters (%s vs %s): the two sides would not be aligned step by step", ps, params[0])
		}
	}
	if !bad {
		ob.OK("scalar-left -> LiteralBinOp(build(Right), expr, Left.Value, true); scalar-right -> LiteralBinOp(build(Left), expr, Right.Value, false); BinOp(build(Left), build(Right)); same params").At(r.pos(bf.Pos()))
	}
}

// literalAssertSide: v = (expr.X.(*LiteralExpr)).Value -> "Left"/"Right"
func literalAssertSide(v ssa.Value) string {
	f, base, ok := loadOfField(v)
	if !ok || f != "Value" {
		return ""
	}
	e, ok := base.(*ssa.Extract)
	if !ok {
		return ""
	}
	ta, ok := e.Tuple.(*ssa.TypeAssert)
	if !ok {
		return ""
	}
	if f2, _, ok := loadOfField(ta.X); ok {
		return f2
	}
	return ""
}

// ruleSetOps: and / or / unless.
func ruleSetOps(r *Run) {
	p := r.P
	fn := p.Func(metricPkg, "buildMergeSamplesOp")
	anchor := r.Ob("ANCHOR", "logqlmetric.buildMergeSamplesOp", "anchor resolves")
	anchor.Trivial = true
	if fn == nil {
		anchor.Fail("-", "function not found")
		return
	}
	anchor.OK("resolved").At(r.pos(fn.Pos()))
	T := p.NamedType(logqlPkg, "BinOp")
	consts := enumConstants(T)
	tag := pickTag(fn, T, consts["OpAnd"])
	if tag == nil {
		r.Ob("CH-MAP", "logqlmetric.buildMergeSamplesOp", "dispatch").Undecide(r.pos(fn.Pos()), "no dispatch on op")
		return
	}
	spec := map[string]string{
		"OpAnd":    "index=right iterate=left keep=present prefix=none",
		"OpOr":     "index=left iterate=right keep=absent prefix=left",
		"OpUnless": "index=right iterate=left keep=absent prefix=none",
	}
	var mergeCls []*ssa.Function
	for _, cr := range casesOf(fn, tag, consts, nil, nil) {
		want, listed := spec[cr.Const]
		if !listed {
			continue
		}
		o := r.Ob("CH-MAP", "logqlmetric.buildMergeSamplesOp["+cr.Const+"]", "and = left series whose label set is on the right; or = left series plus right series not on the left; unless = left series not on the right")
		var cl *ssa.Function
		for _, e := range cr.Ends {
			if len(e.Results) > 0 {
				if c := funcOfValue(e.Results[0].V); c != nil {
					cl = c
				}
			}
		}
		if cl == nil || len(cl.Params) != 2 {
			o.Fail(r.pos(fn.Pos()), "no merge closure returned")
			continue
		}
		pname := func(v ssa.Value) string {
			v = unspill(v)
			switch v {
			case ssa.Value(cl.Params[0]):
				return "left"
			case ssa.Value(cl.Params[1]):
				return "right"
			}
			return "?"
		}
		index, iterate, keep, prefix := "?", "?", "?", "none"
		// the membership test: a comma-ok lookup in a set of grouping keys, somewhere in the closure or its helpers
		var lk *ssa.Lookup
		var lf *ssa.Function
		for _, gf := range funcGroup(cl) {
			allInstrs(gf, func(in ssa.Instruction) {
				if l, ok := in.(*ssa.Lookup); ok && l.CommaOk {
					if mt, ok := l.X.Type().Underlying().(*types.Map); ok && typeString(mt.Key()) == "uint64" {
						lk, lf = l, gf
					}
				}
			})
		}
		if lk == nil {
			o.Fail(r.pos(cl.Pos()), "no membership test against a set of grouping keys found")
			continue
		}
		var okv ssa.Value
		for _, ref := range *lk.Referrers() {
			if e, ok := ref.(*ssa.Extract); ok && e.Index == 1 {
				okv = e
			}
		}
		var loop *rangeLoop
		for _, l := range rangeIndexLoops(lf) {
			if l.Blocks[lk.Block()] {
				loop = l
			}
		}
		if okv == nil || loop == nil {
			o.Fail(r.pos(lk.Pos()), "the membership test is not evaluated per sample in a loop")
			continue
		}
		mergeCls = append(mergeCls, cl)
		// the loops that build a set of grouping keys (samplesSet or whatever plays its role): the
		// slice they range over is the indexed side
		setLens := map[ssa.CallInstruction]bool{}
		for _, sb := range setBuildLoops(funcGroup(cl)) {
			setLens[sb.Len] = true
		}
		for _, present := range []bool{true, false} {
			w := &feWalker{Fn: cl, Assume: map[ssa.Value]constant.Value{okv: constant.MakeBool(present)}, Inline: inlineHelpers(cl), MaxPath: 3000}
			for _, e := range w.Run() {
				// which slice is ranged, which side is indexed, what is prepended
				firstBody, nextHeader := -1, 1<<30
				for i, b := range e.State.trail {
					if b == loop.Body && firstBody < 0 {
						firstBody = e.State.trailSeq[i]
					} else if b == loop.Header && firstBody >= 0 && e.State.trailSeq[i] > firstBody && nextHeader == 1<<30 {
						nextHeader = e.State.trailSeq[i]
					}
				}
				for _, c := range e.State.calls {
					if c.Call == ssa.CallInstruction(loop.Len) && len(c.Args) > 0 {
						if n := pname(c.Args[0].V); n != "?" {
							iterate = n
						}
					}
					if setLens[c.Call] && len(c.Args) > 0 {
						if n := pname(c.Args[0].V); n != "?" {
							if index != "?" && index != n {
								index = "both"
							} else {
								index = n
							}
						}
					}
					if bi, ok := c.Call.Common().Value.(*ssa.Builtin); ok && bi.Name() == "append" && len(c.Args) == 2 {
						if n := pname(c.Args[1].V); n != "?" {
							prefix = n
						}
						// an append inside the first iteration of the membership loop: the sample is kept
						if firstBody >= 0 && c.Seq > firstBody && c.Seq <= nextHeader && c.Call.Parent() == lf && loop.Blocks[c.Call.Block()] {
							if present {
								if keep == "?" || keep == "present" {
									keep = "present"
								} else {
									keep = "both"
								}
							} else {
								if keep == "?" || keep == "absent" {
									keep = "absent"
								} else {
									keep = "both"
								}
							}
						}
					}
				}
			}
		}
		got := "index=" + index + " iterate=" + iterate + " keep=" + keep + " prefix=" + prefix
		if got != want {
			o.Fail(r.pos(cl.Pos()), "the merge is %q, expected %q", got, want)
			continue
		}
		// key pairing: the iterated sample's key is computed like the indexed ones (same grouper/labels)
		o.OK("%s", got).At(r.pos(cl.Pos()))
	}
	// no state shared between calls: maps updated inside the closures / samplesSet are made in the same call
	of := r.Ob("PV-FRESH", "logqlmetric set operators state", "membership sets are rebuilt at every step: no map filled while merging is shared between steps")
	bad := false
	check := func(f *ssa.Function) {
		allInstrs(f, func(in ssa.Instruction) {
			mu, ok := in.(*ssa.MapUpdate)
			if !ok {
				return
			}
			for _, lv := range phiLeaves(mu.Map) {
				if _, ok := lv.(*ssa.MakeMap); ok {
					continue
				}
				bad = true
				of.Fail(r.pos(mu.Pos()), "%s inserts into %s, which is not created in this call: membership from earlier steps leaks into later ones", shortFuncName(f), describe(lv, 0))
			}
		})
	}
	// every function the merge operations are made of, the set builder included
	checked := map[*ssa.Function]bool{}
	nBuilders := 0
	for _, cl := range mergeCls {
		grp := funcGroup(cl)
		for _, sb := range setBuildLoops(grp) {
			ss := sb.Fn
			if checked[ss] {
				continue
			}
			nBuilders++
			// a builder that hands the set out returns its own fresh map
			if _, isMap := ss.Signature.Results().At(0).Type().Underlying().(*types.Map); ss.Signature.Results().Len() == 1 && isMap {
				for _, ret := range returnsOf(ss) {
					if _, ok := ret.Results[0].(*ssa.MakeMap); !ok {
						bad = true
						of.Fail(r.pos(ret.Pos()), "%s returns %s, not a map created in this call", shortFuncName(ss), describe(ret.Results[0], 0))
					}
				}
			}
		}
		for _, g := range grp {
			if !checked[g] {
				checked[g] = true
				check(g)
			}
		}
	}
	if nBuilders == 0 {
		bad = true
		of.Fail(r.pos(fn.Pos()), "no loop building a set of grouping keys found in the merge operations")
	}
	for _, a := range fn.AnonFuncs {
		if !checked[a] {
			check(a)
		}
	}
	if !bad {
		of.OK("samplesSet makes and returns a fresh map; merge closures mutate no captured map")
	}
}

type setBuildLoop struct {
	Fn  *ssa.Function
	Len *ssa.Call // len(x) of the slice the loop ranges over
}

// setBuildLoops: range loops (in the given functions) that insert into a set of grouping keys
// (map[GroupingKey]struct{}): the code that indexes one side of a set operation.
func setBuildLoops(grp []*ssa.Function) []setBuildLoop {
	var out []setBuildLoop
	for _, g := range grp {
		for _, l := range rangeIndexLoops(g) {
			found := false
			for b := range l.Blocks {
				for _, in := range b.Instrs {
					mu, ok := in.(*ssa.MapUpdate)
					if !ok {
						continue
					}
					mt, ok := mu.Map.Type().Underlying().(*types.Map)
					if !ok || typeString(mt.Key()) != "uint64" {
						continue
					}
					if st, ok := mt.Elem().Underlying().(*types.Struct); ok && st.NumFields() == 0 {
						found = true
					}
				}
			}
			if found {
				out = append(out, setBuildLoop{g, l.Len})
			}
		}
	}
	return out
}

// ruleStepBuffers: an iterator never hands its own long-lived slice out as the step's samples.
func ruleStepBuffers(r *Run) {
	p := r.P
	n := 0
	for _, fn := range p.SrcFuncs() {
		if fn.Name() != "Next" || fn.Pkg == nil || fn.Pkg.Pkg.Path() != modPath+"/"+metricPkg || len(fn.Params) != 2 {
			continue
		}
		n++
		o := r.Ob("PV-FRESH", shortFuncName(fn)+" samples buffer", "the samples handed to the caller are appended into the caller's buffer or freshly built, never a slice the iterator keeps and reuses (a consumer that rewrites them in place would corrupt later steps)")
		bad := false
		allInstrs(fn, func(in ssa.Instruction) {
			st, ok := in.(*ssa.Store)
			if !ok {
				return
			}
			f, base, ok := fieldNameOf(st.Addr)
			if !ok || f != "Samples" || base != ssa.Value(fn.Params[1]) {
				return
			}
			for _, lv := range phiLeaves(st.Val) {
				root := sliceRoot(lv)
				if fa, ok := root.(*ssa.FieldAddr); ok {
					if _, b2, ok := fieldNameOf(fa); ok && b2 == ssa.Value(fn.Params[0]) {
						bad = true
						o.Fail(r.pos(st.Pos()), "r.Samples is set to the iterator's own field %s", describe(fa, 0))
					}
				}
			}
		})
		if !bad {
			o.OK("no iterator field escapes as r.Samples").At(r.pos(fn.Pos()))
		}
		// every step that is reported (return true) was written: the caller's buffer is reset/rebuilt
		// or filled by an inner iterator on that path - never left as the previous step's samples
		o2 := r.Ob("PV-RESET", shortFuncName(fn)+" step written", "a step that is reported as present (Next returns true) has its samples written on that path: r.Samples is assigned, or r is filled by an inner iterator's Next(r)")
		var writers []ssa.Instruction
		for _, gf := range funcGroup(fn) {
			allInstrs(gf, func(in ssa.Instruction) {
				switch x := in.(type) {
				case *ssa.Store:
					if f, base, ok := fieldNameOf(x.Addr); ok && f == "Samples" && originValueIn(base, funcGroup(fn)) == ssa.Value(fn.Params[1]) {
						writers = append(writers, x)
					}
					// *r = Step{...}
					if originValueIn(x.Addr, funcGroup(fn)) == ssa.Value(fn.Params[1]) {
						writers = append(writers, x)
					}
				case *ssa.Call:
					if (invokeIs(x, "Next") || (staticCallee(x) != nil && cname(staticCallee(x)) == "Next")) && len(x.Call.Args) > 0 {
						if originValueIn(x.Call.Args[len(x.Call.Args)-1], funcGroup(fn)) == ssa.Value(fn.Params[1]) {
							writers = append(writers, x)
						}
					}
				}
			})
		}
		bad2 := false
		for _, ret := range returnsOf(fn) {
			for i, lv := range phiLeavesWithPred(ret.Results[0], ret.Block()) {
				_ = i
				if isConstBool(lv.V, false) {
					continue
				}
				covered := false
				for _, wr := range writers {
					lifted := liftInstr(wr, fn, funcGroup(fn), true)
					if lifted == nil {
						continue
					}
					if lv.Pred != nil {
						if lifted.Block().Dominates(lv.Pred) {
							covered = true
						}
					} else if instrDominates(lifted, ret) {
						covered = true
					}
				}
				if !covered {
					// a mode fixed at construction (a receiver field that no method ever writes, e.g.
					// limit == 0): in that mode no call of this instance writes the buffer, so there is
					// no earlier output of its own to leak
					blk := ret.Block()
					if lv.Pred != nil {
						blk = lv.Pred
					}
					facts := factsAt(blk)
					if lv.Pred != nil {
						if ef, ok := edgeFact(lv.Pred, lv.At); ok {
							facts = append(facts, normFact(ef))
						}
					}
					for _, f := range facts {
						if b, ok := f.Cond.(*ssa.BinOp); ok {
							for _, pair := range [][2]ssa.Value{{b.X, b.Y}, {b.Y, b.X}} {
								fld, base, okf := loadOfField(pair[0])
								_, okc := constOf(pair[1])
								if okf && okc && unspill(base) == ssa.Value(fn.Params[0]) && !fieldWrittenAfterConstruction(p, fn, fld) {
									// in this mode nothing is ever written: every writer sits on the other
									// side of the same test
									never := true
									for _, wr := range writers {
										lifted := liftInstr(wr, fn, funcGroup(fn), false)
										if lifted == nil {
											never = false
											continue
										}
										opposite := false
										for _, wf := range factsAt(lifted.Block()) {
											if wf.Cond == f.Cond && wf.Truth != f.Truth {
												opposite = true
											}
										}
										if !opposite {
											never = false
										}
									}
									if never {
										covered = true
									}
								}
							}
						}
					}
				}
				if !covered {
					bad2 = true
					o2.Fail(r.pos(ret.Pos()), "Next can return true on a path that neither assigns r.Samples nor fills r from an inner iterator: the caller sees the previous step's samples again")
				}
			}
		}
		if !bad2 {
			o2.OK("%d writer(s) of the step; each `return true` is dominated by one", len(writers)).At(r.pos(fn.Pos()))
		}
		// the same for the step's timestamp: a reported step says which evaluation time it is for
		o3 := r.Ob("PV-RESET", shortFuncName(fn)+" step stamped", "a step that is reported as present carries its evaluation time: r.Timestamp is assigned (or r is filled by an inner iterator's Next(r)) on every path that returns true")
		var stampers []ssa.Instruction
		for _, gf := range funcGroup(fn) {
			allInstrs(gf, func(in ssa.Instruction) {
				switch x := in.(type) {
				case *ssa.Store:
					if f, base, ok := fieldNameOf(x.Addr); ok && f == "Timestamp" && originValueIn(base, funcGroup(fn)) == ssa.Value(fn.Params[1]) {
						stampers = append(stampers, x)
					}
					if originValueIn(x.Addr, funcGroup(fn)) == ssa.Value(fn.Params[1]) {
						stampers = append(stampers, x)
					}
				case *ssa.Call:
					if (invokeIs(x, "Next") || (staticCallee(x) != nil && cname(staticCallee(x)) == "Next")) && len(x.Call.Args) > 0 {
						if originValueIn(x.Call.Args[len(x.Call.Args)-1], funcGroup(fn)) == ssa.Value(fn.Params[1]) {
							stampers = append(stampers, x)
						}
					}
				}
			})
		}
		bad3 := false
		for _, ret := range returnsOf(fn) {
			for _, lv := range phiLeavesWithPred(ret.Results[0], ret.Block()) {
				if isConstBool(lv.V, false) {
					continue
				}
				covered := false
				for _, wr := range stampers {
					lifted := liftInstr(wr, fn, funcGroup(fn), true)
					if lifted == nil {
						continue
					}
					if lv.Pred != nil {
						if lifted.Block().Dominates(lv.Pred) {
							covered = true
						}
					} else if instrDominates(lifted, ret) {
						covered = true
					}
				}
				if !covered {
					bad3 = true
					o3.Fail(r.pos(ret.Pos()), "Next can return true on a path that does not set r.Timestamp: the step is reported with the previous (or the zero) evaluation time")
				}
			}
		}
		if !bad3 {
			o3.OK("%d writer(s) of the timestamp; each `return true` is dominated by one", len(stampers)).At(r.pos(fn.Pos()))
		}
	}
	r.count("step_iterators", n)
}

type leafPred struct {
	V    ssa.Value
	Pred *ssa.BasicBlock // the predecessor through which the leaf enters the (outermost) phi; nil when v is not a phi
	At   *ssa.BasicBlock // the block of the phi the leaf enters
}

// phiLeavesWithPred lists the leaves of a phi tree together with the predecessor block of the
// edge they arrive on (one level; nested phis report the inner edge's predecessor).
func phiLeavesWithPred(v ssa.Value, at *ssa.BasicBlock) []leafPred {
	phi, ok := v.(*ssa.Phi)
	if !ok {
		return []leafPred{{v, nil, nil}}
	}
	var out []leafPred
	seen := map[*ssa.Phi]bool{}
	var walk func(ph *ssa.Phi)
	walk = func(ph *ssa.Phi) {
		if seen[ph] {
			return
		}
		seen[ph] = true
		for i, e := range ph.Edges {
			if inner, ok := e.(*ssa.Phi); ok {
				walk(inner)
				continue
			}
			out = append(out, leafPred{e, ph.Block().Preds[i], ph.Block()})
		}
	}
	walk(phi)
	return out
}

// fieldWrittenAfterConstruction: is the receiver's field written anywhere but in a composite
// literal / freshly allocated value (i.e. by a method or function working on an existing value)?
func fieldWrittenAfterConstruction(p *Program, method *ssa.Function, field string) bool {
	recvT := typeKey(method.Params[0].Type())
	written := false
	for _, fn := range p.SrcFuncs() {
		pk := fn.Pkg
		if pk == nil && fn.Parent() != nil {
			pk = fn.Parent().Pkg
		}
		if pk != method.Pkg {
			continue
		}
		allInstrs(fn, func(in ssa.Instruction) {
			st, ok := in.(*ssa.Store)
			if !ok {
				return
			}
			f, base, ok := fieldNameOf(st.Addr)
			if !ok || f != field || typeKey(base.Type()) != recvT {
				return
			}
			if _, fresh := base.(*ssa.Alloc); fresh {
				return
			}
			written = true
		})
	}
	return written
}

// ruleLiteralBinOpCtor: LiteralBinOp(iter, expr, value, left) applies the operation to every vector:
// each successful return is a literalBinOpIterator over iter whose operation is
// buildSampleBinOp(expr), whose scalar is value and whose side flag is left - never the input
// iterator itself (which would skip the operation) and never a constant side.
func ruleLiteralBinOpCtor(r *Run) {
	p := r.P
	mp := modPath + "/" + metricPkg
	fn := p.Func(metricPkg, "LiteralBinOp")
	o := r.Ob("PV-ROLE", "logqlmetric.LiteralBinOp", "a vector-scalar operation always goes through the literal iterator: LiteralBinOp returns &literalBinOpIterator{iter, buildSampleBinOp(expr), value, left} on every successful path")
	if fn == nil || len(fn.Params) != 4 {
		o.Fail("-", "function not found")
		return
	}
	// helpers are followed except buildSampleBinOp, whose result is the operation itself
	mpSample := p.Func(metricPkg, "buildSampleBinOp")
	base := inlineHelpers(fn)
	w := &feWalker{Fn: fn, MaxPath: 2000, Inline: func(c *ssa.Function, d int) bool { return c != mpSample && base(c, d) }}
	n, bad := 0, false
	for _, e := range w.Run() {
		if isErr, known := endReturnsError(e); !known || isErr {
			continue
		}
		if len(e.Results) != 2 {
			continue
		}
		n++
		st := e.State
		unspill := func(v ssa.Value) ssa.Value {
			if v == nil {
				return nil
			}
			return unspillValue(w.evalVal(st, unspillValue(v)).V)
		}
		al, ok := stripTypeOnly(e.Results[0].V).(*ssa.Alloc)
		if !ok || typeKey(al.Type()) != "literalBinOpIterator" {
			bad = true
			o.Fail(r.pos(e.Term.Pos()), "a successful path returns %s instead of a literalBinOpIterator: the operation is not applied on that path", describe(e.Results[0].V, 1))
			continue
		}
		fs := allocFieldStores(al)
		if unspill(fs["iter"]) != ssa.Value(fn.Params[0]) {
			bad = true
			o.Fail(r.pos(e.Term.Pos()), "the literal iterator reads from %s, not from the iter parameter", describe(fs["iter"], 1))
		}
		if c, idx, ok := extractOf(unspill(fs["op"])); !ok || idx != 0 || !callIs(c, mp, "buildSampleBinOp") || unspill(c.Call.Args[0]) != ssa.Value(fn.Params[1]) {
			bad = true
			o.Fail(r.pos(e.Term.Pos()), "the operation is %s, not buildSampleBinOp(expr)", describe(fs["op"], 1))
		}
		if unspill(fs["value"]) != ssa.Value(fn.Params[2]) {
			bad = true
			o.Fail(r.pos(e.Term.Pos()), "the scalar is %s, not the value parameter", describe(fs["value"], 1))
		}
		if unspill(fs["left"]) != ssa.Value(fn.Params[3]) {
			bad = true
			o.Fail(r.pos(e.Term.Pos()), "the side flag is %s, not the left parameter", describe(fs["left"], 1))
		}
	}
	if n == 0 {
		bad = true
		o.Fail(r.pos(fn.Pos()), "no successful path")
	}
	if !bad {
		o.OK("%d successful path(s), each builds the literal iterator from the four parameters", n).At(r.pos(fn.Pos()))
	}
}

func unspillValue(v ssa.Value) ssa.Value { return unspill(v) }
