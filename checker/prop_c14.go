package main

func init() {
	register(&PropSpec{
		ID:          "C14",
		Technique:   "path-sensitive ownership typestate (acquire/close/return/wrap with defer idioms) over feasible SSA paths; sibling cross-check of Close/Err wrappers; error-propagation rules",
		Explanation: "Decides, for every failure position and both query kinds, the structural clauses: each opened iterator/reader is closed, returned or wrapped on every path (including failure paths and constructor failures); every wrapper's Close/Err reaches every wrapped resource; consumer loops report Err(); errors of the I/O and evaluation chain reach failure exits; the concurrent open's cleanup covers every slot.",
		Decided: []string{
			"OWN-PATH: every acquisition site in dockerlog/logqlengine/logqlmetric disposes of its resource on every feasible path",
			"OWN-WRAP / ERR-CHAIN: Close() and Err() of every wrapper type cover every resource field on every path and use the result",
			"OWN-CLEANUP: SelectLogs' deferred cleanup is registered before the goroutines, closes every non-nil slot on failure, visits all slots",
			"ERR-LOOP: groupEntries, ReadStepResponse, iterators.ForEach check Err() before a successful return",
			"ERR-PROP: errors of ContainerList/ContainerLogs/openLog/parseNext/selectLogs/Build/ReadStepResponse/evalExpr/Eval reach failure exits",
			"PV-GO: concurrent opens join before cleanup/merge",
			"ERR-STICKY: a failure recorded in the field an iterator's Err() reports is never overwritten by a possibly-nil value (consumers call Next again after false: rangeAggIterator does at every step)",
			"C03's decoder rules (stream read API, fault exits) are re-checked here: a malformed frame at any position is an error",
			"PF-NILCLOSE: deferred cleanups of values returned with an error are registered under err == nil",
			"PV-WHOLE: every successful evaluation returns a typed response",
			"PV-PAIR buildLineFilter returns a freshly built filter or an error (no silent no-op for an invalid stage)",
			"PV-GUARD wrappers return false only where their source did (so Err() explains every end)",
		},
		NotDecided: []string{"that Close of the Docker client's body releases the connection", "double close", "context cancellation"},
		Rules: func(r *Run) {
			rels := []string{dockerlogPkg, enginePkg, metricPkg}
			ruleOwnPath(r, rels)
			ruleOwnWrap(r, rels)
			ruleSelectLogsCleanup(r)
			ruleErrLoop(r, []string{enginePkg, metricPkg, itersPkg})
			rulePVGo(r)
			ruleErrChainC14(r)
			ruleDaemonLog(r)
			ruleErrSticky(r, []string{dockerlogPkg, enginePkg, metricPkg, itersPkg, lexerPkg}, 1)
			rulePFDeferNil(r, []string{enginePkg, metricPkg, dockerlogPkg, cmdPkg})
			ruleResultKindSet(r)
			ruleLineFilterBuilder(r) // an invalid stage is an error, not a no-op
			ruleIterEndsWithSource(r)
		},
	})
}

func ruleErrChainC14(r *Run) {
	p := r.P
	type fnRef struct{ rel, recv, name string }
	for _, f := range []fnRef{
		{dockerlogPkg, "*Querier", "SelectLogs"}, {dockerlogPkg, "*Querier", "openLog"}, {dockerlogPkg, "*Querier", "fetchContainers"},
		{dockerlogPkg, "*streamIter", "parseNext"},
		{enginePkg, "*Engine", "selectLogs"}, {enginePkg, "*Engine", "evalLogExpr"}, {enginePkg, "*Engine", "evalExpr"}, {enginePkg, "*Engine", "Eval"},
		{enginePkg, "", "groupEntries"}, {enginePkg, "", "newSampleIterator"}, {enginePkg, "", "BuildPipeline"},
		{metricPkg, "", "build"}, {metricPkg, "", "ReadStepResponse"}, {metricPkg, "", "RangeAggregation"}, {metricPkg, "", "VectorAggregation"},
		{metricPkg, "", "BinOp"}, {metricPkg, "", "LiteralBinOp"},
	} {
		fn := resolveFn(p, f.rel, f.recv, f.name)
		if fn == nil {
			r.Ob("ANCHOR", shortRel(f.rel)+"."+f.name, "anchor function resolves").Fail("-", "function not found")
			continue
		}
		opts := errPropOpts{}
		if f.name == "parseNext" {
			opts.AllowSentinel = map[string][]string{"io.ReadFull": {"io.EOF", "io.ErrUnexpectedEOF"}}
		}
		ruleErrProp(r, fn, opts)
	}
	// closures: sampleSelector's returned func, SelectLogs' goroutine body
	for _, parent := range []fnRef{{enginePkg, "*Engine", "sampleSelector"}, {dockerlogPkg, "*Querier", "SelectLogs"}} {
		fn := resolveFn(p, parent.rel, parent.recv, parent.name)
		if fn == nil {
			continue
		}
		for _, a := range fn.AnonFuncs {
			res := a.Signature.Results()
			if res.Len() > 0 && isErrorType(res.At(res.Len()-1).Type()) {
				ruleErrProp(r, a, errPropOpts{})
			}
		}
	}
}
