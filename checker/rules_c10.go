package main

import (
	"fmt"
	"go/constant"
	"go/token"
	"go/types"
	"sort"
	"strings"

	"golang.org/x/tools/go/ssa"
)

// constBytes returns the constant bytes a value denotes: a string constant or
// a []byte{...} composite of constants.
func constBytes(v ssa.Value) ([]byte, bool) {
	if s, ok := constStr(v); ok {
		return []byte(s), true
	}
	if c, ok := constOf(v); ok && c.Kind() == constant.Int {
		i, _ := constant.Int64Val(c)
		if i >= 0 && i < 256 {
			return []byte{byte(i)}, true
		}
	}
	// slice of a local array filled with constants, possibly held in a captured cell
	v = stripTypeOnly(v)
	if u, ok := v.(*ssa.UnOp); ok && u.Op == token.MUL {
		switch cell := u.X.(type) {
		case *ssa.Alloc:
			if st := storesTo(cell); len(st) == 1 {
				return constBytes(st[0].Val)
			}
		case *ssa.FreeVar:
			fn := cell.Parent()
			idx := -1
			for i, f := range fn.FreeVars {
				if f == cell {
					idx = i
				}
			}
			var res []byte
			found := false
			if fn.Parent() != nil {
				allInstrs(fn.Parent(), func(in ssa.Instruction) {
					if mc, ok := in.(*ssa.MakeClosure); ok && mc.Fn == ssa.Value(fn) && idx >= 0 && idx < len(mc.Bindings) {
						if al, ok := mc.Bindings[idx].(*ssa.Alloc); ok {
							if st := storesTo(al); len(st) == 1 {
								if b, ok := constBytes(st[0].Val); ok {
									res, found = b, true
								}
							}
						}
					}
				})
			}
			return res, found
		}
	}
	if sl, ok := v.(*ssa.Slice); ok {
		if arr, ok := sl.X.(*ssa.Alloc); ok {
			at, ok := arr.Type().Underlying().(*types.Pointer)
			if !ok {
				return nil, false
			}
			a, ok := at.Elem().Underlying().(*types.Array)
			if !ok {
				return nil, false
			}
			out := make([]byte, a.Len())
			filled := 0
			for _, ref := range *arr.Referrers() {
				ia, ok := ref.(*ssa.IndexAddr)
				if !ok {
					continue
				}
				idx, ok := constInt(ia.Index)
				if !ok {
					return nil, false
				}
				for _, st := range storesTo(ia) {
					c, ok := constInt(st.Val)
					if !ok {
						return nil, false
					}
					out[idx] = byte(c)
					filled++
				}
			}
			if int64(filled) == a.Len() {
				return out, true
			}
		}
	}
	return nil, false
}

func hasNonUTF8Byte(b []byte) bool {
	for _, c := range b {
		if c >= 0xf8 || c == 0xc0 || c == 0xc1 {
			return true
		}
	}
	return false
}

// ruleInjectiveEncoder (PV-INJKEY): in a key encoder every variable-length
// string written to the sink is quoted, or is terminated by a constant that
// cannot occur inside it.
func ruleInjectiveEncoder(r *Run, fn *ssa.Function, name string, sinkPkg, sinkType string, nameLikeOK bool) {
	o := r.Ob("PV-INJKEY", name, "the encoding is injective: every variable string written is quoted or terminated by a delimiter that cannot occur inside it, so different label sets never produce the same key")
	if fn == nil {
		o.Fail("-", "function not found")
		return
	}
	type wr struct {
		call     ssa.CallInstruction
		variable bool
		quoted   bool
		nameLike bool
		bytes    []byte
	}
	nVar := 0
	bad := false
	// the writes may sit in the function or in helpers it hands the sink to
	var blocks []*ssa.BasicBlock
	for _, gf := range funcGroup(fn) {
		blocks = append(blocks, gf.Blocks...)
	}
	for _, b := range blocks {
		var seq []wr
		for _, in := range b.Instrs {
			c, ok := in.(ssa.CallInstruction)
			if !ok {
				continue
			}
			callee := staticCallee(c)
			if callee == nil || callee.Signature.Recv() == nil {
				continue
			}
			if !strings.HasPrefix(cname(callee), "Write") {
				continue
			}
			rt := namedOf(callee.Signature.Recv().Type())
			if rt == nil || rt.Obj().Name() != sinkType || rt.Obj().Pkg() == nil || rt.Obj().Pkg().Path() != sinkPkg {
				continue
			}
			arg := c.Common().Args[1]
			w := wr{call: c}
			if bs, ok := constBytes(arg); ok {
				w.bytes = bs
			} else {
				w.variable = true
				nVar++
				if qc, ok := arg.(*ssa.Call); ok && callIs(qc, "strconv", "Quote") {
					w.quoted = true
				}
				// label names: a conversion from the Label type, or the ranged key
				if cv, ok := arg.(*ssa.Convert); ok && typeKey(cv.X.Type()) == "Label" {
					w.nameLike = true
				}
				if cv, ok := arg.(*ssa.ChangeType); ok && typeKey(cv.X.Type()) == "Label" {
					w.nameLike = true
				}
			}
			seq = append(seq, w)
		}
		for i, w := range seq {
			if !w.variable || w.quoted {
				continue
			}
			var next *wr
			if i+1 < len(seq) {
				next = &seq[i+1]
			}
			switch {
			case next != nil && !next.variable && hasNonUTF8Byte(next.bytes):
			case next != nil && !next.variable && w.nameLike && nameLikeOK:
			default:
				bad = true
				what := "nothing"
				if next != nil && next.variable {
					what = "another variable string"
				} else if next != nil {
					what = fmt.Sprintf("the constant %q, which may also occur inside the string", string(next.bytes))
				}
				o.Fail(r.pos(w.call.Pos()), "the variable string %s is written unquoted and followed by %s: two different label sets can produce the same bytes", describe(w.call.Common().Args[1], 0), what)
			}
		}
	}
	if nVar == 0 {
		o.Undecide(r.pos(fn.Pos()), "no variable write to a %s found", sinkType)
		return
	}
	if !bad {
		o.OK("%d variable write(s), each quoted or safely terminated", nVar).At(r.pos(fn.Pos()))
	}
}

func ruleKeyEncoders(r *Run) {
	p := r.P
	// aggregatedLabels.Key: the closure passed to forEach
	key := p.Method(enginePkg, "aggregatedLabels", "Key")
	var enc *ssa.Function
	if key != nil {
		for _, a := range key.AnonFuncs {
			enc = a
		}
		if enc == nil {
			enc = key
		}
	}
	ruleInjectiveEncoder(r, enc, "logqlengine.(*aggregatedLabels).Key", "github.com/cespare/xxhash/v2", "Digest", false)
	// Key and AsLokiAPI enumerate labels through the same helper
	o := r.Ob("CH-SIB", "logqlengine.(*aggregatedLabels).Key/AsLokiAPI", "the grouping key and the reported label set enumerate the visible labels through the same helper, so they always see the same labels")
	as := p.Method(enginePkg, "aggregatedLabels", "AsLokiAPI")
	if key == nil || as == nil {
		o.Fail("-", "methods not found")
	} else {
		uses := func(f *ssa.Function) bool {
			for _, c := range callsIn(f) {
				if callIs(c, modPath+"/"+enginePkg, "(*aggregatedLabels).forEach") && c.Common().Args[0] == ssa.Value(f.Params[0]) {
					return true
				}
			}
			return false
		}
		// predicate form: both range over a.entries and gate each entry by the same first-party
		// predicate(s) on the entry's name
		gates := func(f *ssa.Function) (string, bool) {
			var names []string
			for _, l := range rangeIndexLoops(f) {
				if fl, base, ok := loadOfField(l.X); !ok || fl != "entries" || base != ssa.Value(f.Params[0]) {
					continue
				}
				for b := range l.Blocks {
					for _, in := range b.Instrs {
						c, ok := in.(*ssa.Call)
						if !ok {
							continue
						}
						callee := staticCallee(c)
						if callee == nil || callee.Signature.Recv() == nil || len(c.Call.Args) != 2 || c.Call.Args[0] != ssa.Value(f.Params[0]) {
							continue
						}
						if bt, ok := c.Type().Underlying().(*types.Basic); !ok || bt.Kind() != types.Bool {
							continue
						}
						if fl, _, ok := loadOfField(c.Call.Args[1]); ok && fl == "name" {
							names = append(names, callee.Name())
						}
					}
				}
			}
			sort.Strings(names)
			return strings.Join(names, ","), len(names) > 0
		}
		gk, okk := gates(key)
		ga, oka := gates(as)
		// ... and neither adds a condition of its own inside the enumeration callback: what the key
		// hashes is what the label set reports
		unconditional := func(f *ssa.Function) bool {
			for _, a := range f.AnonFuncs {
				var ev ssa.Instruction
				allInstrs(a, func(in ssa.Instruction) {
					switch x := in.(type) {
					case *ssa.MapUpdate:
						ev = x
					case *ssa.Call:
						if callee := staticCallee(x); callee != nil && strings.Contains(pkgPathOf(callee), "xxhash") && callee.Name() == "WriteString" && ev == nil {
							ev = x
						}
					}
				})
				if ev == nil {
					continue
				}
				for _, ret := range returnsOf(a) {
					if !instrDominates(ev, ret) {
						return false
					}
				}
			}
			return true
		}
		if uses(key) && uses(as) && (!unconditional(key) || !unconditional(as)) {
			o.Fail(r.pos(as.Pos()), "Key or AsLokiAPI skips some of the enumerated labels by a condition of its own: two label sets with different keys can report the same labels (or the reverse)")
		} else if uses(key) && uses(as) {
			o.OK("both call a.forEach").At(r.pos(key.Pos()))
		} else if okk && oka && gk == ga {
			o.OK("both range over a.entries gated by %s(e.name)", gk).At(r.pos(key.Pos()))
		} else {
			o.Fail(r.pos(key.Pos()), "Key uses forEach=%v, AsLokiAPI uses forEach=%v", uses(key), uses(as))
		}
		// Key returns the hash of exactly that digest
		ok2 := r.Ob("PV-PAIR", "logqlengine.(*aggregatedLabels).Key result", "the key is the Sum64 of the digest the labels were written to")
		good := false
		for _, ret := range returnsOf(key) {
			if c, ok := ret.Results[0].(*ssa.Call); ok && callIs(c, "github.com/cespare/xxhash/v2", "(*Digest).Sum64") {
				good = true
			}
		}
		if good {
			ok2.OK("returns h.Sum64()").At(r.pos(key.Pos()))
		} else {
			ok2.Fail(r.pos(key.Pos()), "Key does not return the digest's Sum64")
		}
	}
	ruleForEachVisibility(r)
}

// ruleForEachVisibility: without hides, a non-nil by restricts.
func ruleForEachVisibility(r *Run) {
	p := r.P
	fn := p.Method(enginePkg, "aggregatedLabels", "forEach")
	o := r.Ob("FE-BOOL", "logqlengine.(*aggregatedLabels).forEach", "a label is visible iff it is not in the without-set and (there is no by-set or it is in the by-set); every entry is visited")
	// without an enumerating helper the key encoder itself is the enumeration: a label is visible
	// iff it is fed to the hash
	viaKey := false
	if fn == nil {
		fn = p.Method(enginePkg, "aggregatedLabels", "Key")
		viaKey = true
	}
	if fn == nil {
		o.Fail("-", "method not found")
		return
	}
	isEvent := func(c ssa.CallInstruction) bool {
		if !viaKey {
			return len(fn.Params) > 1 && c.Common().Value == ssa.Value(fn.Params[1])
		}
		callee := staticCallee(c)
		return callee != nil && strings.Contains(pkgPathOf(callee), "xxhash") && (callee.Name() == "WriteString" || callee.Name() == "Write")
	}
	var loop *rangeLoop
	for _, l := range rangeIndexLoops(fn) {
		if f, base, ok := loadOfField(l.X); ok && f == "entries" && base == ssa.Value(fn.Params[0]) {
			loop = l
		}
	}
	if loop == nil {
		o.Fail(r.pos(fn.Pos()), "no range loop over the whole a.entries")
		return
	}
	if len(loop.earlyExits()) > 0 {
		o.Fail(r.pos(fn.Pos()), "the loop can be left before every entry is visited")
		return
	}
	var okWithout, okBy, byNonNil []ssa.Value
	var byTrueWhenNonNil bool
	isAggField := func(v ssa.Value, name string) bool {
		f, base, ok := loadOfField(v)
		return ok && f == name && typeKey(base.Type()) == "aggregatedLabels"
	}
	scan := func(in ssa.Instruction) {
		switch x := in.(type) {
		case *ssa.Lookup:
			if !x.CommaOk {
				return
			}
			for _, ref := range *x.Referrers() {
				if e, ok := ref.(*ssa.Extract); ok && e.Index == 1 {
					switch {
					case isAggField(x.X, "without"):
						okWithout = append(okWithout, e)
					case isAggField(x.X, "by"):
						okBy = append(okBy, e)
					}
				}
			}
		case *ssa.BinOp:
			if v, nn, ok := nilCheck(x); ok && isAggField(v, "by") {
				byNonNil = append(byNonNil, x)
				byTrueWhenNonNil = nn
			}
		}
	}
	for _, gf := range funcGroup(fn) {
		for _, b := range gf.Blocks {
			if gf == fn && !loop.Blocks[b] {
				continue
			}
			for _, in := range b.Instrs {
				scan(in)
			}
		}
	}
	if len(okWithout) != 1 || len(okBy) != 1 || len(byNonNil) != 1 {
		// len(a.by) > 0 style tests are not the nil/non-nil distinction the fix relies on
		o.Fail(r.pos(fn.Pos()), "expected one without-lookup, one by-lookup and one `by != nil` test in the loop (found %d, %d, %d): an empty by-set (`by ()`) must hide every label", len(okWithout), len(okBy), len(byNonNil))
		return
	}
	bad := false
	for _, inW := range []bool{false, true} {
		for _, hasBy := range []bool{false, true} {
			for _, inBy := range []bool{false, true} {
				assume := map[ssa.Value]constant.Value{
					okWithout[0]: constant.MakeBool(inW),
					okBy[0]:      constant.MakeBool(inBy),
					byNonNil[0]:  constant.MakeBool(hasBy == byTrueWhenNonNil),
				}
				w := &feWalker{Fn: fn, Assume: assume, Inline: inlineHelpers(fn)}
				called := false
				for _, e := range w.RunFrom(loop.Body, loop.Header) {
					for _, c := range e.State.calls {
						if isEvent(c.Call) && c.Call.Block() != nil && (!viaKey || loop.Blocks[c.Call.Block()]) {
							// only count calls made before returning to the header the first time
							called = true
						}
					}
					_ = e
				}
				// restrict to first iteration: a second iteration repeats the same decision, so `called` is the decision
				want := !inW && (!hasBy || inBy)
				if called != want {
					bad = true
					o.Fail(r.pos(fn.Pos()), "label in without-set=%v, by-set present=%v, label in by-set=%v: visible=%v, expected %v", inW, hasBy, inBy, called, want)
				}
			}
		}
	}
	if !bad {
		// the callback receives the entry's own name and value
		var cb *ssa.Call
		for b := range loop.Blocks {
			for _, in := range b.Instrs {
				if c, ok := in.(*ssa.Call); ok && !viaKey && c.Call.Value == ssa.Value(fn.Params[1]) {
					cb = c
				}
			}
		}
		if cb != nil {
			f0, _, ok0 := loadOfField(cb.Call.Args[0])
			f1, _, ok1 := loadOfField(cb.Call.Args[1])
			if !(ok0 && ok1 && f0 == "name" && f1 == "value") {
				bad = true
				o.Fail(r.pos(cb.Pos()), "the callback receives (%s, %s), not (e.name, e.value)", describe(cb.Call.Args[0], 0), describe(cb.Call.Args[1], 0))
			}
		}
	}
	if !bad {
		o.OK("truth table over (in without, by present, in by) matches; cb(e.name, e.value)").At(r.pos(fn.Pos()))
	}
}

// ruleKeyedStores (PV-PAIR): whenever a series/group/sample is stored or looked
// up under a grouping key, the key is Key() of the very label set stored with it.
func ruleKeyedStores(r *Run) {
	p := r.P
	type site struct {
		rel, recv, fn string
		grouped       bool   // the label set must be the result of the grouper
		setField      string // field of the stored value that carries the label set
	}
	sites := []site{
		{metricPkg, "*rangeAggIterator", "fillWindow", true, "Set"},
		{metricPkg, "*vectorAggIterator", "Next", true, "metric"},
		{metricPkg, "*vectorAggHeapIterator", "Next", true, "metric"},
		{metricPkg, "", "ReadStepResponse", false, "Metric"},
		{metricPkg, "*binOpIterator", "Next", false, ""},
		{metricPkg, "", "samplesSet", true, ""},
	}
	for _, s := range sites {
		fn := resolveFn(p, s.rel, s.recv, s.fn)
		if fn == nil && s.fn == "samplesSet" {
			// whatever builds the set of grouping keys for the set operators
			if mo := p.Func(metricPkg, "buildMergeSamplesOp"); mo != nil {
				seen := map[*ssa.Function]bool{}
				var builders []*ssa.Function
				allInstrs(mo, func(in ssa.Instruction) {
					for _, op := range in.Operands(nil) {
						if op == nil || *op == nil {
							continue
						}
						if f := funcOfValue(*op); f != nil {
							for _, sb := range setBuildLoops(funcGroup(f)) {
								if !seen[sb.Fn] {
									seen[sb.Fn] = true
									builders = append(builders, sb.Fn)
								}
							}
						}
					}
				})
				if len(builders) == 1 {
					fn = builders[0]
				}
			}
		}
		name := shortRel(s.rel) + "." + s.fn
		if s.recv != "" {
			name = shortRel(s.rel) + ".(" + s.recv + ")." + s.fn
		}
		o := r.Ob("PV-PAIR", name+" keyed store", "the map key is Key() of the label set that is stored (or matched) under it"+map[bool]string{true: ", and that label set is the grouped one", false: ""}[s.grouped])
		if fn == nil {
			o.Fail("-", "function not found")
			continue
		}
		n := 0
		bad := false
		group := funcGroup(fn)
		var keyAlias ssa.Value // X as seen by the caller when the key comes out of a (X, key) helper
		keyOK := func(k ssa.Value, at ssa.Instruction) (ssa.Value, bool) {
			// the second result of a small helper returning (X, X.Key()) stands for X.Key()
			keyAlias = nil
			if ex, isEx := k.(*ssa.Extract); isEx {
				if hc, isCall := ex.Tuple.(*ssa.Call); isCall {
					if callee := staticCallee(hc); callee != nil && callee.Blocks != nil && len(callee.Blocks) <= 4 && pkgOfFunc(callee) == pkgOfFunc(fn) {
						if rets := returnsOf(callee); len(rets) == 1 && ex.Index < len(rets[0].Results) {
							if inner, isC := rets[0].Results[ex.Index].(*ssa.Call); isC {
								k = inner
								// the caller sees X as the helper's other result
								if invokeIs(inner, "Key") {
									for ri, rv := range rets[0].Results {
										if rv == inner.Call.Value && hc.Referrers() != nil {
											for _, ref := range *hc.Referrers() {
												if e2, ok := ref.(*ssa.Extract); ok && e2.Index == ri {
													keyAlias = e2
												}
											}
										}
									}
								}
							}
						}
					}
				}
			}
			kc, ok := k.(*ssa.Call)
			// a small helper that returns X.Key() stands for it
			for d := 0; ok && d < 3 && !invokeIs(kc, "Key"); d++ {
				callee := staticCallee(kc)
				if callee == nil || callee.Blocks == nil || len(callee.Blocks) > 4 || pkgOfFunc(callee) != pkgOfFunc(fn) {
					break
				}
				rets := returnsOf(callee)
				if len(rets) != 1 || len(rets[0].Results) != 1 {
					break
				}
				inner, isCall := rets[0].Results[0].(*ssa.Call)
				if !isCall {
					break
				}
				kc = inner
			}
			if !ok || !invokeIs(kc, "Key") {
				bad = true
				o.Fail(r.pos(at.Pos()), "the map key is %s, not X.Key()", describe(k, 0))
				return nil, false
			}
			X := kc.Call.Value
			if s.grouped {
				gc, ok := X.(*ssa.Call)
				isGrouper := false
				if ok {
					if f, _, ok2 := loadOfField(gc.Call.Value); ok2 && f == "grouper" {
						isGrouper = true
					}
					// a function value (parameter / captured variable) of the grouper shape:
					// func(AggregatedLabels, ...string) AggregatedLabels
					if gc.Common().StaticCallee() == nil && !gc.Call.IsInvoke() && isGrouperSig(gc.Call.Value.Type()) {
						isGrouper = true
					}
				}
				if !isGrouper {
					bad = true
					o.Fail(r.pos(at.Pos()), "the key is computed from %s, not from the grouped label set (result of the grouper)", describe(X, 0))
					return nil, false
				}
			}
			return X, true
		}
		for _, gf := range group {
			allInstrs(gf, func(in ssa.Instruction) {
				switch x := in.(type) {
				case *ssa.MapUpdate:
					mt, ok := x.Map.Type().Underlying().(*types.Map)
					if !ok || typeString(mt.Key()) != "uint64" {
						return
					}
					// writing an entry back under the key it was read from while ranging over the same map is not a keyed match
					if ex, ok := x.Key.(*ssa.Extract); ok {
						if nx, ok := ex.Tuple.(*ssa.Next); ok {
							if rg, ok := nx.Iter.(*ssa.Range); ok && (rg.X == x.Map || describe(rg.X, 0) == describe(x.Map, 0)) {
								return
							}
						}
					}
					n++
					X, ok := keyOK(x.Key, x)
					if !ok || s.setField == "" {
						return
					}
					// a stored value that has no label-set field at all (the group is identified
					// by the key alone) has nothing to keep consistent with the key
					if vst := derefStruct(mt.Elem()); vst != nil {
						carries := false
						for i := 0; i < vst.NumFields(); i++ {
							if canonName(vst.Field(i)) == s.setField || types.Identical(vst.Field(i).Type(), X.Type()) {
								carries = true
							}
						}
						if !carries {
							return
						}
					}
					// the stored value's label-set field derives from X
					if !valueCarriesSet(x.Value, s.setField, X) && !(keyAlias != nil && valueCarriesSet(x.Value, s.setField, keyAlias)) {
						bad = true
						o.Fail(r.pos(x.Pos()), "the value stored under X.Key() does not carry X in its %s field", s.setField)
					}
				case *ssa.Lookup:
					mt, ok := x.X.Type().Underlying().(*types.Map)
					if !ok || typeString(mt.Key()) != "uint64" {
						return
					}
					// enumeration of the map's own keys (sortedKeys(m)[i]) is not a keyed match
					if lu, ok := x.Index.(*ssa.UnOp); ok {
						if ia, ok := lu.X.(*ssa.IndexAddr); ok {
							if kc, ok := ia.X.(*ssa.Call); ok && len(kc.Call.Args) == 1 && kc.Call.Args[0] == x.X {
								return
							}
						}
					}
					n++
					keyOK(x.Index, x)
				}
			})
		}
		if n == 0 {
			o.Fail(r.pos(fn.Pos()), "no store or lookup keyed by a grouping key found")
			continue
		}
		if !bad {
			o.OK("%d keyed map operation(s) use Key() of the stored label set", n).At(r.pos(fn.Pos()))
		}
	}
}

func typeString(t types.Type) string { return types.TypeString(types.Unalias(t), nil) }

// valueCarriesSet: v (a struct load or pointer) has field `field` assigned from X
// (directly, or X.AsLokiAPI()).
func valueCarriesSet(v ssa.Value, field string, X ssa.Value) bool {
	derives := func(val ssa.Value) bool {
		val = stripTypeOnly(val)
		if val == X || describe(val, 0) == describe(X, 0) {
			return true
		}
		if c, ok := val.(*ssa.Call); ok && invokeIs(c, "AsLokiAPI") && (c.Call.Value == X || describe(c.Call.Value, 0) == describe(X, 0)) {
			return true
		}
		return false
	}
	var base ssa.Value
	switch x := v.(type) {
	case *ssa.UnOp:
		base = x.X // load of a struct cell
	case *ssa.Alloc:
		base = x
	case *ssa.Phi:
		for _, e := range x.Edges {
			if valueCarriesSet(e, field, X) {
				return true
			}
		}
		return false
	default:
		return false
	}
	al, ok := base.(*ssa.Alloc)
	if !ok {
		return false
	}
	for _, ref := range *al.Referrers() {
		fa, ok := ref.(*ssa.FieldAddr)
		if !ok {
			continue
		}
		n, _, _ := fieldNameOf(fa)
		if n != field {
			continue
		}
		for _, st := range storesTo(fa) {
			if derives(st.Val) {
				return true
			}
		}
		// ser.Metric.SetTo(X.AsLokiAPI())
		for _, r2 := range *fa.Referrers() {
			if c, ok := r2.(ssa.CallInstruction); ok {
				for _, a := range c.Common().Args {
					if derives(a) {
						return true
					}
				}
			}
		}
	}
	return false
}

// ruleFreshMaps (PV-FRESH): a helper that inserts into a map parameter is only
// ever given nil or a freshly cloned/made map, so label sets never share a
// mutable by/without set.
func ruleFreshMaps(r *Run) {
	p := r.P
	// find first-party functions that MapUpdate a parameter
	mutators := map[*ssa.Function]int{}
	for _, fn := range p.SrcFuncs() {
		allInstrs(fn, func(in ssa.Instruction) {
			mu, ok := in.(*ssa.MapUpdate)
			if !ok {
				return
			}
			for _, lv := range phiLeaves(mu.Map) {
				for i, prm := range fn.Params {
					if lv == ssa.Value(prm) {
						mutators[fn] = i
					}
				}
			}
		})
	}
	o := r.Ob("PV-FRESH", "map-mutating helpers", "functions that insert into a map they are given (buildSet) receive only nil or a fresh copy: the by/without sets of one label set are never shared with, and mutated through, another")
	if len(mutators) == 0 {
		o.OK("no helper mutates a map parameter")
		o.Trivial = true
		return
	}
	bad := false
	n := 0
	for _, fn := range p.SrcFuncs() {
		for _, c := range callsIn(fn) {
			callee := staticCallee(c)
			if callee == nil {
				continue
			}
			if callee.Origin() != nil {
				callee = callee.Origin()
			}
			idx, ok := mutators[callee]
			if !ok || fn == callee {
				continue
			}
			if !strings.HasSuffix(callee.Pkg.Pkg.Path(), enginePkg) {
				continue
			}
			n++
			arg := c.Common().Args[idx]
			fresh := false
			if isNilConst(arg) {
				fresh = true
			}
			if ac, ok := arg.(*ssa.Call); ok {
				pkg, name := calleePkgName(ac)
				if (pkg == "maps" || pkg == "golang.org/x/exp/maps") && name == "Clone" {
					fresh = true
				}
			}
			if _, ok := arg.(*ssa.MakeMap); ok {
				fresh = true
			}
			if !fresh {
				bad = true
				o.Fail(r.pos(c.Pos()), "%s passes %s to %s, which inserts into it: the map is shared with the receiver and every label set derived from it", shortFuncName(fn), describe(arg, 0), shortFuncName(callee))
			}
		}
	}
	if !bad {
		o.OK("%d call site(s) pass nil / maps.Clone / make", n)
	}
}

func isGrouperSig(t types.Type) bool {
	sg, ok := t.Underlying().(*types.Signature)
	if !ok || sg.Params().Len() != 2 || sg.Results().Len() != 1 || !sg.Variadic() {
		return false
	}
	return strings.HasSuffix(sg.Params().At(0).Type().String(), "AggregatedLabels") && strings.HasSuffix(sg.Results().At(0).Type().String(), "AggregatedLabels")
}

// ruleSampleLabelSet: a sample's series is the label set of the entry it was taken from:
// sampleIterator.Next stores into the sample exactly newAggregatedLabels(that entry's set, by,
// without) - built for this entry, on every emitting path (never a set remembered from another entry).
func ruleSampleLabelSet(r *Run) {
	p := r.P
	ep := modPath + "/" + enginePkg
	fn := p.Method(enginePkg, "sampleIterator", "Next")
	o := r.Ob("PV-PAIR", "logqlengine.(*sampleIterator).Next label set", "the label set stored in a sample is built from the labels of the entry that was just read (newAggregatedLabels(e.set, by, without)), for every sample")
	if fn == nil || len(fn.Params) != 2 {
		o.Fail("-", "method not found")
		return
	}
	// the entry cell that iter.Next fills
	var entryCell ssa.Value
	for _, c := range callsIn(fn) {
		if call, ok := c.(*ssa.Call); ok && invokeIs(call, "Next") && len(call.Call.Args) == 1 {
			entryCell = call.Call.Args[0]
		}
	}
	if entryCell == nil {
		o.Fail(r.pos(fn.Pos()), "the source iterator's Next call was not found")
		return
	}
	n, bad := 0, false
	for _, gf := range funcGroup(fn) {
		allInstrs(gf, func(in ssa.Instruction) {
			st, ok := in.(*ssa.Store)
			if !ok {
				return
			}
			f, base, ok := fieldNameOf(st.Addr)
			if !ok || f != "Set" || originValueIn(base, funcGroup(fn)) != ssa.Value(fn.Params[1]) {
				return
			}
			n++
			good := false
			for _, lv := range valueLeaves(stripTypeOnly(st.Val)) {
				lv = stripTypeOnly(lv)
				c, ok := lv.(*ssa.Call)
				if !ok || !callIs(c, ep, "newAggregatedLabels") || len(c.Call.Args) != 3 {
					good = false
					bad = true
					o.Fail(r.pos(st.Pos()), "the sample's label set is %s, not a set built from the entry that was just read", describe(lv, 1))
					continue
				}
				fl, b2, ok := loadOfField(unspill(c.Call.Args[0]))
				if !ok || fl != "set" || b2 != entryCell {
					bad = true
					o.Fail(r.pos(c.Pos()), "newAggregatedLabels is given %s, not the set of the entry that was just read", describe(c.Call.Args[0], 1))
					continue
				}
				good = true
			}
			_ = good
		})
	}
	if n == 0 {
		bad = true
		o.Fail(r.pos(fn.Pos()), "the sample's Set field is never written")
	}
	if !bad {
		o.OK("%d write(s): s.Set = newAggregatedLabels(e.set, i.by, i.without)", n).At(r.pos(fn.Pos()))
	}
}
