package main

func init() {
	register(&PropSpec{
		ID:          "C03",
		Technique:   "SSA provenance/constant rules against Docker's own stdcopy writer (reference sibling in the module cache), who-may-read rule on the daemon stream, path-sensitive error-propagation over feasible paths",
		Explanation: "Decides structural clauses of the Docker log-stream decoder for all byte streams and fragmentations: frame layout constants agree with docker/pkg/stdcopy, the stream is read only through io.ReadFull/io.CopyN with exactly the frame size, record fields come from the right parts of the line, every fault reaches a failure exit and the only clean end is the header EOF idiom.",
		Decided: []string{
			"ERR-CHAIN/OWN-WRAP (shared with C14): Err and Close of the stream and merge iterators reach every source; a header read failing with io.EOF or io.ErrUnexpectedEOF ends the stream cleanly",
			"PV-CONST: header length, type offset, size offset/width/endianness, Systemerr id equal stdcopy's; payload read = int64(frameSize)",
			"PV-API: the daemon stream is used only by io.ReadFull(rd, header[:]), io.CopyN(&buf, rd, n) and Close",
			"PV-ORDER: buf.Reset precedes the payload read; the body is buf.String() (a copy); package does not import unsafe",
			"ERR-PROP: header/payload/parse errors and systemerr frames reach failure exits; (false,nil) only on header EOF/ErrUnexpectedEOF; (true,nil) only after all steps",
			"PV-CONST: strings.Cut at the first space, time.RFC3339Nano, Body = rest, both timestamps from the parsed time; missing space is an error",
			"ERR-CHAIN: Next stores parseNext's error into the field Err returns; records carry the container's resource",
			"ERR-STICKY: that field is never overwritten once it holds a failure (a consumer that asks again after `false` cannot clear it)",
			"ERR-LOOP: every consumer loop of the decoded stream asks Err() before reporting success",
			"the merge-iterator rules of C04 (records of several decoded streams are handed on without loss) and ERR-CHAIN of the metric wrappers (a decode fault travels up through every Err())",
			"PV-ONCE groupEntries (decoded records are kept on the way out)",
			"ERR-PROP frame size: no failure exit of the frame decoder depends on the frame's size",
			"PV-ROLE openLog is given SelectLogs' own context",
			"PV-TOTAL NewTimestampFromTime converts every instant (no clamping to a constant)",
		},
		NotDecided: []string{"that io.ReadFull/io.CopyN/time.Parse meet their documented contracts", "nanosecond exactness of pcommon.NewTimestampFromTime", "frames larger than memory"},
		Rules: func(r *Run) {
			ruleOwnWrapScoped(r, []string{dockerlogPkg}, 2) // a stream that fails is reported: Err/Close of the stream and merge iterators reach every source
			ruleDaemonLog(r)
			ruleErrSticky(r, []string{dockerlogPkg}, 1)              // "never silently dropped": the recorded fault survives further Next calls
			ruleErrLoop(r, []string{enginePkg, metricPkg, itersPkg}) // a fault recorded by the decoder is asked for (Err) by every consumer loop before it reports success
			ruleMergeIter(r)                                         // records of several decoded streams are handed on without loss: the merge refills from the stream it popped
			ruleOwnWrapScoped(r, []string{metricPkg, enginePkg}, 2)  // a decode fault travels up through every wrapper's Err()
			ruleGroupEntries(r)                                      // decoded records are not lost on the way out: every entry of a stream is kept
			ruleFrameSizeNotJudged(r)
			ruleOpenLogContext(r) // the streams are read under the query context, not one that ends when the opening is done
			ruleTimestampConversionTotal(r)
		},
	})
}
