package main

func init() {
	register(&PropSpec{
		ID:          "C13",
		Technique:   "finite-case evaluation of the precedence-climbing guards over all operator pairs (abstract interpretation of SSA with constant folding), precedence table as an order relation",
		Explanation: "Decides operator precedence and associativity for all expressions, given the hand argument of DESIGN.md A.1: the Precedence table orders the conventional levels, and for every (current operator, look-ahead operator) pair the parser leaves or recurses exactly as precedence climbing requires; parentheses produce one operand and are stripped at every level before evaluation.",
		Decided: []string{
			"CH-MAP: BinOp.Precedence orders ^ > * / % > + - > comparisons > and unless > or, equal within a level, every operator classified",
			"FE-ORD: parseBinOp outer guard (stop iff prec(op) < min) and inner decision for all 15x15 operator pairs: looser -> leave, tighter -> recurse with prec(op) < k <= prec(look-ahead), equal -> left-assoc except ^",
			"PV-API/PV-ORDER: ( expr ) is parsed as one ParenExpr operand closed by ); UnparenExpr strips all levels; build and evalExpr dispatch on UnparenExpr(expr)",
			"FE-ORD: no path completes an operation without executing the look-ahead; an empty parenthesised operand yields no pairs (operands matched by key)",
			"CH-MAP of the sample operations (what each operator of a chain computes), with the operand-side tracer following conversions, arithmetic and loop-carried values",
			"PV-FRESH step buffers; PV-ROLE build constructs no expression node (no re-association or folding after parsing)",
			"PV-ROLE LiteralBinOp always builds the literal iterator (no neutral-element short cut); the lexer hands on the scanned text itself",
			"PV-PAIR scalar operand per sample; PV-ROLE build recursion one level at a time",
			"PV-ROLE build: scalar-left / scalar-right forms keep the sides and the operator as written (no normalisation through a swapped-operator table)",
			"PV-ONCE both sides advance",
		},
		NotDecided: []string{"operand parsing (parseMetricExpr1 productions other than parentheses) – C05", "evaluation of the resulting tree – C12"},
		Rules: func(r *Run) {
			rulePrecedenceTable(r)
			ruleParseBinOp(r)
			ruleParens(r)
			ruleBinOpPairsMatched(r) // what a parenthesised operand evaluates to: an empty operand yields no pairs
			ruleSampleBinOp(r)       // what a chain evaluates to: each operator computes its own function of (left, right)
			ruleStepBuffers(r)       // the in-place result of an inner operation never feeds a later step of an outer one
			ruleBuildKeepsTree(r)
			ruleLiteralBinOpCtor(r)
			ruleKeywordLookupExact(r)
			ruleUnitEvaluators(r)
			ruleLiteralOperandPerSample(r)
			ruleBuildDescendsOneLevel(r)
			ruleBinOpIterators(r) // a literal written on the left stays the left operand of its operator
			ruleBothSidesAdvance(r)
		},
	})
}
