#!/bin/bash
# usage: run_seeded_par.sh <N> <outfile> — run every seeded change against its property in N parallel shards
N=${1:-4}; OUT=${2:-/tmp/seed_par.log}
ls /verif/seeded | sort > /tmp/sd_dirs.$$
for i in $(seq 0 $((N-1))); do
  awk -v n=$N -v i=$i 'NR%n==i' /tmp/sd_dirs.$$ > /tmp/sd_list.$$.$i
  ( VERIFCHECK=${VERIFCHECK:-/verif/bin/verifcheck} /verif/tools/run_seeded.sh $(cat /tmp/sd_list.$$.$i) > /tmp/sd_shard.$$.$i 2>&1 ) &
done
wait
cat /tmp/sd_shard.$$.* | grep "^==" | sort > $OUT
rm -f /tmp/sd_dirs.$$ /tmp/sd_list.$$.* /tmp/sd_shard.$$.*
echo "done: $(grep -c CAUGHT $OUT) caught, $(grep -c MISSED $OUT) missed"
