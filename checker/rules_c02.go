package main

import (
	"go/constant"
	"go/token"
	"go/types"
	"sort"
	"strings"

	"golang.org/x/tools/go/ssa"
)

const dockerlogPkg = "internal/dockerlog"

// structLitStores collects, for a struct composite literal passed by value
// (load of a local Alloc), the values stored into its fields.
func structLitStores(v ssa.Value) (map[string]ssa.Value, bool) {
	u, ok := v.(*ssa.UnOp)
	if !ok || u.Op != token.MUL {
		return nil, false
	}
	al, ok := u.X.(*ssa.Alloc)
	if !ok {
		return nil, false
	}
	return allocFieldStores(al), true
}

func allocFieldStores(al *ssa.Alloc) map[string]ssa.Value {
	out := map[string]ssa.Value{}
	for _, ref := range *al.Referrers() {
		fa, ok := ref.(*ssa.FieldAddr)
		if !ok {
			continue
		}
		n, _, _ := fieldNameOf(fa)
		for _, st := range storesTo(fa) {
			out[n] = st.Val
		}
	}
	return out
}

// unspill follows a load of a local cell that has a single store.
func unspill(v ssa.Value) ssa.Value {
	for {
		u, ok := v.(*ssa.UnOp)
		if !ok || u.Op != token.MUL {
			return v
		}
		al, ok := u.X.(*ssa.Alloc)
		if !ok {
			return v
		}
		st := storesTo(al)
		if len(st) != 1 {
			return v
		}
		v = st[0].Val
	}
}

func ruleDockerMatch(r *Run) {
	p := r.P
	T := p.NamedType(logqlPkg, "BinOp")
	consts := enumConstants(T)
	// the function that decides one matcher against one label value: `match`, or whatever function of
	// containerLabels.Match's group dispatches on the matcher's operator
	fn := p.Func(dockerlogPkg, "match")
	mfAnchor := p.Method(dockerlogPkg, "containerLabels", "Match")
	if fn == nil && mfAnchor != nil {
		for _, gf := range funcGroup(mfAnchor) {
			if gf != mfAnchor && pickTag(gf, T, consts["OpEq"]) != nil && fn == nil {
				fn = gf
			}
		}
	}
	// the decision written out in containerLabels.Match itself (no separate deciding function)
	inlineMode := false
	if fn == nil && mfAnchor != nil && pickTag(mfAnchor, T, consts["OpEq"]) != nil {
		fn, inlineMode = mfAnchor, true
	}
	anchor := r.Ob("ANCHOR", "dockerlog.match", "anchor function resolves")
	anchor.Trivial = true
	if fn == nil {
		anchor.Fail("-", "function not found")
		return
	}
	anchor.OK("resolved").At(r.pos(fn.Pos()))
	tag := pickTag(fn, T, consts["OpEq"])
	if tag == nil {
		r.Ob("CH-POL", "dockerlog.match", "dispatch on the matcher operator").Undecide(r.pos(fn.Pos()), "no dispatch on m.Op found")
		return
	}
	// the matcher parameter and the label value under test: a string parameter, or the value looked up
	// in the label set by the matcher's label inside the function
	var m, s ssa.Value
	var innerLookup *ssa.Lookup
	for _, prm := range fn.Params {
		if typeKey(prm.Type()) == "LabelMatcher" {
			m = prm
		} else if isStringType(prm.Type()) {
			s = prm
		}
	}
	if inlineMode {
		// the matcher under test is the ranged element the operator is read from
		if _, base, ok := loadOfField(tag); ok {
			m = base
		}
	}
	// inline form: the If in the matcher loop that leaves it (the verdict on one matcher) and the
	// edge taken when the matcher was rejected
	var gate *ssa.If
	gateAcceptOnTrue := true
	var gateLoop *rangeLoop
	if inlineMode {
		for _, l := range rangeIndexLoops(fn) {
			if len(fn.Params) == 2 && l.X == ssa.Value(fn.Params[1]) {
				gateLoop = l
			}
		}
		if gateLoop != nil {
			for _, ex := range gateLoop.earlyExits() {
				if ifi, ok := ex[0].Instrs[len(ex[0].Instrs)-1].(*ssa.If); ok && gate == nil {
					gate = ifi
					gateAcceptOnTrue = ex[0].Succs[1] == ex[1]
				}
			}
		}
		if gate == nil {
			r.Ob("CH-POL", "dockerlog.match", "dispatch on the matcher operator").Undecide(r.pos(fn.Pos()), "the matcher loop of Match has no early exit that carries the verdict on one matcher")
			return
		}
	}
	if s == nil {
		allInstrs(fn, func(in ssa.Instruction) {
			if lk, ok := in.(*ssa.Lookup); ok {
				if mt, ok := lk.X.Type().Underlying().(*types.Map); ok && isStringType(mt.Elem()) {
					innerLookup = lk
					s = lk
					if lk.CommaOk {
						for _, ref := range *lk.Referrers() {
							if e, ok := ref.(*ssa.Extract); ok && e.Index == 0 {
								s = e
							}
						}
					}
				}
			}
		})
	}
	if m == nil || s == nil {
		r.Ob("CH-POL", "dockerlog.match", "dispatch on the matcher operator").Undecide(r.pos(fn.Pos()), "matcher parameter / label value under test not identified")
		return
	}
	// values are resolved on the path: the comparison may sit in a helper or in a
	// function taken from a table, whose parameters are bound to match's
	var res func(v ssa.Value) ssa.Value
	var evalBool func(v ssa.Value) (bool, bool)
	isMField := func(v ssa.Value, name string) bool {
		f, base, ok := loadOfField(v)
		return ok && f == name && (base == m || spillParam(base) == m || res(spillParam(base)) == m)
	}
	isS := func(v ssa.Value) bool { return v == s || unspill(v) == s || res(v) == s }
	var classify func(v ssa.Value) string
	classify = func(v ssa.Value) string {
		neg := false
		if u, ok := v.(*ssa.UnOp); ok && u.Op == token.NOT {
			neg, v = true, u.X
		}
		out := "?" + describe(v, 0)
		switch x := v.(type) {
		case *ssa.BinOp:
			if (isS(x.X) && isMField(x.Y, "Value")) || (isS(x.Y) && isMField(x.X, "Value")) {
				switch x.Op {
				case token.EQL:
					out = "eq"
				case token.NEQ:
					out = "not eq"
				}
			} else if x.Op == token.EQL || x.Op == token.NEQ {
				// boolean equivalence with a side the path decides: (value == m.Value) == (m.Op == OpEq)
				for _, pair := range [][2]ssa.Value{{x.X, x.Y}, {x.Y, x.X}} {
					if b, known := evalBool(pair[1]); known {
						inner := classify(pair[0])
						flip := (x.Op == token.EQL) != b
						if flip {
							if strings.HasPrefix(inner, "not ") {
								inner = strings.TrimPrefix(inner, "not ")
							} else {
								inner = "not " + inner
							}
						}
						out = inner
						break
					}
				}
			}
		case *ssa.Call:
			if callIs(x, "regexp", "(*Regexp).MatchString") && isMField(x.Call.Args[0], "Re") && isS(x.Call.Args[1]) {
				out = "re"
			}
		case *ssa.Const:
			if x.Value != nil && x.Value.Kind() == constant.Bool {
				if constant.BoolVal(x.Value) {
					out = "true"
				} else {
					out = "false"
				}
			}
		}
		if neg {
			if strings.HasPrefix(out, "not ") {
				return strings.TrimPrefix(out, "not ")
			}
			return "not " + out
		}
		return out
	}
	expected := map[string]string{"OpEq": "eq", "OpNotEq": "not eq", "OpRe": "re", "OpNotRe": "not re"}
	handled := map[string]bool{}
	for _, cr := range casesOfInline(fn, tag, consts, nil, nil, inlineHelpers(fn)) {
		if strings.HasPrefix(cr.Const, "_") {
			continue
		}
		want, listed := expected[cr.Const]
		if !listed {
			want = "false"
		}
		o := r.Ob("CH-POL", "dockerlog.match["+cr.Const+"]", "container matcher "+cr.Const+" is `"+want+"` of (label value, matcher value); != and !~ are the negations of = and =~")
		o.Trivial = !listed
		set := map[string]bool{}
		for _, e := range cr.Ends {
			if inlineMode && e.Cut {
				continue
			}
			if len(e.Results) != 1 {
				set["?"] = true
				continue
			}
			if inlineMode {
				// the verdict on the last matcher visited on this path: the gate's condition
				visited := false
				for _, b := range e.State.trail {
					if b == gate.Block() {
						visited = true
					}
				}
				if !visited {
					continue
				}
				w, st := cr.W, e.State
				res = func(v ssa.Value) ssa.Value { return unspill(w.evalVal(st, unspill(v)).V) }
				evalBool = func(v ssa.Value) (bool, bool) {
					c, ok := w.eval(st, v)
					if !ok || c.Kind() != constant.Bool {
						return false, false
					}
					return constant.BoolVal(c), true
				}
				// the condition as computed on this path (not as decided by the branch taken):
				// phis are resolved to the incoming value the path chose
				gc, flip := gate.Cond, !gateAcceptOnTrue
				for i := 0; i < 8; i++ {
					if u, ok := gc.(*ssa.UnOp); ok && u.Op == token.NOT {
						gc, flip = u.X, !flip
						continue
					}
					if ph, ok := gc.(*ssa.Phi); ok {
						if src, ok := st.phiSrc[ph]; ok {
							gc = src
							continue
						}
					}
					break
				}
				out := classify(gc)
				if flip {
					switch {
					case out == "true":
						out = "false"
					case out == "false":
						out = "true"
					case strings.HasPrefix(out, "not "):
						out = strings.TrimPrefix(out, "not ")
					default:
						out = "not " + out
					}
				}
				set[out] = true
				continue
			}
			if e.Results[0].Known {
				set[map[bool]string{true: "true", false: "false"}[constant.BoolVal(e.Results[0].C)]] = true
				continue
			}
			w, st := cr.W, e.State
			res = func(v ssa.Value) ssa.Value { return unspill(w.evalVal(st, unspill(v)).V) }
			evalBool = func(v ssa.Value) (bool, bool) {
				c, ok := w.eval(st, v)
				if !ok || c.Kind() != constant.Bool {
					return false, false
				}
				return constant.BoolVal(c), true
			}
			set[classify(e.Results[0].V)] = true
		}
		got := joinSet(set)
		if got != "false" {
			handled[cr.Const] = true
		}
		if got == want {
			o.OK("returns %s", got).At(r.pos(fn.Pos()))
		} else {
			o.Fail(r.pos(fn.Pos()), "for %s the function returns %q, expected %q", cr.Const, got, want)
		}
	}
	// Capabilities advertises exactly the handled operators
	capFn := p.Method(dockerlogPkg, "Querier", "Capabilities")
	oc := r.Ob("CH-MAP", "dockerlog.(*Querier).Capabilities", "the storage advertises exactly the label operators its matcher implements; no line filter offload")
	if capFn == nil {
		oc.Fail("-", "method not found")
	} else {
		adv := map[string]bool{}
		bad := false
		for _, c := range callsIn(capFn) {
			if !callIs(c, modPath+"/"+enginePkg, "(*SupportedOps).Add") {
				continue
			}
			recvF, _, _ := fieldNameOf(c.Common().Args[0])
			if recvF != "Label" {
				bad = true
				oc.Fail(r.pos(c.Pos()), "capabilities are added to %q; the docker storage applies no line filters", recvF)
				continue
			}
			// variadic slice literal
			if sl, ok := c.Common().Args[1].(*ssa.Slice); ok {
				if arr, ok := sl.X.(*ssa.Alloc); ok {
					for _, ref := range *arr.Referrers() {
						if ia, ok := ref.(*ssa.IndexAddr); ok {
							for _, st := range storesTo(ia) {
								if cv, ok := constOf(st.Val); ok {
									adv[constName(consts, cv)] = true
								} else {
									bad = true
									oc.Undecide(r.pos(c.Pos()), "non-constant operator advertised")
								}
							}
						}
					}
				}
			}
		}
		if !bad {
			var a, h []string
			for k := range adv {
				a = append(a, k)
			}
			for k := range handled {
				h = append(h, k)
			}
			sort.Strings(a)
			sort.Strings(h)
			if strings.Join(a, ",") == strings.Join(h, ",") {
				oc.OK("advertised = implemented = %v", a).At(r.pos(capFn.Pos()))
			} else {
				oc.Fail(r.pos(capFn.Pos()), "advertised operators %v differ from the operators match implements %v", a, h)
			}
		}
	}

	// containerLabels.Match
	mf := p.Method(dockerlogPkg, "containerLabels", "Match")
	om := r.Ob("PV-OKGATE", "dockerlog.containerLabels.Match", "a container matches iff every matcher accepts the label's value, a missing label counting as \"\"")
	if mf == nil || len(mf.Params) != 2 {
		om.Fail("-", "method not found")
		return
	}
	good := true
	mgrp := funcGroup(mf)
	recvAlias := map[ssa.Value]bool{} // receivers of predicates that are bound to this label set (method values)
	recvIs := func(v ssa.Value) bool {
		v = stripTypeOnly(v)
		if recvAlias[v] || recvAlias[spillParam(v)] {
			return true
		}
		if fv, ok := v.(*ssa.FreeVar); ok {
			if b := freeVarBinding(fv); b != nil {
				v = b
			}
		}
		return v == ssa.Value(mf.Params[0]) || spillParam(v) == ssa.Value(mf.Params[0]) || originValueIn(v, mgrp) == ssa.Value(mf.Params[0]) || originValueIn(spillParam(v), mgrp) == ssa.Value(mf.Params[0])
	}
	// the label value handed to the deciding function: labels[matcher.Label] of this label set, looked up plainly
	checkLookup := func(lk *ssa.Lookup, at token.Pos) {
		if lk == nil {
			good = false
			om.Fail(r.pos(at), "the matcher is not applied to a value looked up in the container's labels")
			return
		}
		if f, base, ok := loadOfField(lk.X); !ok || f != "labels" || !recvIs(base) {
			good = false
			om.Fail(r.pos(lk.Pos()), "label value is looked up in %s, not in the container's labels", describe(lk.X, 0))
		}
		if f, _, ok := loadOfField(stripConv(lk.Index)); !ok || f != "Label" {
			good = false
			om.Fail(r.pos(lk.Pos()), "label value is looked up by %s, not by the matcher's label", describe(lk.Index, 0))
		}
		if lk.CommaOk {
			for _, ref := range *lk.Referrers() {
				if e, ok := ref.(*ssa.Extract); ok && e.Index == 1 {
					if usedInBranch(e) {
						good = false
						om.Fail(r.pos(lk.Pos()), "the presence of the label (comma-ok) decides the result: a missing label must behave as the empty string")
					}
				}
			}
		}
	}
	lookupOf := func(v ssa.Value) *ssa.Lookup {
		switch x := unspill(v).(type) {
		case *ssa.Lookup:
			return x
		case *ssa.Extract:
			lk, _ := x.Tuple.(*ssa.Lookup)
			return lk
		}
		return nil
	}
	// decisionOf: how a bool-valued call relates to "the deciding function accepts the matcher under
	// test": +1 same, -1 negated, 0 unrelated. The call is the deciding function itself, or a predicate
	// (method, closure) whose result is [the negation of] such a call.
	var decisionOf func(c *ssa.Call, depth int) (pol int, dcall *ssa.Call)
	decisionOf = func(c *ssa.Call, depth int) (int, *ssa.Call) {
		if c == nil || depth > 3 {
			return 0, nil
		}
		callee := staticCallee(c)
		if callee == nil {
			if f, _ := predicateOf(c.Call.Value); f != nil {
				callee = f
			}
		}
		if callee == nil {
			return 0, nil
		}
		if callee == fn {
			return 1, c
		}
		if callee.Blocks == nil || callee.Pkg != mf.Pkg && (callee.Parent() == nil || callee.Parent().Pkg != mf.Pkg) {
			return 0, nil
		}
		pol, var0 := 0, (*ssa.Call)(nil)
		for _, ret := range returnsOf(callee) {
			if len(ret.Results) != 1 {
				return 0, nil
			}
			v := ret.Results[0]
			sign := 1
			if u, ok := v.(*ssa.UnOp); ok && u.Op == token.NOT {
				sign, v = -1, u.X
			}
			ic, ok := v.(*ssa.Call)
			if !ok {
				return 0, nil
			}
			ip, idc := decisionOf(ic, depth+1)
			if ip == 0 || (pol != 0 && pol != ip*sign) {
				return 0, nil
			}
			pol, var0 = ip*sign, idc
		}
		return pol, var0
	}
	checkDecisionArgs := func(dcall *ssa.Call) {
		// the value: an argument looked up in the labels, or the lookup inside the deciding function
		var lk *ssa.Lookup
		for _, a := range dcall.Call.Args {
			if isStringType(a.Type()) {
				lk = lookupOf(a)
			}
		}
		if lk == nil && innerLookup != nil {
			lk = innerLookup
		}
		checkLookup(lk, dcall.Pos())
	}
	var loop *rangeLoop
	for _, l := range rangeIndexLoops(mf) {
		if l.X == ssa.Value(mf.Params[1]) {
			loop = l
		}
	}
	if loop == nil {
		// the library quantifier: !slices.ContainsFunc(matchers, rejects) with rejects(m) = !accepts(m)
		ok := false
		for _, ret := range returnsOf(mf) {
			if len(ret.Results) != 1 {
				continue
			}
			not, isNot := ret.Results[0].(*ssa.UnOp)
			if !isNot || not.Op != token.NOT {
				continue
			}
			cf, isCall := not.X.(*ssa.Call)
			if !isCall {
				continue
			}
			if pk, nm := calleePkgName(cf); pk != "slices" || nm != "ContainsFunc" || len(cf.Call.Args) != 2 || unspill(cf.Call.Args[0]) != ssa.Value(mf.Params[1]) {
				continue
			}
			pred, bound := predicateOf(cf.Call.Args[1])
			if pred == nil {
				continue
			}
			if bound != nil && !recvIs(bound) {
				om.Fail(r.pos(cf.Pos()), "the predicate is bound to %s, not to this label set", describe(bound, 0))
				return
			}
			if bound != nil && len(pred.Params) > 0 {
				recvAlias[pred.Params[0]] = true
			}
			// pred(m) must be the negation of the decision
			pol, var0 := 0, (*ssa.Call)(nil)
			consistent := true
			for _, pr := range returnsOf(pred) {
				v := pr.Results[0]
				sign := 1
				if u, isU := v.(*ssa.UnOp); isU && u.Op == token.NOT {
					sign, v = -1, u.X
				}
				ic, isC := v.(*ssa.Call)
				if !isC {
					consistent = false
					continue
				}
				ip, idc := decisionOf(ic, 0)
				if ip == 0 || (pol != 0 && pol != ip*sign) {
					consistent = false
				}
				pol, var0 = ip*sign, idc
			}
			if !consistent || pol != -1 || var0 == nil {
				om.Fail(r.pos(pred.Pos()), "the predicate given to slices.ContainsFunc is not the negation of match")
				return
			}
			checkDecisionArgs(var0)
			ok = true
		}
		if !ok {
			om.Fail(r.pos(mf.Pos()), "no range loop over the whole matchers parameter (and no !slices.ContainsFunc(matchers, rejects) form)")
			return
		}
		if good {
			om.OK("!slices.ContainsFunc(matchers, m -> !match(m, labels[m.Label])) with a plain lookup").At(r.pos(mf.Pos()))
		}
		return
	}
	if inlineMode {
		// the decision is written out in the loop: the verdict is the gate's condition (decided per
		// operator above); here: plain lookup, ranged element, exits only at the gate
		checkLookup(innerLookup, mf.Pos())
		elemOK := false
		if al, ok := m.(*ssa.Alloc); ok {
			for _, st := range storesTo(al) {
				if u, ok := st.Val.(*ssa.UnOp); ok && isIndexOf(u.X, loop) {
					elemOK = true
				}
			}
		} else if u, ok := m.(*ssa.UnOp); ok && isIndexOf(u.X, loop) {
			elemOK = true
		} else if isIndexOf(m, loop) {
			elemOK = true
		}
		if !elemOK {
			good = false
			om.Fail(r.pos(mf.Pos()), "the operator dispatch is not applied to the ranged matcher")
		}
		for _, ex := range loop.earlyExits() {
			if ex[0] != gate.Block() {
				good = false
				om.Fail(r.pos(termPos(ex[0])), "the matcher loop is left early at a point other than the verdict on the current matcher")
			}
		}
		for _, ret := range returnsOf(mf) {
			for _, lv := range phiLeaves(ret.Results[0]) {
				inLoopExit := false
				for _, ex := range loop.earlyExits() {
					if ex[1] == ret.Block() || ex[1].Dominates(ret.Block()) {
						inLoopExit = true
					}
				}
				switch {
				case isConstBool(lv, false) && inLoopExit:
				case isConstBool(lv, true) && !inLoopExit && (loop.Done == ret.Block() || loop.Done.Dominates(ret.Block())):
				default:
					good = false
					om.Fail(r.pos(ret.Pos()), "returns %s here (early exit=%v)", describe(lv, 0), inLoopExit)
				}
			}
		}
		if good {
			om.OK("for each matcher: the operator's verdict on labels[matcher.Label] (plain lookup), written out in the loop; false on first reject, true after all").At(r.pos(mf.Pos()))
		}
		return
	}
	// loop form: the call in the loop whose verdict decides
	var matchCall, dcall *ssa.Call
	pol := 0
	for b := range loop.Blocks {
		for _, in := range b.Instrs {
			if c, ok := in.(*ssa.Call); ok {
				if pl, dc := decisionOf(c, 0); pl != 0 {
					matchCall, dcall, pol = c, dc, pl
				}
			}
		}
	}
	if matchCall == nil {
		om.Fail(r.pos(mf.Pos()), "match is not called in the loop")
		return
	}
	checkDecisionArgs(dcall)
	// the matcher argument is the ranged element
	elemOK := false
	for _, a := range matchCall.Call.Args {
		if u, ok := unspill(a).(*ssa.UnOp); ok && isIndexOf(u.X, loop) {
			elemOK = true
		}
	}
	if !elemOK {
		good = false
		om.Fail(r.pos(matchCall.Pos()), "match is not applied to the ranged matcher")
	}
	// early exits only where the matcher was rejected, returning false; after the loop true
	for _, ex := range loop.earlyExits() {
		if !factHoldsOnEdge(ex[0], ex[1], matchCall, pol < 0) {
			good = false
			om.Fail(r.pos(termPos(ex[0])), "the matcher loop is left early on a path where the matcher accepted")
		}
	}
	for _, ret := range returnsOf(mf) {
		for _, lv := range phiLeaves(ret.Results[0]) {
			inLoopExit := false
			for _, ex := range loop.earlyExits() {
				if ex[1] == ret.Block() || ex[1].Dominates(ret.Block()) {
					inLoopExit = true
				}
			}
			switch {
			case isConstBool(lv, false) && inLoopExit:
			case isConstBool(lv, true) && !inLoopExit && (loop.Done == ret.Block() || loop.Done.Dominates(ret.Block())):
			default:
				good = false
				om.Fail(r.pos(ret.Pos()), "returns %s here (early exit=%v)", describe(lv, 0), inLoopExit)
			}
		}
	}
	if good {
		om.OK("for each matcher: match(matcher, labels[matcher.Label]) with a plain lookup; false on first reject, true after all").At(r.pos(mf.Pos()))
	}
}

// usedInBranch: v (a bool) flows into an If condition (directly, through
// !, &&/|| phis or comparisons).
func usedInBranch(v ssa.Value) bool {
	seen := map[ssa.Value]bool{}
	var walk func(v ssa.Value) bool
	walk = func(v ssa.Value) bool {
		if seen[v] {
			return false
		}
		seen[v] = true
		refs := v.Referrers()
		if refs == nil {
			return false
		}
		for _, ref := range *refs {
			switch x := ref.(type) {
			case *ssa.If:
				return true
			case *ssa.UnOp:
				if walk(x) {
					return true
				}
			case *ssa.BinOp:
				if walk(x) {
					return true
				}
			case *ssa.Phi:
				if walk(x) {
					return true
				}
			case *ssa.Return:
				return true
			}
		}
		return false
	}
	return walk(v)
}

// ruleLabelRegexAnchoring: every label-matcher regexp is compiled through
// compileLabelRegex, which wraps it as ^(?:re)$.
func ruleLabelRegexAnchoring(r *Run) {
	p := r.P
	lq := modPath + "/" + logqlPkg
	fn := p.Func(logqlPkg, "compileLabelRegex")
	o := r.Ob("PV-API", "logql.compileLabelRegex", "label regular expressions are compiled fully anchored: regexp.Compile(\"^(?:\" + re + \")$\") on every path")
	if fn == nil || len(fn.Params) != 1 {
		o.Fail("-", "function not found")
		return
	}
	good := true
	nCompile := 0
	for _, c := range callsIn(fn) {
		callee := staticCallee(c)
		if callee == nil || callee.Pkg == nil || callee.Pkg.Pkg.Path() != "regexp" {
			continue
		}
		nCompile++
		if !callIs(c, "regexp", "Compile") {
			good = false
			o.Fail(r.pos(c.Pos()), "calls regexp.%s", cname(callee))
			continue
		}
		arg := c.Common().Args[0]
		outer, ok := arg.(*ssa.BinOp)
		shapeOK := false
		if ok && outer.Op == token.ADD {
			if suf, ok := constStr(outer.Y); ok && suf == ")$" {
				if inner, ok := outer.X.(*ssa.BinOp); ok && inner.Op == token.ADD {
					if pre, ok := constStr(inner.X); ok && pre == "^(?:" && inner.Y == ssa.Value(fn.Params[0]) {
						shapeOK = true
					}
				}
			}
		}
		if !shapeOK {
			good = false
			o.Fail(r.pos(c.Pos()), "regexp.Compile is given %s, not \"^(?:\" + re + \")$\"", describe(arg, 0))
		}
	}
	if nCompile != 1 {
		good = false
		o.Fail(r.pos(fn.Pos()), "expected exactly one regexp compilation, found %d", nCompile)
	}
	for _, ret := range returnsOf(fn) {
		for _, lv := range phiLeaves(ret.Results[0]) {
			c, idx, ok := extractOf(lv)
			if !(ok && idx == 0 && callIs(c, "regexp", "Compile")) {
				if cc, ok2 := lv.(*ssa.Call); ok2 && callIs(cc, "regexp", "Compile") {
					continue
				}
				good = false
				o.Fail(r.pos(ret.Pos()), "returns %s", describe(lv, 0))
			}
		}
		// tail call form: return regexp.Compile(...) — Results are extracts of the call or the call tuple itself
	}
	if good {
		o.OK("single regexp.Compile(\"^(?:\"+re+\")$\")").At(r.pos(fn.Pos()))
	}
	// who assigns LabelMatcher.Re
	lm := p.NamedType(logqlPkg, "LabelMatcher")
	o2 := r.Ob("PV-API", "logql.LabelMatcher.Re writers", "every store to LabelMatcher.Re is a result of compileLabelRegex")
	if lm == nil {
		o2.Fail("-", "type not found")
		return
	}
	n := 0
	bad := false
	for _, f := range p.SrcFuncs() {
		allInstrs(f, func(in ssa.Instruction) {
			st, ok := in.(*ssa.Store)
			if !ok {
				return
			}
			name, base, ok := fieldNameOf(st.Addr)
			if !ok || name != "Re" {
				return
			}
			if nb := namedOf(base.Type()); nb == nil || nb.Obj() != lm.Obj() {
				return
			}
			n++
			for _, lv := range phiLeaves(st.Val) {
				if isNilConst(lv) {
					continue
				}
				c, idx, ok := extractOf(lv)
				if ok && idx == 0 && callIs(c, lq, "compileLabelRegex") {
					continue
				}
				bad = true
				o2.Fail(r.pos(st.Pos()), "%s stores %s into LabelMatcher.Re", shortFuncName(f), describe(lv, 0))
			}
		})
	}
	r.count("labelmatcher_re_stores", n)
	if n < 2 {
		o2.Fail("-", "only %d stores to LabelMatcher.Re found, floor 2", n)
	} else if !bad {
		o2.OK("%d store site(s), all from compileLabelRegex", n)
	}
}

// ruleOpenLog: origin pairing, window roles, option constants.
func ruleOpenLog(r *Run) {
	p := r.P
	dl := modPath + "/" + dockerlogPkg
	fn := p.Method(dockerlogPkg, "Querier", "openLog")
	anchor := r.Ob("ANCHOR", "dockerlog.(*Querier).openLog", "anchor function resolves")
	anchor.Trivial = true
	if fn == nil || len(fn.Params) != 5 {
		anchor.Fail("-", "method not found")
		return
	}
	anchor.OK("resolved").At(r.pos(fn.Pos()))
	ctr, start, end := fn.Params[2], fn.Params[3], fn.Params[4]
	var logs *ssa.Call
	var parse *ssa.Call
	for _, c := range callsIn(fn) {
		if call, ok := c.(*ssa.Call); ok {
			if invokeIs(call, "ContainerLogs") {
				logs = call
			}
			if callIs(call, dl, "ParseLog") {
				parse = call
			}
		}
	}
	op := r.Ob("PV-PAIR", "dockerlog.openLog origin", "the log is requested for ctr.ID and its records are labelled with ctr.labels of the same container")
	if logs == nil || parse == nil {
		op.Fail(r.pos(fn.Pos()), "ContainerLogs/ParseLog call missing")
		return
	}
	isCtrField := func(v ssa.Value, name string) bool {
		f, base, ok := loadOfField(v)
		return ok && f == name && spillParam(base) == ssa.Value(ctr)
	}
	idOK := isCtrField(logs.Call.Args[1], "ID")
	resOK := false
	if ac, ok := parse.Call.Args[1].(*ssa.Call); ok && callIs(ac, dl, "(containerLabels).AsResource") && isCtrField(ac.Call.Args[0], "labels") {
		resOK = true
	}
	rcOK := false
	if c, idx, ok := extractOf(parse.Call.Args[0]); ok && c == logs && idx == 0 {
		rcOK = true
	}
	if idOK && resOK && rcOK {
		op.OK("ContainerLogs(ctx, ctr.ID, ..) -> ParseLog(rc, ctr.labels.AsResource())").At(r.pos(logs.Pos()))
	} else {
		op.Fail(r.pos(logs.Pos()), "id from ctr.ID=%v, resource from ctr.labels=%v, reader from this ContainerLogs=%v", idOK, resOK, rcOK)
	}
	// options
	fields, ok := structLitStores(logs.Call.Args[2])
	oo := r.Ob("PV-CONST", "dockerlog.openLog options", "stdout and stderr with timestamps, all lines (Tail=all), no Follow/Details")
	if !ok {
		oo.Undecide(r.pos(logs.Pos()), "options are not a composite literal")
		return
	}
	good := true
	for _, f := range []string{"ShowStdout", "ShowStderr", "Timestamps"} {
		if v, ok := fields[f]; !ok || !isConstBool(v, true) {
			good = false
			oo.Fail(r.pos(logs.Pos()), "option %s is not the constant true", f)
		}
	}
	if v, ok := fields["Tail"]; !ok {
		good = false
		oo.Fail(r.pos(logs.Pos()), "Tail is not set to \"all\"")
	} else if s, ok := constStr(v); !ok || s != "all" {
		good = false
		oo.Fail(r.pos(logs.Pos()), "Tail is %s, not \"all\"", describe(v, 0))
	}
	for _, f := range []string{"Follow", "Details"} {
		if v, ok := fields[f]; ok && !isConstBool(v, false) {
			good = false
			oo.Fail(r.pos(logs.Pos()), "option %s is set", f)
		}
	}
	if good {
		oo.OK("ShowStdout=ShowStderr=Timestamps=true, Tail=all").At(r.pos(logs.Pos()))
	}
	// window roles
	for _, w := range []struct {
		field string
		prm   *ssa.Parameter
	}{{"Since", start}, {"Until", end}} {
		ow := r.Ob("PV-ROLE", "dockerlog.openLog "+w.field, w.field+" is the query's "+w.prm.Name()+" truncated to whole unix seconds (base 10), nothing else")
		v, ok := fields[w.field]
		if !ok {
			ow.Fail(r.pos(logs.Pos()), "%s is not set", w.field)
			continue
		}
		bad := false
		nChain := 0
		for _, lf := range expandLeaves(v, nil, 0) {
			lv := lf.V
			if s, ok := constStr(lv); ok && s == "" {
				continue
			}
			fc, ok := lv.(*ssa.Call)
			if !ok || !callIs(fc, "strconv", "FormatInt") {
				bad = true
				ow.Fail(r.pos(logs.Pos()), "%s may be %s", w.field, describe(lv, 0))
				continue
			}
			if b, ok := constInt(fc.Call.Args[1]); !ok || b != 10 {
				bad = true
				ow.Fail(r.pos(fc.Pos()), "%s is not formatted in base 10", w.field)
			}
			uc, ok := fc.Call.Args[0].(*ssa.Call)
			if !ok || !callIs(uc, "time", "(Time).Unix") {
				bad = true
				ow.Fail(r.pos(fc.Pos()), "%s is formatted from %s, not from t.Unix()", w.field, describe(fc.Call.Args[0], 0))
				continue
			}
			ac, ok := unspill(uc.Call.Args[0]).(*ssa.Call)
			if !ok || ac.Common().StaticCallee() == nil || cname(ac.Common().StaticCallee()) != "AsTime" || lf.resolve(ac.Call.Args[0]) != ssa.Value(w.prm) {
				bad = true
				ow.Fail(r.pos(uc.Pos()), "%s derives from %s, not directly from %s.AsTime()", w.field, describe(uc.Call.Args[0], 0), w.prm.Name())
				continue
			}
			nChain++
		}
		if !bad && nChain > 0 {
			ow.OK("FormatInt(%s.AsTime().Unix(), 10)", w.prm.Name()).At(r.pos(logs.Pos()))
		} else if !bad {
			ow.Fail(r.pos(logs.Pos()), "%s never carries the window bound", w.field)
		}
	}
	// callers pass their own start/end through, and the iterated container
	sl := p.Method(dockerlogPkg, "Querier", "SelectLogs")
	oc := r.Ob("PV-ROLE", "dockerlog.(*Querier).SelectLogs openLog calls", "every openLog call passes the query's start and end in this order")
	if sl == nil {
		oc.Fail("-", "method not found")
		return
	}
	n := 0
	bad := false
	check := func(f *ssa.Function) {
		for _, c := range callsIn(f) {
			if !callIs(c, dl, "(*Querier).openLog") {
				continue
			}
			n++
			args := c.Common().Args
			sn, en := rootName(args[3]), rootName(args[4])
			// SelectLogs(q, ctx, start, end, params): positions 2 and 3
			if len(sl.Params) < 4 || originValueIn(args[3], funcGroup(sl)) != ssa.Value(sl.Params[2]) || originValueIn(args[4], funcGroup(sl)) != ssa.Value(sl.Params[3]) {
				bad = true
				oc.Fail(r.pos(c.Pos()), "openLog(.., %s, %s): expected (start, end) [origins %s, %s]", sn, en, describe(originValueIn(args[3], funcGroup(sl)), 0), describe(originValueIn(args[4], funcGroup(sl)), 0))
			}
		}
	}
	for _, f := range funcGroup(sl) {
		if f != fn {
			check(f)
		}
	}
	if n < 2 {
		oc.Fail(r.pos(sl.Pos()), "found %d openLog calls, floor 2", n)
	} else if !bad {
		oc.OK("%d call(s) pass (start, end)", n)
	}
}

// rootName names the parameter or captured variable a value is (a load of).
func rootName(v ssa.Value) string {
	v = unspill(v)
	switch x := v.(type) {
	case *ssa.Parameter:
		return x.Name()
	case *ssa.FreeVar:
		return x.Name()
	case *ssa.UnOp:
		if x.Op == token.MUL {
			if fv, ok := x.X.(*ssa.FreeVar); ok {
				return fv.Name()
			}
			if al, ok := x.X.(*ssa.Alloc); ok {
				return al.Comment
			}
		}
	}
	return describe(v, 0)
}

// ruleGetLabels: label derivation and container selection.
func ruleFetchContainers(r *Run) {
	p := r.P
	dl := modPath + "/" + dockerlogPkg
	fn := p.Method(dockerlogPkg, "Querier", "fetchContainers")
	o := r.Ob("PV-WHOLE", "dockerlog.(*Querier).fetchContainers", "all containers are listed (All=true) and a container is kept iff its labels match the selector's matchers")
	if fn == nil {
		o.Fail("-", "method not found")
		return
	}
	good := true
	var list *ssa.Call
	for _, c := range callsIn(fn) {
		if call, ok := c.(*ssa.Call); ok && invokeIs(call, "ContainerList") {
			list = call
		}
	}
	if list == nil {
		o.Fail(r.pos(fn.Pos()), "no ContainerList call")
		return
	}
	if fields, ok := structLitStores(list.Call.Args[1]); !ok || !isConstBool(fields["All"], true) {
		good = false
		o.Fail(r.pos(list.Pos()), "ContainerList is not called with All: true (stopped containers' logs would be invisible)")
	} else {
		for k := range fields {
			if k != "All" {
				good = false
				o.Fail(r.pos(list.Pos()), "ContainerList option %s is set: the daemon would pre-filter containers", k)
			}
		}
	}
	var loop *rangeLoop
	for _, l := range rangeIndexLoops(fn) {
		if c, idx, ok := extractOf(l.X); ok && c == list && idx == 0 {
			loop = l
		}
	}
	if loop == nil {
		o.Fail(r.pos(fn.Pos()), "no range loop over the whole container list")
		return
	}
	if len(loop.earlyExits()) > 0 {
		good = false
		o.Fail(r.pos(fn.Pos()), "the container loop can be left early")
	}
	var matchC, getL *ssa.Call
	nAppend := 0
	var appendBlk *ssa.BasicBlock
	for b := range loop.Blocks {
		for _, in := range b.Instrs {
			c, ok := in.(*ssa.Call)
			if !ok {
				continue
			}
			switch {
			case callIs(c, dl, "(containerLabels).Match"):
				matchC = c
			case callIs(c, dl, "getLabels"):
				getL = c
			}
			if bi, ok := c.Call.Value.(*ssa.Builtin); ok && bi.Name() == "append" {
				nAppend++
				appendBlk = b
			}
		}
	}
	// the labels may be derived inside a constructor helper of the container value (newContainer(ctr)):
	// resolve the label set Match is applied to through struct fields and helper results
	var getLArg ssa.Value
	if getL != nil {
		getLArg = getL.Call.Args[0]
	}
	if getL == nil && matchC != nil {
		if c, arg := structFieldOrigin(matchC.Call.Args[0], dl, "getLabels", nil, 0); c != nil {
			getL, getLArg = c, arg
		}
	}
	if matchC == nil || getL == nil || nAppend != 1 {
		o.Fail(r.pos(fn.Pos()), "loop body: Match call=%v getLabels call=%v appends=%d", matchC != nil, getL != nil, nAppend)
		return
	}
	// a listed container is kept at most once: the append is not inside a further loop nested in the
	// loop over the list (a container appended once per name / per label would be read several times)
	for _, inner := range rangeIndexLoops(fn) {
		if inner.Header != loop.Header && inner.Blocks[appendBlk] && loop.Blocks[inner.Header] {
			good = false
			o.Fail(r.pos(termPos(appendBlk)), "the container is appended inside an inner loop: one listed container can be selected (and its log read) several times")
		}
	}
	for _, b := range fn.Blocks {
		for _, sc := range b.Succs {
			if sc.Dominates(b) && sc != loop.Header && loop.Blocks[sc] {
				if nl := naturalLoop(sc); nl[appendBlk] {
					good = false
					o.Fail(r.pos(termPos(appendBlk)), "the container is appended inside an inner loop: one listed container can be selected (and its log read) several times")
				}
			}
		}
	}
	if c, _ := structFieldOrigin(matchC.Call.Args[0], dl, "getLabels", nil, 0); matchC.Call.Args[0] != ssa.Value(getL) && c != getL {
		good = false
		o.Fail(r.pos(matchC.Pos()), "Match is applied to %s, not to the labels of the ranged container", describe(matchC.Call.Args[0], 0))
	}
	if f, base, ok := loadOfField(matchC.Call.Args[1]); !ok || f != "Labels" || spillParam(base) != ssa.Value(fn.Params[2]) {
		good = false
		o.Fail(r.pos(matchC.Pos()), "Match is given %s, not params.Labels", describe(matchC.Call.Args[1], 0))
	}
	if u, ok := unspill(getLArg).(*ssa.UnOp); !ok || !isIndexOf(u.X, loop) {
		good = false
		o.Fail(r.pos(getL.Pos()), "getLabels is applied to %s, not the ranged container", describe(getL.Call.Args[0], 0))
	}
	if b, known := knownBoolAt(appendBlk, matchC); !known || !b {
		good = false
		o.Fail(r.pos(matchC.Pos()), "a container is kept on a path where Match is not known to be true")
	}
	// ... and for no other reason: the only condition inside the loop that the kept container depends on
	// is the verdict of Match (a listed container is not skipped because of its state, age, ...)
	for _, f := range factsAt(appendBlk) {
		in, ok := f.Cond.(ssa.Instruction)
		if !ok || !loop.Blocks[in.Block()] || f.Cond == ssa.Value(matchC) {
			continue
		}
		if in.Block() == loop.Header {
			continue // the loop's own bound
		}
		good = false
		o.Fail(r.pos(f.Cond.Pos()), "a listed container is kept only if %s: containers are skipped for a reason other than their labels", describe(f.Cond, 0))
	}
	// the kept container carries ID of the ranged container and the matched label set
	if good {
		o.OK("ContainerList(All) -> for each: getLabels(ctr).Match(params.Labels) true -> kept").At(r.pos(fn.Pos()))
	}

	// getLabels: name agreement
	gl := p.Func(dockerlogPkg, "getLabels")
	og := r.Ob("PV-ROLE", "dockerlog.getLabels", "container_<x> labels are derived from the container field <x>; docker labels are added under their sanitised key")
	if gl == nil {
		og.Fail("-", "function not found")
		return
	}
	want := map[string]string{
		"container_id": "ID", "container_image": "Image", "container_image_id": "ImageID", "container_command": "Command",
		"container_created": "Created", "container_state": "State", "container_status": "Status",
		"container": "Names", "container_name": "Names",
	}
	seen := map[string]bool{}
	gbad := false
	allInstrs(gl, func(in ssa.Instruction) {
		mu, ok := in.(*ssa.MapUpdate)
		if !ok {
			return
		}
		k, ok := constStr(mu.Key)
		if !ok {
			return
		}
		seen[k] = true
		field, known := want[k]
		if !known {
			return
		}
		src := fieldRoots(mu.Value, gl.Params[0])
		if len(src) != 1 || src[0] != field {
			gbad = true
			og.Fail(r.pos(mu.Pos()), "label %q is derived from container field(s) %v, expected %s", k, src, field)
		}
	})
	for k := range want {
		if !seen[k] {
			gbad = true
			og.Fail(r.pos(gl.Pos()), "label %q is not set", k)
		}
	}
	// the label map belongs to this container alone: every map the labels are written into is made
	// in this call (a map handed in and reused could still hold another container's labels)
	allInstrs(gl, func(in ssa.Instruction) {
		mu, ok := in.(*ssa.MapUpdate)
		if !ok {
			return
		}
		for _, lv := range valueLeaves(mu.Map) {
			lv = stripTypeOnly(lv)
			if f, base, ok := loadOfField(lv); ok && f == "labels" {
				// c.labels[...] on a local struct: resolve to what was stored into the field
				if al, isAl := base.(*ssa.Alloc); isAl {
					fresh := true
					for k, st := range allocFieldStores(al) {
						if k == "labels" {
							for _, l2 := range valueLeaves(st) {
								if _, isMake := stripTypeOnly(l2).(*ssa.MakeMap); !isMake {
									fresh = false
								}
							}
						}
					}
					if fresh {
						continue
					}
				}
			}
			if _, isMake := lv.(*ssa.MakeMap); !isMake {
				gbad = true
				og.Fail(r.pos(mu.Pos()), "labels are written into %s, a map that is not made in this call: labels of another container can remain in it", describe(lv, 1))
			}
		}
	})
	if !gbad {
		og.OK("%d fixed labels agree with their source fields; the map is made per container", len(want)).At(r.pos(gl.Pos()))
	}
}

// fieldRoots: names of fields of param `root` that v derives from through
// pure operations (conversions, calls on them, phis, slicing, indexing).
func fieldRoots(v ssa.Value, root ssa.Value) []string {
	set := map[string]bool{}
	seen := map[ssa.Value]bool{}
	var walk func(v ssa.Value)
	walk = func(v ssa.Value) {
		if v == nil || seen[v] {
			return
		}
		seen[v] = true
		if f, base, ok := loadOfField(v); ok && (base == root || spillParam(base) == root) {
			set[f] = true
			return
		}
		switch x := v.(type) {
		case *ssa.Phi:
			for _, e := range x.Edges {
				walk(e)
			}
		case *ssa.Call:
			for _, a := range x.Call.Args {
				walk(a)
			}
		case *ssa.UnOp:
			walk(x.X)
		case *ssa.Convert:
			walk(x.X)
		case *ssa.ChangeType:
			walk(x.X)
		case *ssa.IndexAddr:
			walk(x.X)
		case *ssa.Index:
			walk(x.X)
		case *ssa.Slice:
			walk(x.X)
		case *ssa.BinOp:
			walk(x.X)
			walk(x.Y)
		case *ssa.FieldAddr:
			if f, base, ok := fieldNameOf(x); ok && (base == root || spillParam(base) == root) {
				set[f] = true
			}
		case *ssa.Extract:
			walk(x.Tuple)
		}
	}
	walk(v)
	var out []string
	for k := range set {
		out = append(out, k)
	}
	sort.Strings(out)
	return out
}

var _ = types.Identical

// leaf is a value reached by expanding phis and calls to small same-package
// helpers; Subst maps the helpers' parameters to the arguments they were given.
type leaf struct {
	V     ssa.Value
	Subst map[ssa.Value]ssa.Value
}

func (l leaf) resolve(v ssa.Value) ssa.Value {
	for i := 0; i < 4; i++ {
		v = unspill(v)
		n, ok := l.Subst[v]
		if !ok {
			return v
		}
		v = n
	}
	return v
}

// expandLeaves expands phis, and calls to same-package single-result helpers
// into the values those helpers return (value-level inlining, two levels).
func expandLeaves(v ssa.Value, subst map[ssa.Value]ssa.Value, depth int) []leaf {
	var out []leaf
	for _, lv := range phiLeaves(v) {
		c, ok := lv.(*ssa.Call)
		callee := (*ssa.Function)(nil)
		if ok {
			callee = c.Common().StaticCallee()
		}
		if callee == nil || callee.Blocks == nil || depth >= 2 || callee.Pkg == nil || !isFirstParty(callee.Pkg.Pkg.Path()) ||
			callee.Signature.Results().Len() != 1 || c.Parent() == nil || callee.Pkg != c.Parent().Pkg && c.Parent().Parent() == nil {
			out = append(out, leaf{lv, subst})
			continue
		}
		ns := map[ssa.Value]ssa.Value{}
		for k, x := range subst {
			ns[k] = x
		}
		for i, prm := range callee.Params {
			if i < len(c.Call.Args) {
				a := unspill(c.Call.Args[i])
				if r2, ok := subst[a]; ok {
					a = r2
				}
				ns[prm] = a
			}
		}
		for _, ret := range returnsOf(callee) {
			out = append(out, expandLeaves(ret.Results[0], ns, depth+1)...)
		}
	}
	return out
}

// ruleRecordOrigin: a record read from a container's stream carries that container's labels:
// ParseLog keeps its resource argument in the iterator and Next stamps every record it fills with
// exactly that resource, unconditionally (records are reused across sources by the merge iterator).
func ruleRecordOrigin(r *Run) {
	p := r.P
	pl := p.Func(dockerlogPkg, "ParseLog")
	nx := p.Method(dockerlogPkg, "streamIter", "Next")
	o := r.Ob("PV-PAIR", "dockerlog.(*streamIter).Next origin", "every record a stream iterator fills is stamped with the resource (container labels) the iterator was created for, whatever the record held before")
	if pl == nil || nx == nil || len(pl.Params) != 2 || len(nx.Params) != 2 {
		o.Fail("-", "ParseLog / streamIter.Next not found")
		return
	}
	bad := false
	// ParseLog: resource field := resource parameter
	kept := false
	for _, ret := range returnsOf(pl) {
		for _, lv := range phiLeaves(ret.Results[0]) {
			if al, ok := stripTypeOnly(lv).(*ssa.Alloc); ok {
				if v, ok := allocFieldStores(al)["resource"]; ok && unspill(v) == ssa.Value(pl.Params[1]) {
					kept = true
				}
			}
		}
	}
	if !kept {
		bad = true
		o.Fail(r.pos(pl.Pos()), "ParseLog does not keep its resource argument in the iterator")
	}
	// Next: every value that reaches the record's ResourceAttrs is i.resource, and one is written on every path
	recv, rec := nx.Params[0], nx.Params[1]
	isRes := func(v ssa.Value) bool {
		f, base, ok := loadOfField(unspill(v))
		return ok && f == "resource" && (base == ssa.Value(recv) || originValueIn(base, funcGroup(nx)) == ssa.Value(recv))
	}
	var writes []*ssa.Store
	for _, gf := range funcGroup(nx) {
		allInstrs(gf, func(in ssa.Instruction) {
			st, ok := in.(*ssa.Store)
			if !ok {
				return
			}
			f, base, ok := fieldNameOf(st.Addr)
			if !ok || f != "ResourceAttrs" {
				return
			}
			// the record parameter itself (possibly seen from a helper), or a Record literal that is then assigned to *r
			toRecord := base == ssa.Value(rec) || originValueIn(base, funcGroup(nx)) == ssa.Value(rec)
			if al, ok := base.(*ssa.Alloc); ok && typeKey(al.Type()) == "Record" {
				for _, ref := range *al.Referrers() {
					if ld, ok := ref.(*ssa.UnOp); ok {
						for _, r2 := range *ld.Referrers() {
							if s2, ok := r2.(*ssa.Store); ok && (s2.Addr == ssa.Value(rec) || originValueIn(s2.Addr, funcGroup(nx)) == ssa.Value(rec)) {
								toRecord = true
							}
						}
					}
				}
			}
			if !toRecord {
				return
			}
			writes = append(writes, st)
			if !isRes(st.Val) {
				bad = true
				o.Fail(r.pos(st.Pos()), "the record's ResourceAttrs is set to %s, not to the iterator's own resource: a record reused from another container keeps that container's labels", describe(st.Val, 0))
			}
		})
	}
	must := false
	for _, st := range writes {
		lifted := liftInstr(st, nx, funcGroup(nx), true)
		if lifted == nil {
			continue
		}
		// every exit that can report a record (anything but a constant `false`) is past the write
		all := true
		for _, ret := range returnsOf(nx) {
			for _, lp := range phiLeavesWithPred(ret.Results[0], ret.Block()) {
				if isConstBool(lp.V, false) {
					continue
				}
				if lp.Pred != nil {
					if !lifted.Block().Dominates(lp.Pred) {
						all = false
					}
				} else if !instrDominates(lifted, ret) {
					all = false
				}
			}
		}
		if all {
			must = true
		}
	}
	if !must {
		bad = true
		o.Fail(r.pos(nx.Pos()), "Next can report a record on a path that does not write the record's ResourceAttrs (%d write(s) found)", len(writes))
	}
	if !bad {
		o.OK("ParseLog keeps resource; Next writes ResourceAttrs = i.resource on every path").At(r.pos(nx.Pos()))
	}
}

// ruleOpenLogContext: the log streams opened for several containers outlive SelectLogs (they are
// read by the merge iterator afterwards), so they must be opened with the caller's context, not with
// a context that is cancelled when the opening goroutines have finished (errgroup.WithContext).
func ruleOpenLogContext(r *Run) {
	p := r.P
	dl := modPath + "/" + dockerlogPkg
	sl := p.Method(dockerlogPkg, "Querier", "SelectLogs")
	o := r.Ob("PV-ROLE", "dockerlog.(*Querier).SelectLogs openLog context", "every container's log stream is opened with the query's own context (a stream opened with a derived, already-cancelled context delivers no records)")
	if sl == nil || len(sl.Params) < 2 {
		o.Fail("-", "method not found")
		return
	}
	grp := funcGroup(sl)
	n, bad := 0, false
	for _, gf := range grp {
		for _, c := range callsIn(gf) {
			if !callIs(c, dl, "(*Querier).openLog") {
				continue
			}
			n++
			if originValueIn(c.Common().Args[1], grp) != ssa.Value(sl.Params[1]) {
				bad = true
				o.Fail(r.pos(c.Pos()), "openLog is given the context %s, not SelectLogs' own ctx parameter", describe(originValueIn(c.Common().Args[1], grp), 1))
			}
		}
	}
	if n == 0 {
		bad = true
		o.Fail(r.pos(sl.Pos()), "no openLog call found")
	}
	if !bad {
		o.OK("%d openLog call(s) use the query context", n).At(r.pos(sl.Pos()))
	}
}

// predicateOf resolves a function value used as a predicate: a closure, a function, or a method
// value (x.m), for which the method itself and the bound receiver are returned.
func predicateOf(v ssa.Value) (*ssa.Function, ssa.Value) {
	switch x := v.(type) {
	case *ssa.Function:
		return x, nil
	case *ssa.MakeClosure:
		f, _ := x.Fn.(*ssa.Function)
		if f == nil {
			return nil, nil
		}
		if f.Synthetic != "" && len(x.Bindings) == 1 {
			// bound method wrapper: calls the method on its free variable
			for _, c := range callsIn(f) {
				if callee := staticCallee(c); callee != nil && callee.Blocks != nil {
					return callee, x.Bindings[0]
				}
			}
		}
		return f, nil
	}
	return nil, nil
}

func addrOfLoad(v ssa.Value) ssa.Value {
	if u, ok := v.(*ssa.UnOp); ok && u.Op == token.MUL {
		return u.X
	}
	return v
}

// structFieldOrigin resolves a value to the call of pkg.name it was computed by, looking through
// single-store locals, fields of struct values and same-package constructor helpers that build such
// structs (c := newContainer(ctr); c.labels -> labelsOf(ctr) inside newContainer, with the helper's
// parameters replaced by the arguments). It returns that call and its first argument as seen by the caller.
func structFieldOrigin(v ssa.Value, pkg, name string, subst map[ssa.Value]ssa.Value, depth int) (*ssa.Call, ssa.Value) {
	if v == nil || depth > 4 {
		return nil, nil
	}
	v = unspill(v)
	if s, ok := subst[v]; ok {
		return structFieldOrigin(s, pkg, name, nil, depth+1)
	}
	switch x := v.(type) {
	case *ssa.Call:
		if callIs(x, pkg, name) && len(x.Call.Args) > 0 {
			arg := unspill(x.Call.Args[0])
			if s, ok := subst[arg]; ok {
				arg = s
			}
			return x, arg
		}
	case *ssa.Field:
		return structFieldOfValue(x.X, x.Field, pkg, name, subst, depth)
	case *ssa.UnOp:
		if x.Op == token.MUL {
			if fa, ok := x.X.(*ssa.FieldAddr); ok {
				if al, ok := fa.X.(*ssa.Alloc); ok {
					// a field written directly into the local struct
					for _, st := range storesTo(fa) {
						if c, a := structFieldOrigin(st.Val, pkg, name, subst, depth+1); c != nil {
							return c, a
						}
					}
					// or the whole struct assigned from somewhere
					for _, st := range storesTo(al) {
						if c, a := structFieldOfValue(st.Val, fa.Field, pkg, name, subst, depth); c != nil {
							return c, a
						}
					}
				}
			}
		}
	}
	return nil, nil
}

// structFieldOfValue: field #idx of a struct value that is the result of a same-package helper (or a
// load of a composite literal).
func structFieldOfValue(sv ssa.Value, idx int, pkg, name string, subst map[ssa.Value]ssa.Value, depth int) (*ssa.Call, ssa.Value) {
	sv = unspill(sv)
	switch y := sv.(type) {
	case *ssa.UnOp:
		if al, ok := y.X.(*ssa.Alloc); ok && y.Op == token.MUL {
			for _, ref := range *al.Referrers() {
				if fa, ok := ref.(*ssa.FieldAddr); ok && fa.Field == idx {
					for _, st := range storesTo(fa) {
						if c, a := structFieldOrigin(st.Val, pkg, name, subst, depth+1); c != nil {
							return c, a
						}
					}
				}
			}
		}
	case *ssa.Call:
		h := staticCallee(y)
		if h == nil || h.Blocks == nil || y.Parent() == nil || h.Pkg != y.Parent().Pkg {
			return nil, nil
		}
		ns := map[ssa.Value]ssa.Value{}
		for i, prm := range h.Params {
			if i < len(y.Call.Args) {
				a := unspill(y.Call.Args[i])
				if s, ok := subst[a]; ok {
					a = s
				}
				ns[prm] = a
			}
		}
		for _, ret := range returnsOf(h) {
			if len(ret.Results) == 0 {
				continue
			}
			if c, a := structFieldOfValue(ret.Results[0], idx, pkg, name, ns, depth+1); c != nil {
				return c, a
			}
		}
	}
	return nil, nil
}
