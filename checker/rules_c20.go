package main

import (
	"golang.org/x/tools/go/ssa"
)

const otelPkg = "internal/otelstorage"

// ruleSetErrorFirstWins (PV-FIRST): the first error of a line is kept.
func ruleSetErrorFirstWins(r *Run) {
	p := r.P
	fn := p.Method(enginePkg, "LabelSet", "SetError")
	o := r.Ob("PV-FIRST", "logqlengine.(*LabelSet).SetError", "__error__ and __error_details__ are written only when no __error__ is present yet and the error is non-nil")
	if fn == nil {
		o.Fail("-", "method not found")
		return
	}
	var lk *ssa.Lookup
	allInstrs(fn, func(in ssa.Instruction) {
		if l, ok := in.(*ssa.Lookup); ok && l.CommaOk {
			if s, ok := constStr(stripConv(l.Index)); ok && s == "__error__" {
				lk = l
			}
		}
	})
	if lk == nil {
		o.Fail(r.pos(fn.Pos()), "no presence test of the __error__ label")
		return
	}
	var okv ssa.Value
	for _, ref := range *lk.Referrers() {
		if e, ok := ref.(*ssa.Extract); ok && e.Index == 1 {
			okv = e
		}
	}
	bad := false
	n := 0
	keys := map[string]bool{}
	allInstrs(fn, func(in ssa.Instruction) {
		mu, ok := in.(*ssa.MapUpdate)
		if !ok {
			return
		}
		n++
		if b, known := knownBoolAt(mu.Block(), okv); !known || b {
			bad = true
			o.Fail(r.pos(mu.Pos()), "an error label is overwritten although __error__ is already set")
		}
		nonNil := false
		for _, f := range factsAt(mu.Block()) {
			if x, nn, ok := nilCheck(f.Cond); ok && x == ssa.Value(fn.Params[2]) && nn == f.Truth {
				nonNil = true
			}
		}
		if !nonNil {
			bad = true
			o.Fail(r.pos(mu.Pos()), "an error label is written without checking err != nil")
		}
		if s, ok := constStr(stripConv(mu.Key)); ok {
			keys[s] = true
		}
	})
	if !keys["__error__"] || !keys["__error_details__"] {
		bad = true
		o.Fail(r.pos(fn.Pos()), "SetError does not write both __error__ and __error_details__")
	}
	if !bad {
		o.OK("%d stores, on the miss edge under err != nil", n).At(r.pos(fn.Pos()))
	}
}

// ruleSanitiserSites (PV-API): every external key that becomes a label goes through KeyToLabel.
func ruleSanitiserSites(r *Run) {
	p := r.P
	otel := modPath + "/" + otelPkg
	isSanitised := func(v ssa.Value, key ssa.Value) bool {
		v = stripConv(v)
		c, ok := v.(*ssa.Call)
		if !ok || !callIs(c, otel, "KeyToLabel") {
			return false
		}
		return key == nil || stripConv(c.Call.Args[0]) == key
	}
	// getLabels: range ctr.Labels -> labels[KeyToLabel(label)] = value
	{
		fn := p.Func(dockerlogPkg, "getLabels")
		o := r.Ob("PV-API", "dockerlog.getLabels docker labels", "every Docker label is stored under KeyToLabel(its key) with its own value, after the fixed container_* labels")
		if fn == nil {
			o.Fail("-", "function not found")
		} else {
			var nx *ssa.Next
			allInstrs(fn, func(in ssa.Instruction) {
				if n, ok := in.(*ssa.Next); ok {
					nx = n
				}
			})
			if nx == nil {
				o.Fail(r.pos(fn.Pos()), "no range over ctr.Labels")
			} else {
				rng := nx.Iter.(*ssa.Range)
				if f, base, ok := loadOfField(rng.X); !ok || f != "Labels" || spillParam(base) != ssa.Value(fn.Params[0]) {
					o.Fail(r.pos(rng.Pos()), "the loop ranges over %s, not ctr.Labels", describe(rng.X, 0))
				} else {
					var k, v ssa.Value
					for _, ref := range *nx.Referrers() {
						if e, ok := ref.(*ssa.Extract); ok {
							switch e.Index {
							case 1:
								k = e
							case 2:
								v = e
							}
						}
					}
					loop := naturalLoop(nx.Block())
					n := 0
					bad := false
					var dockerStore *ssa.MapUpdate
					for b := range loop {
						for _, in := range b.Instrs {
							if mu, ok := in.(*ssa.MapUpdate); ok {
								n++
								dockerStore = mu
								if !isSanitised(mu.Key, k) {
									bad = true
									o.Fail(r.pos(mu.Pos()), "a Docker label is stored under %s, not KeyToLabel(key)", describe(mu.Key, 0))
								}
								if mu.Value != v {
									bad = true
									o.Fail(r.pos(mu.Pos()), "a Docker label is stored with value %s, not its own value", describe(mu.Value, 0))
								}
							}
						}
					}
					if n != 1 {
						bad = true
						o.Fail(r.pos(fn.Pos()), "expected one store per Docker label, found %d", n)
					}
					// the fixed labels are written before the loop (Docker labels win on collision, as documented by the selector example)
					if dockerStore != nil {
						allInstrs(fn, func(in ssa.Instruction) {
							mu, ok := in.(*ssa.MapUpdate)
							if !ok || loop[mu.Block()] {
								return
							}
							if mu.Map == dockerStore.Map || describe(mu.Map, 0) == describe(dockerStore.Map, 0) {
								if blockReaches(nx.Block(), mu.Block()) && mu.Block() != nx.Block() {
									bad = true
									o.Fail(r.pos(mu.Pos()), "a fixed container label is written after the Docker labels and overwrites a Docker label of the same sanitised name: {sanitised(k)=\"v\"} would no longer select the container")
								}
							} else {
								bad = true
								o.Fail(r.pos(mu.Pos()), "fixed and Docker labels are written to different maps; which one wins on a name collision is not decided here")
							}
						})
					}
					if !bad {
						o.OK("labels[KeyToLabel(k)] = v for every Docker label, after the fixed labels").At(r.pos(fn.Pos()))
					}
				}
			}
		}
	}
	// LabelSet.SetAttrs callback and json extractAll
	for _, s := range []struct {
		rel, recv, fn, desc string
	}{{enginePkg, "*LabelSet", "SetAttrs", "record attribute"}, {enginePkg, "", "extractAll", "JSON"}} {
		fn := resolveFn(p, s.rel, s.recv, s.fn)
		o := r.Ob("PV-API", "logqlengine."+s.fn+" keys", "every "+s.desc+" key becomes a label only through KeyToLabel, unconditionally")
		if fn == nil || len(fn.AnonFuncs) == 0 {
			o.Fail("-", "function/closure not found")
			continue
		}
		cl := fn.AnonFuncs[0]
		var keyParam ssa.Value
		for _, prm := range cl.Params {
			if isStringType(prm.Type()) {
				keyParam = prm
			}
		}
		bad := false
		n := 0
		for _, c := range callsIn(cl) {
			if !callIs(c, modPath+"/"+enginePkg, "(*LabelSet).Set") {
				continue
			}
			n++
			lbl := c.Common().Args[1]
			ok := false
			for _, lv := range phiLeaves(stripConv(lbl)) {
				if isSanitised(lv, nil) {
					kc := stripConv(lv).(*ssa.Call)
					if unspill(stripConv(kc.Call.Args[0])) == keyParam || stripConv(kc.Call.Args[0]) == keyParam {
						ok = true
						continue
					}
				}
				ok = false
				break
			}
			if !ok {
				bad = true
				o.Fail(r.pos(c.Pos()), "a label is set under %s: on some path the key does not pass through KeyToLabel", describe(lbl, 0))
			}
		}
		if n == 0 {
			bad = true
			o.Fail(r.pos(cl.Pos()), "no Set call found")
		}
		if !bad {
			o.OK("Set(Label(KeyToLabel(key)), value)").At(r.pos(cl.Pos()))
		}
	}
}
